#!/venv/bin/python
"""vcheck.py <ID> [--tier quick|thorough] [--replay FILE] [--clause NAME] [--jobs N]

Decides one listed property (C01..C20) of brandondube/prysm by generated-input search against an
explicit oracle.  Exit 0: held on everything explored (KNOWN-FINDING lines possible);
exit 1: `VIOLATION property=<id> replay=<path>`; exit 2: harness error / inconclusive.
"""
import argparse
import glob
import importlib
import json
import multiprocessing as mp
import os
import sys
import time

HERE = os.path.dirname(os.path.abspath(__file__))
os.environ.setdefault('PYTHONHASHSEED', '0')
os.environ.setdefault('OMP_NUM_THREADS', '1')
os.environ.setdefault('OPENBLAS_NUM_THREADS', '1')
os.environ.setdefault('MKL_NUM_THREADS', '1')
REPO = os.environ.get('PRYSM_REPO', '/repo')
sys.path.insert(0, HERE)
sys.path.insert(0, REPO)   # always the current working tree of the repository

import warnings  # noqa
warnings.simplefilter('ignore')

from vlib import core  # noqa

LEVELS = {'C14': 'fault_enumeration'}


def load(prop):
    mod = importlib.import_module('props.' + prop.lower())
    names = [c.name for c in mod.CLAUSES]
    assert len(set(names)) == len(names), 'duplicate clause names'
    return mod


def _cover_start():
    """VCHECK_COVER=<dir>: measuring aid (tools/cover.py) - record which lines of the repository's package each worker executed.
    Uses sys.monitoring (each line reports once, then disables itself), so it does not change what is executed."""
    d = os.environ.get('VCHECK_COVER')
    if not d:
        return None
    mon = sys.monitoring
    hit = {}
    root = os.path.realpath(os.path.join(REPO, 'prysm')) + os.sep

    def on_line(code, line):
        f = code.co_filename
        if f.startswith(root) or os.path.realpath(f).startswith(root):
            hit.setdefault(f, set()).add(line)
        return mon.DISABLE
    try:
        mon.use_tool_id(mon.COVERAGE_ID, 'vcheck-cover')
    except ValueError:
        pass
    mon.register_callback(mon.COVERAGE_ID, mon.events.LINE, on_line)
    mon.set_events(mon.COVERAGE_ID, mon.events.LINE)
    return d, hit


def _cover_stop(state, tag):
    if not state:
        return
    d, hit = state
    sys.monitoring.set_events(sys.monitoring.COVERAGE_ID, 0)
    os.makedirs(d, exist_ok=True)
    with open(os.path.join(d, '%s-%d.json' % (tag, os.getpid())), 'w') as fh:
        json.dump({os.path.realpath(f): sorted(v) for f, v in hit.items()}, fh)


def _task(args):
    prop, cname, tier, seed, shard, nshards = args
    import warnings
    warnings.simplefilter('ignore')
    cov = _cover_start()
    mod = load(prop)
    clause = next(c for c in mod.CLAUSES if c.name == cname)
    try:
        return cname, shard, core.run_task(prop, clause, tier, seed, shard, nshards)
    finally:
        _cover_stop(cov, '%s-%s-%d' % (prop, cname, shard))


def run_replay_file(mod, path):
    """returns (clause_name, violation or None)"""
    with open(path) as fh:
        rep = json.load(fh)
    clause = next((c for c in mod.CLAUSES if c.name == rep['clause']), None)
    if clause is None:
        raise core.HarnessError('replay %s names unknown clause %s' % (path, rep['clause']))
    ctx, v, excl = clause.run_case(rep['case'])
    return rep, v


def _replay_worker(args):
    prop, path = args
    import warnings
    warnings.simplefilter('ignore')
    mod = load(prop)
    try:
        rep, v = run_replay_file(mod, path)
        return path, rep.get('bucket'), (None if v is None else (v.bucket, v.msg)), None
    except Exception as e:  # noqa
        import traceback
        return path, None, None, traceback.format_exc()


def main(argv=None):
    ap = argparse.ArgumentParser()
    ap.add_argument('prop')
    ap.add_argument('--tier', default=os.environ.get('VERIF_TIER', 'quick'), choices=core.TIERS)
    ap.add_argument('--replay')
    ap.add_argument('--clause', action='append')
    ap.add_argument('--jobs', type=int, default=int(os.environ.get('VERIF_JOBS', '16')))
    ap.add_argument('--no-evidence', action='store_true')
    a = ap.parse_args(argv)
    prop = a.prop.upper()
    try:
        seed = int(os.environ.get('VERIF_SEED', '1'))
    except ValueError:
        seed = 1
    t0 = time.time()
    try:
        mod = load(prop)
    except Exception:  # noqa
        import traceback
        traceback.print_exc()
        print('HARNESS-ERROR property=%s cannot import props or prysm' % prop)
        return 2

    ctx = mp.get_context('fork')

    # ---- single replay -----------------------------------------------------------------------
    if a.replay:
        with ctx.Pool(1, maxtasksperchild=1) as pool:
            path, bucket, v, err = pool.apply(_replay_worker, ((prop, a.replay),))
        if err:
            print(err)
            print('HARNESS-ERROR property=%s replay failed to run' % prop)
            return 2
        if v is not None:
            print('replay fails: bucket=%s %s' % v)
            print('VIOLATION property=%s replay=%s' % (prop, a.replay))
            return 1
        print('replay passes: %s' % a.replay)
        return 0

    violations = []   # (clause, replay path, bucket, msg)
    known_lines = []
    errors = []

    # ---- tier 0: regression replays and known-finding replays ---------------------------------
    reg = sorted(glob.glob(os.path.join(HERE, 'replays', 'regression', prop + '-*.json')))
    known = [e for e in core.load_known(prop) if e.get('status') == 'open']
    kn_paths = [os.path.join(HERE, e['replay']) for e in known if e.get('replay')]
    n_replayed = 0
    if reg or kn_paths:
        with ctx.Pool(min(a.jobs, len(reg) + len(kn_paths)), maxtasksperchild=1) as pool:
            res = pool.map(_replay_worker, [(prop, p) for p in reg + kn_paths], chunksize=1)
        bypath = {r[0]: r for r in res}
        for p in reg:
            _, bucket, v, err = bypath[p]
            n_replayed += 1
            if err:
                errors.append('regression replay %s: %s' % (p, err))
            elif v is not None:
                violations.append(('regression', os.path.relpath(p, HERE), v[0], v[1]))
        for e in known:
            line = 'KNOWN-FINDING: property=%s %s' % (prop, e['description'])
            if e.get('replay'):
                _, bucket, v, err = bypath[os.path.join(HERE, e['replay'])]
                n_replayed += 1
                if err:
                    errors.append('known replay %s: %s' % (e['replay'], err))
                    continue
                if v is None:
                    print('NOTE: known finding no longer reproduces from its replay (stale entry?): %s' % e['replay'])
                    continue
                if v[0] != e['bucket']:
                    # the stored input now fails differently: that is not the listed finding
                    violations.append((e['clause'], e['replay'], v[0], v[1]))
                    continue
            known_lines.append(line)
    else:
        for e in known:
            known_lines.append('KNOWN-FINDING: property=%s %s' % (prop, e['description']))

    # ---- generated search ----------------------------------------------------------------------
    clauses = [c for c in mod.CLAUSES if not a.clause or c.name in a.clause]
    tasks = []
    for c in clauses:
        ns = c.shards[a.tier]
        for s in range(ns):
            tasks.append((prop, c.name, a.tier, seed, s, ns))
    # long tasks first
    agg = {c.name: {'evaluations': 0, 'nontrivial': set(), 'labels': {}, 'excluded': {}, 'known_hits': {},
                    'samples': [], 'violation': None, 'wall': 0.0, 'exhaustive': None, 'kind': c.kind,
                    'doc': c.doc} for c in clauses}
    if tasks:
        with ctx.Pool(min(a.jobs, len(tasks)), maxtasksperchild=1) as pool:
            for cname, shard, r in pool.imap_unordered(_task, tasks, chunksize=1):
                g = agg[cname]
                g['evaluations'] += r['evaluations']
                g['nontrivial'] |= r['nontrivial']
                for key in ('labels', 'excluded', 'known_hits'):
                    for k, v in r[key].items():
                        g[key][k] = g[key].get(k, 0) + v
                if len(g['samples']) < 4:
                    g['samples'].extend(r['samples'][:2])
                g['wall'] = max(g['wall'], r['wall'])
                g['max_approach'] = max(g.get('max_approach', 0.0), r.get('max_approach', 0.0))
                g['cut_short'] = g.get('cut_short', False) or bool(r.get('cut_short'))
                if r['exhaustive'] is not None:
                    g['exhaustive'] = r['exhaustive'] if g['exhaustive'] is None else (g['exhaustive'] and r['exhaustive'])
                if r['error']:
                    errors.append(r['error'])
                if r['violation'] and (g['violation'] is None or
                                       len(core.canon(r['violation']['case'])) < len(core.canon(g['violation']['case']))):
                    g['violation'] = r['violation']

    os.makedirs(os.path.join(HERE, 'replays', 'found'), exist_ok=True)
    for cname, g in agg.items():
        v = g['violation']
        if v:
            h = '%016x' % core.fingerprint(v['case'])
            rel = os.path.join('replays', 'found', '%s-%s-%s.json' % (prop, cname, h[:8]))
            with open(os.path.join(HERE, rel), 'w') as fh:
                json.dump({'property': prop, 'clause': cname, 'bucket': v['bucket'], 'message': v['msg'],
                           'seed': seed, 'tier': a.tier, 'case': v['case']}, fh, indent=1, sort_keys=True)
            violations.append((cname, rel, v['bucket'], v['msg']))

    wall = time.time() - t0
    # ---- evidence ------------------------------------------------------------------------------
    total_eval = sum(g['evaluations'] for g in agg.values()) + n_replayed
    total_nt = sum(len(g['nontrivial']) for g in agg.values())
    per_clause = {}
    samples = []
    for cname, g in agg.items():
        per_clause[cname] = {
            'kind': g['kind'], 'what': g['doc'], 'evaluations': g['evaluations'],
            'distinct_nontrivial': len(g['nontrivial']), 'labels': dict(sorted(g['labels'].items())),
            'excluded_by_construction': g['excluded'], 'known_hits': g['known_hits'],
            'exhaustive': bool(g['exhaustive']) if g['kind'] == 'enumerate' else False,
            'wall_s': round(g['wall'], 2),
            # largest (error / tolerance) over the tolerance comparisons that passed: how much head-room the stated tolerances had on what was explored
            'closest_approach_to_a_tolerance': round(g.get('max_approach', 0.0), 6),
            'search_cut_short_by_time_budget': bool(g.get('cut_short', False)),
        }
        for s in g['samples'][:2]:
            samples.append({'clause': cname, 'case': _trim(s)})
    if not a.no_evidence and not a.clause:
        ev = {
            'property_id': prop, 'tier': a.tier, 'seed': seed, 'level': LEVELS.get(prop, 'exploration'),
            'coverage': {
                'evaluations': int(total_eval), 'distinct_nontrivial': int(total_nt),
                'rule': getattr(mod, 'RULE', ''), 'samples': samples,
                'exhaustive': bool(agg) and all(g['exhaustive'] for g in agg.values() if g['kind'] == 'enumerate')
                and any(g['kind'] == 'enumerate' for g in agg.values()) and all(g['kind'] == 'enumerate' for g in agg.values()),
                'clauses': per_clause, 'regression_and_known_replays_run': n_replayed,
                'known_findings_open': [e['bucket'] for e in known],
            },
            'assumptions': list(getattr(mod, 'ASSUMPTIONS', [])),
            'wall_s': round(wall, 2), 'violations': len(violations),
        }
        os.makedirs(os.path.join(HERE, 'evidence'), exist_ok=True)
        tmp = os.path.join(HERE, 'evidence', prop + '.json.tmp')
        with open(tmp, 'w') as fh:
            json.dump(ev, fh, indent=1, sort_keys=True)
        os.replace(tmp, os.path.join(HERE, 'evidence', prop + '.json'))

    # ---- report --------------------------------------------------------------------------------
    for cname, g in agg.items():
        print('%-28s %-10s eval=%-7d nontrivial=%-7d known_hits=%s wall=%.1fs%s' % (
            cname, g['kind'], g['evaluations'], len(g['nontrivial']), sum(g['known_hits'].values()), g['wall'],
            ' EXHAUSTIVE' if g['exhaustive'] else ''))
    for cname, g in agg.items():
        if g.get('cut_short'):
            print('NOTE: clause %s: a shard reached its search time budget; the search stopped there (evaluations above are what was explored)' % cname)
    for line in known_lines:
        print(line)
    if errors:
        for e in errors:
            print(e)
        print('HARNESS-ERROR property=%s (%d errors); result inconclusive' % (prop, len(errors)))
        return 2
    if violations:
        for cname, rel, bucket, msg in violations:
            print('  clause=%s bucket=%s :: %s' % (cname, bucket, msg[:500]))
            print('VIOLATION property=%s replay=%s' % (prop, rel))
        return 1
    print('OK property=%s tier=%s seed=%d evaluations=%d distinct_nontrivial=%d wall=%.1fs' % (
        prop, a.tier, seed, total_eval, total_nt, wall))
    return 0


def _trim(x, n=40):
    """keep samples readable: long lists are cut (the count is kept)."""
    if isinstance(x, dict):
        return {k: _trim(v, n) for k, v in x.items()}
    if isinstance(x, list):
        if len(x) > n:
            return [_trim(v, n) for v in x[:n]] + ['... (%d items)' % len(x)]
        return [_trim(v, n) for v in x]
    return x


if __name__ == '__main__':
    sys.exit(main())
