import numpy as np
from prysm.propagation import Wavefront
from prysm.coordinates import make_xy_grid
wvl=0.6; efl=200.
for shp in [(32,32),(33,33),(32,48),(33,40)]:
    dxp=0.25
    x,y=make_xy_grid(shp,dx=dxp)
    Dx=shp[1]*dxp; Dy=shp[0]*dxp
    for (kx,ky) in [(3,0),(0,-2),(2.5,1.5)]:
        # k waves of tilt across width D: phase = 2pi*k*x/D
        E=np.exp(2j*np.pi*(kx*x/Dx+ky*y/Dy))
        wf=Wavefront(E,wvl,dxp)
        psf=wf.focus(efl,Q=4)
        I=psf.intensity
        iy,ix=np.unravel_index(np.argmax(I.data),I.data.shape)
        # parabolic centroid approx: use centroid of small window
        print(shp,(kx,ky),'FFT dx',round(psf.dx,4),'peak at x,y um',round(float(I.x[iy,ix]),2),round(float(I.y[iy,ix]),2),'expected',kx*wvl*efl/Dx, ky*wvl*efl/Dy, end=' | ')
        for method in ('mdft','czt'):
            try:
                p2=wf.focus_fixed_sampling(efl,1.7,(64,64),method=method); I2=p2.intensity
                iy,ix=np.unravel_index(np.argmax(I2.data),I2.data.shape)
                print(method,round(float(I2.x[iy,ix]),2),round(float(I2.y[iy,ix]),2),end=' ')
                p3=wf.focus_fixed_sampling(efl,1.7,(64,64),shift=(17.,-8.5),method=method); I3=p3.intensity
                iy3,ix3=np.unravel_index(np.argmax(I3.data),I3.data.shape)
                print('shifted by samples',ix3-ix,iy3-iy,'(req 10,-5)',end=' ')
            except Exception as e: print(method,'raise',repr(e)[:50],end=' ')
        print()
