import numpy as np, types
from prysm import polynomials as P, mathops
x=np.linspace(-.9,.9,7); h=1e-30
for n in (0,1,5,12):
    cs=P.jacobi(n,1.3,-.4,x+1j*h).imag/h; print('jacobi cstep',n,abs(cs-P.jacobi_der(n,1.3,-.4,x)).max())
    cs=P.hermite_H(n,x+1j*h).imag/h; print('  H',abs(cs-P.hermite_H_der(n,x)).max())
    cs=P.cheby3(n,x+1j*h).imag/h; print('  c3',abs(cs-P.cheby3_der(n,x)).max())
    u=np.linspace(.1,.9,7); cs=P.Qbfs(n,u+1j*h).imag/h
    c=np.zeros(n+1);c[n]=1; print('  qbfs',abs(cs-P.qpoly.compute_z_zprime_Qbfs(c,u,u*u)[1]).max() if n>0 else 'skip')
r=np.linspace(.1,.9,7); t=np.linspace(0,6,7)
dr,dt=P.zernike_nm_der(5,-3,r,t); print('zern dr',abs(P.zernike_nm(5,-3,r+1j*h,t).imag/h-dr).max(),'dt',abs(P.zernike_nm(5,-3,r+0j,t+1j*h).imag/h-dt).max())
print('q2d', abs(P.Q2d(3,2,r+1j*h,t).imag/h).max())
# RNG proxy through shim
class FakeRandom:
    def poisson(self, lam, size=None): return np.broadcast_to(lam, size).astype(float).copy()
    def normal(self, loc, scale, size=None): return np.zeros(size)
class Proxy:
    def __init__(self, src): self._src=src; self.random=FakeRandom()
    def __getattr__(self,k): return getattr(self._src,k)
from prysm.detector import Detector
old=mathops.np._srcmodule
mathops.np._srcmodule=Proxy(old)
try:
    det=Detector(5.,3.,10.,1000.,2.,8,0.5)
    print(det.expose(np.array([[0,10,100,1e3,1e5]])))
finally:
    mathops.np._srcmodule=old
# to_fpm_and_back identity
from prysm.propagation import Wavefront
rng=np.random.default_rng(0)
for shp in [(8,8),(9,9),(8,10)]:
  for method in ('mdft','czt'):
    for shift in [(0,0),(3.,-6.)]:
        f=rng.standard_normal(shp)+1j*rng.standard_normal(shp)
        wvl=.5; efl=100.; dx=.25
        # full band: fpm_dx = lambda f/(N dx) /Qf ; choose Q=2 -> samples 2N
        fdx=wvl*efl/(shp[0]*dx)/2
        fs=(2*shp[0],2*shp[1]) if shp[0]==shp[1] else (2*shp[0],2*shp[0])
        wf=Wavefront(f,wvl,dx)
        try:
            out=wf.to_fpm_and_back(efl,np.ones(fs),fdx,method=method,shift=shift).data
            print(shp,method,shift,'identity err',abs(out-f).max())
        except Exception as e: print(shp,method,shift,'raise',repr(e)[:60])
