import numpy as np, warnings, collections
warnings.simplefilter('ignore')
from prysm.interferogram import Interferogram, fit_plane, fit_sphere
from prysm.polynomials import lstsq
rng=np.random.default_rng(0)
fails=collections.Counter(); examples={}
def rec(k,ex):
    fails[k]+=1; examples.setdefault(k,ex)
def check(i,hist,valid_model):
    d=i.data
    for nm in 'xyrt':
        a=getattr(i,nm)
        if a.shape!=d.shape: rec('shape:'+nm,list(hist)); return False
    x,y=i.x,i.y
    if d.shape[1]>1 and not np.allclose(np.diff(x,axis=1),i.dx,rtol=1e-9): rec('dx:x',list(hist))
    if d.shape[0]>1 and not np.allclose(np.diff(y,axis=0),i.dx,rtol=1e-9): rec('dx:y',list(hist))
    if not np.allclose(i.r,np.hypot(x,y)): rec('polar:r',list(hist))
    if not np.allclose(i.t,np.arctan2(y,x)): rec('polar:t',list(hist))
    v=np.isfinite(d)
    if valid_model is not None and (v.shape!=valid_model.shape or not np.array_equal(v,valid_model)): rec('validity',list(hist))
    if v.any():
        dd=d[v]
        if not np.isclose(i.rms**2,i.std**2+dd.mean()**2): rec('stat:rms',list(hist))
        if not (i.Sa<=i.std*(1+1e-12) and i.std<=i.pv*(1+1e-12)+1e-300): rec('stat:order',list(hist))
    return True
for trial in range(400):
    shp=(int(rng.integers(6,20)),int(rng.integers(6,20)))
    z=rng.standard_normal(shp)*10+rng.uniform(-50,50)
    pat=rng.integers(0,4)
    if pat==1:
        yy,xx=np.mgrid[:shp[0],:shp[1]]; z[np.hypot(yy-shp[0]/2,xx-shp[1]/2)>min(shp)/2.2]=np.nan
    elif pat==2:
        z[:rng.integers(0,3)]=np.nan; z[:,-rng.integers(1,3):]=np.nan
    elif pat==3:
        z[rng.uniform(size=shp)<.1]=np.nan
    i=Interferogram(z.copy(),dx=float(rng.uniform(.1,2)))
    hist=[('init',shp,int(pat))]
    for step in range(int(rng.integers(1,12))):
        op=rng.choice(['crop','pad','mask','fill','spike','piston','tilt','power','recenter','latcal','strip','read'])
        vm=np.isfinite(i.data).copy()
        try:
            if op=='read':
                for nm in rng.choice(list('xyrt'),2): getattr(i,nm)
                exp=vm
            elif op=='crop':
                nv=vm.sum(); i.crop(); exp=None
                if np.isfinite(i.data).sum()!=nv: rec('crop:lost-valid',list(hist)+[op])
                s1=i.data.shape; i.crop()
                if i.data.shape!=s1: rec('crop:not-idempotent',list(hist)+[op])
            elif op=='pad':
                i.pad(samples=(int(rng.integers(0,4)),int(rng.integers(0,4)))); exp=None
            elif op=='mask':
                m=rng.uniform(size=i.data.shape)>.1; i.mask(m); exp=vm&m
            elif op=='fill': i.fill(0.); exp=np.ones_like(vm)
            elif op=='spike': i.spike_clip(3); exp=None
            elif op=='piston':
                i.remove_piston(); exp=vm
                if vm.any() and abs(i.data[vm].mean())>1e-9*max(1,abs(i.data[vm]).max()): rec('piston:mean',list(hist)+[op])
            elif op=='tilt':
                i.remove_tiptilt(); exp=vm
                if vm.sum()>3:
                    c=lstsq([i.x,i.y],i.data)
                    if abs(c).max()>1e-7*max(1,np.nanmax(abs(i.data))): rec('tilt:idempotent',list(hist)+[op])
            elif op=='power':
                i.remove_power(); exp=vm
            elif op=='recenter': i.recenter(); exp=vm
            elif op=='latcal': i.latcal(float(rng.uniform(.1,3))); exp=vm
            elif op=='strip': i.strip_latcal(); exp=vm
        except Exception as e:
            rec('raise:%s:%s'%(op,type(e).__name__),list(hist)+[op]); break
        hist.append(op)
        check(i,hist,exp)
for k,v in fails.most_common(): print(k,v,examples[k][-6:])
