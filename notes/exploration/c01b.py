import numpy as np, itertools
from prysm.fttools import mdft, czt, fftrange
exec(open('c01.py').read().split("rng = ")[0])
rng = np.random.default_rng(0)
good=[];badl=[]
for (m,n,M,N) in itertools.product(range(1,8), repeat=4):
    f = rng.standard_normal((m,n)) + 1j*rng.standard_normal((m,n))
    Q=1.7
    r = ref_dft(f, Q, (M,N)); c = czt.czt2(f, Q, (M,N))
    (good if abs(c-r).max()<1e-9 else badl).append((m,n,M,N))
print(len(good), len(badl))
# characterise
sq=[g for g in good]
print([g for g in good if g[0]!=g[1]][:20])
print('square-in good', [g for g in good if g[0]==g[1]][:40])
print('square-in bad', [g for g in badl if g[0]==g[1]][:40])
