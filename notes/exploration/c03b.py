import numpy as np
from prysm.propagation import Wavefront
from prysm.coordinates import make_xy_grid
from prysm.fttools import fftrange
def direct(f, dxp, wvl_um, efl_mm, xi_x_um, xi_y_um, norm):
    # f[y,x] on grid (j-n//2)*dxp [mm]; focal coords in um; lambda f in um*mm -> (um*mm); x[mm]*xi[um]/(wvl[um]*efl[mm]) dimensionless
    ny,nx=f.shape; x=fftrange(nx)*dxp; y=fftrange(ny)*dxp
    Ey=np.exp(-2j*np.pi*np.outer(xi_y_um,y)/(wvl_um*efl_mm)); Ex=np.exp(-2j*np.pi*np.outer(x,xi_x_um)/(wvl_um*efl_mm))
    return Ey@f@Ex*norm
rng=np.random.default_rng(0)
wvl=.55; efl=150.
for shp in [(8,8),(9,9),(8,12),(9,6)]:
    dxp=0.3; x,y=make_xy_grid(shp,dx=dxp)
    f=np.exp(2j*np.pi*(1.3*x/(shp[1]*dxp)-0.7*y/(shp[0]*dxp)))*(rng.uniform(.5,1,shp))
    wf=Wavefront(f,wvl,dxp)
    for Q in (1,2,3):
        p=wf.focus(efl,Q); I=p.intensity
        N=p.data.shape
        xi_x=I.x[0,:]; xi_y=I.y[:,0]
        ref=direct(f,dxp,wvl,efl,xi_x,xi_y,1/np.sqrt(N[0]*N[1]))
        ex=abs(p.data[N[0]//2,:]-ref[N[0]//2,:]).max()  # x-axis row only... but row uses xi_y=0 -> fine
        efull=abs(p.data-ref).max()
        print(shp,'FFT Q',Q,'x-row err',ex,'full err',efull)
    for method in ('mdft','czt'):
        for dxo,samples,shift in [(2.1,(7,9),(0,0)),(3.3,(6,6),(4.,-2.5))]:
            try:
                p=wf.focus_fixed_sampling(efl,dxo,samples,shift=shift,method=method)
                I=p.intensity
                best=None
                for sg in (+1,-1):
                    xi_x=fftrange(samples[1])*dxo - sg*shift[0]; xi_y=fftrange(samples[0])*dxo - sg*shift[1]
                    Qy=wvl*efl/(shp[0]*dxp)/dxo; Qx=wvl*efl/(shp[1]*dxp)/dxo
                    ref=direct(f,dxp,wvl,efl,xi_x,xi_y,1/np.sqrt(shp[0]*Qy*shp[1]*Qx))
                    e=abs(abs(p.data)-abs(ref)).max(); best=e if best is None else min(best,e)
                print(shp,method,dxo,samples,shift,'modulus err (best sign)',best)
            except Exception as e: print(shp,method,'raise',repr(e)[:60])
