import numpy as np, itertools
from prysm.fttools import mdft, czt, fftrange, pad2d, crop_center
from prysm import propagation as P

def ref_dft(f, Q, out, shift=(0,0), fwd=True):
    # textbook: F[v,u] = 1/sqrt(Na Qy Ma Qx) sum f[y,x] exp(-2pi i ( y (v - sy)/(Na Qy) + x (u-sx)/(Ma Qx)))
    Na, Ma = f.shape
    if np.isscalar(Q): Q=(Q,Q)
    if np.isscalar(out): out=(out,out)
    Y = fftrange(Na).astype(float); X = fftrange(Ma).astype(float)
    V = fftrange(out[0]).astype(float) - shift[1]; U = fftrange(out[1]).astype(float) - shift[0]
    s = -1 if fwd else 1
    Ey = np.exp(s*2j*np.pi*np.outer(V, Y)/(Na*Q[0]))
    Ex = np.exp(s*2j*np.pi*np.outer(X, U)/(Ma*Q[1]))
    return Ey @ f @ Ex / np.sqrt(Na*Q[0]*Ma*Q[1])

rng = np.random.default_rng(0)
bad = {}
for (m,n,M,N) in itertools.product(range(1,8), range(1,8), range(1,8), range(1,8)):
    f = rng.standard_normal((m,n)) + 1j*rng.standard_normal((m,n))
    for Q in (1, 1.7, (2,1.3)):
        r = ref_dft(f, Q, (M,N))
        a = mdft.dft2(f, Q, (M,N))
        c = czt.czt2(f, Q, (M,N))
        ea = abs(a-r).max(); ec = abs(c-r).max()
        ri = ref_dft(f, Q, (M,N), fwd=False)
        ai = mdft.idft2(f, Q, (M,N)); ci = czt.iczt2(f, Q, (M,N))
        eai = abs(ai-ri).max(); eci = abs(ci-ri).max()
        for name, e in (('mdft',ea),('czt',ec),('imdft',eai),('iczt',eci)):
            if e > 1e-9:
                bad.setdefault(name, []).append((m,n,M,N,Q,e))
for k,v in bad.items():
    print(k, len(v)); print(v[:10])
