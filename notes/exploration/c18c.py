import numpy as np, warnings
warnings.simplefilter('ignore')
from prysm.segmented import CompositeKeystoneAperture
from prysm.coordinates import make_xy_grid, cart_to_polar
for (spr,rot) in [([3],None),([4],None),([6],None),([8],None),([7],[340.2]),([5],[313.2]),([8],[0.]),([8],[10.]),([8],[200.])]:
    n=160; ccd=1.0; rr=[1.0]; gap=0.05; R=ccd/2+1.0+gap
    x,y=make_xy_grid(n,diameter=2*R*1.1); dx=x[0,1]-x[0,0]
    k=CompositeKeystoneAperture(x,y,ccd,1,rr,spr,gap,gap,rot)
    r,t=cart_to_polar(x,y)
    ri=ccd/2+gap; ro=ri+1.0
    ring=(r>ri)&(r<=ro)
    cnt=np.zeros(x.shape,int)
    areas=[]
    for w,m in zip(k.segment_windows,k.segment_masks): cnt[w]+=m; areas.append(m.sum()*dx*dx)
    exp=np.pi*(ro**2-ri**2)/spr[0]
    print(spr,rot,'areas/exp',np.round(np.array(areas)/exp,3),'overlap max',cnt.max(),'ring samples uncovered by segments',int((ring&(cnt==0)).sum()),'of',int(ring.sum()),'amp in ring',int((k.amp&ring).sum()))
