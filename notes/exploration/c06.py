import numpy as np
from prysm.fttools import mdft
from prysm.propagation import Wavefront
from prysm import propagation as P
from prysm.x.optym import activation as A, cost as C, operators as O
from prysm.x.dm import DM
rng = np.random.default_rng(0)
def cplx(shape): return rng.standard_normal(shape)+1j*rng.standard_normal(shape)
def ip(a,b): return np.vdot(a,b)  # <a,b> = sum conj(a) b
def adj_err(Ax, x, y, AHy):
    l = ip(y, Ax); r = ip(AHy, x)
    return abs(l-r)/max(abs(l),1e-12)
print('--- mdft adjoints')
for (shp,out,Q,shift) in [((5,5),(5,5),1,(0,0)),((4,6),(7,3),(1.3,2.1),(0,0)),((4,6),(7,3),(1.3,2.1),(0.7,-1.2)),((8,8),(5,5),2,(1,0))]:
    x=cplx(shp); y=cplx(out)
    print(shp,out,Q,shift,'dft2', adj_err(mdft.dft2(x,Q,out,shift),x,y,mdft.dft2_backprop(y,Q,shp,shift)),
          'idft2', adj_err(mdft.idft2(x,Q,out,shift),x,y,mdft.idft2_backprop(y,Q,shp,shift)))
print('--- focus_fixed_sampling adjoint via Wavefront')
for (shp,out,shift) in [((8,8),(6,6),(0,0)),((8,8),(6,6),(3.,-2.)),((6,8),(6,6),(0,0)),((8,6),(5,7),(0,0)),((8,8),(5,7),(0,0))]:
    x=cplx(shp); y=cplx(out)
    wf = Wavefront(x, .6, 0.5); efl=100; dx=2.0
    Ax = wf.focus_fixed_sampling(efl, dx, out, shift=shift).data
    wy = Wavefront(y, .6, dx, space='psf')
    try:
        AHy = wy.focus_fixed_sampling_backprop(efl, 0.5, shp, shift=shift).data
        print('focus', shp,out,shift, adj_err(Ax,x,y,AHy))
    except Exception as e: print('focus', shp,out,shift,'RAISE',e)
print('--- unfocus_fixed_sampling adjoint')
for (shp,out,shift) in [((8,8),(6,6),(0,0)),((8,8),(6,6),(.3,-.2)),((6,8),(6,6),(0,0)),((8,6),(5,7),(0,0)),((8,8),(5,7),(0,0))]:
    x=cplx(shp); y=cplx(out)
    wf = Wavefront(x, .6, 2.0, space='psf'); efl=100; dx=.5
    Ax = wf.unfocus_fixed_sampling(efl, dx, out, shift=shift).data
    try:
        AHy = P.unfocus_fixed_sampling_backprop(y, 2.0, efl, .6, dx, shp, shift=shift)
        print('unfocus(fn, samples=in shape)', shp,out,shift, adj_err(Ax,x,y,AHy), AHy.shape)
    except Exception as e: print('unfocus', shp,out,shift,'RAISE',e)
print('--- to_fpm_and_back adjoint')
for (shp,fshp,cm) in [((8,8),(8,8),False),((8,8),(8,8),True),((8,8),(6,6),False),((8,8),(12,12),True),((6,8),(6,8),False)]:
    x=cplx(shp); y=cplx(shp)
    fpm = rng.uniform(0,1,fshp) + (1j*rng.uniform(0,1,fshp) if cm else 0)
    wf = Wavefront(x,.6,.5); efl=100; fdx=3.0
    Ax = wf.to_fpm_and_back(efl, fpm, fdx).data
    wy = Wavefront(y,.6,.5)
    try:
        AHy = wy.to_fpm_and_back_backprop(efl, fpm, fdx).data
        print('fpm', shp,fshp,cm, '+', adj_err(Ax,x,y,AHy), '-', adj_err(Ax,x,y,-AHy))
    except Exception as e: print('fpm', shp,fshp,cm,'RAISE',repr(e))
print('--- babinet adjoint')
for (shp,fshp,cm,cl) in [((8,8),(8,8),False,False),((8,8),(8,8),True,False),((8,8),(8,8),False,True),((8,8),(6,6),False,False),((8,8),(8,8),False,None)]:
    x=cplx(shp); y=cplx(shp)
    fpm = rng.uniform(0,1,fshp) + (1j*rng.uniform(0,1,fshp) if cm else 0)
    lyot = None if cl is None else (rng.uniform(0,1,shp) + (1j*rng.uniform(0,1,shp) if cl else 0))
    wf = Wavefront(x,.6,.5); efl=100; fdx=3.0
    Ax = wf.babinet(efl, lyot, fpm, fdx).data
    wy = Wavefront(y,.6,.5)
    try:
        AHy = wy.babinet_backprop(efl, lyot, fpm, fdx).data
        print('babinet', shp,fshp,cm,cl, adj_err(Ax,x,y,AHy))
    except Exception as e: print('babinet', shp,fshp,cm,cl,'RAISE',repr(e))
