import numpy as np, traceback, itertools
from prysm import polynomials as P
from prysm.polynomials import qpoly
rng = np.random.default_rng(1)
fails = {}
def rec(name, what):
    fails.setdefault(name, []).append(what)
def close(a,b,tol=1e-9):
    a=np.asarray(a);b=np.asarray(b)
    if a.shape!=b.shape: return False
    return np.allclose(a,b,rtol=tol,atol=tol, equal_nan=False)
shapes = [(), (7,), (3,5), (4,4), (5,3), (2,3,4)]
ns_sets = [[0],[1],[2],[3],[5],[0,1],[0,1,2,3,4,5],[1,2,3],[2,3],[0,2,4],[1,4,9],[3,7],[0,5],[0,1,2,3],[0,1,2]]
fam1 = {  # name: (scalar f(n,x), seq f(ns,x))
 'legendre': (P.legendre, P.legendre_seq), 'legendre_der': (P.legendre_der, P.legendre_der_seq),
 'cheby1': (P.cheby1,P.cheby1_seq), 'cheby1_der': (P.cheby1_der,P.cheby1_der_seq),
 'cheby2': (P.cheby2,P.cheby2_seq), 'cheby2_der': (P.cheby2_der,P.cheby2_der_seq),
 'cheby3': (P.cheby3,P.cheby3_seq), 'cheby3_der': (P.cheby3_der,P.cheby3_der_seq),
 'cheby4': (P.cheby4,P.cheby4_seq), 'cheby4_der': (P.cheby4_der,P.cheby4_der_seq),
 'hermite_He': (P.hermite_He,P.hermite_He_seq), 'hermite_He_der': (P.hermite_He_der,P.hermite_He_der_seq),
 'hermite_H': (P.hermite_H,P.hermite_H_seq), 'hermite_H_der': (P.hermite_H_der,P.hermite_H_der_seq),
 'Qbfs': (P.Qbfs,P.Qbfs_seq), 'Qcon': (P.Qcon,P.Qcon_seq),
}
fam2 = { # with param
 'jacobi': (lambda n,x,a,b: P.jacobi(n,a,b,x), lambda ns,x,a,b: P.jacobi_seq(ns,a,b,x), 2),
 'jacobi_der': (lambda n,x,a,b: P.jacobi_der(n,a,b,x), lambda ns,x,a,b: P.jacobi_der_seq(ns,a,b,x), 2),
 'laguerre': (lambda n,x,a: P.laguerre(n,a,x), lambda ns,x,a: P.laguerre_seq(ns,a,x), 1),
 'laguerre_der': (lambda n,x,a: P.laguerre_der(n,a,x), lambda ns,x,a: P.laguerre_der_seq(ns,a,x), 1),
 'dickson1': (lambda n,x,a: P.dickson1(n,a,x), lambda ns,x,a: P.dickson1_seq(ns,a,x), 1),
 'dickson2': (lambda n,x,a: P.dickson2(n,a,x), lambda ns,x,a: P.dickson2_seq(ns,a,x), 1),
}
for name,(f,fs) in fam1.items():
    for shp in shapes:
        x = np.asarray(rng.uniform(-.9,.9,shp))
        if name.startswith('Q'): x = abs(x)
        for ns in ns_sets:
            try:
                s = fs(ns, x)
                e = np.array([f(n,x) for n in ns])
                if not close(s,e): rec(name, ('mismatch', shp, ns, s.shape))
            except Exception as ex:
                rec(name, ('raise', shp, ns, type(ex).__name__, str(ex)[:60]))
for name,(f,fs,k) in fam2.items():
    for shp in shapes:
        x = np.asarray(rng.uniform(-.9,.9,shp))
        if name.startswith('lag'): x = abs(x)*5
        for ns in ns_sets:
          for par in [(0.,0.),(0.5,-0.5),(1.3,2.2),(-0.5,-0.5),(0,1),(-.7,-.3)]:
            par = par[:k]
            try:
                s = fs(ns, x, *par)
                e = np.array([f(n,x,*par) for n in ns])
                if not close(s,e): rec(name, ('mismatch', shp, ns, par))
            except Exception as ex:
                rec(name, ('raise', shp, ns, par, type(ex).__name__, str(ex)[:60]))
# two-index
def nm_valid(N):
    return [(n,m) for n in range(N+1) for m in range(-n,n+1) if (n-abs(m))%2==0]
for shp in shapes:
    r = np.asarray(rng.uniform(0.05,.95,shp)); t = np.asarray(rng.uniform(0,2*np.pi,shp))
    for trial in range(30):
        allnm = nm_valid(8); k = rng.integers(1,8); idx = rng.choice(len(allnm), k, replace=False)
        nms = [allnm[i] for i in idx]
        for norm in (True, False):
            try:
                s = P.zernike_nm_seq(nms, r, t, norm=norm); e = np.array([P.zernike_nm(n,m,r,t,norm=norm) for n,m in nms])
                if not close(s,e): rec('zernike', ('mismatch', shp, nms, norm))
            except Exception as ex: rec('zernike', ('raise', shp, nms, type(ex).__name__, str(ex)[:60]))
            try:
                s = P.zernike_nm_der_seq(nms, r, t, norm=norm); e = np.array([P.zernike_nm_der(n,m,r,t,norm=norm) for n,m in nms])
                if not close(s,e): rec('zernike_der', ('mismatch', shp, nms, norm))
            except Exception as ex: rec('zernike_der', ('raise', shp, nms, type(ex).__name__, str(ex)[:60]))
        q = [(int(rng.integers(0,6)), int(rng.integers(-4,5))) for _ in range(k)]
        try:
            s = P.Q2d_seq(q, r, t); e = np.array([P.Q2d(n,m,r,t) for n,m in q])
            if not close(s,e): rec('Q2d', ('mismatch', shp, q))
        except Exception as ex: rec('Q2d', ('raise', shp, q, type(ex).__name__, str(ex)[:60]))
        mn = [(int(rng.integers(0,5)), int(rng.integers(0,5))) for _ in range(k)]
for shp in [(7,),(3,5),(4,4)]:
    if len(shp)==1:
        x = rng.uniform(-1,1,shp); y = rng.uniform(-1,1,shp)
    else:
        xv = rng.uniform(-1,1,shp[1]); yv = rng.uniform(-1,1,shp[0]); x,y = np.meshgrid(xv,yv)
    for trial in range(30):
        k = rng.integers(1,8)
        mn = [(int(rng.integers(0,5)), int(rng.integers(0,5))) for _ in range(k)]
        for cg in (True, False):
            try:
                s = P.xy_seq(mn, x, y, cartesian_grid=cg); e = [P.xy(m,n,x,y,cartesian_grid=cg) for m,n in mn]
                ok = all(close(np.broadcast_to(a,np.broadcast_shapes(np.shape(a),np.shape(b))),np.broadcast_to(b,np.broadcast_shapes(np.shape(a),np.shape(b)))) for a,b in zip(s,e))
                if not ok: rec('xy', ('mismatch', shp, mn, cg, [np.shape(a) for a in s][:2], [np.shape(b) for b in e][:2]))
            except Exception as ex: rec('xy', ('raise', shp, mn, cg, type(ex).__name__, str(ex)[:60]))
for k,v in fails.items():
    print('==',k,len(v))
    seen=set()
    for item in v:
        key=(item[0], item[1] if item[0]=='raise' else None)
        if len([1 for s in seen if s==key])<1:
            print('   ',item); seen.add(key)
