import numpy as np, itertools
from prysm.fttools import mdft, czt, fftrange
exec(open('c01.py').read().split("rng = ")[0])
rng = np.random.default_rng(0)
for (m,M) in [(5,5),(5,7),(7,4),(5,6),(6,6),(6,8)]:
  for shift in [(1,1),(2,2),(0.5,0.5),(1,0),(0,1),(1.3,-2.2)]:
    f = rng.standard_normal((m,m)) + 1j*rng.standard_normal((m,m))
    Q=1.7
    r = ref_dft(f, Q, (M,M), shift); a = mdft.dft2(f,Q,(M,M),shift); c = czt.czt2(f, Q, (M,M), shift)
    r2 = ref_dft(f, Q, (M,M), (-shift[0],-shift[1]))
    print(m,M,shift, 'mdft-vs-ref mod', abs(abs(a)-abs(r)).max(), 'czt-vs-ref mod', abs(abs(c)-abs(r)).max(), 'czt vs ref(-shift) mod', abs(abs(c)-abs(r2)).max(), 'czt vs ref(-shift) cplx', abs(c-r2).max())
