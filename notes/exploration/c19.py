import numpy as np
from prysm.x.raytracing.surfaces import Surface
from prysm.x.raytracing import spencer_and_murty as sm
rng=np.random.default_rng(0)
def unit(v): return v/np.linalg.norm(v,axis=-1,keepdims=True)
n1=1.5
s = Surface.conic(c=1/50., k=-0.5, typ='refr', P=[0,0,10], n=lambda wvl: n1)
N=6
P=np.zeros((N,3)); P[:,0]=np.linspace(0,10,N); P[:,1]=np.linspace(0,-4,N)
S=unit(np.array([[0.01*i,0.02,1.] for i in range(N)]))
ph,sh = sm.raytrace([s],P,S,0.6)
Pi=ph[1]; So=sh[1]
print('|S_out|',np.linalg.norm(So,axis=1))
# on surface?
x,y,z=(Pi-[0,0,10]).T
from prysm.x.raytracing.surfaces import conic_sag
print('on-surface err',abs(z-conic_sag(1/50.,-0.5,x*x+y*y)))
# snell check with true normal
zz,der=s.sag_normal(x,y); nrm=unit(der)
cosi=np.einsum('ij,ij->i',S,nrm); cost=np.einsum('ij,ij->i',unit(So),nrm)
print('n sin i - n sin t', 1.0*np.sqrt(1-cosi**2)-n1*np.sqrt(1-cost**2))
# coplanarity
print('coplanar', np.einsum('ij,ij->i',np.cross(S,nrm),unit(So)))
# reflect
m = Surface.conic(c=-1/50., k=-1, typ='refl', P=[0,0,10])
ph,sh=sm.raytrace([m],P,S,0.6); So=sh[1]; Pi=ph[1]
x,y,z=(Pi-[0,0,10]).T; zz,der=m.sag_normal(x,y); nrm=unit(der)
print('reflect |S|',np.linalg.norm(So,axis=1),'law err',abs(So-(S-2*np.einsum('ij,ij->i',S,nrm)[:,None]*nrm)).max())
# on-axis ray
P0=np.array([[0.,0,0]]); S0=np.array([[0.,0,1.]])
for surf in (s,m): 
    ph,sh=sm.raytrace([surf],P0,S0,.6); print('on-axis',ph[1],sh[1])
# rays traveling -z into refracting surface
S2=unit(np.array([[0.01,0.02,-1.]]*N)); P2=P.copy(); P2[:,2]=30
ph,sh=sm.raytrace([s],P2,S2,.6); print('-z refract |S|',np.linalg.norm(sh[1],axis=1), sh[1][:2])
# tilted
from prysm.coordinates import make_rotation_matrix
R=make_rotation_matrix((0,5,3))
st=Surface.plane('refl',[1,2,10],R=R)
XYZ=rng.standard_normal((5,3)); Sx=unit(rng.standard_normal((5,3)))
a,b=sm.transform_to_local_coords(XYZ,st.P,Sx,st.R); c,d=sm.transform_to_global_coords(a,st.P,b,st.R.T)
print('rigid rt',abs(c-XYZ).max(),abs(d-Sx).max(), 'dist preserved', abs(np.linalg.norm(a[0]-a[1])-np.linalg.norm(XYZ[0]-XYZ[1])))
