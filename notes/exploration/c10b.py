import numpy as np
from prysm import polynomials as P
from prysm.polynomials import qpoly as Q
rng=np.random.default_rng(0)
u=np.linspace(0.05,.95,7); t=np.linspace(0.3,5,7)
def explicit(nms,cs,u,t): return sum(c*P.Q2d(n,m,u,t) for (n,m),c in zip(nms,cs))
for m in (1,2,3,4):
  for N in range(0,7):
    nms=[(N,m),(0,-m)]; cs=[1.0,0.0]
    cm0,ams,bms=Q.Q2d_nm_c_to_a_b(nms,cs)
    try:
        z,dr,dt=Q.compute_z_zprime_Q2d(cm0,ams,bms,u,t); h=1e-6
        e=explicit(nms,cs,u,t); edr=(explicit(nms,cs,u+h,t)-explicit(nms,cs,u-h,t))/(2*h)
        print('m',m,'N',N,'z',abs(z-e).max(),'dr',abs(dr-edr).max())
    except Exception as ex: print('m',m,'N',N,'raise',repr(ex)[:70])
