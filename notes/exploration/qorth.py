import numpy as np
from prysm.polynomials import Qbfs, Q2d, Qcon
from prysm.polynomials.qpoly import compute_z_zprime_Qbfs, compute_z_zprime_Q2d
# Gauss-Legendre in phi on [0, pi/2]
xg, wg = np.polynomial.legendre.leggauss(200)
phi = (xg+1)*np.pi/4; wphi = wg*np.pi/4
u = np.sin(phi)
def dQbfs(n):
    c = np.zeros(n+1); c[n]=1
    return compute_z_zprime_Qbfs(c, u, u*u)[1]
# check derivative via complex step?? use finite diff
def dnum(f, u, h=1e-6): return (f(u+h)-f(u-h))/(2*h)
N=8
G = np.zeros((N,N))
for i in range(N):
    for j in range(N):
        di = dnum(lambda uu: Qbfs(i,uu), u); dj = dnum(lambda uu: Qbfs(j,uu), u)
        G[i,j] = (2/np.pi)*np.sum(wphi*di*dj)
np.set_printoptions(precision=4, suppress=True, linewidth=200)
print('Qbfs slope gram (2/pi int g/sqrt(1-u2) du):'); print(G)
# Q2d : gradient dot product: dr*dr' + (1/u^2) dt dt'
tq = np.linspace(0, 2*np.pi, 65)[:-1]; wt = np.full(64, 2*np.pi/64)
U, T = np.meshgrid(u, tq, indexing='ij')
def grad(n,m):
    h=1e-6
    dr = (Q2d(n,m,U+h,T)-Q2d(n,m,U-h,T))/(2*h)
    dt = (Q2d(n,m,U,T+h)-Q2d(n,m,U,T-h))/(2*h)
    return dr, dt/U
nms = [(0,0),(1,0),(0,1),(1,1),(2,1),(3,1),(4,1),(0,-1),(0,2),(1,2),(2,2),(0,3),(1,-3),(2,3), (5,1),(3,2)]
G2 = np.zeros((len(nms),)*2)
gr = [grad(*nm) for nm in nms]
for i in range(len(nms)):
    for j in range(len(nms)):
        g = gr[i][0]*gr[j][0] + gr[i][1]*gr[j][1]
        # weight candidates
        G2[i,j] = np.sum(wphi[:,None]*wt[None,:]*g) / (np.pi**2)   # (1/pi^2) int int g /sqrt(1-u2) du dtheta
print(nms)
print('Q2d gram, weight 1/sqrt(1-u2) du dtheta / pi^2'); print(G2)
G3 = np.zeros_like(G2)
for i in range(len(nms)):
    for j in range(len(nms)):
        g = gr[i][0]*gr[j][0] + gr[i][1]*gr[j][1]
        G3[i,j] = np.sum(wphi[:,None]*wt[None,:]*g*U) / (np.pi)
print('with u du'); print(G3)
