import numpy as np, warnings
warnings.simplefilter('ignore')
from prysm import polynomials as P
h=1e-30
x=np.linspace(-.97,.97,13); xl=np.linspace(0.01,9,13); u=np.linspace(0.02,.98,13); t=np.linspace(0.1,6.1,13)
def rel(a,b): return np.max(abs(a-b))/max(1e-300,np.max(abs(b)),1.0)
bad=[]
one={ 'legendre':(P.legendre,P.legendre_der,x),'cheby1':(P.cheby1,P.cheby1_der,x),'cheby2':(P.cheby2,P.cheby2_der,x),
      'cheby3':(P.cheby3,P.cheby3_der,x),'cheby4':(P.cheby4,P.cheby4_der,x),'He':(P.hermite_He,P.hermite_He_der,x*3),'H':(P.hermite_H,P.hermite_H_der,x*3)}
for nm,(f,d,pts) in one.items():
    for n in range(0,31):
        e=rel(d(n,pts), f(n,pts+1j*h).imag/h)
        if e>1e-9: bad.append((nm,n,e))
for n in range(0,31):
    for (a,b) in [(0,0),(.5,-.5),(1.7,2.3),(-.6,-.2),(0,4)]:
        e=rel(P.jacobi_der(n,a,b,x), P.jacobi(n,a,b,x+1j*h).imag/h)
        if e>1e-9: bad.append(('jacobi',n,a,b,e))
    for a in (0,.5,2.5,-.5):
        e=rel(P.laguerre_der(n,a,xl), P.laguerre(n,a,xl+1j*h).imag/h)
        if e>1e-9: bad.append(('laguerre',n,a,e))
for n in range(0,13):
    for m in range(-n,n+1,2):
        for norm in (True,False):
            dr,dt=P.zernike_nm_der(n,m,u,t,norm=norm)
            er=rel(dr,P.zernike_nm(n,m,u+1j*h,t+0j,norm=norm).imag/h); et=rel(dt,P.zernike_nm(n,m,u+0j,t+1j*h,norm=norm).imag/h)
            if er>1e-9 or et>1e-9: bad.append(('zernike',n,m,norm,er,et))
import collections
print(collections.Counter(b[0] for b in bad)); print(bad[:8])
# seq derivative forms vs scalar derivative handled in C08 sweep
