import numpy as np
from prysm.interferogram import psd, bandlimited_rms, render_synthetic_surface, Interferogram
from prysm.coordinates import make_xy_grid
for shp in [(8,8),(9,9),(8,11),(7,10),(15,15)]:
    dx=0.5
    x,y = make_xy_grid(shp, dx=dx)
    kx = 2; ky=1
    fx = kx/(shp[1]*dx); fy = ky/(shp[0]*dx)
    h = np.cos(2*np.pi*(fx*x+fy*y))
    w = np.ones(shp)
    ux,uy,p = psd(h, dx, window=w)
    iy,ix = np.unravel_index(np.argmax(p), p.shape)
    print(shp, 'peak at f=(%.4f,%.4f)'%(ux[iy,ix],uy[iy,ix]), 'expected +-(%.4f,%.4f)'%(fx,fy), 'parseval', p.sum()/(shp[0]*dx*shp[1]*dx), (h*w).__pow__(2).sum()/(w**2).sum())
    try:
        r = np.hypot(ux,uy)
        print('  blrms full', bandlimited_rms(r,p,flow=0,fhigh=r.max()*2))
    except Exception as e: print('  blrms raise', repr(e))
