import numpy as np
from prysm.segmented import CompositeHexagonalAperture, CompositeKeystoneAperture
from prysm.coordinates import make_xy_grid
import inspect
rng=np.random.default_rng(0)
bad=0
for trial in range(60):
    n=int(rng.integers(64,200)); rings=int(rng.integers(1,4)); 
    segd=rng.uniform(0.5,2.0); gap=rng.uniform(0,0.2)*segd
    extent=(2*rings+1)*(segd+gap)*1.2
    dx=extent/n
    x,y=make_xy_grid(n,dx=dx)
    ang=int(rng.choice([0,90]))
    excl=tuple(int(i) for i in rng.choice(1+3*rings*(rings+1), size=rng.integers(0,3), replace=False))
    cha=CompositeHexagonalAperture(x,y,rings,segd,gap,segment_angle=ang,exclude=excl)
    nseg=1+3*rings*(rings+1)-len(excl)
    cnt=np.zeros(x.shape,int)
    for win,m in zip(cha.windows,cha.local_masks): cnt[win]+=m
    area=np.sqrt(3)/2*segd**2
    areas=[m.sum()*dx*dx for m in cha.local_masks]
    perim_tol = 6*segd/np.sqrt(3)*dx*1.0
    ok = len(cha.segment_ids)==nseg and cnt.max()<=1 and np.array_equal(cnt>0,cha.amp.astype(bool)) and max(abs(a-area) for a in areas)<perim_tol
    if not ok:
        bad+=1; print('BAD',n,rings,round(segd,3),round(gap,3),ang,excl,'nseg',len(cha.segment_ids),nseg,'overlap',cnt.max(),'union',np.array_equal(cnt>0,cha.amp.astype(bool)),'area dev/tol',max(abs(a-area) for a in areas)/perim_tol)
print('bad',bad)
print(inspect.signature(CompositeKeystoneAperture.__init__))
