import numpy as np, warnings, tempfile, os
from prysm.fttools import pad2d, crop_center
from prysm.psf import centroid
print('--- C04 pad/crop/centroid')
for I,O in [(4,5),(4,6),(5,6),(5,7),(4,7)]:
    a=np.zeros(I); a[I//2]=1
    p=pad2d(a.reshape(1,-1), out_shape=(1,O))[0]
    print('pad',I,O,'origin lands at',int(np.argmax(p)),'expected',O//2)
for I,O in [(5,4),(6,4),(6,5),(7,5),(7,4)]:
    a=np.zeros(I); a[I//2]=1
    p=crop_center(a.reshape(1,-1),(1,O))[0]
    print('crop',I,O,'origin lands at',int(np.argmax(p)) if p.any() else None,'expected',O//2)
for n in (4,5,6,7):
    a=np.zeros((n,n)); a[n//2+1,n//2-1]=1
    print('centroid',n,centroid(a,dx=2.0),'expected (2,-2)')
print('--- C14 zygo')
from prysm.io import write_zygo_dat, read_zygo_dat, write_codev_gridint, read_codev_gridint
d=tempfile.mkdtemp()
a=np.arange(12,dtype=float).reshape(3,4)*10+5; a[0,1]=np.nan
write_zygo_dat(d+'/a.dat',a,dx=0.5,wavelength=.6328)
r=read_zygo_dat(d+'/a.dat')
print(a); print(np.round(r['phase'],2)); print('lr-mirrored?',np.allclose(np.fliplr(r['phase']),a,atol=.02,equal_nan=True), r['meta']['lateral_resolution'], r['meta']['wavelength'])
# truncation
raw=open(d+'/a.dat','rb').read()
for cut in (len(raw)-1,len(raw)-5,len(raw)-17,840,834,800,100):
    open(d+'/t.dat','wb').write(raw[:cut])
    with warnings.catch_warnings(record=True) as w:
        warnings.simplefilter('always')
        try:
            rr=read_zygo_dat(d+'/t.dat'); print('cut',cut,'nan count',np.isnan(rr['phase']).sum(),'warn',len(w))
        except Exception as e: print('cut',cut,'raise',type(e).__name__)
print('--- codev')
for arr in [np.arange(12,dtype=float).reshape(3,4)+1, -(np.arange(12,dtype=float).reshape(3,4)+1), np.arange(12,dtype=float).reshape(3,4)-5.5, np.full((3,3),7.), np.arange(9.).reshape(3,3)+1]:
    try:
        write_codev_gridint(arr*100, d+'/c.int'); b,meta=read_codev_gridint(d+'/c.int')
        print(arr.shape,'->',b.shape,'max err nm',np.nanmax(abs(b-arr*100)) if b.shape==arr.shape else 'shape', )
    except Exception as e: print(arr.shape,'raise',repr(e)[:100])
print('--- C16')
from prysm.detector import Detector
for bits in (8,12,16):
    det=Detector(dark_current=0,read_noise=0,bias=0,fwc=1e9,conversion_gain=1.,bits=bits,exposure_time=1.)
    img=np.array([[0,10,100,1e3,1e5,1e7]],dtype=float)
    print(bits,det.expose(img))
det=Detector(0,0,0,1e9,1.,12,1.,prnu=np.ones((4,5)))
try: print(det.expose(np.full((4,5),100.)).shape)
except Exception as e: print('prnu raise',repr(e)[:100])
print('--- C20 vortex')
from prysm.x import polarization as pol
th=np.linspace(0,2*np.pi,7)
for ret in (np.pi, np.pi/2, 1.0):
    J=pol.vector_vortex_retarder(2, th.copy(), ret)
    print(ret,'unitary err',abs(J@np.conj(np.swapaxes(J,-1,-2))-np.eye(2)).max())
