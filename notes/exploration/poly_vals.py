import numpy as np
from scipy import special as sp
from prysm import polynomials as P
rng=np.random.default_rng(0)
x = np.linspace(-1,1,41)
def rel(a,b): return np.max(np.abs(a-b))/max(1,np.max(np.abs(b)))
out=[]
for n in range(0,40):
    for (a,b) in [(0,0),(.5,-.5),(-.5,.5),(-.5,-.5),(.5,.5),(1.3,2.7),(-.9,-.2),(0,4),(0,-.5),(-.5,0),(-.3,-.7),(3,-.99)]:
        e = rel(P.jacobi(n,a,b,x), sp.eval_jacobi(n,a,b,x))
        if e>1e-9: out.append(('jacobi',n,a,b,e))
        # derivative
        d = 0.5*(n+a+b+1)*sp.eval_jacobi(n-1,a+1,b+1,x) if n>0 else 0*x
        e = rel(P.jacobi_der(n,a,b,x), d)
        if e>1e-9: out.append(('jacobi_der',n,a,b,e))
    for nm,f,g in [('legendre',P.legendre,sp.eval_legendre),('cheby1',P.cheby1,sp.eval_chebyt),('cheby2',P.cheby2,sp.eval_chebyu),
                   ('He',P.hermite_He,sp.eval_hermitenorm),('H',P.hermite_H,sp.eval_hermite)]:
        e = rel(f(n,x),g(n,x))
        if e>1e-9: out.append((nm,n,e))
    th = np.arccos(x[1:-1])
    V = np.cos((n+.5)*th)/np.cos(th/2); W = np.sin((n+.5)*th)/np.sin(th/2)
    e = rel(P.cheby3(n,x[1:-1]),V); 
    if e>1e-9: out.append(('cheby3',n,e))
    e = rel(P.cheby4(n,x[1:-1]),W); 
    if e>1e-9: out.append(('cheby4',n,e))
    xl = np.linspace(0,10,41)
    for a in (0,.5,2,-.5,3.3):
        e = rel(P.laguerre(n,a,xl), sp.eval_genlaguerre(n,a,xl))
        if e>1e-8: out.append(('laguerre',n,a,e))
        d = -sp.eval_genlaguerre(n-1,a+1,xl) if n>0 else 0*xl
        e = rel(P.laguerre_der(n,a,xl), d)
        if e>1e-8: out.append(('laguerre_der',n,a,e))
import collections
c = collections.Counter(o[0] for o in out); print(c)
for o in out[:40]: print(o)
