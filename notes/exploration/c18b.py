import numpy as np, warnings
warnings.simplefilter('ignore')
from prysm.segmented import CompositeKeystoneAperture
from prysm.coordinates import make_xy_grid
rng=np.random.default_rng(1)
bad=0; tot=0
for trial in range(80):
    n=int(rng.integers(96,220)); rings=int(rng.integers(1,4))
    ccd=rng.uniform(0.5,2); rr=[float(rng.uniform(0.5,1.5)) for _ in range(rings)]
    spr=[int(rng.integers(3,13)) for _ in range(rings)]
    gap=float(rng.uniform(0,0.08)); agap=float(rng.uniform(0,0.08))
    rot=[float(rng.uniform(0,360)) for _ in range(rings)] if rng.uniform()<.7 else None
    R=ccd/2+sum(rr)+gap*rings
    x,y=make_xy_grid(n,diameter=2*R*1.1); dx=x[0,1]-x[0,0]
    try:
        k=CompositeKeystoneAperture(x,y,ccd,rings,rr,spr,gap,agap,rot)
    except Exception as e:
        print('raise',n,rings,spr,rot,repr(e)[:80]); bad+=1; continue
    tot+=1
    cnt=np.zeros(x.shape,int); cnt[k.center_window]+=k.center_mask
    for w,m in zip(k.segment_windows,k.segment_masks): cnt[w]+=m
    nseg=len(k.segment_masks); 
    inner=ccd/2; areas_ok=True; worst=0; i=0
    for ring in range(rings):
        ri=inner+gap; ro=ri+rr[ring]; inner=ro
        for s in range(spr[ring]):
            a=k.segment_masks[i].sum()*dx*dx; exp=np.pi*(ro**2-ri**2)/spr[ring]
            per=(2*np.pi*(ro+ri)/spr[ring]+2*(ro-ri))*dx
            worst=max(worst,abs(a-exp)/per); i+=1
    ok = nseg==sum(spr) and cnt.max()<=1 and not np.any(k.amp & (cnt==0)) and worst<1.0
    if not ok:
        bad+=1; print('BAD',n,rings,spr,[round(v,1) for v in rot] if rot else None,'nseg',nseg,sum(spr),'overlap',cnt.max(),'amp outside segs',int(np.sum(k.amp&(cnt==0))),'area dev/per',round(worst,2))
print('bad',bad,'of',tot)
