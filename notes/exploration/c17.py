import numpy as np
from prysm import thinfilm as tf
rng=np.random.default_rng(0)
worst={}
for trial in range(2000):
    nl = rng.integers(1,5)
    ns = rng.uniform(1,3,nl); ts = rng.uniform(0,1,nl)
    n0 = rng.uniform(1,1.5); aoi = rng.uniform(0,89); wvl = rng.uniform(.3,2)
    # avoid TIR anywhere: n0 sin(aoi) < min(ns)
    if n0*np.sin(np.radians(aoi)) >= ns.min()*0.999: continue
    for pol in 'sp':
        r,t = tf.multilayer_stack_rt(list(zip(ns,ts)), wvl, pol, aoi, n0)
        th0 = np.radians(aoi); ths = np.arcsin(n0*np.sin(th0)/ns[-1])
        R = abs(r)**2; T = abs(t)**2*ns[-1]*np.cos(ths)/(n0*np.cos(th0))
        worst[pol] = max(worst.get(pol,0), abs(R+T-1))
print('R+T-1 worst', worst)
# single interface vs fresnel
for pol in 'sp':
    w=0; wt=0
    for trial in range(500):
        n0 = rng.uniform(1,2); n1=rng.uniform(1,3); aoi=rng.uniform(0,89)
        if n0*np.sin(np.radians(aoi))>=n1*0.999: continue
        th0=np.radians(aoi); th1=np.arcsin(n0*np.sin(th0)/n1)
        r,t = tf.multilayer_stack_rt([(n1, rng.uniform(0,1))], .5, pol, aoi, n0)
        if pol=='s':
            fr=tf.fresnel_rs(n0,n1,th0,th1); ft=tf.fresnel_ts(n0,n1,th0,th1)
        else:
            fr=tf.fresnel_rp(n0,n1,th0,th1); ft=tf.fresnel_tp(n0,n1,th0,th1)
            fr_fixed=(n0*np.cos(th1)-n1*np.cos(th0))/(n0*np.cos(th1)+n1*np.cos(th0))
            w2 = abs(r-fr_fixed)
        w=max(w,abs(r-fr)); wt=max(wt,abs(abs(t)-abs(ft)))
    print(pol,'stack r vs fresnel r', w, '|t|', wt, ('fixed rp diff %g'%w2 if pol=='p' else ''))
# batch vs loop at oblique
n = rng.uniform(1,3,(3,4,5)); d = rng.uniform(0,1,(3,4,5))
stack = np.stack([n,d],axis=1)  # (3,2,4,5)
for pol in 'sp':
    r,t = tf.multilayer_stack_rt(stack,.6,pol,aoi=20,ambient_index=1.)
    rl=np.empty((4,5),complex); tl=np.empty((4,5),complex)
    for i in range(4):
        for j in range(5):
            rl[i,j],tl[i,j]=tf.multilayer_stack_rt([(n[k,i,j],d[k,i,j]) for k in range(3)],.6,pol,aoi=20,ambient_index=1.)
    print('batch',pol,abs(r-rl).max(),abs(t-tl).max())
# 1-D batch
n = rng.uniform(1,3,(3,7)); d = rng.uniform(0,1,(3,7)); stack=np.stack([n,d],axis=1)
for pol in 'sp':
    try:
        r,t = tf.multilayer_stack_rt(stack,.6,pol,aoi=20)
        rl=[tf.multilayer_stack_rt([(n[k,i],d[k,i]) for k in range(3)],.6,pol,aoi=20)[0] for i in range(7)]
        print('batch1d',pol,abs(r-np.array(rl)).max())
    except Exception as e: print('batch1d',pol,'RAISE',repr(e))
