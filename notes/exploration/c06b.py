import numpy as np
from prysm.x.optym import activation as A, cost as C, operators as O
from prysm.x.dm import DM
rng=np.random.default_rng(0)
def dirderiv(f,x,v,h=1e-6): return (f(x+h*v)-f(x-h*v))/(2*h)
print('--- Softmax / Gumbel / Encoder')
for shp in [(5,4),(3,5,4),(4,4,4)]:
    x=rng.standard_normal(shp); v=rng.standard_normal(shp); w=rng.standard_normal(shp)
    sm=A.Softmax(); 
    f=lambda x: (A.Softmax().forward(x)*w).sum()
    sm.forward(x); g=sm.backprop(w)
    print('softmax',shp, abs(dirderiv(f,x,v)-(g*v).sum()))
    gs=A.GumbelSoftmax(tau=0.7)
    def fg(x):
        gs.rng=np.random.default_rng(5); return (gs.forward(x)*w).sum()
    gs.rng=np.random.default_rng(5); gs.forward(x); g=gs.backprop(w)
    print('gumbel',shp, abs(dirderiv(fg,x,v)-(g*v).sum()))
    enc=A.DiscreteEncoder(A.Softmax(), np.array([0.,1.,3.,7.]))
    wout=rng.standard_normal(shp[:-1])
    fe=lambda x: (enc.forward(x)*wout).sum()
    try:
        enc.forward(x); g=enc.backprop(wout); print('encoder',shp, abs(dirderiv(fe,x,v)-(g*v).sum()))
    except Exception as e: print('encoder',shp,'raise',repr(e)[:80])
print('--- costs')
I=rng.uniform(1,2,(6,7)); D=rng.uniform(1,2,(6,7)); v=rng.standard_normal((6,7)); mask=rng.uniform(size=(6,7))>.3
for name,fn in [('mse',lambda I,m: C.mean_square_error(I,D,m)),('bgi',lambda I,m: C.bias_and_gain_invariant_error(I,D,m)),('nll',lambda I,m: C.negative_loglikelihood(I/3,D/3,m))]:
    for m in (None,mask):
        try:
            c,g=fn(I,m); dd=dirderiv(lambda X: fn(X,m)[0],I,v)
            scale = 1/3 if name=='nll' else 1
            print(name,'masked' if m is not None else 'unmasked', abs(dd-(g*v).sum()*scale)/abs(dd))
        except Exception as e: print(name,'raise',repr(e)[:90])
print('--- spatial gradient adjoint')
sg=O.SpatialGradient2D()
for shp in [(6,6),(5,8),(8,5)]:
    x=rng.standard_normal(shp); y=rng.standard_normal(shp)
    for nm,f,b in [('x',sg.forward_x,sg.backprop_x),('y',sg.forward_y,sg.backprop_y)]:
        try: print(shp,nm,'<y,Ax>-<ATy,x>', (y*f(x)).sum()-(b(y)*x).sum())
        except Exception as e: print(shp,nm,'raise',repr(e)[:80])
print('--- DM')
from prysm.coordinates import make_xy_grid
from prysm.geometry import gaussian
for (N,Nout,shift,ups,Nact,sep) in [(64,64,(0,0),1,6,8),(64,64,(1.5,-2.25),1,6,8),(64,96,(0,0),1,6,8),(64,48,(0,0),1,6,8),(64,64,(0,0),0.5,6,8),(64,64,(0,0),2,6,8),(65,65,(0,0),1,5,8),(64,64,(0,0),1,(6,4),8)]:
    try:
        x,y=make_xy_grid(N,dx=1.); ifn=gaussian(8,x,y)
        dm=DM(ifn,Nout=Nout,Nact=Nact,sep=sep,shift=shift,upsample=ups)
        a=rng.standard_normal(dm.actuators.shape); dm.update(a); out=dm.render(wfe=True)
        w=rng.standard_normal(out.shape)
        g=dm.render_backprop(w.copy(),wfe=True)
        v=rng.standard_normal(a.shape)
        def f(a): dm.update(a); return (dm.render(True)*w).sum()
        dd=dirderiv(f,a,v,h=1e-3)
        print((N,Nout,shift,ups,Nact),out.shape,'rel err',abs(dd-(g*v).sum())/abs(dd))
    except Exception as e: print((N,Nout,shift,ups,Nact),'raise',repr(e)[:100])
