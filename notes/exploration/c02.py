import numpy as np
from prysm import propagation as P
from prysm.fttools import mdft, czt
rng=np.random.default_rng(0)
def cplx(s): return rng.standard_normal(s)+1j*rng.standard_normal(s)
E=lambda a: (abs(a)**2).sum()
for shp in [(4,4),(5,5),(4,7),(5,8),(1,6),(3,1)]:
    f=cplx(shp)
    for Q in (1,2,3):
        F=P.focus(f,Q); 
        g=P.unfocus(F,1)
        from prysm.fttools import crop_center, pad2d
        print(shp,Q,'energy ratio',E(F)/E(f),'roundtrip', abs(g-pad2d(f,Q)).max())
# band-complete mdft/czt
for shp in [(4,4),(5,5),(4,7),(5,8)]:
    f=cplx(shp)
    for Q in (1,1.5,2.25,(1.5,2)):
        Qt = (Q,Q) if np.isscalar(Q) else Q
        out = tuple(int(round(s*q)) for s,q in zip(shp,Qt))
        if any(abs(s*q-round(s*q))>1e-9 for s,q in zip(shp,Qt)): continue
        F=mdft.dft2(f,Q,out); 
        # inverse: Q' such that N_out*Q' = N_in*Q => Q' = N_in Q / N_out = 1 per axis
        Qi = tuple(s*q/o for s,q,o in zip(shp,Qt,out))
        g=mdft.idft2(F,Qi,shp)
        print('mdft',shp,Q,out,'E',E(F)/E(f),'rt',abs(g-f).max())
# free space
for shp in [(8,8),(7,9)]:
    f=cplx(shp)
    for z in (0, 10., -10.):
        g=P.angular_spectrum(f,.6,.01,z,Q=1)
        print('fs',shp,z,'E',E(g)/E(f), 'identity' if z==0 else '', abs(g-f).max())
    g=P.angular_spectrum(P.angular_spectrum(f,.6,.01,7.,Q=1),.6,.01,-7.,Q=1); print('  undo',abs(g-f).max())
    g1=P.angular_spectrum(P.angular_spectrum(f,.6,.01,7.,Q=1),.6,.01,5.,Q=1); g2=P.angular_spectrum(f,.6,.01,12.,Q=1); print('  compose',abs(g1-g2).max())
    g=P.angular_spectrum(f,.6,.01,10.,Q=2); print('  Q=2 E',E(g)/E(f), g.shape)
