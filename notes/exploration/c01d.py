import numpy as np
from prysm.conf import config
from prysm.fttools import mdft, czt, MatrixDFTExecutor
rng=np.random.default_rng(0)
f=rng.standard_normal((6,6))+1j*rng.standard_normal((6,6))
mdft.clear(); config.precision=32
a32=mdft.dft2(f.astype(np.complex64),2,8)
config.precision=64
a64_after=mdft.dft2(f,2,8)
mdft.clear()
a64_fresh=mdft.dft2(f,2,8)
print('dtype after32',a64_after.dtype,'fresh',a64_fresh.dtype,'diff',abs(a64_after-a64_fresh).max())
config.precision=32
b=mdft.dft2(f.astype(np.complex64),2,8); print('64-cached used under 32:',b.dtype)
config.precision=64; mdft.clear()
# key type sensitivity: Q int vs float, list vs tuple
print(mdft._key((6,6),2,8,(0,0),True)==mdft._key((6,6),2.0,(8,8),0,True))
a=mdft.dft2(f,2,8); b=mdft.dft2(f,[2,2],[8,8],[0,0]); print('list args',abs(a-b).max())
# numpy-float Q (np.float64 is a float subclass; np.float32 is not)
try:
    c=mdft.dft2(f,np.float32(2),8); print('np.float32 Q ok',abs(a-c).max())
except Exception as e: print('np.float32 Q raise',repr(e)[:80])
