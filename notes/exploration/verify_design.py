import numpy as np, warnings
warnings.simplefilter('ignore')
rng=np.random.default_rng(0)
def cplx(s): return rng.standard_normal(s)+1j*rng.standard_normal(s)
print('=== C12 stale r/t')
from prysm.interferogram import Interferogram
z=rng.standard_normal((8,10)); i=Interferogram(z.copy(),dx=0.5)
_=i.r; i.latcal(2.0); print('after latcal: r max',i.r.max(),'expected',np.hypot(i.x,i.y).max())
i=Interferogram(z.copy(),dx=0.5); _=i.r; i.pad(samples=2); print('after pad: data',i.data.shape,'x',i.x.shape,'r',i.r.shape)
i=Interferogram(z.copy(),dx=0.5); _=i.r; i.strip_latcal(); print('after strip: r max',i.r.max(),'expected',np.hypot(i.x,i.y).max())
print('=== C05 embedding / transposition / linearity (mdft, square and non-square)')
from prysm import propagation as P
def embed(f,shape):
    out=np.zeros(shape,f.dtype); oy=shape[0]//2-f.shape[0]//2; ox=shape[1]//2-f.shape[1]//2
    out[oy:oy+f.shape[0],ox:ox+f.shape[1]]=f; return out
for shp,big in [((6,6),(9,9)),((6,6),(10,10)),((5,5),(8,8)),((6,8),(9,12)),((6,8),(9,11))]:
    f=cplx(shp); args=(0.5,100.,.6,2.0,(7,9))
    for method in ('mdft','czt'):
        try:
            a=P.focus_fixed_sampling(f,*args,shift=(1.,-2.),method=method); b=P.focus_fixed_sampling(embed(f,big),*args,shift=(1.,-2.),method=method)
            at=P.focus_fixed_sampling(f.T.copy(),0.5,100.,.6,2.0,(9,7),shift=(-2.,1.),method=method)
            print(shp,big,method,'embed err',abs(a-b).max(),'transpose err',abs(at.T-a).max())
        except Exception as e: print(shp,big,method,'raise',repr(e)[:60])
print('=== C07 Gram matrices')
from prysm import polynomials as Pl
from scipy.special import roots_jacobi
for (a,b) in [(0,0),(1.5,-.5),(-.5,-.5),(2.2,3.1)]:
    xg,wg=roots_jacobi(30,a,b); V=np.array([Pl.jacobi(n,a,b,xg) for n in range(12)]); G=(V*wg)@V.T
    off=G-np.diag(np.diag(G)); print('jacobi',(a,b),'max offdiag/diag',abs(off).max()/abs(np.diag(G)).min())
# zernike: Gauss-Legendre in s=r^2 on [0,1], uniform theta
xs,ws=np.polynomial.legendre.leggauss(40); s=(xs+1)/2; ws=ws/2; r=np.sqrt(s)
nth=64; th=np.arange(nth)*2*np.pi/nth
R,T=np.meshgrid(r,th,indexing='ij'); W=np.outer(ws,np.full(nth,1/nth))
nms=[(n,m) for n in range(9) for m in range(-n,n+1,2)]
Z=np.array([Pl.zernike_nm(n,m,R,T,norm=True) for n,m in nms]); G=np.einsum('aij,bij,ij->ab',Z,Z,W)
print('zernike gram err',abs(G-np.eye(len(nms))).max(), len(nms),'modes')
print('=== C15 conv laws')
from prysm.convolution import conv
from prysm.otf import mtf_from_psf, otf_from_psf, ptf_from_psf
for shp in [(6,6),(5,7),(7,4)]:
    o=rng.standard_normal(shp); h=rng.standard_normal(shp); h2=rng.standard_normal(shp)
    d=np.zeros(shp); d[shp[0]//2,shp[1]//2]=1
    dk=np.zeros(shp); dk[(shp[0]//2+2)%shp[0],(shp[1]//2-1)%shp[1]]=1
    # direct circular convolution with origin at n//2
    ref=np.zeros(shp)
    cy,cx=shp[0]//2,shp[1]//2
    for y in range(shp[0]):
        for x in range(shp[1]):
            ref+=h[y,x]*np.roll(o,(y-cy,x-cx),axis=(0,1))
    print(shp,'commut',abs(conv(o,h)-conv(h,o)).max(),'ident',abs(conv(o,d)-o).max(),'shift',abs(conv(o,dk)-np.roll(o,(2,-1),axis=(0,1))).max(),'energy',abs(conv(o,h).sum()-o.sum()*h.sum()),'direct',abs(conv(o,h)-ref).max())
    p=abs(h); m=mtf_from_psf(p,1.).data; ot=otf_from_psf(p,1.).data; pt=ptf_from_psf(p,1.).data
    print('   mtf dc',m[cy,cx],'max',m.max(),'sym',abs(m[1:,1:]-m[1:,1:][::-1,::-1]).max() if shp[0]%2==0 and shp[1]%2==0 else abs(m-m[::-1,::-1]).max() if shp[0]%2 and shp[1]%2 else 'mixed','otf consistency',abs(ot-m*np.exp(1j*pt)).max())
print('=== C16 binning/bayer')
from prysm.detector import bindown, tile
from prysm import bayer
x=rng.standard_normal((6,8,4)); y=rng.standard_normal((3,2,4))
f=(2,4,1)
print('adj avg/sum',abs((bindown(x,f,'avg')*y).sum()-(x*tile(y,f,'sum')).sum()),'adj sum/avg',abs((bindown(x,f,'sum')*y).sum()-(x*tile(y,f,'avg')).sum()),'rt',abs(bindown(tile(y,f,'avg'),f,'avg')-y).max(),abs(bindown(tile(y,f,'sum'),f,'sum')-y).max())
img=rng.uniform(0,1,(8,10))
for cfa in ('rggb','bggr'):
    pl=bayer.decomposite_bayer(img,cfa); rec=bayer.recomposite_bayer(*pl,cfa=cfa); rgb=bayer.demosaic_malvar(img,cfa)
    tl,tr,bl,br=bayer.top_left,bayer.top_right,bayer.bottom_left,bayer.bottom_right
    ci={'rggb':(0,1,1,2),'bggr':(2,1,1,0)}[cfa]
    ok=all(np.array_equal(rgb[...,c][s],img[s]) for c,s in zip(ci,(tl,tr,bl,br)))
    print(cfa,'recomp',np.array_equal(rec,img),'malvar native',ok,'flat',abs(bayer.demosaic_malvar(np.ones((8,8)),cfa)[2:-2,2:-2]-1).max())
print('=== C20 algebra')
from prysm.x import polarization as pol
J1=pol.linear_retarder(0.7,0.3)@pol.linear_diattenuator(0.4,1.1); J2=cplx((2,2))
M=pol.jones_to_mueller
print('mueller mult',abs(M(J1@J2)-M(J1)@M(J2)).max())
U=pol.linear_retarder(1.3,0.4); MU=M(U); print('orth',abs(MU@MU.T-np.eye(4)).max(),'M00',MU[0,0])
c=pol.pauli_coefficients(J2); print('pauli',abs(sum(ck*pol.pauli_spin_matrix(k) for k,ck in enumerate(c))-J2).max())
Pp=pol.linear_polarizer(0.6); print('idem',abs(Pp@Pp-Pp).max())
e=np.array([np.cos(0.2),np.sin(0.2)]); out=Pp@e; print('malus',abs((abs(out)**2).sum()-np.cos(0.6-0.2)**2))
Jb=cplx((3,4,2,2)); Mb=M(Jb); print('batch mueller',abs(Mb[1,2]-M(Jb[1,2])).max(), 'shape ctor',pol.linear_retarder(0.5,0.2,shape=[3,4]).shape)
print('=== C13 synth rms')
from prysm.interferogram import render_synthetic_surface
from prysm.util import rms
np.random.seed(3)
for n in (16,17):
    m=np.ones((n,n)); m[:3]=0
    x,y,z=render_synthetic_surface(10.,n,rms=5.0,mask=m,a=1e2,b=0.1,c=2.)
    print(n,'rms',rms(z),'nan rows',np.isnan(z).all(axis=1).sum())
