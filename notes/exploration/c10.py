import numpy as np
from prysm import polynomials as P
from prysm.polynomials import qpoly as Q
rng=np.random.default_rng(0)
x=np.linspace(-.95,.95,11)
print('--- jacobi clenshaw')
for L in (1,2,3,6):
    s=rng.standard_normal(L)
    for (a,b) in [(0,0),(1.5,-.5),(0,4)]:
        try:
            v=P.jacobi_sum_clenshaw(s,a,b,x); e=sum(s[n]*P.jacobi(n,a,b,x) for n in range(L))
            print(L,(a,b),'err',abs(v-e).max())
        except Exception as ex: print(L,(a,b),'raise',repr(ex)[:80])
print('--- clenshaw der j')
from numpy.polynomial import polynomial as npoly
for L in (3,5,7):
    s=rng.standard_normal(L)
    for j in (1,2,3):
        try:
            al=P.jacobi_sum_clenshaw_der(s,0.5,1.5,x,j=j)
            # numeric reference via sympy-free: differentiate polynomial fit exactly: build power-basis poly from jacobi via fit at many pts
            xs=np.cos(np.linspace(0,np.pi,60)); V=np.polynomial.polynomial.polyvander(xs,L-1)
            ys=sum(s[n]*P.jacobi(n,.5,1.5,xs) for n in range(L)); c=np.linalg.lstsq(V,ys,rcond=None)[0]
            for jj in range(0,j+1):
                ref=npoly.polyval(x,npoly.polyder(c,jj)) if jj>0 else npoly.polyval(x,c)
                print('L',L,'j',j,'order',jj,'err',abs(al[jj][0]-ref).max())
        except Exception as ex: print(L,j,'raise',repr(ex)[:80])
print('--- qbfs clenshaw & z/zprime')
u=np.linspace(0.01,.99,9)
for L in (1,2,5):
    c=rng.standard_normal(L)
    try:
        v=Q.clenshaw_qbfs(c,u*u); e=sum(c[n]*P.Qbfs(n,u) for n in range(L)); print('qbfs L',L,abs(v-e).max())
    except Exception as ex: print('qbfs L',L,'raise',repr(ex)[:80])
    try:
        z,zp=Q.compute_z_zprime_Qbfs(c,u,u*u); h=1e-6
        e=sum(c[n]*P.Qbfs(n,u) for n in range(L)); ed=sum(c[n]*(P.Qbfs(n,u+h)-P.Qbfs(n,u-h))/(2*h) for n in range(L))
        print('  zzp Qbfs',abs(z-e).max(),abs(zp-ed).max())
    except Exception as ex: print('  zzp qbfs L',L,'raise',repr(ex)[:80])
    try:
        z,zp=Q.compute_z_zprime_Qcon(c,u,u*u); h=1e-6
        e=sum(c[n]*P.Qcon(n,u) for n in range(L)); ed=sum(c[n]*(P.Qcon(n,u+h)-P.Qcon(n,u-h))/(2*h) for n in range(L))
        print('  zzp Qcon',abs(z-e).max(),abs(zp-ed).max())
    except Exception as ex: print('  zzp qcon L',L,'raise',repr(ex)[:80])
print('--- Q2d')
t=np.linspace(0,2*np.pi,9)
def explicit(nms,cs,u,t): return sum(c*P.Q2d(n,m,u,t) for (n,m),c in zip(nms,cs))
cases=[ [(0,0),(1,0),(2,1),(1,-1),(0,2),(3,-2)], [(1,-2)], [(2,2)], [(0,0)], [(0,1),(1,1),(2,1),(3,1),(4,1),(0,-1)], [(2,-1),(0,3)], [(1,0),(2,3),(1,-3),(0,-1)], [(5,1)],[(3,-1),(4,-1),(5,-1),(0,1)] ]
for nms in cases:
    cs=rng.standard_normal(len(nms))
    try:
        cm0,ams,bms=Q.Q2d_nm_c_to_a_b(nms,cs)
    except Exception as ex: print(nms,'packer raise',repr(ex)[:60]); continue
    try:
        z,dr,dt=Q.compute_z_zprime_Q2d(cm0,ams,bms,u,t); h=1e-6
        e=explicit(nms,cs,u,t); edr=(explicit(nms,cs,u+h,t)-explicit(nms,cs,u-h,t))/(2*h); edt=(explicit(nms,cs,u,t+h)-explicit(nms,cs,u,t-h))/(2*h)
        print(nms,'z',abs(z-e).max(),'dr',abs(dr-edr).max(),'dt',abs(dt-edt).max())
    except Exception as ex: print(nms,'eval raise',repr(ex)[:80])
