import numpy as np, time
from prysm.polynomials import noll_to_nm, fringe_to_nm, nm_to_fringe, ansi_j_to_nm, nm_to_ansi_j, xy_j_to_mn
def valid(n,m): return n>=abs(m) and (n-abs(m))%2==0 and n>=0
N=20000
t=time.time()
seen=set(); bad=[]
prevn=0
for j in range(1,N+1):
    n,m = noll_to_nm(j)
    if not valid(n,m) or (n,m) in seen: bad.append(('noll',j,n,m))
    seen.add((n,m))
    if n<prevn: bad.append(('noll-order',j,n,m))
    prevn=n
    if m!=0 and ((j%2==0) != (m>0)): bad.append(('noll-parity',j,n,m))
# onto: all valid (n,m) with n<=Nmax covered
nmax = max(n for n,m in seen)
allv = {(n,m) for n in range(nmax) for m in range(-n,n+1) if valid(n,m)}
print('noll', time.time()-t, len(bad), bad[:5], 'missing', len(allv-seen))
t=time.time(); seen=set(); bad=[]
for j in range(1,N+1):
    n,m=fringe_to_nm(j)
    if not valid(n,m) or (n,m) in seen: bad.append(('fringe',j,n,m))
    seen.add((n,m))
    if nm_to_fringe(n,m)!=j: bad.append(('fringe-rt',j,n,m,nm_to_fringe(n,m)))
print('fringe', time.time()-t, len(bad), bad[:5])
t=time.time(); seen=set(); bad=[]
for j in range(0,N+1):
    n,m=ansi_j_to_nm(j)
    if not valid(n,m) or (n,m) in seen: bad.append(('ansi',j,n,m))
    seen.add((n,m))
    if nm_to_ansi_j(n,m)!=j: bad.append(('ansi-rt',j,n,m))
print('ansi', time.time()-t, len(bad), bad[:5])
t=time.time(); seen=set(); bad=[]
for j in range(1,5000):
    m,n=xy_j_to_mn(j)
    if m<0 or n<0 or (m,n) in seen: bad.append(('xy',j,m,n))
    seen.add((m,n))
print('xy', time.time()-t, len(bad), bad[:5])
# xy ordering check vs table: j=4 -> X2 (2,0), 5-> XY(1,1), 6->Y2 (0,2), 7 -> X3
print([xy_j_to_mn(j) for j in range(1,12)])
