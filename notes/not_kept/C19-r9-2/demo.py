import os, sys
sys.path.insert(0, os.environ.get('PRYSM_TREE', '.'))

import numpy as np

from prysm.conf import config
from prysm.x.raytracing.surfaces import Surface
from prysm.x.raytracing.spencer_and_murty import raytrace

# float64 rays (given explicitly as float64 arrays) through a tilted, decentred
# ellipsoidal mirror and then into a tilted hyperboloidal glass surface.
# Oracle: the conic as the implicit quadric
#     G(x,y,z) = c (x^2 + y^2 + (1+k) z^2) - 2 z = 0,   grad G = 2 (c x, c y, c (1+k) z - 1)
# in the surface's own frame  p_local = R (p_global - P),  n_global = R^T n_local.

N = 25
t = np.linspace(0, 2 * np.pi, N, endpoint=False)
rad = 1.5 + 2.0 * (np.arange(N) % 5) / 4
P = np.stack([rad * np.cos(t), rad * np.sin(t), np.full(N, -20.)], axis=1).astype(np.float64)
kk = 0.02 * np.cos(2 * t) + 0.01
ll = 0.03 * np.sin(3 * t)
S = np.stack([kk, ll, np.sqrt(1 - kk * kk - ll * ll)], axis=1).astype(np.float64)
wvl = 0.55
n_glass = 1.5


def build():
    # positions are exactly representable in float32 as well, so that the
    # surfaces are the same objects whichever config.precision is active
    m1 = Surface.conic(-1 / 64, -0.5, 'refl', P=[0.5, -0.25, 16], R=(0, 10, 4))
    s2 = Surface.conic(1 / 32, -2.0, 'refr', P=[-2.0, 0.5, -8], n=lambda wvl: n_glass, R=(0, -155, 0))
    return [m1, s2]


def quadric(surf, pg):
    c, k = surf.params['c'], surf.params['k']
    R = np.asarray(surf.R, dtype=np.float64)
    P0 = np.asarray(surf.P, dtype=np.float64)
    pl = (pg - P0) @ R.T
    x, y, z = pl.T
    G = c * (x * x + y * y + (1 + k) * z * z) - 2 * z
    g = np.stack([c * x, c * y, c * (1 + k) * z - 1], axis=1)
    g /= np.sqrt((g * g).sum(axis=1))[:, None]
    ng = g @ R   # rows: R^T g
    return G, ng


def check(label):
    pres = build()
    ph, sh = raytrace(pres, P, S, wvl)
    assert ph.dtype == np.float64 and sh.dtype == np.float64
    errs = {}
    # mirror
    G, nrm = quadric(pres[0], ph[1])
    errs['mirror: point on surface'] = abs(G).max()
    expect = sh[0] - 2 * (sh[0] * nrm).sum(axis=1)[:, None] * nrm
    errs['mirror: reflection about true normal'] = abs(sh[1] - expect).max()
    errs['mirror: unit length'] = abs((sh[1] ** 2).sum(axis=1) - 1).max()
    # refracting surface, entered from air
    G, nrm = quadric(pres[1], ph[2])
    errs['lens: point on surface'] = abs(G).max()
    sin_i = np.sqrt((np.cross(sh[1], nrm) ** 2).sum(axis=1))
    sin_t = np.sqrt((np.cross(sh[2], nrm) ** 2).sum(axis=1))
    errs['lens: n sin i = n\' sin i\''] = abs(1.0 * sin_i - n_glass * sin_t).max()
    errs['lens: coplanar'] = abs((sh[2] * np.cross(sh[1], nrm)).sum(axis=1)).max()
    errs['lens: unit length'] = abs((sh[2] ** 2).sum(axis=1) - 1).max()
    errs['lens: same side'] = float(((sh[1] * nrm).sum(axis=1) * (sh[2] * nrm).sum(axis=1) <= 0).any())
    worst = max(errs.values())
    print(label)
    for name, e in errs.items():
        print('    %-40s %.2e' % (name, e))
    return worst


tol = 1e-11
bad = False

w = check('config.precision = 64 (default), float64 rays')
bad |= not (w < tol)

config.precision = 32
try:
    w = check('config.precision = 32, the same float64 rays')
finally:
    config.precision = 64
bad |= not (w < tol)

if bad:
    print('VIOLATION: float64 rays are not reflected / refracted about the true surface normal')
    sys.exit(1)

print('property holds')
sys.exit(0)
