import os, sys
sys.path.insert(0, os.environ.get('PRYSM_TREE', '.'))

import numpy as np

from prysm import bayer

# C16: safe white-balance gain limiting.  With safe=True the four gains are
# divided by one common factor
#     ratio = max(1, max_k( max(plane_k) / saturation_k ))
# (planes in the order r, g1, g2, b) and every raw sample is multiplied by the
# limited gain of its own colour site.  The oracle below is that closed form,
# written out with plain numpy slicing, independent of prysm.
#
# The per-channel saturation levels are handed over in every kind of iterable
# the function accepts (it only asks for __iter__).

SITES = {
    'rggb': dict(r=(0, 0), g1=(0, 1), g2=(1, 0), b=(1, 1)),
    'bggr': dict(b=(0, 0), g1=(0, 1), g2=(1, 0), r=(1, 1)),
}


def oracle(mosaic, gains, sats, cfa):
    out = mosaic.copy()
    ratio = 1.
    for name, sat in zip(('r', 'g1', 'g2', 'b'), sats):
        i, j = SITES[cfa][name]
        ratio = max(ratio, mosaic[i::2, j::2].max() / sat)

    for name, gain in zip(('r', 'g1', 'g2', 'b'), gains):
        i, j = SITES[cfa][name]
        out[i::2, j::2] *= gain / ratio

    return out, ratio


rng = np.random.default_rng(16102)
gains = (1.9, 1.0, 1.05, 1.6)
levels = [0.50, 0.80, 0.75, 0.60]   # r, g1, g2, b saturation; data reach ~1.0

containers = {
    'list': lambda: list(levels),
    'tuple': lambda: tuple(levels),
    'ndarray': lambda: np.array(levels),
    'dict values': lambda: dict(zip('abcd', levels)).values(),
    'generator': lambda: (lv for lv in levels),
    'map object': lambda: map(float, ['0.50', '0.80', '0.75', '0.60']),
    'iterator': lambda: iter(levels),
}

failures = 0
for cfa in ('rggb', 'bggr'):
    for shape in ((32, 48), (100, 100)):
        raw = rng.random(shape)
        want, ratio = oracle(raw, gains, levels, cfa)
        for name, make in containers.items():
            work = raw.copy()
            bayer.wb_prescale(work, *gains, cfa=cfa, safe=True, saturation=make())
            err = np.abs(work - want).max()
            ok = err < 1e-12
            # what the limiting is for: nothing is driven beyond gain * saturation
            print(f'{cfa} {shape} saturation as {name:12s}: expected common '
                  f'descale {ratio:.4f}, max |got - closed form| = {err:.3e} '
                  f'{"ok" if ok else "WRONG"}')
            if not ok:
                failures += 1

        # the scalar form, common to the four channels
        work = raw.copy()
        bayer.wb_prescale(work, *gains, cfa=cfa, safe=True, saturation=0.7)
        want1, _ = oracle(raw, gains, [0.7]*4, cfa)
        if np.abs(work - want1).max() >= 1e-12:
            print(f'{cfa} {shape} scalar saturation WRONG')
            failures += 1

if failures:
    print(f'FAIL: {failures} safe white balances differ from the closed form')
    sys.exit(1)

print('PASS: safe white balance equals the closed form for every container')
sys.exit(0)
