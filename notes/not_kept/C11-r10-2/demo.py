import os, sys
sys.path.insert(0, os.environ.get('PRYSM_TREE', '.'))

from prysm import polynomials
from prysm.conf import config


def fringe_reference(count):
    """Fringe ordering by enumeration: ascending n+|m|, then descending |m|,
    cosine (+m) before sine (-m).  Returns the (n, m) list in Fringe order."""
    out = []
    s = 0
    while len(out) < count:
        for am in range(s // 2, -1, -1):
            n = s - am
            if am == 0:
                out.append((n, 0))
            else:
                out.append((n, am))
                out.append((n, -am))
        s += 2
    return out[:count]


COUNT = 2000
ref = fringe_reference(COUNT)   # ref[k] is the k-th term, k counted from 0


def survey(label, first):
    """first = number the convention in force gives to piston."""
    wrong_inverse = 0
    wrong_forward = 0
    wrong_roundtrip = 0
    shown = 0
    for k, nm in enumerate(ref):
        j = first + k
        got = tuple(int(v) for v in polynomials.fringe_to_nm(j))
        fwd = polynomials.nm_to_fringe(*nm)
        back = polynomials.nm_to_fringe(*got)
        if got != nm:
            wrong_inverse += 1
        if fwd != j:
            wrong_forward += 1
        if back != j:
            wrong_roundtrip += 1
            if shown < 4:
                print(f'   {label}: Z{j} -> {got} -> Z{back}   (term is {nm})')
                shown += 1
    print(f'{label}: fringe_to_nm wrong {wrong_inverse}, nm_to_fringe wrong {wrong_forward}, '
          f'round trip broken {wrong_roundtrip} of {COUNT}')
    return wrong_inverse + wrong_forward + wrong_roundtrip


failures = 0

# as shipped: piston is Z1
failures += survey('default (piston = Z1)', 1)

# a configuration option for the numbering, when the library has one, is
# switched the way every other option is: on the live config object
if hasattr(config, 'zernike_base'):
    config.zernike_base = 0
    failures += survey('config.zernike_base = 0', 0)
    config.zernike_base = 1
    failures += survey('config.zernike_base = 1 again', 1)
else:
    print('this tree has a single Fringe numbering (no zernike_base option)')

if failures:
    print('FAIL: Fringe forward and inverse maps do not describe the same numbering')
    sys.exit(1)
print('OK')
sys.exit(0)
