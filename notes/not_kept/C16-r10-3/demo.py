import os, sys
sys.path.insert(0, os.environ.get('PRYSM_TREE', '.'))

import numpy as np

from prysm import bayer

# C16: safe white-balance gain limiting, both CFA layouts.  With safe=True the
# four gains are divided by one common factor
#     ratio = max(1, max_k( max(plane_k) / saturation_k )),  k in (r, g1, g2, b)
# where saturation is either one level or four levels in the same order as the
# gains (wr, wg1, wg2, wb), and every raw sample is multiplied by the limited
# gain of its own colour site.  The oracle is that closed form written out with
# plain numpy slicing, independent of prysm.

SITES = {
    'rggb': dict(r=(0, 0), g1=(0, 1), g2=(1, 0), b=(1, 1)),
    'bggr': dict(b=(0, 0), g1=(0, 1), g2=(1, 0), r=(1, 1)),
}
ORDER = ('r', 'g1', 'g2', 'b')


def make_scene(rng, shape, cfa, level):
    """Random mosaic whose colour planes peak at the given levels."""
    raw = rng.random(shape)
    for name in ORDER:
        i, j = SITES[cfa][name]
        plane = raw[i::2, j::2]
        plane *= level[name] / plane.max()
    return raw


def oracle(mosaic, gains, sats, cfa):
    out = mosaic.copy()
    ratio = 1.
    for name, sat in zip(ORDER, sats):
        i, j = SITES[cfa][name]
        ratio = max(ratio, mosaic[i::2, j::2].max() / sat)

    for name, gain in zip(ORDER, gains):
        i, j = SITES[cfa][name]
        out[i::2, j::2] *= gain / ratio

    return out, ratio


rng = np.random.default_rng(1610)
gains = (1.8, 1.0, 1.02, 1.4)

scenes = {
    # reddish scene on a sensor whose red channel clips early
    'warm': dict(level=dict(r=1.0, g1=0.6, g2=0.6, b=0.3), sats=[0.5, 0.9, 0.9, 0.9]),
    # bluish scene, blue channel clips early
    'cold': dict(level=dict(r=0.25, g1=0.5, g2=0.55, b=0.95), sats=[0.9, 0.8, 0.8, 0.4]),
    # green limited, red and blue levels differ but do not matter
    'green': dict(level=dict(r=0.3, g1=1.0, g2=0.9, b=0.3), sats=[0.7, 0.5, 0.5, 0.9]),
    # nothing saturated: gains applied in full
    'dim': dict(level=dict(r=0.2, g1=0.3, g2=0.3, b=0.1), sats=[0.5, 0.9, 0.9, 0.7]),
}

failures = 0
for cfa in ('rggb', 'bggr'):
    for shape in ((32, 48), (64, 64)):
        for name, spec in scenes.items():
            raw = make_scene(rng, shape, cfa, spec['level'])
            for label, sats in (('per-channel', spec['sats']),
                                ('common', [min(spec['sats'])]*4)):
                want, ratio = oracle(raw, gains, sats, cfa)
                work = raw.copy()
                arg = sats if label == 'per-channel' else sats[0]
                bayer.wb_prescale(work, *gains, cfa=cfa, safe=True, saturation=arg)
                err = np.abs(work - want).max()
                ok = err < 1e-12
                i, j = SITES[cfa]['r']
                got_ratio = gains[0] * raw[i, j] / work[i, j]
                print(f'{cfa} {shape} {name:5s} {label:11s} saturation: descale '
                      f'expected {ratio:.4f} applied {got_ratio:.4f}, '
                      f'max |got - closed form| = {err:.2e} {"ok" if ok else "WRONG"}')
                if not ok:
                    failures += 1

if failures:
    print(f'FAIL: {failures} safe white balances differ from the closed form')
    sys.exit(1)

print('PASS: safe white balance equals the closed form in both layouts')
sys.exit(0)
