import os, sys
sys.path.insert(0, os.environ.get('PRYSM_TREE', '.'))

import math

import numpy as np

from prysm.conf import config
from prysm import polynomials


def radial_explicit(n, m, r):
    """Zernike radial polynomial R_n^|m| by the explicit factorial sum."""
    m = abs(m)
    out = np.zeros_like(r)
    for k in range((n - m) // 2 + 1):
        num = (-1) ** k * math.factorial(n - k)
        den = (math.factorial(k)
               * math.factorial((n + m) // 2 - k)
               * math.factorial((n - m) // 2 - k))
        out = out + (num / den) * r ** (n - 2 * k)
    return out


def zernike_explicit(n, m, r, t):
    """Orthonormal Zernike polynomial from the textbook definition, in float64."""
    R = radial_explicit(n, m, r)
    if m == 0:
        return math.sqrt(n + 1) * R
    az = np.cos(m * t) if m > 0 else np.sin(-m * t)
    return math.sqrt(2 * (n + 1)) * R * az


def worst_error(nms, r, t):
    worst = 0.0
    seq = polynomials.zernike_nm_seq(nms, r, t, norm=True)
    for (n, m), from_seq in zip(nms, seq):
        ref = zernike_explicit(n, m, r, t)
        scale = np.abs(ref).max()
        single = polynomials.zernike_nm(n, m, r, t, norm=True)
        e1 = np.abs(single - ref).max() / scale
        e2 = np.abs(from_seq - ref).max() / scale
        worst = max(worst, e1, e2)
    return worst


def unit_rms_error(nms):
    # Gauss-Legendre in r^2 and a uniform rule in t integrate Z^2 over the disk exactly
    xg, wg = np.polynomial.legendre.leggauss(24)
    rr = np.sqrt((xg + 1) / 2)
    tt = np.linspace(0, 2 * np.pi, 64, endpoint=False)
    r, t = np.meshgrid(rr, tt, indexing='ij')
    w = (wg / 2)[:, None] * np.ones_like(t) / t.shape[1]
    worst = 0.0
    for n, m in nms:
        Z = polynomials.zernike_nm(n, m, r, t, norm=True)
        ms = (w * Z * Z).sum()
        worst = max(worst, abs(ms - 1))
    return worst


def main():
    rng = np.random.default_rng(7)
    r = np.sqrt(rng.uniform(0, 1, 500))   # float64 coordinates
    t = rng.uniform(0, 2 * np.pi, 500)
    nms = [(2, 0), (2, 2), (2, -2), (3, 1), (4, 0), (4, -2), (5, 3), (6, 0), (6, -4)]
    tol = 1e-11
    bad = False
    for bits in (64, 32):
        config.precision = bits
        try:
            e = worst_error(nms, r, t)
            u = unit_rms_error(nms)
        finally:
            config.precision = 64
        print(f'config.precision={bits}: float64 grid, worst relative error vs '
              f'definition {e:.3e}; worst |mean(Z^2)-1| {u:.3e}')
        if e > tol or u > tol:
            bad = True

    if bad:
        print('VIOLATION: double precision coordinates do not give the textbook Zernike values')
        return 1
    print('OK: Zernike polynomials equal their definition and have unit RMS')
    return 0


if __name__ == '__main__':
    sys.exit(main())
