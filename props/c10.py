"""C10 - fast modal sums equal explicit sums; least-squares fitting inverts synthesis and ignores exactly the non-finite samples."""
import numpy as np
from hypothesis import strategies as st

from vlib.core import HypClause, Violation
from vlib import util as U

RULE = ("Hypothesis draws the structure - coefficient-vector length 1..12 (thorough 1..30), its zero pattern (dense, "
        "random sparse, single term, trailing zeros), Jacobi (alpha,beta), the Q2d (n,m) set (distinct pairs in any "
        "order: cosine-only, sine-only, mixed, with / without m=0, unequal radial lengths per azimuthal order, "
        "azimuthal orders present in only one family), coordinate shape (python float, 0-D, 1-D, 2-D), for lstsq the "
        "number of modes, grid, mode kind and the pattern of NaN / +inf / -inf samples - and an integer from which the "
        "coefficient values and coordinates are expanded.  Oracle: the explicit sum  sum_k c_k * mode_k  built by the "
        "harness from the scalar mode functions (jacobi, Qbfs, Qcon, Q2d, zernike_nm) or from the mode arrays "
        "themselves (sum_of_2d_modes); structural laws of the Q2d coefficient packer; for lstsq the synthesising "
        "coefficients, invariance under exchanging one non-finite marker for another, and SciPy's least-squares "
        "solution on exactly the finite samples for data that is not in the span (every finite sample must count).  "
        "Tolerances: 1e-10 relative to sum|c_k| max|mode_k| (observed <= 2e-15 quick, 2e-14 thorough) for sums, "
        "1e-9 max(1, cond/100) for fits (observed 1e-16), condition number < 1e6.  Non-trivial = sparse or length-1 vector, or an azimuthal order present in one family only, or "
        "a non-finite sample present, or a coordinate array that is not 1-D.")
ASSUMPTIONS = ["the scalar mode functions are the reference for the sums (their own correctness is C07)",
               "numpy / scipy linear algebra is correct", "coefficient vectors are non-empty and dense in order "
               "(ascending from order 0) as documented; the (n,m) list given to the packer has no repeated pair",
               "lstsq is only asked to fit when the masked design matrix has condition number < 1e6 (otherwise the case "
               "is counted as excluded)"]

LMAX = {'quick': 12, 'thorough': 30}
DMAX = {'quick': 7, 'thorough': 12}


# ---- shared strategies -----------------------------------------------------------------------------
def coef_spec(L):
    """[length, pattern, k]: pattern dense | sparse | single | trailing-zeros ; the values come from the case seed"""
    n = st.one_of(st.sampled_from([1, 2, 3]), st.integers(1, L), st.integers(4, L), st.integers(4, L))
    return st.tuples(n, st.sampled_from(['dense', 'dense', 'sparse', 'single', 'tail0']), st.integers(0, 10 ** 6)).map(list)


def expand_coefs(spec, seed, salt):
    n, pattern, k = int(spec[0]), spec[1], int(spec[2])
    r = U.rng_of(seed, salt)
    c = r.uniform(-1, 1, n)
    c = np.where(np.abs(c) < 0.05, 0.05, c)   # keep the non-zeros away from zero
    if pattern == 'sparse':
        keep = U.rng_of(k, 77).integers(0, 2, n).astype(bool)
        if not keep.any():
            keep[k % n] = True
        c = np.where(keep, c, 0.0)
    elif pattern == 'single':
        z = np.zeros(n)
        z[k % n] = c[k % n]
        c = z
    elif pattern == 'tail0' and n > 1:
        c[1 + k % (n - 1):] = 0.0
    return c


def coef_class(c):
    nz = int(np.count_nonzero(c))
    if len(c) == 1:
        return 'len1'
    if nz == 1:
        return 'single-term'
    return 'dense' if nz == len(c) else 'sparse'


def point_spec(D):
    d = st.integers(1, D)
    return st.one_of(st.just(['pyfloat', []]), st.just(['array', []]), d.map(lambda a: ['array', [a]]),
                     st.tuples(d, d).map(lambda t: ['array', list(t)]), st.tuples(d, d).map(lambda t: ['array', list(t)]))


def points(spec, seed, lo, hi, salt):
    kind, shape = spec
    r = U.rng_of(seed, salt)
    x = r.uniform(lo, hi, tuple(int(s) for s in shape))
    pin = r.integers(0, 24, x.shape)
    x = np.where(pin == 0, lo, np.where(pin == 1, hi, x))
    if kind == 'pyfloat':
        return float(x)
    return np.asarray(x, dtype=np.float64)


def pt_class(spec):
    return 'pyfloat' if spec[0] == 'pyfloat' else 'ndim%d' % len(spec[1])


def _guard(ctx, cls, fn, *a, **k):
    try:
        return ctx.call(fn, *a, **k)
    except Violation as v:
        raise Violation(v.bucket + ':' + cls, v.msg) from v


def explicit_sum(ctx, mode, cs, shape):
    """sum_k c_k mode(k) with the magnitude sum_k |c_k| max|mode(k)| that sets the rounding scale"""
    total = np.zeros(shape)
    mag = 0.0
    for k, c in enumerate(cs):
        if c == 0:
            continue
        mk = np.asarray(ctx.call(mode, k), dtype=np.float64)
        total = total + float(c) * mk
        mag += abs(float(c)) * float(np.max(np.abs(mk))) if mk.size else 0.0
    return total, mag


def cmp_sum(got, want, mag, bucket, what, rtol=1e-10):
    got = np.asarray(got)
    return U.check_close(got, np.asarray(want), 0.0, bucket, what, atol=rtol * max(mag, 1e-300))


# ---- sum_of_2d_modes -------------------------------------------------------------------------------
def strat_tensor(tier):
    D = {'quick': 8, 'thorough': 24}[tier]
    d = st.integers(1, D)
    return st.fixed_dictionaries({
        'coefs': coef_spec(LMAX[tier]), 'shape': st.one_of(st.tuples(d, d).map(list), d.map(lambda a: [a, a]), d.map(lambda a: [a])),
        'container': st.sampled_from(['array', 'list', 'list-weights']), 'dtype': st.sampled_from(['float64', 'float64', 'float32']),
        'seed': U.seeds})


def check_tensor(case, ctx):
    """sum_of_2d_modes(modes, w) == sum_k w_k * modes[k] for mode stacks of shape (k, m, n) (and (k, n)), array or list input."""
    from prysm import polynomials as P
    w = expand_coefs(case['coefs'], case['seed'], 1)
    k = len(w)
    shape = tuple(int(s) for s in case['shape'])
    dtype = case['dtype']
    modes = U.rng_of(case['seed'], 2).uniform(-1, 1, (k,) + shape).astype(dtype)
    cls = coef_class(w)
    ctx.nt(cls != 'dense' or shape[0] != shape[-1])
    ctx.label(cls, 'ndim%d' % len(shape), case['container'], dtype, 'k==rows' if k == shape[0] else 'k!=rows')
    arg_m = modes if case['container'] == 'array' else [m for m in modes]
    arg_w = w if case['container'] != 'list-weights' else [float(v) for v in w]
    got = _guard(ctx, cls, P.sum_of_2d_modes, arg_m, arg_w)
    want = np.zeros(shape)
    for i in range(k):
        want = want + w[i] * modes[i].astype(np.float64)
    U.check_shape(got, shape, 'sum_of_2d_modes:' + cls, 'sum of %d modes of shape %s' % (k, shape))
    mag = float(np.sum(np.abs(w)))
    cmp_sum(got, want, mag, 'sum_of_2d_modes:%s:%s' % (cls, dtype), 'sum_of_2d_modes of %d modes %s' % (k, shape),
            rtol=1e-12 * k if dtype == 'float64' else 1e-5 * k)


# ---- Jacobi Clenshaw -------------------------------------------------------------------------------
_AB = [-0.5, 0.5, 0, 1, 2, 4, 1.5, -0.75, 0.25, 3]


def strat_jacobi(tier):
    ab = st.one_of(st.tuples(st.sampled_from(_AB), st.sampled_from(_AB)).map(list),
                   st.tuples(U.nice_float(-0.95, 6.0), U.nice_float(-0.95, 6.0)).map(list),
                   # on and next to the special lines alpha+beta = 0 and alpha+beta = -1
                   U.nice_float(-0.95, 0.95).map(lambda a: [a, -a]),
                   st.tuples(U.nice_float(-0.95, 0.95), st.sampled_from([5.5e-17, -1.1e-16, 1e-15, 1e-12, -1e-9, 1e-6])).map(lambda t: [t[0], -t[0] + t[1]]),
                   st.tuples(U.nice_float(-0.95, -0.05), st.sampled_from([0.0, 1.1e-16, -2.2e-16, 1e-12, -1e-9])).map(lambda t: [t[0], -1.0 - t[0] + t[1]]))
    return st.fixed_dictionaries({'coefs': coef_spec(LMAX[tier]), 'ab': ab, 'x': point_spec(DMAX[tier]),
                                  'container': st.sampled_from(['array', 'list']), 'seed': U.seeds})


def check_jacobi(case, ctx):
    """jacobi_sum_clenshaw(s, a, b, x) == sum_n s_n * jacobi(n, a, b, x), any length >= 1, dense or sparse."""
    from prysm import polynomials as P
    s = expand_coefs(case['coefs'], case['seed'], 1)
    a, b = case['ab']
    x = points(case['x'], case['seed'], -1.0, 1.0, 2)
    cls, pcls = coef_class(s), pt_class(case['x'])
    ctx.nt(cls != 'dense' or pcls != 'ndim1')
    ctx.label(cls, pcls, 'len=%s' % (len(s) if len(s) < 4 else '4+'), 'a+b in {0,-1}' if a + b in (0, -1) else 'general ab')
    arg = s if case['container'] == 'array' else [float(v) for v in s]
    got = _guard(ctx, cls, P.jacobi_sum_clenshaw, arg, a, b, x)
    want, mag = explicit_sum(ctx, lambda n: P.jacobi(n, a, b, x), s, np.shape(x))
    U.check_shape(got, np.shape(x), 'jacobi_sum_clenshaw:' + cls, 'sum of %d terms at x of shape %s' % (len(s), np.shape(x)))
    cmp_sum(got, want, mag, 'jacobi_sum_clenshaw:' + cls,
            'jacobi_sum_clenshaw(%r, %r, %r) vs explicit sum, x.shape=%s' % ([float(v) for v in s], a, b, np.shape(x)))


# ---- Qbfs / Qcon -----------------------------------------------------------------------------------
def strat_q1d(tier):
    return st.fixed_dictionaries({'fn': st.sampled_from(['clenshaw_qbfs', 'compute_z_zprime_Qbfs', 'compute_z_zprime_Qcon']),
                                  'coefs': coef_spec(LMAX[tier]), 'u': point_spec(DMAX[tier]).filter(lambda s: s[0] == 'array'),
                                  'container': st.sampled_from(['array', 'list']), 'seed': U.seeds})


def check_q1d(case, ctx):
    """clenshaw_qbfs(c, u^2) and the sag returned by compute_z_zprime_Qbfs / _Qcon == sum_n c_n Qbfs(n,u) / Qcon(n,u)."""
    from prysm import polynomials as P
    from prysm.polynomials import qpoly as Q
    c = expand_coefs(case['coefs'], case['seed'], 1)
    u = points(case['u'], case['seed'], 0.0, 1.0, 2)
    cls, pcls, fn = coef_class(c), pt_class(case['u']), case['fn']
    ctx.nt(cls != 'dense' or pcls != 'ndim1')
    ctx.label(fn, cls, pcls, 'len=%s' % (len(c) if len(c) < 4 else '4+'))
    arg = c.copy() if case['container'] == 'array' else [float(v) for v in c]
    usq = u * u
    if fn == 'clenshaw_qbfs':
        got = _guard(ctx, cls, Q.clenshaw_qbfs, arg, usq)
        mode = lambda n: P.Qbfs(n, u)   # noqa
    elif fn == 'compute_z_zprime_Qbfs':
        res = _guard(ctx, cls, Q.compute_z_zprime_Qbfs, arg, u, usq)
        ctx.require(len(res) == 2, fn + ':arity', '%s returned %d values' % (fn, len(res)))
        got = res[0]
        mode = lambda n: P.Qbfs(n, u)   # noqa
    else:
        res = _guard(ctx, cls, Q.compute_z_zprime_Qcon, arg, u, usq)
        ctx.require(len(res) == 2, fn + ':arity', '%s returned %d values' % (fn, len(res)))
        got = res[0]
        mode = lambda n: P.Qcon(n, u)   # noqa
    want, mag = explicit_sum(ctx, mode, c, np.shape(u))
    U.check_shape(got, np.shape(u), '%s:%s' % (fn, cls), 'sag of %d terms at u of shape %s' % (len(c), np.shape(u)))
    cmp_sum(got, want, mag, '%s:%s' % (fn, cls), '%s(%r) sag vs explicit sum, u.shape=%s' % (fn, [float(v) for v in c], np.shape(u)))


# ---- Q2d: packer + evaluator -------------------------------------------------------------------------
def strat_q2d(tier):
    N, M = {'quick': (8, 6), 'thorough': (16, 10)}[tier]
    n = st.one_of(st.integers(0, 3), st.integers(0, N))
    content = st.sampled_from(['mixed', 'paired', 'paired', 'cos', 'sin', 'cos+m0', 'sin+m0', 'm0', 'disjoint'])

    def pairs(kind):
        if kind == 'cos':
            m = st.integers(1, M)
        elif kind == 'sin':
            m = st.integers(-M, -1)
        elif kind == 'cos+m0':
            m = st.integers(0, M)
        elif kind == 'sin+m0':
            m = st.integers(-M, 0)
        elif kind == 'm0':
            m = st.just(0)
        elif kind == 'disjoint':   # cosine terms at odd |m|, sine terms at even |m|: every order lives in one family only
            m = st.integers(1, M).map(lambda v: v if v % 2 else -v)
        elif kind == 'paired':     # few azimuthal orders, so cosine and sine partners of the same |m| both occur
            m = st.sampled_from([-2, -1, 1, 2, 0, -3, 3])
        else:
            m = st.one_of(st.integers(-3, 3), st.integers(-M, M))
        return st.lists(st.tuples(n, m).map(list), min_size=1, max_size=14, unique_by=lambda p: (p[0], p[1]))
    return st.fixed_dictionaries({'nms': content.flatmap(pairs), 'zero': st.sampled_from(['none', 'none', 'some']),
                                  'pts': point_spec(DMAX[tier]).filter(lambda s: s[0] == 'array'), 'seed': U.seeds})


def check_q2d(case, ctx):
    """Q2d_nm_c_to_a_b obeys its structural laws and compute_z_zprime_Q2d(packed) sag == sum c * Q2d(n, m, u, t)."""
    from prysm import polynomials as P
    from prysm.polynomials import qpoly as Q
    nms = [(int(n), int(m)) for n, m in case['nms']]
    r = U.rng_of(case['seed'], 1)
    cs = r.uniform(-1, 1, len(nms))
    cs = np.where(np.abs(cs) < 0.05, 0.05, cs)
    if case['zero'] == 'some' and len(nms) > 1:
        cs[r.integers(0, 2, len(nms)).astype(bool)] = 0.0
    cs = [float(c) for c in cs]
    u = points(case['pts'], case['seed'], 0.0, 1.0, 2)
    t = points(case['pts'], case['seed'], 0.0, 2 * np.pi, 3)
    cos_m = {m for _, m in nms if m > 0}
    sin_m = {-m for _, m in nms if m < 0}
    fam = ('m0' if any(m == 0 for _, m in nms) else '') + ('cos' if cos_m else '') + ('sin' if sin_m else '')
    lonely = (cos_m ^ sin_m)
    lens = {}
    for n, m in nms:
        lens[m] = max(lens.get(m, 0), n + 1)
    cls = 'families=' + fam
    if cos_m - sin_m:
        cls += ':cos-only-order'
    if sin_m - cos_m:
        cls += ':sin-only-order'
    ctx.nt(bool(lonely) or any(v == 1 for v in lens.values()) or case['zero'] == 'some' or np.ndim(u) != 1)
    ctx.label('families=' + fam, 'order-in-one-family' if lonely else 'orders-paired', 'ndim%d' % np.ndim(u),
              'has-len1-vector' if any(v == 1 for v in lens.values()) else 'no-len1-vector',
              'unequal-lengths' if any(lens.get(m) != lens.get(-m) for m in cos_m & sin_m) else 'equal-or-unpaired')

    packed = _guard(ctx, cls, Q.Q2d_nm_c_to_a_b, list(nms), list(cs))
    ctx.require(len(packed) == 3, 'Q2d_nm_c_to_a_b:arity', 'returned %d values' % len(packed))
    cm0, ams, bms = packed
    # structural laws
    max_m = max([abs(m) for _, m in nms])
    ctx.require(len(ams) == max_m and len(bms) == max_m, 'Q2d_nm_c_to_a_b:length:' + cls,
                'len(ams)=%d len(bms)=%d, expected max|m|=%d for nms=%r' % (len(ams), len(bms), max_m, nms))
    want_tab = {}
    for (n, m), c in zip(nms, cs):
        want_tab[(n, m)] = c
    for m in range(0, max_m + 1):
        for sgn, vec, nm in ((1, cm0 if m == 0 else ams[m - 1], 'a'), (-1, None if m == 0 else bms[m - 1], 'b')):
            if vec is None:
                continue
            key_m = sgn * m
            present = [n for (n, mm) in want_tab if mm == key_m]
            vec = list(vec)
            want_len = (max(present) + 1) if present else 0
            ctx.require(len(vec) == want_len, 'Q2d_nm_c_to_a_b:vector-length:' + cls,
                        '%s-vector of m=%d has length %d, expected %d (nms=%r)' % (nm, m, len(vec), want_len, nms))
            for n, v in enumerate(vec):
                w = want_tab.get((n, key_m), 0.0)
                ctx.require(v is not None and float(v) == w, 'Q2d_nm_c_to_a_b:entry:' + cls,
                            '%s[m=%d][n=%d] = %r, expected %r (nms=%r)' % (nm, m, n, v, w, nms))

    res = _guard(ctx, cls, Q.compute_z_zprime_Q2d, cm0, ams, bms, u, t)
    ctx.require(len(res) == 3, 'compute_z_zprime_Q2d:arity', 'returned %d values' % len(res))
    want = np.zeros(np.shape(u))
    mag = 0.0
    for (n, m), c in zip(nms, cs):
        if c == 0:
            continue
        mk = np.asarray(ctx.call(P.Q2d, n, m, u, t), dtype=np.float64)
        want = want + c * mk
        mag += abs(c) * (float(np.max(np.abs(mk))) if mk.size else 0.0)
    # the Clenshaw route forms sums whose partial terms are larger than the modes: use the coefficient scale as floor
    mag = max(mag, float(np.sum(np.abs(cs))))
    U.check_shape(res[0], np.shape(u), 'compute_z_zprime_Q2d:' + cls, 'sag at u of shape %s' % (np.shape(u),))
    cmp_sum(res[0], want, mag, 'compute_z_zprime_Q2d:sag:' + cls,
            'compute_z_zprime_Q2d sag vs sum c*Q2d for nms=%r cs=%r u.shape=%s' % (nms, cs, np.shape(u)))


def strat_q2d_direct(tier):
    N, M = {'quick': (6, 5), 'thorough': (12, 8)}[tier]
    vec = st.one_of(st.just(0), st.just(0), st.sampled_from([1, 1, 2]), st.integers(1, N))   # radial length, 0 = empty
    return st.fixed_dictionaries({'cm0': st.one_of(st.just(-1), vec), 'lens': st.lists(st.tuples(vec, vec).map(list), min_size=0, max_size=M),
                                  'pts': point_spec(DMAX[tier]).filter(lambda s: s[0] == 'array'), 'seed': U.seeds})


def check_q2d_direct(case, ctx):
    """compute_z_zprime_Q2d on hand-packed (cm0, ams, bms): equal-length lists, any vector may be empty or of length 1."""
    from prysm import polynomials as P
    from prysm.polynomials import qpoly as Q
    M = len(case['lens'])
    alens, blens = [int(v[0]) for v in case['lens']], [int(v[1]) for v in case['lens']]
    r = U.rng_of(case['seed'], 1)

    def vec(n):
        c = r.uniform(-1, 1, n)
        return [float(v) for v in np.where(np.abs(c) < 0.05, 0.05, c)]
    cm0 = None if case['cm0'] < 0 else vec(int(case['cm0']))
    ams = [vec(n) for n in alens]
    bms = [vec(n) for n in blens]
    u = points(case['pts'], case['seed'], 0.0, 1.0, 2)
    t = points(case['pts'], case['seed'], 0.0, 2 * np.pi, 3)
    one_only = any((a == 0) != (b == 0) for a, b in zip(alens, blens))
    has1 = any(v == 1 for v in alens + blens) or (cm0 is not None and len(cm0) == 1)
    cls = ('a-empty' if any(a == 0 and b > 0 for a, b in zip(alens, blens)) else '') + \
          ('b-empty' if any(b == 0 and a > 0 for a, b in zip(alens, blens)) else '') or 'paired'
    ctx.nt(one_only or has1 or np.ndim(u) != 1)
    ctx.label(cls, 'has-len1-vector' if has1 else 'no-len1-vector', 'cm0=%s' % ('None' if cm0 is None else ('empty' if not cm0 else 'given')),
              'M=0' if M == 0 else 'M>0', 'ndim%d' % np.ndim(u))
    res = _guard(ctx, cls, Q.compute_z_zprime_Q2d, cm0, ams, bms, u, t)
    ctx.require(len(res) == 3, 'compute_z_zprime_Q2d:arity', 'returned %d values' % len(res))
    want = np.zeros(np.shape(u))
    mag = 0.0
    terms = [((n, 0), c) for n, c in enumerate(cm0 or [])]
    for i in range(M):
        terms += [((n, i + 1), c) for n, c in enumerate(ams[i])]
        terms += [((n, -(i + 1)), c) for n, c in enumerate(bms[i])]
    for (n, m), c in terms:
        mk = np.asarray(ctx.call(P.Q2d, n, m, u, t), dtype=np.float64)
        want = want + c * mk
        mag += abs(c) * (float(np.max(np.abs(mk))) if mk.size else 0.0)
    mag = max(mag, sum(abs(c) for _, c in terms))
    U.check_shape(res[0], np.shape(u), 'compute_z_zprime_Q2d:' + cls, 'sag at u of shape %s' % (np.shape(u),))
    cmp_sum(res[0], want, mag, 'compute_z_zprime_Q2d:sag:direct:' + cls,
            'compute_z_zprime_Q2d sag vs explicit sum, cm0=%r ams=%r bms=%r' % (cm0, ams, bms))


# ---- lstsq -----------------------------------------------------------------------------------------
def strat_lstsq(tier):
    D = {'quick': 10, 'thorough': 20}[tier]
    d = st.integers(3, D)
    return st.fixed_dictionaries({
        'k': st.one_of(st.sampled_from([1, 2, 3]), st.integers(1, 10)), 'shape': st.one_of(st.tuples(d, d).map(list), d.map(lambda a: [a, a])),
        'modes': st.sampled_from(['random', 'random', 'zernike', 'hermite', 'xy']),
        'mask': st.sampled_from(['none', 'nan', 'nan', 'inf', 'mixed', 'mixed', 'row', 'disc']),
        'frac': st.sampled_from([0.05, 0.2, 0.5]), 'container': st.sampled_from(['array', 'list']), 'layout': U.layouts, 'seed': U.seeds})


def _mode_stack(kind, k, shape, seed):
    from prysm import polynomials as P
    ny, nx = shape
    if kind == 'random':
        return U.rng_of(seed, 5).uniform(-1, 1, (k, ny, nx))
    y, x = np.meshgrid(np.linspace(-1, 1, ny), np.linspace(-1, 1, nx), indexing='ij')
    if kind == 'zernike':
        rr, tt = np.hypot(x, y) / np.sqrt(2), np.arctan2(y, x)
        nms = [P.noll_to_nm(j) for j in range(1, k + 1)]
        return np.asarray([P.zernike_nm(n, m, rr, tt) for n, m in nms])
    if kind == 'hermite':
        return np.asarray([P.hermite_He(j // 2, 1.5 * x) * P.hermite_He(j - j // 2, 1.5 * y) for j in range(k)])
    return np.asarray([x ** m * y ** n for m, n in [P.xy_j_to_mn(j) for j in range(1, k + 1)]])


def check_lstsq(case, ctx):
    """lstsq(modes, data with non-finite samples) returns the synthesising coefficients, does not depend on which non-finite
    marker is used, and on data outside the span equals the least-squares solution over exactly the finite samples."""
    from prysm import polynomials as P
    import scipy.linalg
    k, shape, seed = int(case['k']), tuple(int(s) for s in case['shape']), case['seed']
    modes = np.asarray(_mode_stack(case['modes'], k, shape, seed), dtype=np.float64)
    r = U.rng_of(seed, 6)
    c = r.uniform(-1, 1, k)
    data = np.zeros(shape)
    for i in range(k):
        data = data + c[i] * modes[i]
    kind, frac = case['mask'], case['frac']
    bad = np.zeros(shape, dtype=bool)
    if kind in ('nan', 'inf', 'mixed'):
        bad = r.uniform(0, 1, shape) < frac
    elif kind == 'row':
        bad[int(r.integers(0, shape[0]))] = True
        bad[:, int(r.integers(0, shape[1]))] = True
    elif kind == 'disc':
        y, x = np.meshgrid(np.linspace(-1, 1, shape[0]), np.linspace(-1, 1, shape[1]), indexing='ij')
        bad = np.hypot(x, y) > 1
    marker = {'nan': [np.nan], 'inf': [np.inf, -np.inf], 'mixed': [np.nan, np.inf, -np.inf], 'row': [np.nan], 'disc': [np.nan],
              'none': [np.nan]}[kind]
    marks = np.asarray(marker)[r.integers(0, len(marker), shape)]
    A = modes.reshape(k, -1)[:, ~bad.ravel()].T
    if A.shape[0] < k:
        ctx.exclude('fewer valid samples than modes')
    sv = np.linalg.svd(A, compute_uv=False)
    cond = float(sv[0] / sv[-1]) if sv[-1] > 0 else float('inf')
    if not cond < 1e6:
        ctx.exclude('masked design matrix ill-conditioned')
    ctx.nt(bad.any())
    ctx.label('modes:' + case['modes'], 'mask:' + kind, 'k=%s' % (k if k < 4 else '4+'), 'masked>0' if bad.any() else 'masked=0',
              'cond<1e2' if cond < 1e2 else 'cond>=1e2', case['container'])
    arg_modes = modes if case['container'] == 'array' else [m for m in modes]
    cls = 'mask=' + kind

    def fit(d):
        got = _guard(ctx, cls, P.lstsq, arg_modes, d)
        got = np.asarray(got)
        U.check_shape(got, (k,), 'lstsq:' + cls, 'coefficients for %d modes' % k)
        return got

    d1 = data.copy()
    d1[bad] = marks[bad]
    lay = case.get('layout', 'C')
    ctx.label('layout:' + lay)
    d1 = U.relayout(d1, lay)       # same values, another memory layout (Fortran order / transposed view / strided view)
    got = fit(d1)
    tol = 1e-9 * max(1.0, cond / 1e2)
    U.check_close(got, c, 0.0, 'lstsq:synthesis:' + cls, 'lstsq on %d %s modes %s, %d of %d samples non-finite (cond %.3g)' % (
        k, case['modes'], shape, int(bad.sum()), bad.size, cond), atol=tol * float(np.max(np.abs(c))))
    if bad.any():
        # another assignment of non-finite markers, garbage "underneath": same answer
        d2 = data + 1e3 * r.uniform(-1, 1, shape) * bad
        other = np.asarray([np.inf, -np.inf, np.nan])[r.integers(0, 3, shape)]
        d2[bad] = other[bad]
        got2 = fit(d2)
        U.check_close(got2, got, 0.0, 'lstsq:marker-dependent:' + cls, 'same mask, different non-finite markers', atol=1e-12 * float(np.max(np.abs(c))))
    # data that is not in the span: every finite sample must take part, and only those
    noise = U.rng_of(seed, 8).uniform(-1, 1, shape)
    d3 = data + noise
    d3[U.rng_of(seed, 9).uniform(0, 1, shape) < 0.15] = 0.0    # exact zeros are ordinary samples
    ref = scipy.linalg.lstsq(A, d3.ravel()[~bad.ravel()], lapack_driver='gelsy')[0]
    d3[bad] = marks[bad]
    got3 = fit(d3)
    U.check_close(got3, ref, 0.0, 'lstsq:not-exactly-the-finite-samples:' + cls,
                  'lstsq on noisy data vs scipy least squares over the %d finite samples (cond %.3g)' % (int((~bad).sum()), cond),
                  atol=tol * max(float(np.max(np.abs(ref))), 1.0))


# ---- consumer: Interferogram.pvr -------------------------------------------------------------------
def strat_pvr(tier):
    return st.fixed_dictionaries({'n': st.integers(24, {'quick': 40, 'thorough': 64}[tier]), 'terms': st.lists(st.integers(1, 37), min_size=1, max_size=6, unique=True),
                                  'holes': st.sampled_from([0.0, 0.0, 0.05, 0.2]), 'radius': st.sampled_from(['auto', 0.8, 1.0]),
                                  'seed': U.seeds})


def check_pvr(case, ctx):
    """Interferogram.pvr() of a surface that is a sum of the 36 Fringe Zernikes it fits (with NaN drop-outs) == the PV of that surface
    over the unit disc (fit + tensordot reproduce the surface, residual term vanishes)."""
    from prysm.interferogram import Interferogram
    from prysm import polynomials as P
    n, seed = int(case['n']), case['seed']
    r_ = U.rng_of(seed, 1)
    ifg = ctx.call(Interferogram, np.zeros((n, n)), dx=1.0 / n)
    rr, tt = np.asarray(ifg.r), np.asarray(ifg.t)
    if case['radius'] == 'auto':
        R = float(rr[n - 1, n // 2])
        kw = {}
    else:
        R = float(case['radius']) * float(rr[n - 1, n // 2])
        kw = {'normalization_radius': R}
    rho = rr / R
    surf = np.zeros((n, n))
    amp = 0.0
    for j in case['terms']:
        nn, mm = P.fringe_to_nm(int(j))
        a = float(r_.uniform(0.2, 1.0))
        amp += a
        surf = surf + a * np.asarray(ctx.call(P.zernike_nm, nn, mm, rho, tt, norm=False))
    inside = rho <= 1
    data = surf.copy()
    holes = (r_.uniform(0, 1, (n, n)) < case['holes'])
    data[holes] = np.nan
    valid = inside & ~holes
    if valid.sum() < 150:
        ctx.exclude('too few valid samples for a 36 term fit')
    ctx.nt(bool(holes.any()))
    ctx.label('holes' if holes.any() else 'no-holes', 'radius:%s' % case['radius'], 'n%%2=%d' % (n % 2))
    ifg2 = ctx.call(Interferogram, data, dx=1.0 / n)
    got = float(ctx.call(ifg2.pvr, **kw))
    vals = surf[inside]
    want = float(vals.max() - vals.min())
    U.check_close(got, want, 1e-8, 'Interferogram.pvr', atol=1e-8 * amp, what='pvr of a %dx%d map of Fringe terms %r, %d drop-outs' % (n, n, case['terms'], int(holes.sum())))


CLAUSES = [
    HypClause('sum_of_2d_modes', strat_tensor, check_tensor, examples={'quick': 600, 'thorough': 3000}, shards={'quick': 1, 'thorough': 4}),
    HypClause('jacobi_clenshaw', strat_jacobi, check_jacobi, examples={'quick': 800, 'thorough': 3000}, shards={'quick': 1, 'thorough': 4}),
    HypClause('qbfs_qcon_sums', strat_q1d, check_q1d, examples={'quick': 800, 'thorough': 3000}, shards={'quick': 1, 'thorough': 4}),
    HypClause('q2d_packed_sum', strat_q2d, check_q2d, examples={'quick': 600, 'thorough': 2500}, shards={'quick': 2, 'thorough': 4}),
    HypClause('q2d_direct_sum', strat_q2d_direct, check_q2d_direct, examples={'quick': 500, 'thorough': 2000}, shards={'quick': 1, 'thorough': 4}),
    HypClause('lstsq', strat_lstsq, check_lstsq, examples={'quick': 500, 'thorough': 2500}, shards={'quick': 2, 'thorough': 4}),
    HypClause('pvr_consumer', strat_pvr, check_pvr, examples={'quick': 80, 'thorough': 300}, shards={'quick': 2, 'thorough': 4}),
]
