"""C10 - fast modal sums equal explicit sums; least-squares fitting inverts synthesis and ignores exactly the non-finite samples."""
import contextlib

import numpy as np
from hypothesis import strategies as st

from vlib.core import HypClause, Violation
from vlib import util as U

RULE = ("Hypothesis draws the structure - coefficient-vector length 1..60 (thorough 1..150), its value pattern (dense, "
        "random sparse, single term, trailing zeros, the all-zero vector, one value for every term), the container of the coefficients (float64 ndarray, strided view of a "
        "table, float32 ndarray, list, tuple, list of Python ints; where the routine only reads them also an int64 ndarray), Jacobi (alpha,beta) incl. pairs on and next to alpha+beta = 0, -1, the Q2d (n,m) "
        "set up to n = 20, |m| = 12 (thorough 40, 24) (distinct pairs in any "
        "order: cosine-only, sine-only, mixed, with / without m=0, unequal radial lengths per azimuthal order, "
        "azimuthal orders present in only one family, every drawn (n, |m|) given to both families, complete radial sets n = 0..N of a few orders "
        "in both families) and the value pattern of its coefficients (independent; the sine coefficient of an (n, |m|) exactly equal to the cosine "
        "coefficient; one constant; all ones), for hand-packed tables also the sine table as equal values in separate objects / the same row objects "
        "/ the very table object given as cosine table, and the m = 0 vector being the object of the m = 1 cosine row; coordinate shape: every scalar flavour "
        "(a bare Python int / bool at the whole numbers of the interval -1, 0, 1 resp. u = 0, 1; Python float, numpy float64 / float32 / longdouble "
        "scalar, each at a random point, at either end of the interval or at 0; a true 0-d array) for the 1-D sums (Jacobi 'ndarray or float_like'; the Qbfs / "
        "Qcon / 2D-Q radial routines take the same scalars on the unchanged tree), the real ones for compute_z_zprime_Q2d; 1-D, 2-D, and for the 1-D sums "
        "also more than 2**16 points (65537, 70001, 3 x 22003; at most 6 terms then); coordinate dtype "
        "(float64, float32, for Jacobi complex128) and memory layout (C, Fortran, transposed view, strided view); every argument by position or by its "
        "documented name; Jacobi alpha / beta as Python numbers, numpy float64, and (whole values) Python int / numpy int64, the 2D-Q azimuthal order as Python "
        "int / numpy int64 / int32; the entry "
        "point (jacobi_sum_clenshaw plain / with a caller-supplied alphas buffer / row [0][0] of jacobi_sum_clenshaw_der; "
        "clenshaw_qbfs, clenshaw_qbfs_der, compute_z_zprime_Qbfs / _Qcon / _Q2d; clenshaw_q2d / clenshaw_q2d_der for one azimuthal order, read as "
        "their documentation says), for every documented alphas= workspace (jacobi_sum_clenshaw, jacobi_sum_clenshaw_der, clenshaw_qbfs, "
        "clenshaw_qbfs_der, clenshaw_q2d, clenshaw_q2d_der) whether the caller supplies it - then one buffer serves every call of the case (other "
        "coefficients in between), zero-filled, or holding 3.25 / NaN where the unchanged routine assigns every row -, a history (nothing, or an earlier "
        "single-precision call / a call with other coefficients; for Jacobi also two requests that cannot be served - no coefficient, a workspace that "
        "does not fit - caught by the caller, and a burst of 28 other (alpha, beta) that overflows the table of recurrence coefficients), for lstsq the "
        "number of modes (1..36), grid, mode kind (random, Zernike, Hermite, Legendre, monomials; real or complex), the "
        "pattern of NaN / +inf / -inf samples (random, row+column, outside the disc, and valid samples only on a "
        "sub-aperture / a thin annulus / a half plane, which makes disc- or square-orthogonal bases poorly conditioned), the value pattern of the "
        "synthesising coefficients (independent; all zero - data identically 0 on the valid samples; exactly one non-zero; all equal; whole numbers; one "
        "term 1e8 times the others), the type of the arguments (double; data, modes or both single precision where cond < 1e3, judged at eps32; whole-number "
        "modes in an int64 array), for Interferogram.pvr also the flat surface - "
        "and an integer from which the "
        "coefficient values and coordinates are expanded; an overall decimal exponent of the data (1, 1e-9, 1e-12, 1e-17, 1e-20, 1e-30, 1e6, 1e30; for the "
        "lstsq data also 1e-290, 1e-150, 1e150, 1e250, where squares of the samples leave the double range; "
        "within the float32 range where single precision takes part): of the coefficients of every sum, for sum_of_2d_modes of the weights, of the "
        "modes, or of both in opposite directions, for lstsq of the data and (separately) of all modes alike, for Interferogram.pvr of the heights; sum_of_2d_modes also with modes that "
        "are NaN at a quarter of the samples (the sum is NaN there and right elsewhere; nothing is asserted there when every weight is zero), on thin grids of "
        "more than 2**16 samples, and with one mode array object given at two places of the sequence "
        "(with independent or equal weights); lstsq also with the data being the very array object of one of the modes (the fit is that unit vector), lstsq also with modes that hold NaN / +-inf / 1e300 / a mixture "
        "at the samples the fit is told to ignore (all modes, or one of them).  The (n, m) terms and the coefficients of Q2d_nm_c_to_a_b ('iterable') are also given as "
        "things that can be walked once - zip(ns, ms), a generator expression, iter(list), map(...) - and as the keys / values views of a dict; the cosine / sine "
        "tables of compute_z_zprime_Q2d ('iterable of iterables') as list, tuple, iter(list), generator (new objects for every call; the per-order vectors stay "
        "sized containers, as do the coefficient vectors of the 1-D sums, which the unchanged code takes len() of); Jacobi (alpha, beta) also nearly equal / next "
        "to the Chebyshev and Legendre values (relative 1e-12 .. 1e-4).  Oracle: the explicit sum  sum_k c_k * mode_k  built by the "
        "harness from the scalar mode functions (jacobi, Qbfs, Qcon, Q2d, zernike_nm) or from the mode arrays "
        "themselves (sum_of_2d_modes); structural laws of the Q2d coefficient packer; for lstsq the synthesising "
        "coefficients, invariance under exchanging one non-finite marker for another, and for data that is not in the "
        "span the normal-equation residual A^H (A c - d) = 0 over exactly the finite samples (plus SciPy's least-squares "
        "solution where the conditioning makes two correct solvers agree).  Every fast path is called twice with the "
        "same argument objects: all arguments (coefficients, coordinates, modes, data, packed vectors) must compare "
        "equal to copies taken before, the second result must be right too, and the first result must not change when "
        "the routine is called again with other coefficients.  "
        "Tolerances: 1e-10 relative to sum|c_k| max|mode_k| (observed <= 2e-14 up to length 300) for sums in double, 1e-3 "
        "where coordinates or coefficients are single precision (observed <= 6e-6); fits: |c_fit - c| <= (1e-10 + 1000 "
        "cond eps) max|c| (for the all-zero vector: times the coefficient unit of the data's magnitude) with cond < 1e9 (numpy's SVD solver on the unchanged code: <= 40 cond eps and <= 2e-13 "
        "absolute over 3000 bases with cond 1 .. 1e10; a normal-equation solver is wrong by cond^2 eps).  Non-trivial = "
        "sparse, all-zero or length-1 vector, or an azimuthal order present in one family only, or "
        "a non-finite sample present, or a coordinate array that is not 1-D, or a non-default container / dtype / layout / "
        "entry point / history / magnitude.")
ASSUMPTIONS = ["the scalar mode functions are the reference for the sums (their own correctness is C07)",
               "numpy / scipy linear algebra is correct", "coefficient vectors are non-empty and dense in order "
               "(ascending from order 0) as documented, floating point (integer ndarrays are not 'iterable of float'); the "
               "(n,m) list given to the packer has no repeated pair",
               "a coordinate given as a scalar (or as whole numbers) may sit exactly where a mode vanishes: there each term counts with at least "
               "magnitude |c_k| in the rounding scale (the scalar mode routine is the less accurate side at such points)",
               "numpy integer / boolean coordinates of the 1-D Clenshaw sums and integer / boolean modes or complex weights of real modes in "
               "sum_of_2d_modes were genuine defects of the pinned tree (repaired by fix commits 7dc0ef6 and 298d9f8); the module flags "
               "CLENSHAW_WHOLE_COORDS / TENSOR_WEIGHTS_KEPT that gate those input classes are set",
               "lstsq is only asked to fit when the masked design matrix has condition number < 1e9, three orders of "
               "magnitude inside numpy's default rank cut-off eps * samples (otherwise the case is counted as excluded)"]

LMAX = {'quick': 60, 'thorough': 150}
DMAX = {'quick': 7, 'thorough': 12}
EPS = float(np.finfo(np.float64).eps)
# magnitude of the data (every sum is linear in the coefficients, every fit in the data): an overall decimal exponent.  Picometres
# written in metres, 1e-17 .. 1e-30 (far below machine epsilon in absolute terms), microns of a large part, photon counts
WEXPS = [0, 0, 0, 0, -9, -9, -12, -17, -20, -30, 6, 30]
wexps = st.sampled_from(WEXPS)


def wexp_of(case, single=False, integer=False, hi=6):
    """the decimal exponent of the case (0 in replays recorded before it existed); whole-number containers carry none, single
    precision keeps it where neither the coefficients nor the partial sums leave the float32 range"""
    e = int(case.get('wexp', 0))
    if integer:
        return 0
    return max(-30, min(e, hi)) if single else e


def exp_label(e):
    return 'magnitude:1' if e == 0 else 'magnitude:1e%+d' % e if abs(e) < 15 else 'magnitude:<=1e-17' if e < 0 else 'magnitude:1e+30'


# ---- shared strategies -----------------------------------------------------------------------------
def coef_spec(L):
    """[length, pattern, k]: pattern dense | sparse | single | trailing-zeros ; the values come from the case seed"""
    n = st.one_of(st.sampled_from([1, 2, 3]), st.integers(1, 12), st.integers(4, 12), st.integers(4, 12), st.integers(13, L))
    return st.tuples(n, st.sampled_from(['dense', 'dense', 'dense', 'dense', 'sparse', 'sparse', 'single', 'single', 'tail0', 'tail0', 'zero', 'equal']),
                     st.integers(0, 10 ** 6)).map(list)


def expand_coefs(spec, seed, salt):
    n, pattern, k = int(spec[0]), spec[1], int(spec[2])
    r = U.rng_of(seed, salt)
    c = r.uniform(-1, 1, n)
    c = np.where(np.abs(c) < 0.05, 0.05, c)   # keep the non-zeros away from zero
    if pattern == 'sparse':
        keep = U.rng_of(k, 77).integers(0, 2, n).astype(bool)
        if not keep.any():
            keep[k % n] = True
        c = np.where(keep, c, 0.0)
    elif pattern == 'single':
        z = np.zeros(n)
        z[k % n] = c[k % n]
        c = z
    elif pattern == 'tail0' and n > 1:
        c[1 + k % (n - 1):] = 0.0
    elif pattern == 'zero':                   # the all-zero coefficient vector: the surface is identically zero
        c = np.zeros(n)
    elif pattern == 'equal':                  # one value for every term (exact ties)
        c = np.full(n, c[k % n])
    return c


def coef_class(c):
    nz = int(np.count_nonzero(c))
    if nz == 0:
        return 'all-zero'
    if len(c) == 1:
        return 'len1'
    if nz == 1:
        return 'single-term'
    return 'dense' if nz == len(c) else 'sparse'


CONTAINERS = ['array', 'array', 'list', 'tuple', 'view', 'array-f32', 'int-list', 'array-int']
# an integer ndarray of coefficients is only read by jacobi_sum_clenshaw; the Qbfs / Q2d changes of basis allocate their output
# 'like' the input and truncate on the unchanged tree (repair pending as fixes/C09/06-q-change-of-basis-integer-coefficients):
# add 'array-int' to CONTAINERS once that repair is in the repository
CONTAINERS_READ_ONLY = CONTAINERS + ['array-int']


def contain(c, how):
    """(argument object, the float64 values it holds).  array: a float64 ndarray (the object most callers pass, and the one an
    in-place algorithm would clobber); view: every other element of a longer float64 buffer; array-f32: single precision."""
    c = np.asarray(c, dtype=np.float64)
    if how == 'int-list':                     # whole numbers given as Python ints, same zero pattern
        c = np.sign(c) * np.ceil(np.abs(c) * 5)
        return [int(v) for v in c], c
    if how == 'array-int':                    # the same whole numbers as an int64 ndarray
        c = np.sign(c) * np.ceil(np.abs(c) * 5)
        return c.astype(np.int64), c
    if how == 'list':
        return [float(v) for v in c], c
    if how == 'tuple':
        return tuple(float(v) for v in c), c
    if how == 'view':
        buf = np.full(2 * len(c), 123.0)
        buf[::2] = c
        return buf[::2], c
    if how == 'array-f32':
        c32 = c.astype(np.float32)
        return c32, c32.astype(np.float64)
    return c.copy(), c


def same_values(arg, values):
    """the argument object still holds the coefficient values it was created with"""
    a = np.asarray(arg, dtype=np.float64)
    return a.shape == np.shape(values) and bool(np.all(a == values))


# every scalar flavour of a coordinate ('x : ndarray or float_like'; the Q routines say 'ndarray' and take the same scalars on the
# unchanged tree).  A spec is [kind, shape] or, for a scalar, [kind, [], pick]:
#   pyint, pybool : a bare Python int / bool - the whole numbers of the interval (-1, 0, 1; for u: 0, 1; False, True)
#   pyfloat, npscalar (np.float64), np.float32, np.longdouble : a random point, or (pick) the lower end, the upper end, zero
# (0-d arrays are ['array', []] in the coordinate dtype of the case).  numpy *integer* scalars and integer arrays are not generated: the
# unchanged routines allocate their sums in the dtype of such an x and truncate (as do the explicit sequence forms).
SCALAR_REAL = ['pyfloat', 'npscalar', 'np.float32', 'np.longdouble']
# The unchanged 1-D Clenshaw routines allocate their sums in the dtype of a coordinate that has one: numpy integer / boolean scalars,
# 0-d arrays and arrays of whole numbers (the ends and the middle of the interval written as [-1, 0, 1]) truncate every partial sum,
# where a Python int is summed in floating point.  Repair: fixes/C10/06-clenshaw-sums-whole-number-coordinates.patch.  These
# coordinate types (signed integers and booleans; unsigned ones wrap inside 2 - 4 x) are drawn once that repair is in the repository
# (set this to True then); the replays of the finding run either way.
CLENSHAW_WHOLE_COORDS = True
WHOLE_DTYPES = ['int64', 'int32', 'int8', 'bool']
SCALAR_WHOLE_NP = ['np.int64', 'np.int32', 'np.int8', 'np.bool_']
SCALAR_KINDS = ['pyint', 'pyint', 'pybool', 'pybool'] + SCALAR_REAL + SCALAR_REAL[1:] + (SCALAR_WHOLE_NP if CLENSHAW_WHOLE_COORDS else [])
SCALAR_PICKS = ['drawn', 'drawn', 'lo', 'hi', 'zero']
COORD_DTYPES = ['float64', 'float64', 'float64', 'float32'] + (WHOLE_DTYPES if CLENSHAW_WHOLE_COORDS else [])


BIG_POINTS = [[65537], [70001], [3, 22003]]      # more than 2**16 coordinates, not a multiple of it (such a case carries at most BIG_TERMS terms)
BIG_TERMS = 6


def point_spec(D, scalars=SCALAR_KINDS, big=False):
    d = st.integers(1, D)
    scalar = st.tuples(st.sampled_from(scalars), st.just([]), st.sampled_from(SCALAR_PICKS)).map(list)
    two = st.tuples(d, d).map(lambda t: ['array', list(t)])
    return st.one_of(scalar, scalar, st.just(['array', []]), d.map(lambda a: ['array', [a]]), two,
                     st.one_of(two, two, two, st.sampled_from(BIG_POINTS).map(lambda sh: ['array', list(sh)])) if big else two)


def is_big(spec):
    return int(np.prod(spec[1], dtype=np.int64)) > 2 ** 12 if spec[1] else False


def is_scalar(spec):
    return spec[0] != 'array'


def points(spec, seed, lo, hi, salt, dtype='float64', layout='C'):
    kind, shape = spec[0], spec[1]
    pick = spec[2] if len(spec) > 2 else 'drawn'
    r = U.rng_of(seed, salt)
    x = r.uniform(lo, hi, tuple(int(s) for s in shape))
    pin = r.integers(0, 24, x.shape)
    x = np.where(pin == 0, lo, np.where(pin == 1, hi, x))
    if kind != 'array':
        if kind in ('pyint', 'pybool') or kind in SCALAR_WHOLE_NP:
            whole = [i for i in range(int(np.ceil(lo)), int(np.floor(hi)) + 1) if 'bool' not in kind or i in (0, 1)]
            i = {'lo': whole[0], 'hi': whole[-1], 'zero': 0}.get(pick, whole[int(r.integers(0, len(whole)))])
            return {'pyint': int, 'pybool': bool, 'np.int64': np.int64, 'np.int32': np.int32, 'np.int8': np.int8, 'np.bool_': np.bool_}[kind](i)
        v = {'lo': float(lo), 'hi': float(hi), 'zero': 0.0}.get(pick, float(x))
        return {'pyfloat': float, 'npscalar': np.float64, 'np.float32': np.float32, 'np.longdouble': np.longdouble}[kind](v)
    if dtype.startswith('complex'):
        r2 = U.rng_of(seed, salt + 1000)
        x = x + 1j * np.where(r2.integers(0, 4, x.shape) == 0, 0.0, r2.uniform(-0.3, 0.3, x.shape))
    elif dtype in WHOLE_DTYPES:        # the whole numbers of the interval
        x = r.integers(max(int(np.ceil(lo)), 0 if dtype == 'bool' else -9), min(int(np.floor(hi)), 1 if dtype == 'bool' else 9) + 1, x.shape)
    if not shape:                      # a true 0-d array (relayout's ascontiguousarray would make it 1-D)
        return np.array(x, dtype=dtype)
    return U.relayout(np.asarray(x, dtype=dtype), layout)


def whole_coords(spec, dtype):
    """the coordinate is whole-number typed (Python int / bool, numpy integer / boolean scalar or array)"""
    return spec[0] in ('pyint', 'pybool') or spec[0] in SCALAR_WHOLE_NP if spec[0] != 'array' else dtype in WHOLE_DTYPES


def coord_single(spec, dtype):
    """the coordinate is single precision (an array of float32, or a numpy float32 scalar)"""
    return dtype == 'float32' if spec[0] == 'array' else spec[0] == 'np.float32'


def as_single(x, spec, seed, lo, hi, salt, dtype, layout):
    """the same coordinate in single precision (for the call that precedes the checked one)"""
    if is_scalar(spec):
        return np.float32(x)
    return points(spec, seed, lo, hi, salt, 'complex64' if dtype.startswith('complex') else 'float32', layout)


def f64(x):
    """the double precision value of a coordinate argument (single precision coordinates and whole numbers are exact in double)"""
    if isinstance(x, float):
        return x
    return np.asarray(x, dtype=np.complex128 if np.iscomplexobj(x) else np.float64)


def pt_class(spec):
    return spec[0] if spec[0] != 'array' else 'ndim%d' % len(spec[1])


def pt_labels(spec, x):
    """labels of a scalar coordinate: its flavour, and whether its value is a whole number (an end or the middle of the interval)"""
    if not is_scalar(spec):
        return []
    return ['scalar-coordinate:' + spec[0], 'scalar-value:' + ('whole' if float(x) == int(float(x)) else 'fraction')]


def ws_dtype(x):
    """dtype of a caller-supplied alphas workspace for the coordinate x: that of x where x is floating point (at least single),
    double for a Python scalar (the library's own default)"""
    dt = np.asarray(x).dtype
    return np.result_type(dt, np.float32) if dt.kind in 'fc' else np.dtype(np.float64)


# caller-supplied workspaces (alphas=): what the buffer holds when it is handed over.  'zeros' is what the library would allocate
# itself; 'junk' / 'nan' only for the routines whose unchanged code assigns every row of the buffer ('array to store the alpha
# sums in'), so what it held before cannot matter.  One buffer serves every call of a case: the second use must be as right as the first.
WS_FILLS = {'zeros': 0.0, 'junk': 3.25, 'nan': float('nan')}


def workspace(fill, shape, dtype):
    return np.full(tuple(int(v) for v in shape), WS_FILLS[fill], dtype=np.result_type(dtype, np.float32))


def _guard(ctx, cls, fn, *a, **k):
    try:
        return ctx.call(fn, *a, **k)
    except Violation as v:
        raise Violation(v.bucket + ':' + cls, v.msg) from v


def _call(ctx, cls, fn, names, args, kw, **extra):
    """fn(*args, **extra) with the arguments by position, or every one of them by its documented name"""
    if kw:
        return _guard(ctx, cls, fn, **dict(zip(names, args)), **extra)
    return _guard(ctx, cls, fn, *args, **extra)


# the documented parameter names of the fast paths
NAMES = {'jacobi_sum_clenshaw': ('s', 'alpha', 'beta', 'x'), 'jacobi_sum_clenshaw_der': ('s', 'alpha', 'beta', 'x'),
         'clenshaw_qbfs': ('cs', 'usq'), 'clenshaw_qbfs_der': ('cs', 'usq'), 'compute_z_zprime_Qbfs': ('coefs', 'u', 'usq'),
         'compute_z_zprime_Qcon': ('coefs', 'u', 'usq'), 'clenshaw_q2d': ('cns', 'm', 'usq'), 'clenshaw_q2d_der': ('cns', 'm', 'usq'),
         'compute_z_zprime_Q2d': ('cm0', 'ams', 'bms', 'u', 't'), 'Q2d_nm_c_to_a_b': ('nms', 'coefs')}


def param_as(v, how):
    """a real parameter (alpha, beta) or an integer order (m) as callers hold it: the Python number as drawn, a numpy float64, and -
    where it is a whole number - a Python int or a numpy int64 (0-d arrays cannot be hashed by the cached recurrence tables)"""
    if how == 'np.float64':
        return np.float64(v)
    if how in ('int', 'np.int64', 'np.int32') and float(v).is_integer():
        return {'int': int, 'np.int64': np.int64, 'np.int32': np.int32}[how](int(v))
    return v


def explicit_sum(ctx, mode, cs, shape, dtype=np.float64, single=False, one_point=False):
    """sum_k c_k mode(k) with the magnitude sum_k |c_k| max|mode(k)| that sets the rounding scale.

    one_point: the coordinate is one scalar, possibly exactly 0 or an end of the interval, where a mode can (nearly) vanish although it is
    formed from terms of order 1 - P_1^(0, 1e-9)(0) = 1 - 1 - 5e-10 in the scalar routine, which is the less accurate side there.  Neither
    side can do better than eps times those terms, so a mode counts with at least magnitude 1 (the modes are normalised to order 1 on
    their interval; the observed errors stay <= 1e-3 of the tolerance).

    single: the routine is given single-precision coordinates or coefficients.  No routine can be more accurate than the rounding
    of its own input (one ulp of float32 in the coordinate moves mode k by about eps32 * k^2 * O(1)), so the magnitude has the floor
    sum_k |c_k| (1+k)^2 * 5e-4, which at the single-precision rtol of 1e-3 is 8 eps32 * sum_k |c_k| (1+k)^2.  (Found by a background
    sweep: one float32 point next to u = 1, where Qbfs_0 = u^2 (1-u^2) is ill-conditioned, compared relative to the value at that point.)"""
    total = np.zeros(shape, dtype=dtype)
    mag = 0.0
    floor = 0.0
    for k, c in enumerate(cs):
        if c == 0:
            continue
        mk = np.asarray(ctx.call(mode, k), dtype=dtype)
        total = total + float(c) * mk
        mag += abs(float(c)) * (max(float(np.max(np.abs(mk))), 1.0) if one_point else float(np.max(np.abs(mk)))) if mk.size else 0.0
        floor += abs(float(c)) * (1 + k) ** 2 * 5e-4
    return total, (max(mag, floor) if single else mag)


def cmp_sum(got, want, mag, bucket, what, rtol=1e-10):
    got = np.asarray(got)
    return U.check_close(got, np.asarray(want), 0.0, bucket, what, atol=rtol * max(mag, 1e-300))


def unchanged(ctx, now, before, bucket, what):
    now, before = np.asarray(now), np.asarray(before)
    ctx.require(now.shape == before.shape and now.dtype == before.dtype and bool(np.all((now == before) | ((now != now) & (before != before)))),
                bucket, '%s was modified by the call' % what)


def snapshot(x):
    return x if isinstance(x, float) else np.array(x, copy=True)


@contextlib.contextmanager
def single_session(ctx, seed):
    """the earlier single-precision request of a 'single-first' history: as it was (single-precision data under the double-precision configuration),
    or as the start of a session - every memo of the polynomial modules cold and prysm.conf.config.precision = 32 while the request runs"""
    how = seed % 3
    if how == 0:
        yield
        return
    if how == 2:
        U.cold_start()
        ctx.label('history:cold-caches')
    ctx.label('history:single-precision-configuration')
    with U.precision(32):
        yield



# ---- sum_of_2d_modes -------------------------------------------------------------------------------
# The unchanged sum_of_2d_modes casts the weights to the dtype of the modes: integer / boolean modes (segment masks, index ramps) truncate
# them, real modes discard the imaginary part of complex weights.  Repair: fixes/C10/05-sum-of-2d-modes-weights-cast.patch.  The two input
# classes are drawn once that repair is in the repository (set this to True then); the replays of the finding run either way.
TENSOR_WEIGHTS_KEPT = True
WHOLE_MODES = ['int64', 'int32', 'uint8', 'bool']


def strat_tensor(tier):
    D = {'quick': 8, 'thorough': 24}[tier]
    d = st.integers(1, D)
    return st.fixed_dictionaries({
        'coefs': coef_spec(LMAX[tier]), 'shape': st.one_of(st.tuples(d, d).map(list), d.map(lambda a: [a, a]), d.map(lambda a: [a]),
                                                           st.just([1, 1]), st.just([67, 263]), st.sampled_from([[3, 22003], [65537, 1], [1, 70001]])),
        'container': st.sampled_from(['array', 'array', 'list', 'list-weights', 'tuple', 'int-weights']),
        'dtype': st.sampled_from(['float64', 'float64', 'float32', 'complex128'] + (WHOLE_MODES if TENSOR_WEIGHTS_KEPT else [])), 'layout': U.layouts,
        'cweights': st.sampled_from([False, False, False, True]) if TENSOR_WEIGHTS_KEPT else st.just(False),
        'history': st.sampled_from(['none', 'none', 'single-first', 'other-weights']), 'kw': st.booleans(), 'seed': U.seeds,
        # magnitude: the weights, the modes, or both in opposite directions (sum of order 1) carry the decimal exponent
        'wexp': wexps, 'scaled': st.sampled_from(['weights', 'weights', 'modes', 'opposite']),
        # the modes are NaN at some samples (outside an aperture): the sum is NaN there and right everywhere else
        'nanpix': st.sampled_from([False, False, False, True]),
        # the same mode given twice: the last mode is the first one again (for list / tuple input the very same array object), with an
        # independent or with exactly the same weight
        'dup': st.sampled_from(['none', 'none', 'none', 'mode', 'mode+weight'])})


def check_tensor(case, ctx):
    """sum_of_2d_modes(modes, w) == sum_k w_k * modes[k] for mode stacks of shape (k, m, n) (and (k, n)), array / list / tuple
    input, real or complex modes, any memory layout; arguments unchanged; repeatable."""
    from prysm import polynomials as P
    w = expand_coefs(case['coefs'], case['seed'], 1)
    container, dtype = case['container'], case['dtype']
    layout, history = case.get('layout', 'C'), case.get('history', 'none')
    if container == 'int-weights':
        w = np.sign(w) * np.ceil(np.abs(w) * 5)          # whole numbers, same zero pattern
    k = len(w)
    shape = tuple(int(s) for s in case['shape'])
    if int(np.prod(shape)) > 2 ** 12:
        k = min(k, 5)                                    # the large-array class carries few modes
        w = w[:k]
    modes = U.rng_of(case['seed'], 2).uniform(-1, 1, (k,) + shape)
    if dtype.startswith('complex'):
        modes = modes + 1j * U.rng_of(case['seed'], 3).uniform(-1, 1, (k,) + shape)
    whole = dtype in WHOLE_MODES
    if whole:                                            # whole-number modes -3..3 (uint8: 0..3, bool: False / True)
        modes = np.rint(3 * modes)
        modes = np.abs(modes) if dtype == 'uint8' else (modes > 0).astype(np.float64) if dtype == 'bool' else modes
    cweights = bool(case.get('cweights', False)) and container != 'int-weights'
    if cweights:                                         # complex weights (of real or complex modes)
        w = w + 1j * np.where(w != 0, U.rng_of(case['seed'], 5).uniform(-1, 1, k), 0.0)
    e = wexp_of(case, single=dtype == 'float32', hi=30, integer=whole and container == 'int-weights')
    scaled = case.get('scaled', 'weights')
    if container == 'int-weights':
        scaled = 'modes'                                 # whole-number weights: only the modes carry the magnitude
    elif whole:
        scaled = 'weights'                               # whole-number modes: only the weights do
    if e and scaled in ('weights', 'opposite'):
        w = w * 10.0 ** e
    if e and scaled in ('modes', 'opposite'):
        modes = modes * 10.0 ** (e if scaled == 'modes' else -e)
    mscale = 10.0 ** ((e if scaled == 'modes' else -e if scaled == 'opposite' else 0) if e else 0)
    nanpix = bool(case.get('nanpix', False)) and int(np.prod(shape)) > 1 and not whole
    if nanpix:
        hole = U.rng_of(case['seed'], 4).uniform(0, 1, shape) < 0.25
        modes[:, hole] = np.nan
    dup = case.get('dup', 'none') if k > 1 else 'none'
    if dup != 'none':
        modes[k - 1] = modes[0]
        if dup == 'mode+weight':
            w[k - 1] = w[0]
    modes = U.relayout(modes.astype(dtype), layout)
    cls = coef_class(w)
    ctx.nt(cls != 'dense' or shape[0] != shape[-1] or dtype != 'float64' or layout != 'C' or container != 'array' or history != 'none' or e != 0 or nanpix
           or dup != 'none' or cweights)
    ctx.label('same-mode-twice:' + dup, 'weights:' + ('complex' if cweights else 'real'))
    ctx.label(cls, 'ndim%d' % len(shape), container, dtype, 'k==rows' if k == shape[0] else 'k!=rows', 'layout:' + layout,
              'history:' + history, 'len>=13' if k >= 13 else 'len<13', 'big>2**16' if int(np.prod(shape)) > 2 ** 16 else 'big' if int(np.prod(shape)) > 2 ** 12 else 'small',
              exp_label(e), 'scaled:' + (scaled if e else 'nothing'), 'modes-nan-at-some-samples' if nanpix else 'modes-finite')
    rows = [m for m in modes]
    if dup != 'none':
        rows[k - 1] = rows[0]                            # one array object at two places of the sequence
    arg_m = {'list': rows, 'list-weights': rows, 'tuple': tuple(rows)}.get(container, modes)
    num = complex if cweights else float
    arg_w = {'list-weights': [num(v) for v in w], 'tuple': tuple(num(v) for v in w), 'int-weights': w.real.astype(np.int64)}.get(container, w.copy())
    if history == 'single-first':
        _guard(ctx, cls, P.sum_of_2d_modes, modes.astype('complex64' if dtype.startswith('complex') else 'float32'), w.astype(np.complex64 if cweights else np.float32))
    elif history == 'other-weights':
        _guard(ctx, cls, P.sum_of_2d_modes, arg_m, w[::-1].copy())
    m_before = modes.copy()
    got = _guard(ctx, cls, P.sum_of_2d_modes, modes=arg_m, weights=arg_w) if case.get('kw', False) else _guard(ctx, cls, P.sum_of_2d_modes, arg_m, arg_w)
    unchanged(ctx, modes, m_before, 'sum_of_2d_modes:argument-modified:modes', 'the mode stack')
    ctx.require(np.shape(arg_w) == w.shape and bool(np.all(np.asarray(arg_w) == w)), 'sum_of_2d_modes:argument-modified:weights',
                'the weights %r became %r' % ([num(v) for v in w], arg_w))
    want = np.zeros(shape, dtype=np.complex128 if dtype.startswith('complex') or cweights else np.float64)
    for i in range(k):
        want = want + w[i] * modes[i].astype(want.dtype)
    U.check_shape(got, shape, 'sum_of_2d_modes:' + cls, 'sum of %d modes of shape %s' % (k, shape))
    if nanpix and not np.any(w):
        # every weight is zero: whether 0 * NaN is formed (NaN) or skipped (0) at the samples without a mode value is the business of the
        # BLAS behind tensordot; nothing is asserted there
        got_cmp = np.where(hole, np.nan, np.asarray(got))
    else:
        got_cmp = got
    mag = float(np.sum(np.abs(w))) * (1.5 if dtype.startswith('complex') else 3.0 if whole else 1.0) * mscale
    rtol = 1e-5 * k if dtype == 'float32' else 1e-12 * k
    mcls = ('' if e == 0 else ':%s-1e%+d' % (scaled, e)) + (':complex-weights' if cweights else '')
    cmp_sum(got_cmp, want, mag, 'sum_of_2d_modes:%s:%s%s' % (cls, dtype, mcls), 'sum_of_2d_modes of %d modes %s (%s, %s%s%s)' % (
        k, shape, container, layout, mcls.replace(':', ', '), ', modes NaN at %d samples' % int(hole.sum()) if nanpix else ''), rtol=rtol)
    kept = np.array(got, copy=True)
    other = _guard(ctx, cls, P.sum_of_2d_modes, arg_m, w[::-1].copy())
    U.check_equal(np.asarray(got), kept, 'sum_of_2d_modes:result-overwritten', 'the first sum after a second call with other weights')
    want2 = np.zeros(shape, dtype=want.dtype)
    for i in range(k):
        want2 = want2 + w[k - 1 - i] * modes[i].astype(want.dtype)
    if nanpix and not np.any(w):
        other = np.where(hole, np.nan, np.asarray(other))
    cmp_sum(other, want2, mag, 'sum_of_2d_modes:second-call:%s%s' % (dtype, mcls), 'second call with the weights reversed', rtol=rtol)


# ---- Jacobi Clenshaw -------------------------------------------------------------------------------
_AB = [-0.5, 0.5, 0, 1, 2, 4, 1.5, -0.75, 0.25, 3]
_NEARLY = [1e-4, -3e-5, 1e-5, -3e-6, 1e-6, -1e-7, 1e-9, -1e-12]      # relative distance from an equality-defined special case
_TINY = [0.0, 1e-9, -1e-9, 3e-9, -5e-9, 1e-8]


def strat_jacobi(tier):
    ab = st.one_of(st.tuples(st.sampled_from(_AB), st.sampled_from(_AB)).map(list),
                   st.tuples(U.nice_float(-0.95, 6.0), U.nice_float(-0.95, 6.0)).map(list),
                   # on and next to the special lines alpha+beta = 0 and alpha+beta = -1
                   U.nice_float(-0.95, 0.95).map(lambda a: [a, -a]),
                   st.tuples(U.nice_float(-0.95, 0.95), st.sampled_from([5.5e-17, -1.1e-16, 1e-15, 1e-12, -1e-9, 1e-6])).map(lambda t: [t[0], -t[0] + t[1]]),
                   st.tuples(U.nice_float(-0.95, -0.05), st.sampled_from([0.0, 1.1e-16, -2.2e-16, 1e-12, -1e-9])).map(lambda t: [t[0], -1.0 - t[0] + t[1]]),
                   # nearly, but not exactly, equal parameters (next to the ultraspherical case alpha = beta) and pairs next to the Chebyshev
                   # half-integer / Legendre values, relative 1e-12 .. 1e-4: ordinary pairs
                   st.tuples(st.one_of(st.sampled_from(_AB), U.nice_float(-0.95, 6.0)), st.sampled_from(_NEARLY), st.booleans()).map(
                       lambda t: [t[0], t[0] * (1 + t[1]) + (t[1] if t[0] == 0 else 0.0)][::1 if t[2] else -1]),
                   st.tuples(st.sampled_from([-0.5, 0.5, 0]), st.sampled_from([-0.5, 0.5, 0]), st.sampled_from(_NEARLY), st.sampled_from(_NEARLY)).map(
                       lambda t: [t[0] + t[2], t[1] - t[3]]),
                   # next to Legendre's (0, 0) by less than numpy.isclose's default absolute tolerance
                   st.tuples(st.sampled_from(_TINY), st.sampled_from(_TINY)).filter(lambda t: t != (0.0, 0.0)).map(list))
    return st.fixed_dictionaries({'coefs': coef_spec(LMAX[tier]), 'ab': ab, 'x': point_spec(DMAX[tier], big=True),
                                  'container': st.sampled_from(CONTAINERS_READ_ONLY), 'via': st.sampled_from(['plain', 'plain', 'alphas-buffer', 'alphas-reused', 'alphas-reused', 'der-row0', 'der-alphas']),
                                  'fill': st.sampled_from(['zeros', 'junk', 'nan']),
                                  'xdtype': st.sampled_from(COORD_DTYPES + ['complex128']), 'layout': U.layouts,
                                  'history': st.sampled_from(['none', 'none', 'none', 'single-first', 'other-ab', 'failed-call', 'burst']), 'seed': U.seeds, 'wexp': wexps,
                                  # arguments by position or by name; alpha / beta as Python numbers, numpy float64, (whole values) Python int / numpy int64
                                  'kw': st.booleans(), 'ab_as': st.sampled_from(['python', 'python', 'np.float64', 'int', 'np.int64'])})


def check_jacobi(case, ctx):
    """jacobi_sum_clenshaw(s, a, b, x) (plain, with a caller-supplied alphas buffer, and as row [0][0] of jacobi_sum_clenshaw_der)
    == sum_n s_n * jacobi(n, a, b, x), any length >= 1, dense or sparse; arguments unchanged; repeatable."""
    from prysm import polynomials as P
    from prysm.polynomials.jacobi import jacobi_sum_clenshaw_der
    s0 = expand_coefs(case['coefs'], case['seed'], 1)[:BIG_TERMS if is_big(case['x']) else None]
    a, b = case['ab']
    via, xdtype, layout, history = case.get('via', 'plain'), case.get('xdtype', 'float64'), case.get('layout', 'C'), case.get('history', 'none')
    kw, ab_as = bool(case.get('kw', False)), case.get('ab_as', 'python')
    a_arg, b_arg = param_as(a, ab_as), param_as(b, ab_as)
    x = points(case['x'], case['seed'], -1.0, 1.0, 2, xdtype, layout)
    scalar = is_scalar(case['x'])
    onept = scalar or whole_coords(case['x'], xdtype)        # every coordinate may sit where a mode (nearly) vanishes
    single = coord_single(case['x'], xdtype) or case['container'] == 'array-f32'
    e = wexp_of(case, single=single or history == 'single-first', integer=case['container'] in ('int-list', 'array-int'))
    arg, s = contain(s0 * 10.0 ** e, case['container'])
    cls, pcls = coef_class(s), pt_class(case['x'])
    ctx.nt(cls != 'dense' or pcls != 'ndim1' or via != 'plain' or case['container'] != 'array' or history != 'none' or e != 0 or
           (not scalar and (xdtype != 'float64' or layout != 'C')) or kw or type(a_arg) is not type(a))
    ctx.label('arguments:' + ('by-name' if kw else 'by-position'), 'alpha-beta-as:%s,%s' % (type(a_arg).__name__, type(b_arg).__name__))
    ctx.label(cls, pcls, 'points>2**16' if is_big(case['x']) else 'points<=49', 'len=%s' % (len(s) if len(s) < 4 else ('4+' if len(s) < 13 else '13+')), 'a+b in {0,-1}' if a + b in (0, -1) else 'general ab',
              'alpha=beta' if a == b else 'alpha~beta' if abs(a - b) <= 1.5e-4 * max(1.0, abs(a)) else 'alpha!=beta',
              'container:' + case['container'], 'via:' + via, 'history:' + history, exp_label(e),
              *(pt_labels(case['x'], x) if scalar else ['x:' + xdtype, 'layout:' + layout]))
    if e:
        cls += ':coefficients-1e%+d' % e
    if scalar:
        cls += ':x-is-a-' + case['x'][0]

    fill = case.get('fill', 'junk')
    if via in ('alphas-reused', 'der-alphas'):
        ctx.label('workspace:' + fill)
    if via == 'der-alphas' and len(s) < 2:
        via = 'der-row0'        # the documented shape (j+1, len(s), ...) has no row [.][1] for a single coefficient
    shared = {}                 # the one workspace of this case, by shape (every call of a case has the same shape)

    def ws(shape, xx):
        if shape not in shared:
            shared[shape] = workspace(fill, shape, ws_dtype(x))
            ctx.tally('workspaces allocated', 1)
        else:
            ctx.tally('workspace re-used', 1)
        return shared[shape]

    def fast(sarg, aa, bb, xx):
        if via == 'alphas-buffer':
            # 'array to store the alpha sums in': every row is assigned, so what the buffer held before is irrelevant
            buf = np.full((len(sarg),) + np.shape(xx), 3.25, dtype=ws_dtype(xx))
            return _call(ctx, cls, P.jacobi_sum_clenshaw, NAMES['jacobi_sum_clenshaw'], (sarg, aa, bb, xx), kw, alphas=buf)
        if via == 'alphas-reused':
            # the same buffer for every call of the case; 'alphas[0] contains the sum and is returned', so the result is copied out
            # before the buffer is used again
            return np.array(_call(ctx, cls, P.jacobi_sum_clenshaw, NAMES['jacobi_sum_clenshaw'], (sarg, aa, bb, xx), kw, alphas=ws((len(sarg),) + np.shape(xx), xx)), copy=True)
        if via == 'der-alphas':
            # only the returned array is read (the unchanged routine returns its own array and leaves the caller's alone)
            return np.array(_call(ctx, cls, jacobi_sum_clenshaw_der, NAMES['jacobi_sum_clenshaw_der'], (sarg, aa, bb, xx), kw, j=1,
                                  alphas=ws((2, len(sarg)) + np.shape(xx), xx))[0][0], copy=True)
        if via == 'der-row0':
            return _call(ctx, cls, jacobi_sum_clenshaw_der, NAMES['jacobi_sum_clenshaw_der'], (sarg, aa, bb, xx), kw, j=1)[0][0]
        return _call(ctx, cls, P.jacobi_sum_clenshaw, NAMES['jacobi_sum_clenshaw'], (sarg, aa, bb, xx), kw)

    if history == 'single-first':
        with single_session(ctx, case['seed']):
            fast(arg, a_arg, b_arg, as_single(x, case['x'], case['seed'], -1.0, 1.0, 2, xdtype, layout))
    elif history == 'other-ab':
        fast(arg, a_arg + 1, b_arg + 0.5, x)
    elif history == 'failed-call':
        # a request that cannot be served (no coefficient at all; a workspace that does not fit), caught by the caller: nothing is asserted
        # about it, and the requests after it are served as if it had never been made
        for bad_args, bad_kw in (((type(arg)(arg[:0]) if not isinstance(arg, np.ndarray) else arg[:0], a_arg, b_arg, x), {}),
                                 ((arg, a_arg, b_arg, x), {'alphas': np.zeros((len(s), np.size(x) + 2))})):
            try:
                P.jacobi_sum_clenshaw(*bad_args, **bad_kw)
                ctx.label('failed-call:did-not-fail')
            except Exception:       # noqa  (whatever it raises is the routine's business)
                ctx.label('failed-call:raised')
    elif history == 'burst':
        # many distinct small requests (more recurrence coefficients than the routine's table of them holds), then the checked one
        for i in range(28):
            _guard(ctx, cls, P.jacobi_sum_clenshaw, [1.0] * 21, a + 0.03125 * (i + 1), b, 0.5)
    x_before = snapshot(x)
    got = fast(arg, a_arg, b_arg, x)
    ctx.require(same_values(arg, s), 'jacobi_sum_clenshaw:argument-modified:s', 'the coefficients %r became %r (via %s)' % ([float(v) for v in s], arg, via))
    unchanged(ctx, x, x_before, 'jacobi_sum_clenshaw:argument-modified:x', 'the coordinate array')
    xd = f64(x)
    want, mag = explicit_sum(ctx, lambda n: P.jacobi(n, a, b, xd), s, np.shape(x), np.complex128 if np.iscomplexobj(xd) else np.float64, single=single, one_point=onept)
    U.check_shape(got, np.shape(x), 'jacobi_sum_clenshaw:' + cls, 'sum of %d terms at x of shape %s' % (len(s), np.shape(x)))
    rtol = 1e-3 if single else 1e-10
    what = 'jacobi_sum_clenshaw(%r, %r, %r) [%s, %s, x %s] vs explicit sum, x.shape=%s' % (
        [float(v) for v in s], a, b, via, case['container'], '= %r (%s)' % (x, type(x).__name__) if scalar else xdtype + ' ' + layout, np.shape(x))
    cmp_sum(got, want, mag, 'jacobi_sum_clenshaw:' + cls, what, rtol=rtol)
    # once more with the same objects, after a call with other coefficients: both results right, the first one untouched
    kept = np.array(got, copy=True)
    arg2, s2 = contain(s[::-1] * 0.5, case['container'])
    got2 = fast(arg2, a_arg, b_arg, x)
    U.check_equal(np.asarray(got), kept, 'jacobi_sum_clenshaw:result-overwritten', 'the first sum after a call with other coefficients (via %s)' % via)
    want2, mag2 = explicit_sum(ctx, lambda n: P.jacobi(n, a, b, xd), s2, np.shape(x), want.dtype, single=single, one_point=onept)
    cmp_sum(got2, want2, mag2, 'jacobi_sum_clenshaw:second-call:' + cls, 'other coefficients, ' + what, rtol=rtol)
    got3 = fast(arg, a_arg, b_arg, x)
    cmp_sum(got3, want, mag, 'jacobi_sum_clenshaw:repeat:' + cls, 'the same objects again, ' + what, rtol=rtol)


# ---- Qbfs / Qcon -----------------------------------------------------------------------------------
def strat_q1d(tier):
    return st.fixed_dictionaries({'fn': st.sampled_from(['clenshaw_qbfs', 'clenshaw_qbfs', 'clenshaw_qbfs_der', 'compute_z_zprime_Qbfs', 'compute_z_zprime_Qcon', 'compute_z_zprime_Qcon']),
                                  'coefs': coef_spec(LMAX[tier]), 'u': point_spec(DMAX[tier], big=True),
                                  'container': st.sampled_from(CONTAINERS), 'udtype': st.sampled_from(COORD_DTYPES),
                                  'layout': U.layouts, 'history': st.sampled_from(['none', 'none', 'single-first', 'other-fn']), 'seed': U.seeds, 'wexp': wexps,
                                  # the documented alphas= workspace of clenshaw_qbfs / clenshaw_qbfs_der: not given, or one buffer for every call
                                  'ws': st.sampled_from(['none', 'zeros', 'zeros', 'junk', 'nan']), 'kw': st.booleans()})


def check_q1d(case, ctx):
    """clenshaw_qbfs(c, u^2), the surface documented for clenshaw_qbfs_der's alphas, and the sag returned by compute_z_zprime_Qbfs /
    _Qcon == sum_n c_n Qbfs(n,u) / Qcon(n,u); the coefficient object is not modified and gives the same surface when used again."""
    from prysm import polynomials as P
    from prysm.polynomials import qpoly as Q
    c0 = expand_coefs(case['coefs'], case['seed'], 1)[:BIG_TERMS if is_big(case['u']) else None]
    udtype, layout, history = case.get('udtype', 'float64'), case.get('layout', 'C'), case.get('history', 'none')
    u = points(case['u'], case['seed'], 0.0, 1.0, 2, udtype, layout)
    scalar = is_scalar(case['u'])
    onept = scalar or whole_coords(case['u'], udtype)        # every coordinate may sit where a mode (nearly) vanishes
    single = coord_single(case['u'], udtype) or case['container'] == 'array-f32'
    e = wexp_of(case, single=single or history == 'single-first', integer=case['container'] in ('int-list', 'array-int'))
    arg, c = contain(c0 * 10.0 ** e, case['container'])
    cls, pcls, fn = coef_class(c), pt_class(case['u']), case['fn']
    kw = bool(case.get('kw', False))
    ctx.nt(cls != 'dense' or pcls != 'ndim1' or case['container'] != 'array' or history != 'none' or udtype != 'float64' or layout != 'C' or e != 0
           or (case.get('ws', 'none') != 'none' and fn.startswith('clenshaw')) or kw)
    ctx.label('arguments:' + ('by-name' if kw else 'by-position'))
    ctx.label(fn, cls, pcls, 'points>2**16' if is_big(case['u']) else 'points<=49', 'len=%s' % (len(c) if len(c) < 4 else ('4+' if len(c) < 13 else '13+')),
              'container:' + case['container'], 'history:' + history, exp_label(e), *(pt_labels(case['u'], u) + [fn + ':' + case['u'][0]] if scalar else ['u:' + udtype, 'layout:' + layout]))
    if e:
        cls += ':coefficients-1e%+d' % e
    if scalar:
        cls += ':u-is-a-' + case['u'][0]
    usq = u * u
    ud = f64(u)
    # clenshaw_qbfs assigns every row of its workspace (any previous content); clenshaw_qbfs_der documents rows it leaves at their
    # initial zero (derivatives above the degree), so its workspace starts zeroed and is then re-used as it comes back; a single
    # coefficient has no row [.][1] in the documented shape (j+1, len(cs), ...), so it goes without
    wsk = case.get('ws', 'none')
    if fn == 'clenshaw_qbfs_der':
        wsk = 'none' if len(c) < 2 else 'zeros' if wsk != 'none' else wsk
    elif fn != 'clenshaw_qbfs':
        wsk = 'none'
    ctx.label('workspace:' + wsk)
    if wsk != 'none':
        cls += ':alphas-workspace-' + wsk
    shared = {}

    def ws(name, carg, uusq):
        if name != fn or wsk == 'none':
            return {}
        if 'buf' in shared:
            ctx.tally('workspace re-used', 1)
        else:
            shared['buf'] = workspace(wsk, ((2,) if fn == 'clenshaw_qbfs_der' else ()) + (len(carg),) + np.shape(uusq), ws_dtype(usq))
        return {'alphas': shared['buf']}

    def fast(name, carg, uu, uusq):
        if name == 'clenshaw_qbfs':
            return _call(ctx, cls, Q.clenshaw_qbfs, NAMES[name], (carg, uusq), kw, **ws(name, carg, uusq))
        if name == 'clenshaw_qbfs_der':
            al = _call(ctx, cls, Q.clenshaw_qbfs_der, NAMES[name], (carg, uusq), kw, j=1, **ws(name, carg, uusq))
            ctx.require(np.shape(al)[:1] == (2,) and np.shape(al)[1] >= 2, name + ':alphas-shape', 'alphas has shape %s' % (np.shape(al),))
            return (uusq * (1 - uusq)) * 2 * (al[0][0] + al[0][1])       # as documented for the alphas of this function
        res = _call(ctx, cls, getattr(Q, name), NAMES[name], (carg, uu, uusq), kw)
        ctx.require(len(res) == 2, name + ':arity', '%s returned %d values' % (name, len(res)))
        return res[0]
    mode = (lambda n: P.Qcon(n, ud)) if fn == 'compute_z_zprime_Qcon' else (lambda n: P.Qbfs(n, ud))   # noqa

    if history == 'single-first':
        u32 = as_single(u, case['u'], case['seed'], 0.0, 1.0, 2, 'float32', layout)
        with single_session(ctx, case['seed']):
            fast(fn, arg, u32, u32 * u32)
    elif history == 'other-fn':
        fast('compute_z_zprime_Qbfs' if fn != 'compute_z_zprime_Qbfs' else 'clenshaw_qbfs', arg, u, usq)
    u_before, usq_before = snapshot(u), snapshot(usq)
    got = fast(fn, arg, u, usq)
    ctx.require(same_values(arg, c), fn + ':argument-modified:coefficients', 'the coefficients %r became %r' % ([float(v) for v in c], arg))
    unchanged(ctx, u, u_before, fn + ':argument-modified:u', 'the radial coordinate array')
    unchanged(ctx, usq, usq_before, fn + ':argument-modified:usq', 'the squared radial coordinate array')
    want, mag = explicit_sum(ctx, mode, c, np.shape(u), single=single, one_point=onept)
    U.check_shape(got, np.shape(u), '%s:%s' % (fn, cls), 'sag of %d terms at u of shape %s' % (len(c), np.shape(u)))
    rtol = 1e-3 if single else 1e-10
    what = '%s(%r) [%s, u %s] sag vs explicit sum, u.shape=%s' % (fn, [float(v) for v in c], case['container'],
                                                                  '= %r (%s)' % (u, type(u).__name__) if scalar else udtype + ' ' + layout, np.shape(u))
    cmp_sum(got, want, mag, '%s:%s' % (fn, cls), what, rtol=rtol)
    kept = np.array(got, copy=True)
    arg2, c2 = contain(c[::-1] * 0.5, case['container'])
    got2 = fast(fn, arg2, u, usq)
    U.check_equal(np.asarray(got), kept, fn + ':result-overwritten', 'the first sag after a call with other coefficients')
    want2, mag2 = explicit_sum(ctx, mode, c2, np.shape(u), single=single, one_point=onept)
    cmp_sum(got2, want2, mag2, '%s:second-call:%s' % (fn, cls), 'other coefficients, ' + what, rtol=rtol)
    got3 = fast(fn, arg, u, usq)
    cmp_sum(got3, want, mag, '%s:repeat:%s' % (fn, cls), 'the same coefficient object again, ' + what, rtol=rtol)
    ctx.require(same_values(arg, c), fn + ':argument-modified:coefficients', 'the coefficients %r became %r after the second use' % ([float(v) for v in c], arg))


# ---- Q2d: packer + evaluator -------------------------------------------------------------------------
# 'nms : iterable', 'coefs : iterable', 'ams / bms : iterable of iterables': besides lists, tuples and arrays also the things a caller builds
# the terms with - zip(ns, ms), a generator expression, iter(list), map(...), the keys / values views of a {(n, m): c} table.  The first
# four can be walked exactly once.  (The unchanged packer zips nms and coefs once; the unchanged evaluator zips ams and bms once; the
# coefficient vector of one azimuthal order and the coefficient vectors of every 1-D sum are taken len() of - those stay sized containers.)
ONE_SHOT_PAIRS = ['zip', 'generator', 'iterator', 'map']
ONE_SHOT_COEFS = ['generator', 'iterator', 'map']
OUTER_AS = ['list', 'list', 'list', 'tuple', 'iterator', 'generator', 'zip']


def pairs_arg(nms, how):
    """the (n, m) terms in the container the case asks for; one-shot kinds are new objects at every call of this function"""
    nms = [(int(n), int(m)) for n, m in nms]
    if how == 'lists':
        return [list(p) for p in nms]
    if how == 'ndarray':
        return np.asarray(nms, dtype=np.int64).reshape(len(nms), 2)
    if how == 'zip':
        return zip([n for n, _ in nms], [m for _, m in nms])
    if how == 'generator':
        return ((n, m) for n, m in nms)
    if how == 'iterator':
        return iter(nms)
    if how == 'map':
        return map(tuple, [list(p) for p in nms])
    if how == 'dict-keys':
        return dict.fromkeys(nms).keys()
    return list(nms)


def coefs_arg(cs, how, nms=None):
    cs = [float(c) for c in cs]
    if how == 'array':
        return np.asarray(cs, dtype=np.float64)
    if how == 'tuple':
        return tuple(cs)
    if how == 'generator':
        return (c for c in cs)
    if how == 'iterator':
        return iter(cs)
    if how == 'map':
        return map(float, cs)
    if how == 'dict-values':
        return dict(zip(range(len(cs)), cs)).values()
    return list(cs)


def outer_arg(table, how):
    """the list of per-order coefficient vectors as the outer iterable the case asks for (the row objects are the table's own)"""
    if how == 'tuple':
        return tuple(table)
    if how == 'iterator':
        return iter(table)
    if how == 'generator':
        return (row for row in table)
    if how == 'zip':
        return (row for (row,) in zip(table))
    return table


def strat_q2d(tier):
    N, M = {'quick': (20, 12), 'thorough': (40, 24)}[tier]
    n = st.one_of(st.integers(0, 3), st.integers(0, 8), st.integers(0, N))
    content = st.sampled_from(['mixed', 'paired', 'paired', 'cos', 'sin', 'cos+m0', 'sin+m0', 'm0', 'disjoint', 'twin', 'twin-dense', 'twin-dense'])
    am = st.one_of(st.sampled_from([1, 1, 1, 2, 3]), st.integers(1, M))

    def pairs(kind):
        if kind == 'cos':
            m = st.integers(1, M)
        elif kind == 'sin':
            m = st.integers(-M, -1)
        elif kind == 'cos+m0':
            m = st.integers(0, M)
        elif kind == 'sin+m0':
            m = st.integers(-M, 0)
        elif kind == 'm0':
            m = st.just(0)
        elif kind == 'disjoint':   # cosine terms at odd |m|, sine terms at even |m|: every order lives in one family only
            m = st.integers(1, M).map(lambda v: v if v % 2 else -v)
        elif kind == 'twin':       # every drawn (n, |m|) is given to both families (equal radial lengths per order), in any order
            base = st.lists(st.tuples(st.one_of(st.integers(0, 6), n), am), min_size=1, max_size=7, unique_by=lambda p: (p[0], p[1]))
            return base.flatmap(lambda b: st.permutations([[nn, mm] for nn, mm in b] + [[nn, -mm] for nn, mm in b]))
        elif kind == 'twin-dense':  # complete radial sets n = 0..N of a few azimuthal orders, both families (and sometimes m = 0)
            sets = st.lists(st.tuples(st.one_of(am, st.just(0)), st.integers(0, 8)), min_size=1, max_size=3, unique_by=lambda p: p[0])
            return sets.flatmap(lambda b: st.permutations([[nn, sg * mm] for mm, N_ in b for sg in ((1, -1) if mm else (1,)) for nn in range(N_ + 1)]))
        elif kind == 'paired':     # few azimuthal orders, so cosine and sine partners of the same |m| both occur
            m = st.sampled_from([-2, -1, 1, 2, 0, -3, 3])
        else:
            m = st.one_of(st.integers(-3, 3), st.integers(-M, M))
        return st.lists(st.tuples(n, m).map(list), min_size=1, max_size=14, unique_by=lambda p: (p[0], p[1]))
    return st.fixed_dictionaries({'nms': content.flatmap(pairs), 'zero': st.sampled_from(['none', 'none', 'none', 'none', 'some', 'some', 'all']),
                                  # value pattern of the coefficients: independent draws; the sine term of an (n, |m|) repeats the cosine term
                                  # exactly (a term clocked by 45/m degrees); one constant for every term; every coefficient 1
                                  'values': st.sampled_from(['random', 'random', 'mirror', 'mirror', 'constant', 'ones']),
                                  'pts': point_spec(DMAX[tier], SCALAR_REAL),
                                  'pairs_as': st.sampled_from(['tuples', 'tuples', 'tuples', 'lists', 'ndarray', 'dict-keys'] + ONE_SHOT_PAIRS),
                                  'coefs_as': st.sampled_from(['list', 'list', 'list', 'array', 'tuple', 'dict-values'] + ONE_SHOT_COEFS),
                                  'outer_as': st.sampled_from(OUTER_AS),
                                  'udtype': st.sampled_from(['float64', 'float64', 'float64', 'float32']), 'layout': U.layouts, 'seed': U.seeds, 'wexp': wexps,
                                  'kw': st.booleans()})


def _deep(v):
    """a deep, comparable copy of a (possibly nested, possibly None) coefficient structure"""
    if v is None:
        return None
    if isinstance(v, np.ndarray):
        return [float(e) for e in v] if v.ndim == 1 else [_deep(e) for e in v]
    if isinstance(v, (list, tuple)):
        return [_deep(e) for e in v]
    return float(v)


def _twin_labels(twins, lens):
    """labels for the azimuthal orders whose cosine and sine coefficient vectors are equal element by element (non-empty); m = 1 with more
    than three terms is where the evaluator applies Forbes' extra term of Eq. B.7 to each family"""
    if not twins:
        return ['equal-families:none']
    out = ['equal-families:some']
    if 1 in twins:
        out.append('equal-families:m=1:len>=4' if lens[1] >= 4 else 'equal-families:m=1:len<4')
    if any(m > 1 for m in twins):
        out.append('equal-families:m>1')
    return out


def check_q2d(case, ctx):
    """Q2d_nm_c_to_a_b obeys its structural laws and compute_z_zprime_Q2d(packed) sag == sum c * Q2d(n, m, u, t); neither routine
    modifies what it is given, and the packed vectors give the same surface when used again."""
    from prysm import polynomials as P
    from prysm.polynomials import qpoly as Q
    nms = [(int(n), int(m)) for n, m in case['nms']]
    r = U.rng_of(case['seed'], 1)
    cs = r.uniform(-1, 1, len(nms))
    cs = np.where(np.abs(cs) < 0.05, 0.05, cs)
    if case['zero'] == 'some' and len(nms) > 1:
        cs[r.integers(0, 2, len(nms)).astype(bool)] = 0.0
    elif case['zero'] == 'all':                 # every term listed with a coefficient of exactly zero: the surface is identically zero
        cs[:] = 0.0
    values = case.get('values', 'random')
    if values != 'random':
        first = {}
        for i, (n, m) in enumerate(nms):        # (n, -|m|) carries exactly the value of (n, |m|), zeros included
            cs[i] = cs[first.setdefault((n, abs(m)), i)]
        if values == 'ones':
            cs = np.where(cs != 0, 1.0, 0.0)
        elif values == 'constant':
            cs = np.where(cs != 0, float(np.round(r.uniform(0.1, 2.0), 2)), 0.0)
    udtype, layout = case.get('udtype', 'float64'), case.get('layout', 'C')
    scalar, single = is_scalar(case['pts']), coord_single(case['pts'], udtype)
    e = wexp_of(case, single=single)
    cs = [float(c) for c in cs * 10.0 ** e]
    pairs_as, coefs_as = case.get('pairs_as', 'tuples'), case.get('coefs_as', 'list')
    kw = bool(case.get('kw', False))
    ctx.label('arguments:' + ('by-name' if kw else 'by-position'))
    u = points(case['pts'], case['seed'], 0.0, 1.0, 2, udtype, layout)
    t = points(case['pts'], case['seed'], 0.0, 2 * np.pi, 3, udtype, layout)
    cos_m = {m for _, m in nms if m > 0}
    sin_m = {-m for _, m in nms if m < 0}
    fam = ('m0' if any(m == 0 for _, m in nms) else '') + ('cos' if cos_m else '') + ('sin' if sin_m else '')
    lonely = (cos_m ^ sin_m)
    lens = {}
    for n, m in nms:
        lens[m] = max(lens.get(m, 0), n + 1)
    cls = 'families=' + fam
    if cos_m - sin_m:
        cls += ':cos-only-order'
    if sin_m - cos_m:
        cls += ':sin-only-order'
    ctx.nt(bool(lonely) or any(v == 1 for v in lens.values()) or case['zero'] != 'none' or np.ndim(u) != 1 or udtype != 'float64' or layout != 'C'
           or pairs_as != 'tuples' or coefs_as != 'list' or e != 0 or values != 'random' or case.get('outer_as', 'list') != 'list' or kw)
    ctx.label('families=' + fam, 'order-in-one-family' if lonely else 'orders-paired', 'ndim%d' % np.ndim(u), 'values:' + values, 'zeros:' + case['zero'],
              'has-len1-vector' if any(v == 1 for v in lens.values()) else 'no-len1-vector',
              'unequal-lengths' if any(lens.get(m) != lens.get(-m) for m in cos_m & sin_m) else 'equal-or-unpaired',
              'pairs_as:' + pairs_as, 'coefs_as:' + coefs_as, *(pt_labels(case['pts'], u) if scalar else ['u:' + udtype, 'layout:' + layout]),
              'maxn>=9' if max(n for n, _ in nms) >= 9 else 'maxn<9', exp_label(e), 'packed-tables-given-as:' + case.get('outer_as', 'list'))
    if e:
        cls += ':coefficients-1e%+d' % e

    arg_nms = pairs_arg(nms, pairs_as)
    arg_cs = coefs_arg(cs, coefs_as)
    if pairs_as in ONE_SHOT_PAIRS or coefs_as in ONE_SHOT_COEFS:
        cls += ':terms-from-a-one-shot-iterable'
    packed = _call(ctx, cls, Q.Q2d_nm_c_to_a_b, NAMES['Q2d_nm_c_to_a_b'], (arg_nms, arg_cs), kw)
    if pairs_as not in ONE_SHOT_PAIRS:       # (a one-shot iterable is used up by the call, there is nothing to compare)
        ctx.require([(int(p[0]), int(p[1])) for p in arg_nms] == nms, 'Q2d_nm_c_to_a_b:argument-modified:nms', 'the (n,m) list %r became %r' % (nms, arg_nms))
    if coefs_as not in ONE_SHOT_COEFS:
        ctx.require(same_values(list(arg_cs), np.asarray(cs)), 'Q2d_nm_c_to_a_b:argument-modified:coefs', 'the coefficients %r became %r' % (cs, arg_cs))
    ctx.require(len(packed) == 3, 'Q2d_nm_c_to_a_b:arity', 'returned %d values' % len(packed))
    cm0, ams, bms = packed
    # structural laws
    max_m = max([abs(m) for _, m in nms])
    ctx.require(len(ams) == max_m and len(bms) == max_m, 'Q2d_nm_c_to_a_b:length:' + cls,
                'len(ams)=%d len(bms)=%d, expected max|m|=%d for nms=%r' % (len(ams), len(bms), max_m, nms))
    want_tab = {}
    for (n, m), c in zip(nms, cs):
        want_tab[(n, m)] = c
    for m in range(0, max_m + 1):
        for sgn, vec, nm in ((1, cm0 if m == 0 else ams[m - 1], 'a'), (-1, None if m == 0 else bms[m - 1], 'b')):
            if vec is None:
                continue
            key_m = sgn * m
            present = [n for (n, mm) in want_tab if mm == key_m]
            vec = list(vec)
            want_len = (max(present) + 1) if present else 0
            ctx.require(len(vec) == want_len, 'Q2d_nm_c_to_a_b:vector-length:' + cls,
                        '%s-vector of m=%d has length %d, expected %d (nms=%r)' % (nm, m, len(vec), want_len, nms))
            for n, v in enumerate(vec):
                w = want_tab.get((n, key_m), 0.0)
                ctx.require(v is not None and float(v) == w, 'Q2d_nm_c_to_a_b:entry:' + cls,
                            '%s[m=%d][n=%d] = %r, expected %r (nms=%r)' % (nm, m, n, v, w, nms))

    twins = [i + 1 for i, (a_, b_) in enumerate(zip(ams, bms)) if len(a_) and _deep(a_) == _deep(b_)]
    ctx.label(*_twin_labels(twins, {i + 1: len(a_) for i, a_ in enumerate(ams)}))
    if twins:
        cls += ':cosine-and-sine-vectors-equal'
    packed_before = _deep([cm0, ams, bms])
    u_before, t_before = snapshot(u), snapshot(t)
    outer_as = case.get('outer_as', 'list')
    if outer_as not in ('list', 'tuple'):
        cls += ':tables-from-a-one-shot-iterable'
    res = _call(ctx, cls, Q.compute_z_zprime_Q2d, NAMES['compute_z_zprime_Q2d'], (cm0, outer_arg(ams, outer_as), outer_arg(bms, outer_as), u, t), kw)
    ctx.require(len(res) == 3, 'compute_z_zprime_Q2d:arity', 'returned %d values' % len(res))
    ctx.require(_deep([cm0, ams, bms]) == packed_before, 'compute_z_zprime_Q2d:argument-modified:coefficients',
                'the packed coefficient vectors were modified by the evaluation (nms=%r)' % (nms,))
    unchanged(ctx, u, u_before, 'compute_z_zprime_Q2d:argument-modified:u', 'the radial coordinate array')
    unchanged(ctx, t, t_before, 'compute_z_zprime_Q2d:argument-modified:t', 'the azimuthal coordinate array')
    ud, td = f64(u), f64(t)
    want = np.zeros(np.shape(u))
    mag = 0.0
    for (n, m), c in zip(nms, cs):
        if c == 0:
            continue
        mk = np.asarray(ctx.call(P.Q2d, n, m, ud, td), dtype=np.float64)
        want = want + c * mk
        mag += abs(c) * (float(np.max(np.abs(mk))) if mk.size else 0.0)
    # the Clenshaw route forms sums whose partial terms are larger than the modes: use the coefficient scale as floor
    mag = max(mag, float(np.sum(np.abs(cs))))
    rtol = 1e-3 if single else 1e-10
    U.check_shape(res[0], np.shape(u), 'compute_z_zprime_Q2d:' + cls, 'sag at u of shape %s' % (np.shape(u),))
    what = 'compute_z_zprime_Q2d sag vs sum c*Q2d for nms=%r cs=%r u.shape=%s (%s)' % (
        nms, cs, np.shape(u), 'u = %r, t = %r (%s)' % (u, t, type(u).__name__) if scalar else udtype + ', ' + layout)
    cmp_sum(res[0], want, mag, 'compute_z_zprime_Q2d:sag:' + cls, what, rtol=rtol)
    kept = np.array(res[0], copy=True)
    res2 = _call(ctx, cls, Q.compute_z_zprime_Q2d, NAMES['compute_z_zprime_Q2d'], (cm0, outer_arg(ams, outer_as), outer_arg(bms, outer_as), u, t), kw)
    U.check_equal(np.asarray(res[0]), kept, 'compute_z_zprime_Q2d:result-overwritten', 'the first sag after a second evaluation')
    cmp_sum(res2[0], want, mag, 'compute_z_zprime_Q2d:repeat:' + cls, 'the same packed vectors again, ' + what, rtol=rtol)


# ---- Q2d: the radial Clenshaw sums of one azimuthal order, as documented entry points ------------------------------------
def strat_q2d_radial(tier):
    M = {'quick': 8, 'thorough': 16}[tier]
    return st.fixed_dictionaries({'fn': st.sampled_from(['clenshaw_q2d', 'clenshaw_q2d', 'clenshaw_q2d_der']), 'm': st.one_of(st.sampled_from([1, 1, 2, 3]), st.integers(1, M)),
                                  'coefs': coef_spec({'quick': 30, 'thorough': 60}[tier]), 'u': point_spec(DMAX[tier], big=True),
                                  'container': st.sampled_from(CONTAINERS), 'udtype': st.sampled_from(COORD_DTYPES),
                                  'layout': U.layouts, 'ws': st.sampled_from(['none', 'zeros', 'zeros', 'junk', 'nan']),
                                  'second': st.sampled_from(['reversed', 'same', 'same-object']), 'seed': U.seeds, 'wexp': wexps,
                                  # arguments by position or by name; the azimuthal order as a Python int or a numpy integer
                                  'kw': st.booleans(), 'm_as': st.sampled_from(['python', 'python', 'np.int64', 'np.int32'])})


def check_q2d_radial(case, ctx):
    """u^m times the radial sum documented for clenshaw_q2d (.5 alphas[0], minus 2/5 alphas[3] for m = 1 with more than three terms;
    for clenshaw_q2d_der read from its block [0]) == sum_n c_n Q2d(n, m, u, 0), without and with a caller-supplied alphas workspace that
    is used for every call of the case; coefficients and coordinates are not modified."""
    from prysm import polynomials as P
    from prysm.polynomials import qpoly as Q
    c0 = expand_coefs(case['coefs'], case['seed'], 1)[:BIG_TERMS if is_big(case['u']) else None]
    fn, m, udtype, layout, second = case['fn'], int(case['m']), case.get('udtype', 'float64'), case.get('layout', 'C'), case.get('second', 'reversed')
    u = points(case['u'], case['seed'], 0.0, 1.0, 2, udtype, layout)
    scalar = is_scalar(case['u'])
    onept = scalar or whole_coords(case['u'], udtype)        # every coordinate may sit where a mode (nearly) vanishes
    single = coord_single(case['u'], udtype) or case['container'] == 'array-f32'
    e = wexp_of(case, single=single, integer=case['container'] in ('int-list', 'array-int'))
    arg, c = contain(c0 * 10.0 ** e, case['container'])
    cls, pcls = coef_class(c), pt_class(case['u'])
    # clenshaw_q2d assigns every row of its workspace; clenshaw_q2d_der leaves the rows of derivatives above the degree at their
    # initial zero, so its workspace starts zeroed and is then re-used as it comes back
    wsk = case.get('ws', 'none')
    if fn == 'clenshaw_q2d_der' and wsk != 'none':
        wsk = 'zeros'
    kw, m_arg = bool(case.get('kw', False)), param_as(m, case.get('m_as', 'python'))
    ctx.nt(True)
    ctx.label('arguments:' + ('by-name' if kw else 'by-position'), 'm-as:' + type(m_arg).__name__)
    ctx.label(fn, cls, pcls, 'points>2**16' if is_big(case['u']) else 'points<=49', 'm=1' if m == 1 else 'm=2,3' if m <= 3 else 'm>3', 'len=%s' % (len(c) if len(c) < 5 else ('5+' if len(c) < 13 else '13+')),
              'container:' + case['container'], 'workspace:' + wsk, 'second:' + second, exp_label(e),
              'B.7-term' if m == 1 and len(c) > 3 else 'no-B.7-term', *(pt_labels(case['u'], u) if scalar else ['u:' + udtype, 'layout:' + layout]))
    cls += ':m=1' if m == 1 else ''
    if scalar:
        cls += ':usq-is-a-' + case['u'][0]
    if e:
        cls += ':coefficients-1e%+d' % e
    if wsk != 'none':
        cls += ':alphas-workspace-' + wsk
    usq = u * u
    ud = f64(u)
    shared = {}

    def fast(carg):
        kwa = {}
        if wsk != 'none':
            if 'buf' in shared:
                ctx.tally('workspace re-used', 1)
            else:
                shared['buf'] = workspace(wsk, ((2,) if fn == 'clenshaw_q2d_der' else ()) + (len(carg),) + np.shape(usq), ws_dtype(usq))
            kwa['alphas'] = shared['buf']
        al = _call(ctx, cls, getattr(Q, fn), NAMES[fn], (carg, m_arg, usq), kw, **kwa)
        want_shape = ((2,) if fn == 'clenshaw_q2d_der' else ()) + (len(carg),) + np.shape(usq)
        ctx.require(np.shape(al) == want_shape, fn + ':alphas-shape', 'alphas has shape %s, expected %s' % (np.shape(al), want_shape))
        if fn == 'clenshaw_q2d_der':
            al = al[0]
        S = 0.5 * np.asarray(al[0], dtype=np.float64)
        if m == 1 and len(carg) > 3:
            S = S - 2 / 5 * np.asarray(al[3], dtype=np.float64)
        return np.asarray(ud, dtype=np.float64) ** m * S

    def mode(n):
        return P.Q2d(n, m, ud, np.zeros_like(ud))
    u_before = snapshot(usq)
    got = fast(arg)
    ctx.require(same_values(arg, c), fn + ':argument-modified:coefficients', 'the coefficients %r became %r' % ([float(v) for v in c], arg))
    unchanged(ctx, usq, u_before, fn + ':argument-modified:usq', 'the squared radial coordinate array')
    want, mag = explicit_sum(ctx, mode, c, np.shape(u), single=single, one_point=onept)
    # the Clenshaw route forms sums whose partial terms are larger than the modes: the coefficient scale is the floor
    mag = max(mag, float(np.sum(np.abs(c))))
    rtol = 1e-3 if single else 1e-10
    what = 'u^%d * radial sum of %s(%r, m=%d) [%s, u %s, workspace %s] vs sum c_n Q2d(n, %d, u, 0), u.shape=%s' % (
        m, fn, [float(v) for v in c], m, case['container'], '= %r (%s)' % (u, type(u).__name__) if scalar else udtype + ' ' + layout, wsk, m, np.shape(u))
    cmp_sum(got, want, mag, '%s:%s' % (fn, cls), what, rtol=rtol)
    if second == 'reversed':
        arg2, c2 = contain(c[::-1] * 0.5, case['container'])
    elif second == 'same':
        arg2, c2 = contain(c, case['container'])
    else:
        arg2, c2 = arg, c
    got2 = fast(arg2)
    want2, mag2 = explicit_sum(ctx, mode, c2, np.shape(u), single=single, one_point=onept)
    cmp_sum(got2, want2, max(mag2, float(np.sum(np.abs(c2)))), '%s:second-call:%s' % (fn, cls), 'second call (%s coefficients), ' % second + what, rtol=rtol)
    got3 = fast(arg)
    cmp_sum(got3, want, mag, '%s:repeat:%s' % (fn, cls), 'the same coefficient object again, ' + what, rtol=rtol)
    ctx.require(same_values(arg, c), fn + ':argument-modified:coefficients', 'the coefficients %r became %r after the third use' % ([float(v) for v in c], arg))


def strat_q2d_direct(tier):
    N, M = {'quick': (12, 8), 'thorough': (30, 16)}[tier]
    vec = st.one_of(st.just(0), st.just(0), st.sampled_from([1, 1, 2]), st.integers(1, 6), st.integers(1, N))   # radial length, 0 = empty
    return st.fixed_dictionaries({'cm0': st.one_of(st.just(-1), vec), 'lens': st.lists(st.tuples(vec, vec).map(list), min_size=0, max_size=M),
                                  'pts': point_spec(DMAX[tier], SCALAR_REAL),
                                  'container': st.sampled_from(['list', 'list', 'array', 'array', 'tuple', 'view']),
                                  'udtype': st.sampled_from(['float64', 'float64', 'float64', 'float32']), 'layout': U.layouts,
                                  'history': st.sampled_from(['none', 'none', 'single-first', 'other-coefs']), 'seed': U.seeds, 'wexp': wexps,
                                  # the sine table repeats the cosine table: equal values in separate objects, the same row objects in two outer
                                  # lists, one table object given for both arguments; the m = 0 vector is the very object of the m = 1 cosine row
                                  'share': st.sampled_from(['none', 'none', 'none', 'equal', 'same-rows', 'same-table', 'cm0-row']),
                                  'values': st.sampled_from(['random', 'random', 'random', 'ones', 'constant']),
                                  # ams / bms ('iterable of iterables') as a list, a tuple, or something that can be walked once
                                  'outer_as': st.sampled_from(OUTER_AS), 'kw': st.booleans()})


def check_q2d_direct(case, ctx):
    """compute_z_zprime_Q2d on hand-packed (cm0, ams, bms): equal-length lists, any vector may be empty or of length 1, each vector
    a list / tuple / float64 ndarray / strided view; the vectors are not modified and give the same surface when used again."""
    from prysm import polynomials as P
    from prysm.polynomials import qpoly as Q
    M = len(case['lens'])
    alens, blens = [int(v[0]) for v in case['lens']], [int(v[1]) for v in case['lens']]
    share, values = case.get('share', 'none'), case.get('values', 'random')
    if share in ('equal', 'same-rows', 'same-table'):
        blens = list(alens)
    r = U.rng_of(case['seed'], 1)
    container, udtype, layout, history = case.get('container', 'list'), case.get('udtype', 'float64'), case.get('layout', 'C'), case.get('history', 'none')

    scalar, single = is_scalar(case['pts']), coord_single(case['pts'], udtype)
    e = wexp_of(case, single=single or history == 'single-first')

    const = float(np.round(r.uniform(0.1, 2.0), 2))

    def vec(n):
        c = r.uniform(-1, 1, n)
        c = np.where(np.abs(c) < 0.05, 0.05, c)
        if values != 'random':
            c = np.full(n, 1.0 if values == 'ones' else const)
        return [float(v) for v in c * 10.0 ** e]

    def wrap(v):
        if v is None or container == 'list':
            return v
        return contain(v, container)[0]
    cm0 = None if case['cm0'] < 0 else vec(int(case['cm0']))
    ams = [vec(n) for n in alens]
    bms = [vec(n) for n in blens]
    if share in ('equal', 'same-rows', 'same-table'):
        bms = [list(v) for v in ams]
    if share == 'cm0-row' and M > 0 and cm0 is not None:
        cm0 = list(ams[0])
    elif share == 'cm0-row':
        share = 'none'
    u = points(case['pts'], case['seed'], 0.0, 1.0, 2, udtype, layout)
    t = points(case['pts'], case['seed'], 0.0, 2 * np.pi, 3, udtype, layout)
    one_only = any((a == 0) != (b == 0) for a, b in zip(alens, blens))
    has1 = any(v == 1 for v in alens + blens) or (cm0 is not None and len(cm0) == 1)
    cls = ('a-empty' if any(a == 0 and b > 0 for a, b in zip(alens, blens)) else '') + \
          ('b-empty' if any(b == 0 and a > 0 for a, b in zip(alens, blens)) else '') or 'paired'
    twins = [i + 1 for i in range(M) if alens[i] and ams[i] == bms[i]]
    kw = bool(case.get('kw', False))
    ctx.label('arguments:' + ('by-name' if kw else 'by-position'))
    ctx.nt(one_only or has1 or np.ndim(u) != 1 or container != 'list' or udtype != 'float64' or layout != 'C' or history != 'none' or e != 0
           or share != 'none' or values != 'random' or case.get('outer_as', 'list') != 'list' or kw)
    ctx.label(cls, 'has-len1-vector' if has1 else 'no-len1-vector', 'cm0=%s' % ('None' if cm0 is None else ('empty' if not cm0 else 'given')),
              'M=0' if M == 0 else 'M>0', 'ndim%d' % np.ndim(u), 'container:' + container, 'history:' + history,
              *(pt_labels(case['pts'], u) if scalar else ['u:' + udtype, 'layout:' + layout]),
              exp_label(e), 'share:' + share, 'values:' + values, *_twin_labels(twins, {i + 1: alens[i] for i in range(M)}))
    if e:
        cls += ':coefficients-1e%+d' % e
    if twins:
        cls += ':cosine-and-sine-vectors-equal'
    if share != 'none':
        cls += ':' + {'equal': 'separate-objects', 'same-rows': 'same-row-objects', 'same-table': 'ams-is-bms', 'cm0-row': 'cm0-is-ams[0]'}[share]
    a_ams = [wrap(v) for v in ams]
    a_bms = a_ams if share == 'same-table' else list(a_ams) if share == 'same-rows' else [wrap(v) for v in bms]
    a_cm0 = a_ams[0] if share == 'cm0-row' else wrap(cm0)
    outer_as = case.get('outer_as', 'list') if share != 'same-table' else 'list'       # one table object for both families is a list
    ctx.label('tables-given-as:' + outer_as)
    if outer_as not in ('list', 'tuple'):
        cls += ':tables-from-a-one-shot-iterable'

    def tabs():
        # the two outer iterables of one call (new one-shot objects every time; the vectors inside are the same objects throughout)
        return outer_arg(a_ams, outer_as), outer_arg(a_bms, outer_as)
    if history == 'single-first':
        with single_session(ctx, case['seed']):
            _guard(ctx, cls, Q.compute_z_zprime_Q2d, a_cm0, *tabs(), as_single(u, case['pts'], case['seed'], 0.0, 1.0, 2, 'float32', layout),
                   as_single(t, case['pts'], case['seed'], 0.0, 2 * np.pi, 3, 'float32', layout))
    elif history == 'other-coefs':
        _guard(ctx, cls, Q.compute_z_zprime_Q2d, None if cm0 is None else wrap([2 * v for v in cm0]), [wrap(v[::-1]) for v in ams], [wrap(v[::-1]) for v in bms], u, t)
    u_before, t_before = snapshot(u), snapshot(t)
    res = _call(ctx, cls, Q.compute_z_zprime_Q2d, NAMES['compute_z_zprime_Q2d'], (a_cm0, *tabs(), u, t), kw)
    ctx.require(len(res) == 3, 'compute_z_zprime_Q2d:arity', 'returned %d values' % len(res))
    ctx.require(_deep([a_cm0, a_ams, a_bms]) == _deep([cm0, ams, bms]), 'compute_z_zprime_Q2d:argument-modified:coefficients',
                'the coefficient vectors (%s) were modified by the evaluation: cm0=%r ams=%r bms=%r became %r %r %r' % (container, cm0, ams, bms, a_cm0, a_ams, a_bms))
    unchanged(ctx, u, u_before, 'compute_z_zprime_Q2d:argument-modified:u', 'the radial coordinate array')
    unchanged(ctx, t, t_before, 'compute_z_zprime_Q2d:argument-modified:t', 'the azimuthal coordinate array')
    ud, td = f64(u), f64(t)
    want = np.zeros(np.shape(u))
    mag = 0.0
    terms = [((n, 0), c) for n, c in enumerate(cm0 or [])]
    for i in range(M):
        terms += [((n, i + 1), c) for n, c in enumerate(ams[i])]
        terms += [((n, -(i + 1)), c) for n, c in enumerate(bms[i])]
    for (n, m), c in terms:
        mk = np.asarray(ctx.call(P.Q2d, n, m, ud, td), dtype=np.float64)
        want = want + c * mk
        mag += abs(c) * (float(np.max(np.abs(mk))) if mk.size else 0.0)
    mag = max(mag, sum(abs(c) for _, c in terms))
    rtol = 1e-3 if single else 1e-10
    U.check_shape(res[0], np.shape(u), 'compute_z_zprime_Q2d:' + cls, 'sag at u of shape %s' % (np.shape(u),))
    what = 'compute_z_zprime_Q2d sag vs explicit sum, cm0=%r ams=%r bms=%r (%s, u %s)' % (
        cm0, ams, bms, container, '= %r, t = %r (%s)' % (u, t, type(u).__name__) if scalar else udtype + ' ' + layout)
    cmp_sum(res[0], want, mag, 'compute_z_zprime_Q2d:sag:direct:' + cls, what, rtol=rtol)
    kept = np.array(res[0], copy=True)
    res2 = _call(ctx, cls, Q.compute_z_zprime_Q2d, NAMES['compute_z_zprime_Q2d'], (a_cm0, *tabs(), u, t), kw)
    U.check_equal(np.asarray(res[0]), kept, 'compute_z_zprime_Q2d:result-overwritten', 'the first sag after a second evaluation')
    cmp_sum(res2[0], want, mag, 'compute_z_zprime_Q2d:repeat:direct:' + cls, 'the same coefficient objects again, ' + what, rtol=rtol)


# ---- lstsq -----------------------------------------------------------------------------------------
ORDINARY_MASKS = ['none', 'nan', 'nan', 'inf', 'mixed', 'mixed', 'row', 'disc', 'one-row']
# value pattern of the synthesising coefficients, i.e. of the data: independent values; the all-zero vector (data identically 0 on
# the valid samples: fitting an exact residual); exactly one non-zero entry (the data is a multiple of one mode); one value for every
# term; whole numbers; one term 1e8 times larger than the others (a dominant outlier: the small ones are still recovered to the
# accuracy the conditioning allows)
CPATS = ['random', 'random', 'random', 'random', 'zero', 'zero', 'single', 'single', 'equal', 'whole', 'dominant']
# magnitude of the data, far end: squares (and for the largest also sums) of the samples leave the double range
LSTSQ_WEXPS = WEXPS + [-150, 150, -290, 250]
PARTIAL_MASKS = ['subaperture', 'annulus', 'halfplane']      # valid samples cover only part of the domain the basis is orthogonal on
COND_MAX = 1e9


def strat_lstsq(tier):
    D = {'quick': 10, 'thorough': 20}[tier]
    S = {'quick': 26, 'thorough': 40}[tier]
    d = st.one_of(st.integers(3, D), st.integers(3, D), st.integers(1, D))
    g = st.integers(0, 10)
    common = {'kw': st.booleans(), 'frac': st.sampled_from([0.05, 0.2, 0.5]), 'container': st.sampled_from(['array', 'array', 'list', 'tuple']), 'layout': U.layouts,
              'modes_layout': U.layouts, 'geom': st.tuples(g, g, g).map(list), 'history': st.sampled_from(['none', 'none', 'single-first', 'other-data']),
              'seed': U.seeds,
              # magnitude of the data (heights in metres, photon counts) and of the basis (all modes alike: the conditioning is unchanged)
              # precision / type of the arguments: double; the data, the modes or both in single precision (well-conditioned fits only); the
              # modes whole numbers held in an int64 array (segment masks, index ramps)
              'prec': st.sampled_from(['double', 'double', 'double', 'double', 'double', 'data-single', 'modes-single', 'both-single', 'modes-int64', 'modes-int64']),
              'wexp': st.sampled_from(LSTSQ_WEXPS), 'mexp': st.sampled_from([0, 0, 0, 0, -9, -17, 6, 30]), 'cpat': st.sampled_from(CPATS),
              # what the modes hold at the samples the fit is told to ignore: a basis that is NaN / infinite outside its aperture
              'modes_bad': st.sampled_from(['finite', 'finite', 'nan', 'nan', 'inf', 'mixed', 'one-mode-nan', 'huge'])}
    ordinary = st.fixed_dictionaries(dict(common, **{
        'k': st.one_of(st.sampled_from([1, 2, 3]), st.integers(1, 10)),
        'shape': st.one_of(st.tuples(d, d).map(list), d.map(lambda a: [a, a]), st.tuples(d, d).map(list), st.tuples(d, d).map(list), st.just([129, 521])),
        'modes': st.sampled_from(['random', 'random', 'random-complex', 'zernike', 'hermite', 'xy', 'legendre']), 'mask': st.sampled_from(ORDINARY_MASKS)}))
    side = st.integers(14, S)
    partial = st.fixed_dictionaries(dict(common, **{
        'k': st.one_of(st.integers(3, 36), st.integers(15, 36), st.integers(24, 36)), 'shape': st.one_of(st.tuples(side, side).map(list), side.map(lambda a: [a, a])),
        'modes': st.sampled_from(['zernike-disc', 'zernike-disc', 'xy', 'legendre', 'hermite', 'zernike']), 'mask': st.sampled_from(PARTIAL_MASKS)}))
    return st.one_of(ordinary, ordinary, partial)


def _mode_stack(kind, k, shape, seed):
    from prysm import polynomials as P
    ny, nx = shape
    if kind == 'random':
        return U.rng_of(seed, 5).uniform(-1, 1, (k, ny, nx))
    if kind == 'random-complex':
        return U.rng_of(seed, 5).uniform(-1, 1, (k, ny, nx)) + 1j * U.rng_of(seed, 55).uniform(-1, 1, (k, ny, nx))
    y, x = np.meshgrid(np.linspace(-1, 1, ny), np.linspace(-1, 1, nx), indexing='ij')
    if kind in ('zernike', 'zernike-disc'):
        rr, tt = np.hypot(x, y) / (np.sqrt(2) if kind == 'zernike' else 1.0), np.arctan2(y, x)
        nms = [P.noll_to_nm(j) for j in range(1, k + 1)]
        return np.asarray([P.zernike_nm(n, m, rr, tt) for n, m in nms])
    if kind == 'hermite':
        return np.asarray([P.hermite_He(j // 2, 1.5 * x) * P.hermite_He(j - j // 2, 1.5 * y) for j in range(k)])
    if kind == 'legendre':
        return np.asarray([P.legendre(m, x) * P.legendre(n, y) for m, n in [P.xy_j_to_mn(j) for j in range(1, k + 1)]])
    return np.asarray([x ** m * y ** n for m, n in [P.xy_j_to_mn(j) for j in range(1, k + 1)]])


def _bad_samples(kind, shape, frac, geom, modes_kind, r):
    """boolean map of the samples that carry a non-finite marker"""
    bad = np.zeros(shape, dtype=bool)
    y, x = np.meshgrid(np.linspace(-1, 1, shape[0]), np.linspace(-1, 1, shape[1]), indexing='ij')
    i, j, l = [int(v) for v in geom]
    if kind in ('nan', 'inf', 'mixed'):
        bad = r.uniform(0, 1, shape) < frac
    elif kind == 'row':
        bad[int(r.integers(0, shape[0]))] = True
        bad[:, int(r.integers(0, shape[1]))] = True
    elif kind == 'one-row':                      # degenerate but valid geometry: every valid sample on one line
        bad[:] = True
        bad[int(r.integers(0, shape[0]))] = False
    elif kind == 'disc':
        bad = np.hypot(x, y) > 1
    elif kind == 'subaperture':
        bad = ~(np.hypot(x - (-0.5 + i / 10), y - (-0.5 + j / 10)) < 0.25 + 0.05 * l)
    elif kind == 'annulus':
        rr = np.hypot(x, y)
        bad = ~((rr <= 1) & (rr >= 0.5 + 0.045 * l))
    elif kind == 'halfplane':
        th = 2 * np.pi * i / 11
        bad = ~(x * np.cos(th) + y * np.sin(th) > -0.3 + 0.1 * l)
    if modes_kind == 'zernike-disc' and kind in PARTIAL_MASKS:
        bad = bad | (np.hypot(x, y) > 1)
    return bad


def _cond(A):
    if A.shape[0] < A.shape[1] or A.shape[1] == 0:
        return float('inf')
    sv = np.linalg.svd(A, compute_uv=False)
    return float(sv[0] / sv[-1]) if sv[-1] > 0 else float('inf')


def check_lstsq(case, ctx):
    """lstsq(modes, data with non-finite samples) returns the synthesising coefficients - also for bases that are independent but
    poorly conditioned on the valid samples -, does not depend on which non-finite marker is used, and on data outside the span is
    the least-squares solution over exactly the finite samples; modes and data are not modified."""
    from prysm import polynomials as P
    import scipy.linalg
    k0, shape, seed = int(case['k']), tuple(int(s) for s in case['shape']), case['seed']
    mkind, kind, frac = case['modes'], case['mask'], case['frac']
    geom, history, mlay = case.get('geom', [5, 5, 5]), case.get('history', 'none'), case.get('modes_layout', 'C')
    modes_all = np.asarray(_mode_stack(mkind, k0, shape, seed))
    cplx = np.iscomplexobj(modes_all)
    modes_all = modes_all.astype(np.complex128 if cplx else np.float64)
    r = U.rng_of(seed, 6)
    c_all = r.uniform(-1, 1, k0) + (1j * U.rng_of(seed, 66).uniform(-1, 1, k0) if cplx else 0.0)
    bad = _bad_samples(kind, shape, frac, geom, mkind, r)
    marker = {'inf': [np.inf, -np.inf], 'mixed': [np.nan, np.inf, -np.inf]}.get(kind, [np.nan])
    marks = np.asarray(marker)[r.integers(0, len(marker), shape)]
    valid = ~bad.ravel()
    prec = case.get('prec', 'double')
    if prec == 'modes-int64':
        if cplx or int(case.get('mexp', 0)) != 0:
            prec = 'double'              # an integer array holds neither complex values nor 1e-9 (nor NaN: the modes stay finite, see below)
        else:
            modes_all = np.rint(3 * modes_all)
    A_all = modes_all.reshape(k0, -1)[:, valid].T
    if A_all.shape[0] < 1:
        ctx.exclude('no valid sample')
    # the largest leading subset of the modes that is independent (condition number < COND_MAX) on the valid samples:
    # the condition number of nested column sets is monotone, so bisect
    k = min(k0, A_all.shape[0])
    cond = _cond(A_all[:, :k])
    if not cond < COND_MAX:
        lo_k, hi_k = 0, k                    # cond(lo_k) fine (0 = nothing known), cond(hi_k) too large
        while hi_k - lo_k > 1:
            mid = (lo_k + hi_k) // 2
            if _cond(A_all[:, :mid]) < COND_MAX:
                lo_k = mid
            else:
                hi_k = mid
        k = lo_k
        if k < 1:
            ctx.exclude('not even one mode is non-zero on the valid samples')
        cond = _cond(A_all[:, :k])
    dexp, mexp = wexp_of(case), int(case.get('mexp', 0))
    if history == 'single-first':        # the single-precision fit that precedes the checked one must stay inside the float32 range
        dexp, mexp = max(-20, min(dexp, 6)), max(-9, min(mexp, 6))
    if prec.endswith('single') and not cond < 1e3:
        prec = 'double'                  # single precision arguments: only where eps32 * cond leaves a meaningful statement
    if prec.endswith('single'):
        dexp, mexp = max(-20, min(dexp, 6)), max(-9, min(mexp, 6))
    if abs(dexp) > 30:                   # the far ends of the double range belong to the data alone (the coefficients must stay normal numbers)
        mexp = 0
    eps = float(np.finfo(np.float32).eps) if prec.endswith('single') else EPS
    ddt = (np.complex64 if cplx else np.float32) if prec in ('data-single', 'both-single') else None
    mdt = (np.complex64 if cplx else np.float32) if prec in ('modes-single', 'both-single') else np.int64 if prec == 'modes-int64' else None

    def as_data(d):
        return d if ddt is None else d.astype(ddt)
    cpat = case.get('cpat', 'random')
    c_pat = c_all[:k].copy()
    jc = int(seed) % k
    if cpat == 'zero':
        c_pat[:] = 0.0
    elif cpat == 'single':
        c_pat[np.arange(k) != jc] = 0.0
    elif cpat == 'equal':
        c_pat[:] = c_pat[jc]
    elif cpat == 'whole':
        c_pat = np.sign(c_pat.real) * np.ceil(np.abs(c_pat.real) * 5) + (0j if cplx else 0.0)
    elif cpat == 'dominant':
        c_pat = c_pat * 1e-8
        c_pat[jc] = c_all[jc]
    ctx.label('coefficients:' + cpat)
    modes, c = np.ascontiguousarray(modes_all[:k]) * 10.0 ** mexp, c_pat * 10.0 ** (dexp - mexp)
    data = np.tensordot(c, modes, axes=(0, 0))
    dscale = 10.0 ** dexp
    mbad = case.get('modes_bad', 'finite') if bad.any() and prec != 'modes-int64' else 'finite'
    ctx.nt(bad.any() or cplx or history != 'none' or mlay != 'C' or dexp != 0 or mexp != 0 or cpat != 'random' or prec != 'double')
    ctx.label('arguments:' + prec, 'data-' + exp_label(dexp), 'modes-' + exp_label(mexp), 'modes-at-ignored-samples:' + mbad)
    dec = 0 if cond < 10 else int(np.floor(np.log10(cond)))
    ctx.label('modes:' + mkind, 'mask:' + kind, 'k=%s' % (k if k < 4 else ('4+' if k < 11 else '11+')), 'masked>0' if bad.any() else 'masked=0',
              'cond:1e%d' % dec if dec < 4 else ('cond:1e4..1e6' if dec < 6 else 'cond:1e6..1e9'), 'container:' + case['container'], 'history:' + history,
              'modes-layout:' + mlay, 'k-reduced' if k < k0 else 'k-as-drawn', 'big' if bad.size > 2 ** 16 else 'small')
    modes_arg = modes
    if mbad != 'finite':
        # the fit ignores these samples: whatever the basis holds there (NaN outside the aperture, 1/0, an overflowed value) is irrelevant
        modes_arg = modes.copy()
        rm = U.rng_of(seed, 10)
        fill = {'nan': [np.nan], 'inf': [np.inf, -np.inf], 'mixed': [np.nan, np.inf, -np.inf, 0.0, 1e300], 'one-mode-nan': [np.nan], 'huge': [1e300, -1e300]}[mbad]
        junk = np.asarray(fill)[rm.integers(0, len(fill), modes.shape)]
        where = np.broadcast_to(bad, modes.shape).copy()
        if mbad == 'one-mode-nan':
            where[np.arange(k) != int(rm.integers(0, k))] = False
        modes_arg[where] = junk[where]
    if mdt is not None:
        with np.errstate(over='ignore'):         # (1e300 at an ignored sample becomes inf in single precision: still an ignored sample)
            modes_arg = modes_arg.astype(mdt)
    modes_arg = U.relayout(modes_arg, mlay)
    arg_modes = {'list': [m for m in modes_arg], 'tuple': tuple(m for m in modes_arg)}.get(case['container'], modes_arg)
    cls = 'mask=' + kind + ('' if mbad == 'finite' else ':modes-%s-at-ignored-samples' % mbad) + ('' if dexp == mexp == 0 else ':data-1e%+d:modes-1e%+d' % (dexp, mexp))
    if prec != 'double':
        cls += ':' + prec
    if cpat != 'random':
        cls += ':coefficients-' + {'zero': 'all-zero', 'single': 'one-non-zero', 'equal': 'all-equal', 'whole': 'whole-numbers', 'dominant': 'one-dominant'}[cpat]
    # the scale of the coefficients; for the all-zero vector the coefficients data of this magnitude would have (the fit is linear in
    # the data: zero data gives zero coefficients, never NaN)
    cunit = 10.0 ** (dexp - mexp)
    cscale = float(np.max(np.abs(c))) if np.any(c != 0) else cunit

    def fit(d):
        got = _guard(ctx, cls, P.lstsq, modes=arg_modes, data=d) if case.get('kw', False) else _guard(ctx, cls, P.lstsq, arg_modes, d)
        got = np.asarray(got)
        U.check_shape(got, (k,), 'lstsq:' + cls, 'coefficients for %d modes' % k)
        return got

    d1 = data.copy()
    d1[bad] = marks[bad]
    lay = case.get('layout', 'C')
    ctx.label('layout:' + lay)
    d1 = U.relayout(as_data(d1), lay)       # same values, another memory layout (Fortran order / transposed view / strided view)
    if history == 'single-first':
        with np.errstate(over='ignore'):
            _guard(ctx, cls, P.lstsq, np.asarray(modes_arg).astype(np.complex64 if cplx else np.float32), d1.astype(np.complex64 if cplx else np.float32))
    elif history == 'other-data':
        fit(U.relayout(as_data(np.where(bad, np.nan, dscale + data[::-1, ::-1])), lay))
    d1_before, m_before = d1.copy(), modes_arg.copy()
    got = fit(d1)
    unchanged(ctx, d1, d1_before, 'lstsq:argument-modified:data', 'the data array')
    unchanged(ctx, modes_arg, m_before, 'lstsq:argument-modified:modes', 'the mode stack')
    # numpy's SVD solver on the unchanged code: <= 40 cond eps, <= 2e-13 absolute (3000 bases, cond 1 .. 1e10); solving the
    # normal equations instead is wrong by cond^2 eps
    tol = 1e-10 + 1e3 * cond * eps
    err = U.check_close(got, c, 0.0, 'lstsq:synthesis:' + cls + (':cond>=1e4' if cond >= 1e4 else ''),
                        'lstsq on %d %s modes %s, %d of %d samples non-finite (cond %.3g, %s, modes %s %s)' % (
                            k, mkind, shape, int(bad.sum()), bad.size, cond, lay, case['container'], mlay), atol=tol * cscale)
    ctx.tally('synthesis error/tolerance x1e6', int(1e6 * err / (tol * cscale)))
    ctx.require(bool(np.all(np.isfinite(got))), 'lstsq:synthesis:' + cls, 'the fitted coefficients %r are not finite' % (got,))
    kept = got.copy()
    if bad.any():
        # another assignment of non-finite markers, garbage "underneath": same answer
        d2 = data + 1e3 * dscale * r.uniform(-1, 1, shape) * bad
        other = np.asarray([np.inf, -np.inf, np.nan])[r.integers(0, 3, shape)]
        d2[bad] = other[bad]
        got2 = fit(as_data(d2))
        U.check_close(got2, got, 0.0, 'lstsq:marker-dependent:' + cls, 'same mask, different non-finite markers', atol=1e-12 * cscale * eps / EPS)
    # the data array is one of the modes - the very object that sits in the mode sequence: the fit is that unit vector.  Only where the
    # finite samples of that mode are exactly the valid samples (no marked sample at all, or every mode non-finite at every marked one)
    if k > 1 and ((not bad.any()) or mbad in ('nan', 'inf')):
        jm = int(seed) % k
        ctx.label('data-is-a-mode')
        unit = np.zeros(k)
        unit[jm] = 1.0
        d_same = arg_modes[jm]
        ds_before = np.array(d_same, copy=True)
        got_same = fit(d_same)
        unchanged(ctx, d_same, ds_before, 'lstsq:argument-modified:data-is-a-mode', 'the mode that was also given as data')
        U.check_close(got_same, unit, 0.0, 'lstsq:data-is-a-mode:' + cls, 'lstsq(modes, modes[%d]) (the same array object) for %d %s modes %s, cond %.3g' % (
            jm, k, mkind, shape, cond), atol=tol)
    # data that is not in the span: every finite sample must take part, and only those
    noise = U.rng_of(seed, 8).uniform(-1, 1, shape) + (1j * U.rng_of(seed, 88).uniform(-1, 1, shape) if cplx else 0.0)
    d3 = data + noise * dscale
    d3[U.rng_of(seed, 9).uniform(0, 1, shape) < 0.15] = 0.0    # exact zeros are ordinary samples
    d3 = as_data(d3)
    bs = (d3.astype(np.complex128 if cplx else np.float64) / dscale).ravel()[valid]           # in units of the data's magnitude (plain arithmetic at 1e+250 overflows in the harness' own norms)
    d3[bad] = marks[bad]
    got3 = fit(d3)
    U.check_equal(got, kept, 'lstsq:result-overwritten', 'the first fit after later fits')
    ctx.require(bool(np.all(np.isfinite(got3))), 'lstsq:not-exactly-the-finite-samples:' + cls, 'the coefficients fitted to noisy data, %r, are not finite' % (got3,))
    got3s, As = got3 / cunit, A_all[:, :k]        # coefficients in units of 10^(dexp - mexp), modes of order 1
    # least squares over exactly the finite samples  <=>  the residual is orthogonal to every mode on those samples.  A backward
    # stable solver leaves |A^H (A c - b)| <= C eps |A| (|A c - b| + |A| |c| + |b|); observed C <= 13 (2-norms), 1e4 allowed.
    # Leaving out one finite sample, or using one marked sample, changes the left side by |mode value| * |residual there| = O(1).
    res = As @ got3s - bs
    nA = float(np.linalg.norm(As, 2))
    grad = float(np.linalg.norm(As.conj().T @ res))
    bound = 1e4 * eps * nA * (float(np.linalg.norm(res)) + nA * float(np.linalg.norm(got3s)) + float(np.linalg.norm(bs)))
    ctx.tally('gradient/bound x1e6', int(1e6 * grad / max(bound, 1e-300)))
    ctx.within(grad, bound, 'lstsq:not-exactly-the-finite-samples:' + cls,
                'lstsq on noisy data: |A^H (A c - d)| = %.3g over the %d finite samples, bound %.3g (cond %.3g): the result is not the '
                'least-squares solution over exactly those samples' % (grad, int(valid.sum()), bound, cond))
    if cond < 1e3:
        ref = scipy.linalg.lstsq(As, bs, lapack_driver='gelsy')[0]
        U.check_close(got3s, ref, 0.0, 'lstsq:not-exactly-the-finite-samples:' + cls,
                      'lstsq on noisy data vs scipy least squares over the %d finite samples (cond %.3g), coefficients in units of 1e%+d' % (
                          int(valid.sum()), cond, dexp - mexp),
                      atol=(1e-10 + 1e3 * eps * (cond + cond ** 2)) * max(float(np.max(np.abs(ref))), 1.0))


# ---- consumer: Interferogram.pvr -------------------------------------------------------------------
def strat_pvr(tier):
    return st.fixed_dictionaries({'n': st.integers(24, {'quick': 40, 'thorough': 64}[tier]), 'terms': st.lists(st.integers(1, 37), min_size=1, max_size=6, unique=True),
                                  'holes': st.sampled_from([0.0, 0.0, 0.05, 0.2]), 'radius': st.sampled_from(['auto', 0.8, 1.0]),
                                  'layout': U.layouts, 'seed': U.seeds, 'wexp': wexps,
                                  # value pattern of the heights: the flat surface (every valid height exactly zero, drop-outs still NaN) has PVr 0
                                  'heights': st.sampled_from(['random', 'random', 'random', 'random', 'flat'])})


def check_pvr(case, ctx):
    """Interferogram.pvr() of a surface that is a sum of the 36 Fringe Zernikes it fits (with NaN drop-outs) == the PV of that surface
    over the unit disc (fit + tensordot reproduce the surface, residual term vanishes)."""
    from prysm.interferogram import Interferogram
    from prysm import polynomials as P
    n, seed = int(case['n']), case['seed']
    e = wexp_of(case)
    r_ = U.rng_of(seed, 1)
    ifg = ctx.call(Interferogram, np.zeros((n, n)), dx=1.0 / n)
    rr, tt = np.asarray(ifg.r), np.asarray(ifg.t)
    if case['radius'] == 'auto':
        R = float(rr[n - 1, n // 2])
        kw = {}
    else:
        R = float(case['radius']) * float(rr[n - 1, n // 2])
        kw = {'normalization_radius': R}
    rho = rr / R
    surf = np.zeros((n, n))
    amp = 0.0
    for j in case['terms']:
        nn, mm = P.fringe_to_nm(int(j))
        a = float(r_.uniform(0.2, 1.0)) * 10.0 ** e        # heights in the unit the user chose (nm, m, ...)
        if case.get('heights', 'random') == 'flat':
            a = 0.0
        amp += a
        surf = surf + a * np.asarray(ctx.call(P.zernike_nm, nn, mm, rho, tt, norm=False))
    inside = rho <= 1
    data = surf.copy()
    holes = (r_.uniform(0, 1, (n, n)) < case['holes'])
    data[holes] = np.nan
    valid = inside & ~holes
    if valid.sum() < 150:
        ctx.exclude('too few valid samples for a 36 term fit')
    flat = amp == 0
    amp = amp or 10.0 ** e                                  # the flat surface is judged on the scale heights of this unit would have
    ctx.nt(bool(holes.any()) or e != 0 or flat)
    ctx.label('holes' if holes.any() else 'no-holes', 'radius:%s' % case['radius'], 'n%%2=%d' % (n % 2), exp_label(e), 'heights:' + ('flat' if flat else 'random'))
    lay = case.get('layout', 'C')
    ctx.label('layout:' + lay)
    ifg2 = ctx.call(Interferogram, U.relayout(data, lay), dx=1.0 / n)
    held = np.array(ifg2.data, copy=True)
    got = float(ctx.call(ifg2.pvr, **kw))
    unchanged(ctx, ifg2.data, held, 'Interferogram.pvr:data-modified', 'the interferogram data')
    vals = surf[inside]
    want = float(vals.max() - vals.min())
    U.check_close(got, want, 1e-8, 'Interferogram.pvr' + (':heights-1e%+d' % e if e else '') + (':flat-surface' if flat else ''), atol=1e-8 * amp, what='pvr of a %dx%d map of Fringe terms %r, %d drop-outs (%s)' % (n, n, case['terms'], int(holes.sum()), lay))
    again = float(ctx.call(ifg2.pvr, **kw))
    U.check_close(again, want, 1e-8, 'Interferogram.pvr:repeat', atol=1e-8 * amp, what='pvr evaluated a second time on the same object')


CLAUSES = [
    HypClause('sum_of_2d_modes', strat_tensor, check_tensor, examples={'quick': 600, 'thorough': 3000}, shards={'quick': 1, 'thorough': 4}),
    HypClause('jacobi_clenshaw', strat_jacobi, check_jacobi, examples={'quick': 600, 'thorough': 3000}, shards={'quick': 2, 'thorough': 4}),
    HypClause('qbfs_qcon_sums', strat_q1d, check_q1d, examples={'quick': 700, 'thorough': 3000}, shards={'quick': 2, 'thorough': 4}),
    HypClause('q2d_packed_sum', strat_q2d, check_q2d, examples={'quick': 600, 'thorough': 2500}, shards={'quick': 2, 'thorough': 4}),
    HypClause('q2d_direct_sum', strat_q2d_direct, check_q2d_direct, examples={'quick': 500, 'thorough': 2000}, shards={'quick': 1, 'thorough': 4}),
    HypClause('q2d_radial_sums', strat_q2d_radial, check_q2d_radial, examples={'quick': 700, 'thorough': 2000}, shards={'quick': 1, 'thorough': 4}),
    HypClause('lstsq', strat_lstsq, check_lstsq, examples={'quick': 500, 'thorough': 2500}, shards={'quick': 2, 'thorough': 4}),
    HypClause('pvr_consumer', strat_pvr, check_pvr, examples={'quick': 80, 'thorough': 300}, shards={'quick': 2, 'thorough': 4}),
]
