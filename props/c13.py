"""C13 - the PSD is power-normalised, its axes are the data's frequencies, band-limited RMS adds up, synthesis hits its RMS."""
import contextlib
import math

import numpy as np
from hypothesis import strategies as st

from vlib.core import HypClause
from vlib import util as U

RULE = ("Hypothesis-drawn real height maps (white noise, smooth band-limited noise, sinusoid + noise, circular aperture "
        "filled with zeros, offset + noise; contents expanded from a drawn integer), shapes 4..40 (quick) / 4..64 (thorough) "
        "per axis, square and non-square, odd and even, dx from a list and from floats, windows None (automatic), 'welch', "
        "'hann', 'hanning' and user arrays (ones, constant, positive random, the harness' own Hann).  Oracle: numpy's FFT with "
        "the harness' own shift, scaling and frequency axes (fftshift(fftfreq(n, dx)) per axis): the whole PSD array, its "
        "integral sum(PSD)*df_x*df_y == sum((h*w)^2)/sum(w^2), and the returned axes; a bin-centred sinusoid must put its "
        "two peaks at +-(f_x, f_y) as located through the returned axes.  Band-limited RMS: band edges are placed midway "
        "between consecutive distinct radii of the frequency grid (so no sample lies on an inclusive edge), given as "
        "frequencies or as periods, through the function (2-D and 1-D forms) and the Interferogram method, under the native "
        "numpy and under proxies of prysm's backend shim that expose only `trapz` (numpy 1.x) or only `trapezoid` (numpy >= "
        "2.4); asserted: quadrature additivity over adjacent bands, monotonicity under widening, each band (and the full "
        "band) lies between the plain sum of the PSD samples in the band times df_x*df_y minus the half weights the "
        "trapezoid rule takes from the outermost rows/columns, and that plain sum (full band: the window-weighted mean "
        "square); period and frequency forms agree; total_integrated_scatter equals its formula with the band [0, 1/lambda]. "
        "Synthesis: render_synthetic_surface / Interferogram.render_from_psd with abc / ab models, masks (None, bool, int "
        "arrays), requested RMS, numpy.random.seed(k) with drawn k: RMS over the finite samples == requested, NaN exactly "
        "where mask == 0.  Non-trivial = non-square or an odd axis or a non-trivial window / band given as periods / "
        "emulated API generation / masked synthesis.  Distinct = distinct canonical JSON of the case.")
ASSUMPTIONS = ["numpy.fft.fft2 / fftfreq / fftshift are correct", "make_window() returns the window psd() documents for a window name / None "
               "(the oracle needs the window itself to form the window-weighted mean square)",
               "a real NumPy 1.x runtime is not installed: only the trapz/trapezoid API difference is emulated through prysm.mathops' shim",
               "height maps are finite (a NaN sample makes every FFT output NaN by arithmetic)"]

NMAX = {'quick': 40, 'thorough': 64}
DXS = [1.0, 0.5, 0.1, 2.0, 0.0125, 7.5, 0.3]


# ---- emulation of the numpy API generation through prysm's backend shim -----------------------------
class _NumpyGeneration:
    """stands in for the numpy module inside prysm.mathops.np: everything is numpy's, except that only one of
    `trapz` / `trapezoid` exists (numpy 1.x has only trapz, numpy >= 2.4 only trapezoid)."""

    def __init__(self, real, only):
        self.__dict__['_real'] = real
        self.__dict__['_only'] = only
        self.__dict__['_integ'] = getattr(real, 'trapezoid', None) or getattr(real, 'trapz')

    def __getattr__(self, name):
        if name in ('trapz', 'trapezoid'):
            if name == self._only:
                return self._integ
            raise AttributeError("module 'numpy' has no attribute %r" % name)
        return getattr(self._real, name)


@contextlib.contextmanager
def numpy_generation(mode):
    from prysm import mathops
    if mode == 'native':
        yield
        return
    real = mathops.np._srcmodule
    mathops.np._srcmodule = _NumpyGeneration(real, {'trapz-only': 'trapz', 'trapezoid-only': 'trapezoid'}[mode])
    try:
        yield
    finally:
        mathops.np._srcmodule = real


# ---- maps, windows, reference ----------------------------------------------------------------------
MAPS = ['white', 'smooth', 'sinus+noise', 'aperture0', 'offset+noise']


def make_map(kind, seed, shape, amp=1.0):
    ny, nx = shape
    r = U.rng_of(seed, 3)
    z = r.standard_normal((ny, nx))
    yy = (np.arange(ny) - ny // 2)[:, None]
    xx = (np.arange(nx) - nx // 2)[None, :]
    if kind == 'smooth':
        F = np.fft.fft2(z)
        ky = np.fft.fftfreq(ny)[:, None]
        kx = np.fft.fftfreq(nx)[None, :]
        z = np.fft.ifft2(F / (1 + (np.hypot(kx, ky) / 0.08) ** 2)).real
        z = z / max(float(np.abs(z).max()), 1e-300)
    elif kind == 'sinus+noise':
        ky, kx = r.uniform(-0.4, 0.4, 2)
        z = np.cos(2 * np.pi * (ky * yy + kx * xx) + r.uniform(0, 6)) + 0.1 * z
    elif kind == 'aperture0':
        z = np.where(np.hypot(yy / (ny / 2.0), xx / (nx / 2.0)) <= 0.95, z + 0.5, 0.0)
    elif kind == 'offset+noise':
        z = z + 3.0
    return np.ascontiguousarray(z * amp, dtype=np.float64)


WINDOWS = ['auto', 'welch', 'hann', 'hanning', 'Welch', 'user:ones', 'user:const', 'user:random', 'user:hann', 'user:bool', 'user:uint8']


def window_arg(win, seed, shape):
    """the `window` argument handed to prysm (None / name / ndarray)."""
    if win == 'auto':
        return None
    if not win.startswith('user:'):
        return win
    k = win[5:]
    if k == 'ones':
        return np.ones(shape)
    if k == 'const':
        return np.full(shape, 2.5)
    if k == 'random':
        return U.rng_of(seed, 4).uniform(0.2, 1.0, shape)
    if k == 'hann':
        return np.outer(np.hanning(shape[0]), np.hanning(shape[1]))
    if k in ('bool', 'uint8'):
        # a 0/1 aperture mask used as the window (what prysm.geometry.circle returns is a bool array)
        m = U.rng_of(seed, 4).uniform(0, 1, shape) > 0.3
        m.flat[0] = True
        return m if k == 'bool' else m.astype(np.uint8)
    raise ValueError(win)


def window_array(ctx, win, warg, h, dx):
    """the window as an array for the oracle: a user array is itself; for a name / None it is what the documented
    public make_window() returns (checked to be a finite real array of the map's shape with positive power)."""
    from prysm.interferogram import make_window
    if isinstance(warg, np.ndarray):
        return warg.astype(np.float64) if warg.dtype.kind in 'bui' else warg     # the oracle works in float64
    w = np.asarray(ctx.call(make_window, h, dx, warg))
    U.check_shape(w, h.shape, 'make_window:' + win, 'window')
    ctx.require(bool(np.all(np.isfinite(w))) and float((w * w).sum()) > 0, 'make_window:' + win, 'window not finite / zero power for shape %s' % (h.shape,))
    return w


def ref_axes(shape, dx):
    ny, nx = shape
    fy = np.fft.fftshift(np.fft.fftfreq(ny, dx))
    fx = np.fft.fftshift(np.fft.fftfreq(nx, dx))
    return np.broadcast_to(fx[None, :], (ny, nx)), np.broadcast_to(fy[:, None], (ny, nx))


def ref_psd(h, w, dx):
    """|FFT(h w)|^2 dx^2 / sum(w^2), zero frequency at index n//2 on both axes."""
    hw = h * w
    return np.fft.fftshift(np.abs(np.fft.fft2(hw)) ** 2) * (dx * dx) / float((w * w).sum())


def shape_strategy(tier, lo=4):
    """[ny, nx]: ny from the whole range (with forced small / prime / power-of-two values), nx = ny + delta with delta == 0 in 1 of 4."""
    N = NMAX[tier]
    ax = st.one_of(st.integers(lo, N), st.sampled_from([n for n in (4, 5, 7, 8, 9, 11, 16, 26, 27, 31, 32) if lo <= n <= N]))
    delta = st.sampled_from([0, 0, 0, 1, -1, 2, -2, 3, -3, 5, -7, 12])

    def build(t):
        ny, d = t
        nx = ny + d
        if not lo <= nx <= N:
            nx = ny - d
        if not lo <= nx <= N:
            nx = lo + (abs(d) % (N - lo + 1))
        return [ny, nx]
    return st.tuples(ax, delta).map(build)


def big_shape(shape):
    """map a drawn shape into 26..40 per axis (parities and squareness are kept): the automatic window only looks at the corners
    of arrays with at least 26 samples per axis, and a Hann-windowed line needs room to be separated from its mirror image."""
    return tuple(26 + (n - 4) % 15 for n in shape)


dx_strategy = st.one_of(st.sampled_from(DXS), U.nice_float(0.01, 20.0))


def shape_labels(ctx, shape):
    ny, nx = shape
    ctx.label('square' if ny == nx else 'nonsquare', 'parity:%s%s' % ('eo'[ny % 2], 'eo'[nx % 2]))


# ---- clause 1: normalisation, whole array, axes ----------------------------------------------------
def strat_psd(tier):
    return st.fixed_dictionaries({
        'shape': shape_strategy(tier), 'dx': dx_strategy, 'seed': U.seeds, 'map': st.sampled_from(MAPS),
        'amp': st.sampled_from([1.0, 1.0, 1e-3, 250.0]), 'window': st.sampled_from(WINDOWS),
        'route': st.sampled_from(['function', 'function', 'method']), 'big': st.sampled_from([False, False, True])})


def check_psd(case, ctx):
    """psd(): axes == fftshift(fftfreq) per axis, array == |FFT(hw)|^2 dx^2/sum(w^2) on those axes, integral == window-weighted mean square."""
    from prysm.interferogram import psd, Interferogram
    shape, dx, win = tuple(case['shape']), case['dx'], case['window']
    route = case['route']
    if route == 'method':
        win = 'auto'          # Interferogram.psd() takes no window
    if case['big']:
        shape = big_shape(shape)
    ny, nx = shape
    h = make_map(case['map'], case['seed'], shape, case['amp'])
    warg = window_arg(win, case['seed'], shape)
    shape_labels(ctx, shape)
    ctx.label('window:' + win, 'map:' + case['map'], 'route:' + route)
    ctx.nt(ny != nx or ny % 2 == 1 or nx % 2 == 1 or win != 'user:ones')
    w = window_array(ctx, win, warg, h, dx)
    if win == 'auto':
        which = 'welch' if np.array_equal(w, window_array(ctx, 'welch', 'welch', h, dx)) else 'other'
        ctx.label('auto->' + which)
    if route == 'method':
        p = ctx.call(Interferogram(h.copy(), dx).psd)
        ux, uy, P = ctx.call(getattr, p, 'x'), ctx.call(getattr, p, 'y'), p.data
    else:
        ux, uy, P = ctx.call(psd, h.copy(), dx, warg)
    ux, uy, P = np.asarray(ux), np.asarray(uy), np.asarray(P)
    U.check_shape(P, shape, 'psd', 'psd array')
    fx, fy = ref_axes(shape, dx)
    U.check_close(ux, fx, 1e-12, 'psd:axes', 'x frequency axis of a %s map, dx=%g' % (shape, dx))
    U.check_close(uy, fy, 1e-12, 'psd:axes', 'y frequency axis of a %s map, dx=%g' % (shape, dx))
    ctx.require(bool(np.all(np.isfinite(P))) and bool(np.all(P >= 0)), 'psd:nonfinite', 'psd has negative / non-finite entries')
    wms = float(((h * w) ** 2).sum() / (w * w).sum())
    dfx, dfy = 1.0 / (nx * dx), 1.0 / (ny * dx)
    integral = float(P.sum()) * dfx * dfy
    ctx.require(abs(integral - wms) <= 1e-10 * wms, 'psd:parseval',
                'sum(PSD) df_x df_y = %.15g, window-weighted mean square = %.15g (shape %s dx %g window %s)' % (integral, wms, shape, dx, win))
    odd = ('odd' if (ny % 2 or nx % 2) else 'even')
    U.check_close(P, ref_psd(h, w, dx), 1e-10, 'psd:array:%s-axis' % odd,
                  'PSD vs fftshift(|fft2(h w)|^2) dx^2/sum(w^2) on a %s map (window %s)' % (shape, win))
    if route == 'method':
        r = np.asarray(ctx.call(getattr, p, 'r'))
        U.check_close(r, np.hypot(fx, fy), 1e-12, 'Interferogram.psd:r', 'radial frequency of the PSD object')
        # the spacing the PSD object reports is the spacing of its own x frequency axis
        pdx = p.dx
        ctx.require(np.ndim(pdx) == 0 and nx > 1 and abs(float(pdx) - dfx) <= 1e-12 * dfx or nx == 1, 'Interferogram.psd:dx',
                    'PSD object reports dx=%r, its x frequency axis is spaced by %r (shape %s)' % (pdx, dfx, shape))


# ---- clause 2: a sinusoid is found where the axes say it is -----------------------------------------
def strat_sinus(tier):
    def build(shape):
        ny, nx = shape
        return st.fixed_dictionaries({
            'shape': st.just(shape), 'dx': dx_strategy,
            'ky': st.integers(-((ny - 1) // 2), (ny - 1) // 2), 'kx': st.integers(-((nx - 1) // 2), (nx - 1) // 2),
            'phase': st.sampled_from([0.0, 0.7, 1.5707963267948966, 2.9]), 'amp': st.sampled_from([1.0, 0.02, 35.0]),
            'route': st.sampled_from(['function', 'function', 'method'])})
    return shape_strategy(tier).flatmap(build)


def check_sinus(case, ctx):
    """cos 2pi(f_x x + f_y y) on a bin centre: all power sits at +-(f_x, f_y) located through the returned axes."""
    from prysm.interferogram import psd, Interferogram
    shape, dx = tuple(case['shape']), case['dx']
    route = case['route']
    ky, kx = case['ky'], case['kx']
    if route == 'method':
        # Interferogram.psd() applies the automatic window; on >= 26 samples and non-zero corners that is a Hann window, whose line is
        # three bins wide: keep the line three bins away from its mirror image
        shape = big_shape(shape)
        ky, kx = (max(-lim, min(lim, k)) for k, lim in zip((ky, kx), ((shape[0] - 1) // 2 - 2, (shape[1] - 1) // 2 - 2)))
        if max(abs(kx), abs(ky)) < 3:
            kx = 3 if kx >= 0 else -3
    ny, nx = shape
    if ky == 0 and kx == 0:
        kx = 1
    fy, fx = ky / (ny * dx), kx / (nx * dx)
    yy = ((np.arange(ny) - ny // 2) * dx)[:, None]
    xx = ((np.arange(nx) - nx // 2) * dx)[None, :]
    A = case['amp']
    h = A * np.cos(2 * np.pi * (fx * xx + fy * yy) + case['phase'])
    shape_labels(ctx, shape)
    ctx.nt(ny != nx or ny % 2 == 1 or nx % 2 == 1)
    ctx.label('route:' + route, 'axis-aligned' if (kx == 0 or ky == 0) else 'oblique')
    tolf = 1e-6 * min(1.0 / (nx * dx), 1.0 / (ny * dx))
    bucket = 'psd:peak:' + ('odd-axis' if (ny % 2 or nx % 2) else 'even-axes')
    if route == 'function':
        ux, uy, P = ctx.call(psd, h, dx, np.ones(shape))
        ux, uy, P = np.asarray(ux), np.asarray(uy), np.asarray(P)
        U.check_shape(P, shape, 'psd', 'psd array')
        U.check_shape(ux, shape, 'psd:axes', 'ux')
        U.check_shape(uy, shape, 'psd:axes', 'uy')
        want = A * A * ny * nx * dx * dx / 4.0
        rest = np.ones(shape, dtype=bool)
        for s in (1, -1):
            at = (np.abs(ux - s * fx) <= tolf) & (np.abs(uy - s * fy) <= tolf)
            ctx.require(int(at.sum()) == 1, 'psd:axes', 'frequency (%g, %g) is not a sample of the returned axes' % (s * fx, s * fy))
            got = float(P[at][0])
            iy, ix = np.unravel_index(int(np.argmax(P)), P.shape)
            ctx.require(abs(got - want) <= 1e-9 * want, bucket,
                        '%s map dx=%g, sinusoid at (fx,fy)=(%.6g,%.6g): PSD there is %.4g, expected %.4g; the maximum %.4g is reported at (%.6g,%.6g)'
                        % (shape, dx, s * fx, s * fy, got, want, float(P.max()), float(ux[iy, ix]), float(uy[iy, ix])))
            rest &= ~at
        ctx.require(float(P[rest].max()) <= 1e-9 * want, bucket + ':leak', 'power %.3g outside the two peaks (peak %.3g)' % (float(P[rest].max()), want))
    else:
        p = ctx.call(Interferogram(h, dx).psd)
        ux, uy, P = np.asarray(p.x), np.asarray(p.y), np.asarray(p.data)
        U.check_shape(P, shape, 'psd', 'psd array')
        U.check_shape(ux, shape, 'psd:axes', 'p.x')
        U.check_shape(uy, shape, 'psd:axes', 'p.y')
        iy, ix = np.unravel_index(int(np.argmax(P)), P.shape)
        gx, gy = float(ux[iy, ix]), float(uy[iy, ix])
        ok = (abs(gx - fx) <= tolf and abs(gy - fy) <= tolf) or (abs(gx + fx) <= tolf and abs(gy + fy) <= tolf)
        ctx.require(ok, bucket, '%s map dx=%g, sinusoid at +-(%.6g,%.6g): Interferogram.psd() has its maximum at (%.6g,%.6g)' % (shape, dx, fx, fy, gx, gy))


# ---- clause 3: band-limited RMS ----------------------------------------------------------------------
def strat_brms(tier):
    q = st.integers(0, 10 ** 6)
    return st.fixed_dictionaries({
        'shape': shape_strategy(tier), 'dx': dx_strategy, 'seed': U.seeds, 'map': st.sampled_from(MAPS),
        'window': st.sampled_from(['user:hann', 'hann', 'auto', 'user:ones', 'user:random', 'welch']),
        'q': st.tuples(q, q, q).map(list),
        'lo': st.sampled_from(['zero', 'edge', 'edge']), 'hi': st.sampled_from(['edge', 'edge', 'none', 'beyond']),
        'form': st.sampled_from(['freq', 'period']),
        'route': st.sampled_from(['function', 'function', 'method', 'function-1d']),
        'api': st.sampled_from(['native', 'trapz-only', 'trapezoid-only']), 'big': st.sampled_from([False, False, False, True]),
    })


def _mids(radii):
    """midpoints of the gaps between consecutive distinct sample radii that are wider than 1e-6 of the largest radius (so an edge
    placed there is at least 5e-7*rmax away from every sample, whichever way its radius was rounded); also the largest radius."""
    u = np.unique(radii)
    rmax = float(u[-1])
    gap = np.diff(u)
    j = np.flatnonzero(gap > 1e-6 * rmax)
    return [float(u[i] + u[i + 1]) / 2.0 for i in j], rmax


def _edges(radii, q):
    """three increasing band edges, each midway between two consecutive distinct sample radii."""
    mids, rmax = _mids(radii)
    idx = sorted(set(int(k * len(mids) // (10 ** 6 + 1)) for k in q))
    while len(idx) < 3:      # not enough distinct gaps drawn: take neighbours (len(mids) >= 3 for every shape >= 4x4)
        for j in range(len(mids)):
            if j not in idx:
                idx.append(j)
                break
        idx = sorted(idx)
    return [mids[j] for j in idx], rmax


def _trap_w(n):
    w = np.ones(n)
    if n > 1:
        w[0] = w[-1] = 0.5
    return w


def check_brms(case, ctx):
    """band-limited RMS: additive in quadrature over adjacent bands, monotone, each band within [sum - half edge weights, sum], forms agree, TIS."""
    from prysm.interferogram import psd, bandlimited_rms, Interferogram
    shape, dx, win, route, api = tuple(case['shape']), case['dx'], case['window'], case['route'], case['api']
    if route == 'method':
        win = 'auto'
    if case['big']:
        shape = big_shape(shape)
    ny, nx = shape
    h = make_map(case['map'], case['seed'], shape)
    warg = window_arg(win, case['seed'], shape)
    shape_labels(ctx, shape)
    if win == 'auto':
        ctx.label('auto:corners-zero' if (case['map'] == 'aperture0' and min(shape) >= 26) else 'auto:corners-nonzero')
    ctx.label('window:' + win, 'route:' + route, 'api:' + api, 'form:' + case['form'], 'lo:' + case['lo'], 'hi:' + case['hi'])
    ctx.nt(ny != nx or ny % 2 == 1 or nx % 2 == 1 or case['form'] == 'period' or api != 'native' or win != 'user:ones')
    w = window_array(ctx, win, warg, h, dx)
    Pref = ref_psd(h, w, dx)
    fx, fy = ref_axes(shape, dx)
    dfx, dfy = 1.0 / (nx * dx), 1.0 / (ny * dx)
    wms = float(((h * w) ** 2).sum() / (w * w).sum())

    if route == 'function-1d':
        # the documented 1-D form: r a uniform radial frequency vector, psd a 1-D PSD (here: the x>=0 half of the central row)
        rvec = np.ascontiguousarray(fx[0, nx // 2:])
        if rvec.size < 4:
            rvec = np.arange(4) * dfx
        pvec = np.ascontiguousarray(np.resize(Pref[ny // 2, nx // 2:], rvec.size))
        R, Pin, weights, cell = rvec, pvec, _trap_w(rvec.size), dfx
        full_target = None
    else:
        R = np.hypot(fx, fy)
        Pin = Pref
        weights = np.outer(_trap_w(ny), _trap_w(nx))
        cell = dfx * dfy
        full_target = wms
    (a, b, c), rmax = _edges(R, case['q'])
    lo = 0.0 if case['lo'] == 'zero' else a
    hi = {'edge': c, 'none': None, 'beyond': 2.5 * rmax}[case['hi']]
    hi_eff = c if hi is not None and hi < rmax else math.inf

    ifg = Interferogram(h.copy(), dx) if route == 'method' else None

    def brms(flow, fhigh, form):
        """one call into prysm; flow may be 0.0, fhigh may be None (= up to the data's limit)."""
        if form == 'period' and (flow > 0 or fhigh is not None):
            kw = {'wllow': None if fhigh is None else 1.0 / fhigh, 'wlhigh': None if flow == 0 else 1.0 / flow}
        else:
            kw = {'flow': flow, 'fhigh': fhigh}
        with numpy_generation(api):
            if route == 'method':
                v = ctx.call(ifg.bandlimited_rms, **kw)
            else:
                v = ctx.call(bandlimited_rms, R.copy(), Pin.copy(), **kw)
        ctx.require(np.ndim(v) == 0 and bool(np.isfinite(v)) and v >= 0, 'brms:value', 'bandlimited_rms(%r) returned %r' % (kw, v))
        return float(v)

    def band_bounds(flow, fhigh):
        inband = (R >= flow) & (R <= fhigh)
        plain = float((Pin * inband).sum()) * cell
        trap = float((Pin * inband * weights).sum()) * cell
        return trap, plain

    form = case['form']
    pieces = {'ab': (lo, b, b), 'bc': (b, hi, hi_eff), 'ac': (lo, hi, hi_eff), 'full': (0.0, None, math.inf)}
    val = {}
    scale = band_bounds(0.0, math.inf)[1]
    tol = 1e-9 * scale
    for k, (fl, fh_arg, fh_eff) in pieces.items():
        v = brms(fl, fh_arg, form)
        val[k] = v * v
        lo_b, hi_b = band_bounds(fl, fh_eff)
        what = 'band [%.6g, %s] of a %s map, dx=%g, window %s, route %s, %s form' % (fl, 'max' if fh_arg is None else '%.6g' % fh_arg, shape, dx, win, route, form)
        bucket = 'brms:band-value:' + ('nonsquare' if ny != nx and route != 'function-1d' else 'square') + (':period' if form == 'period' else '')
        ctx.require(lo_b - tol <= val[k] <= hi_b + tol, bucket,
                    'brms^2 = %.12g outside [%.12g, %.12g] (PSD samples in the band x df_x df_y, minus / without the trapezoid half weights of the outermost rows and columns); %s'
                    % (val[k], lo_b, hi_b, what))
        # the other form must give the same number
        other = 'period' if form == 'freq' else 'freq'
        if other == 'freq' or fl > 0 or fh_arg is not None:
            v2 = brms(fl, fh_arg, other)
            pv_, fv_ = (v2 * v2, val[k]) if other == 'period' else (val[k], v2 * v2)
            ctx.require(abs(pv_ - fv_) <= tol, 'brms:period-vs-frequency', 'periods give brms^2 %.12g, frequencies %.12g; %s' % (pv_, fv_, what))
    ctx.require(abs(val['ac'] - (val['ab'] + val['bc'])) <= tol, 'brms:additive',
                'brms(a,c)^2=%.12g but brms(a,b)^2+brms(b,c)^2=%.12g+%.12g (a=%.6g b=%.6g c=%s) %s' % (val['ac'], val['ab'], val['bc'], lo, b, hi, shape))
    ctx.require(val['ab'] <= val['ac'] + tol and val['bc'] <= val['ac'] + tol and val['ac'] <= val['full'] + tol, 'brms:monotone',
                'widening a band decreased brms^2: ab=%.12g bc=%.12g ac=%.12g full=%.12g' % (val['ab'], val['bc'], val['ac'], val['full']))
    if full_target is not None:
        lo_b, hi_b = band_bounds(0.0, math.inf)
        ctx.require(abs(hi_b - full_target) <= 1e-9 * full_target, 'harness:parseval', 'reference PSD does not integrate to the mean square')
        ctx.require(lo_b - tol <= val['full'] <= full_target + tol,
                    'brms:full-band:' + ('nonsquare' if ny != nx else 'square'),
                    'full-band brms^2 = %.12g, window-weighted mean square %.12g, outermost-sample weight %.3g (shape %s dx %g window %s)'
                    % (val['full'], full_target, hi_b - lo_b, shape, dx, win))

# ---- clause 4: total integrated scatter ----------------------------------------------------------------
def strat_tis(tier):
    return st.fixed_dictionaries({
        'shape': shape_strategy(tier), 'dx': dx_strategy, 'seed': U.seeds, 'map': st.sampled_from(MAPS),
        'q': st.integers(0, 10 ** 6), 'limit': st.sampled_from(['edge', 'edge', 'beyond']),
        'angle': st.sampled_from([0.0, 30.0, 60.0]), 'api': st.sampled_from(['native', 'trapz-only', 'trapezoid-only'])})


def check_tis(case, ctx):
    """total_integrated_scatter(lambda, theta) == 1 - exp(-(4 pi cos(theta) sigma / lambda)^2) with sigma the band-limited RMS over [0, 1/lambda]."""
    from prysm.interferogram import Interferogram
    shape, dx, api = tuple(case['shape']), case['dx'], case['api']
    ny, nx = shape
    h = make_map(case['map'], case['seed'], shape)
    shape_labels(ctx, shape)
    ctx.label('limit:' + case['limit'], 'api:' + api)
    ctx.nt(case['limit'] == 'edge')
    w = window_array(ctx, 'auto', None, h, dx)
    Pref = ref_psd(h, w, dx)
    fx, fy = ref_axes(shape, dx)
    R = np.hypot(fx, fy)
    cell = 1.0 / (nx * dx) / (ny * dx)
    weights = np.outer(_trap_w(ny), _trap_w(nx))
    mids, rmax = _mids(R)
    f_edge = mids[case['q'] * len(mids) // (10 ** 6 + 1)]
    f_lim = f_edge if case['limit'] == 'edge' else 3.0 * rmax
    wvl = 1000.0 / f_lim          # wavelength in um whose 1/lambda is f_lim cy/mm
    ang = case['angle']
    ifg = Interferogram(h.copy(), dx)
    with numpy_generation(api):
        tis = ctx.call(ifg.total_integrated_scatter, wvl, ang)
    ctx.require(np.ndim(tis) == 0 and bool(np.isfinite(tis)), 'tis:value', 'total_integrated_scatter returned %r' % (tis,))
    inband = R <= f_lim
    hi_b = float((Pref * inband).sum()) * cell
    lo_b = float((Pref * inband * weights).sum()) * cell
    tol = 1e-9 * float(Pref.sum()) * cell

    def formula(s2):
        return 1.0 - math.exp(-(4 * math.pi * math.cos(math.radians(ang)) * math.sqrt(max(s2, 0.0)) / wvl) ** 2)
    t_lo, t_hi = formula(lo_b - tol), formula(hi_b + tol)
    slack = 1e-9 * max(t_hi, 1e-300) + 1e-15
    ctx.require(t_lo - slack <= float(tis) <= t_hi + slack, 'tis:band:' + case['limit'],
                'TIS(lambda=%.6g um -> upper limit %.6g cy/mm of %.6g, angle %g) = %.12g on a %s map dx=%g; the formula with the band-limited RMS over [0, 1/lambda] gives [%.12g, %.12g]'
                % (wvl, f_lim, rmax, ang, float(tis), shape, dx, t_lo, t_hi))


# ---- clause 5: synthesis from a PSD model ------------------------------------------------------------
def strat_synth(tier):
    N = {'quick': 40, 'thorough': 96}[tier]
    return st.fixed_dictionaries({
        'samples': st.one_of(st.integers(4, N), st.sampled_from([4, 5, 8, 9, 16, 31, 32])),
        'size': st.sampled_from([1.0, 25.4, 100.0, 0.35]), 'rms': st.sampled_from([1.0, 5.0, 0.01, 1234.5]),
        'k': st.integers(0, 2 ** 32 - 1), 'model': st.sampled_from(['abc', 'abc', 'ab']),
        'a': st.sampled_from([1.0, 1e4, 1e-2]), 'b': st.sampled_from([0.01, 0.1, 1.0, 2.5]), 'c': st.sampled_from([1.0, 2.0, 3.3]),
        'mask': st.sampled_from(['none', 'circle-bool', 'circle-int', 'random-bool', 'half-float']), 'mseed': U.seeds,
        'route': st.sampled_from(['function', 'function', 'render_from_psd'])})


def check_synth(case, ctx):
    """render_synthetic_surface(rms=R, mask=m): RMS over the finite samples == R, NaN exactly where mask == 0."""
    import numpy.random as npr
    from prysm.interferogram import render_synthetic_surface, abc_psd, ab_psd, Interferogram
    n, size, R = case['samples'], case['size'], case['rms']
    mk = case['mask']
    if mk == 'none':
        mask = None
    else:
        yy, xx = np.mgrid[:n, :n]
        if mk.startswith('circle'):
            m = np.hypot(yy - (n - 1) / 2.0, xx - (n - 1) / 2.0) <= 0.48 * n
        elif mk == 'random-bool':
            m = U.rng_of(case['mseed'], 5).uniform(size=(n, n)) < 0.7
        else:
            m = xx >= n // 2
        if not m.any():
            m[n // 2, n // 2] = True
        mask = {'circle-bool': m, 'random-bool': m, 'circle-int': m.astype(int), 'half-float': m.astype(float)}[mk]
    if case['model'] == 'abc':
        fcn, kw = abc_psd, {'a': case['a'], 'b': case['b'], 'c': case['c']}
    else:
        fcn, kw = ab_psd, {'a': case['a'], 'b': case['b']}
    ctx.label('mask:' + mk, 'model:' + case['model'], 'route:' + case['route'], 'odd' if n % 2 else 'even')
    ctx.nt(mask is not None or n % 2 == 1 or case['model'] == 'ab')
    state = npr.get_state()
    try:
        npr.seed(case['k'])     # synthesize_surface_from_psd draws its random phase with np.random.rand
        if case['route'] == 'function':
            x, y, z = ctx.call(render_synthetic_surface, size, n, rms=R, mask=None if mask is None else mask.copy(), psd_fcn=fcn, **kw)
            dx_rep = None
        else:
            i = ctx.call(Interferogram.render_from_psd, size, n, rms=R, mask=None if mask is None else mask.copy(), psd_fcn=fcn, **kw)
            z, dx_rep = i.data, i.dx
    finally:
        npr.set_state(state)
    z = np.asarray(z)
    U.check_shape(z, (n, n), 'synth', 'surface')
    fin = np.isfinite(z)
    want_valid = np.ones((n, n), dtype=bool) if mask is None else (np.asarray(mask) != 0)
    ctx.require(bool(np.array_equal(fin, want_valid)), 'synth:mask',
                '%d samples finite where mask == 0, %d non-finite where mask != 0' % (int((fin & ~want_valid).sum()), int((~fin & want_valid).sum())))
    got = float(np.sqrt(np.mean(z[fin] ** 2)))
    ctx.require(abs(got - R) <= 1e-9 * R, 'synth:rms', 'requested RMS %.12g, RMS of the %d valid samples %.12g (samples=%d, mask=%s, model=%s)' % (R, int(fin.sum()), got, n, mk, case['model']))
    ctx.require(float(np.ptp(z[fin])) > 0, 'synth:flat', 'synthesised surface is constant')
    # not asserted: the x / y vectors (and render_from_psd's dx) that come with the surface - the statement is about the RMS only;
    # for odd `samples` they are spaced by size/(samples-1) * samples/(samples-1) on the pinned tree (fs is taken from -2*nu[0])
    del dx_rep

CLAUSES = [
    HypClause('psd_normalisation', strat_psd, check_psd, examples={'quick': 600, 'thorough': 3000}, shards={'quick': 2, 'thorough': 8}),
    HypClause('psd_sinusoid', strat_sinus, check_sinus, examples={'quick': 600, 'thorough': 3000}, shards={'quick': 2, 'thorough': 6}),
    HypClause('bandlimited_rms', strat_brms, check_brms, examples={'quick': 500, 'thorough': 2500}, shards={'quick': 3, 'thorough': 10}),
    HypClause('total_integrated_scatter', strat_tis, check_tis, examples={'quick': 400, 'thorough': 2000}, shards={'quick': 1, 'thorough': 4}),
    HypClause('synthesis_rms', strat_synth, check_synth, examples={'quick': 400, 'thorough': 2000}, shards={'quick': 1, 'thorough': 4}),
]
