"""C13 - the PSD is power-normalised, its axes are the data's frequencies, band-limited RMS adds up, synthesis hits its RMS."""
import contextlib
import math

import numpy as np
from hypothesis import strategies as st

from vlib.core import HypClause, MachineClause
from vlib import util as U

RULE = ("Hypothesis-drawn real height maps (white noise, smooth band-limited noise, sinusoid + noise, circular aperture "
        "filled with zeros, offset + noise; contents expanded from a drawn integer), shapes 4..40 (quick) / 4..64 (thorough) "
        "per axis, square and non-square, odd and even, dx from a list and from floats, windows None (automatic), 'welch', "
        "'hann', 'hanning' and user arrays (ones, constant, positive random, the harness' own Hann).  Oracle: numpy's FFT with "
        "the harness' own shift, scaling and frequency axes (fftshift(fftfreq(n, dx)) per axis): the whole PSD array, its "
        "integral sum(PSD)*df_x*df_y == sum((h*w)^2)/sum(w^2), and the returned axes; a bin-centred sinusoid must put its "
        "two peaks at +-(f_x, f_y) as located through the returned axes.  Band-limited RMS: band edges are placed midway "
        "between consecutive distinct radii of the frequency grid (so no sample lies on an inclusive edge), given as "
        "frequencies or as periods, through the function (2-D and 1-D forms) and the Interferogram method, under the native "
        "numpy and under proxies of prysm's backend shim that expose only `trapz` (numpy 1.x) or only `trapezoid` (numpy >= "
        "2.4); asserted: quadrature additivity over adjacent bands, monotonicity under widening, each band (and the full "
        "band) lies between the plain sum of the PSD samples in the band times df_x*df_y minus the half weights the "
        "trapezoid rule takes from the outermost rows/columns, and that plain sum (full band: the window-weighted mean "
        "square); period and frequency forms agree; total_integrated_scatter equals its formula with the band [0, 1/lambda]. "
        "Synthesis: render_synthetic_surface / Interferogram.render_from_psd with abc / ab models, masks (None, bool, int "
        "arrays), requested RMS, numpy.random.seed(k) with drawn k: RMS over the finite samples == requested, NaN exactly "
        "where mask == 0.  Non-trivial = non-square or an odd axis or a non-trivial window / band given as periods / "
        "emulated API generation / masked synthesis.  Distinct = distinct canonical JSON of the case.  Hardening pass: the height "
        "map is handed over in a drawn memory layout (C, Fortran, transposed view, strided view) and dtype (float64, float32, "
        "int16 / int64 / uint8 / uint16 quantised maps; the oracle works on the float64 image of exactly those values; the "
        "comparison tolerance is 1e-10 unless the map or the window is a float32 array, then 5e-4), user windows come in "
        "float64 / float32 / bool / uint8 / int8 / uint16 / int64 and every layout; maps with a size-1 or size-3 axis (1xN, Nx1, "
        "1x1, 3xN; the radial Welch window is not asked for on a single row, where its normalising radius is 0); every array "
        "argument (map, window, r and psd of bandlimited_rms, synthesis mask) must come back unchanged; psd() called again after "
        "the first result was overwritten in place must give the right answer again, and a second synthesis must not change "
        "the arrays returned by the first; clause psd_large: maps with more than 2**16 samples and axis lengths with large prime "
        "factors (257x300, 301x263, 289x299, 1x65537, ...); clause grid_history: a state machine that performs *different* "
        "operations one after the other on one sampling grid (n, size) with dx == size/(n-1) bit for bit - synthesis (function "
        "and render_from_psd, followed by psd() of the rendered object), psd (function / method, n x n, n x m, m x n), "
        "band-limited RMS, TIS, and calls under config.precision = 32 - each checked by the same oracle as in the single-call "
        "clauses; non-trivial there = a PSD-side operation after a synthesis or a precision-32 call on the same grid.  Scalar "
        "parameters (dx, band edges, wavelength) are handed over as Python float / int, numpy scalar or 0-d array (0-d arrays must "
        "come back unchanged), the incident angle of total_integrated_scatter also as a vector of angles (each entry checked "
        "against the formula), psd() is called positionally, by keyword and with the window omitted.  Requested RMS of the synthesis: "
        "usual values, exactly 0 (Python float / int, numpy scalar, 0-d array: every valid sample must be exactly 0), and 1e-200 .. 1e200 "
        "(the oracle forms the RMS on z / rms); model parameters a = 1e-30 .. 1e30, c = 0 (white) .. 8, size 1e-3 .. 1e4 mm; a second "
        "synthesis after a zero request.  In-place edits: on the method routes of psd / bandlimited_rms / total_integrated_scatter a "
        "drawn list of numpy edits (x2, x1e-3, x1e3, reference subtracted, offset added, pixels zeroed, array overwritten, ufunc with "
        "out=; integer maps: //2, rolled) is applied to the public `.data` array of the SAME Interferogram after its first result, and "
        "the next result must be that of the data the object holds now (same oracle, buckets ...:after-inplace-edit).  Clause "
        "object_history: a state machine over ONE Interferogram - psd / band-limited RMS / TIS interleaved with such in-place edits, a "
        "new array or a new dx assigned through the public attributes, the object's own remove_piston / remove_tiptilt / fill, reads "
        "of its scalar statistics, and overwriting the arrays of a PSD object returned earlier; every spectral call is checked against "
        "the oracle for the data and dx the object holds at that moment; non-trivial there = a spectral call after a change since the "
        "previous spectral call.  Round-7 hardening (how the object comes to hold its spacing): on every method route (psd, sinusoid, band-limited "
        "RMS, TIS, both state machines) the Interferogram is built in a drawn way - spacing given positionally / by keyword, with or without a "
        "metadata dictionary as the Zygo readers report it ('lateral_resolution' / 'Lateral Resolution' / both / neither, in metres, naming "
        "another spacing, the same spacing, or 0; 'wavelength' / 'Wavelength'; wavelength argument default / None / 0 / given), constructed with "
        "dx = 0 and the spacing assigned to the public attribute afterwards, or calibrated with latcal() from dx = 0 / 1 / another spacing; the "
        "spacing exactly 1 (the value strip_latcal() leaves behind) is drawn in about 4 of 10 cases; the oracle always uses the spacing that was "
        "given explicitly; the metadata dictionary must come back unchanged.  object_history also calls latcal(v) (spacing v from then on), "
        "strip_latcal() (spacing 1) and assigns new metadata dictionaries, and tracks the spacing the object was given last itself instead of "
        "reading it from the object (bucket Interferogram:dx when the two differ).")
ASSUMPTIONS = ["numpy.fft.fft2 / fftfreq / fftshift are correct", "make_window() returns the window psd() documents for a window name / None "
               "(the oracle needs the window itself to form the window-weighted mean square)",
               "a real NumPy 1.x runtime is not installed: only the trapz/trapezoid API difference is emulated through prysm.mathops' shim",
               "height maps are finite (a NaN sample makes every FFT output NaN by arithmetic)",
               "dx > 0 (psd() divides by dx; 'no lateral calibration' has no spatial frequency)",
               "axis length 2 is used with user windows only through the 4..N range, never as a degenerate class: numpy.hanning(2) is "
               "identically zero, so the named / automatic window has no power there",
               "float16 windows are not generated (sum(w^2) in half precision is not a meaningful normalisation)"]

NMAX = {'quick': 40, 'thorough': 64}
DXS = [1.0, 0.5, 0.1, 2.0, 0.0125, 7.5, 0.3]


# ---- emulation of the numpy API generation through prysm's backend shim -----------------------------
class _NumpyGeneration:
    """stands in for the numpy module inside prysm.mathops.np: everything is numpy's, except that only one of
    `trapz` / `trapezoid` exists (numpy 1.x has only trapz, numpy >= 2.4 only trapezoid)."""

    def __init__(self, real, only):
        self.__dict__['_real'] = real
        self.__dict__['_only'] = only
        self.__dict__['_integ'] = getattr(real, 'trapezoid', None) or getattr(real, 'trapz')

    def __getattr__(self, name):
        if name in ('trapz', 'trapezoid'):
            if name == self._only:
                return self._integ
            raise AttributeError("module 'numpy' has no attribute %r" % name)
        return getattr(self._real, name)


@contextlib.contextmanager
def numpy_generation(mode):
    from prysm import mathops
    if mode == 'native':
        yield
        return
    real = mathops.np._srcmodule
    mathops.np._srcmodule = _NumpyGeneration(real, {'trapz-only': 'trapz', 'trapezoid-only': 'trapezoid'}[mode])
    try:
        yield
    finally:
        mathops.np._srcmodule = real


# ---- maps, windows, reference ----------------------------------------------------------------------
MAPS = ['white', 'smooth', 'sinus+noise', 'aperture0', 'offset+noise']


def make_map(kind, seed, shape, amp=1.0):
    ny, nx = shape
    r = U.rng_of(seed, 3)
    z = r.standard_normal((ny, nx))
    yy = (np.arange(ny) - ny // 2)[:, None]
    xx = (np.arange(nx) - nx // 2)[None, :]
    if kind == 'smooth':
        F = np.fft.fft2(z)
        ky = np.fft.fftfreq(ny)[:, None]
        kx = np.fft.fftfreq(nx)[None, :]
        z = np.fft.ifft2(F / (1 + (np.hypot(kx, ky) / 0.08) ** 2)).real
        z = z / max(float(np.abs(z).max()), 1e-300)
    elif kind == 'sinus+noise':
        ky, kx = r.uniform(-0.4, 0.4, 2)
        z = np.cos(2 * np.pi * (ky * yy + kx * xx) + r.uniform(0, 6)) + 0.1 * z
    elif kind == 'aperture0':
        z = np.where(np.hypot(yy / (ny / 2.0), xx / (nx / 2.0)) <= 0.95, z + 0.5, 0.0)
    elif kind == 'offset+noise':
        z = z + 3.0
    return np.ascontiguousarray(z * amp, dtype=np.float64)


WINDOWS = ['auto', 'welch', 'hann', 'hanning', 'Welch', 'user:ones', 'user:const', 'user:random', 'user:hann', 'user:bool', 'user:uint8',
           'user:f32', 'user:int8', 'user:uint16', 'user:int64']
HDTYPES = ['f8', 'f8', 'f8', 'f4', 'f4', 'i2', 'i8', 'u1', 'u2']
_NP = {'f8': np.float64, 'f4': np.float32, 'i2': np.int16, 'i4': np.int32, 'i8': np.int64, 'u1': np.uint8, 'u2': np.uint16}


def cast_map(h, dtype):
    """the height map in another dtype: float32 (rounded), signed integers (quantised to +-1000 levels, 0 stays 0) or unsigned
    integers (quantised to 0..255 / 0..60000).  The oracle always works on the float64 image of the values actually handed over."""
    if dtype == 'f8':
        return h
    if dtype == 'f4':
        return h.astype(np.float32)
    if dtype in ('u1', 'u2'):
        lo = float(h.min())
        span = float(h.max() - lo) or 1.0
        return np.round((h - lo) / span * (255 if dtype == 'u1' else 60000)).astype(_NP[dtype])
    return np.round(h / (float(np.abs(h).max()) or 1.0) * 1000).astype(_NP[dtype])


SCALARS = ['float', 'float', 'np64', '0d', 'int']


def scalar_form(v, form):
    """a scalar parameter as the caller may hold it: Python float, numpy float64 scalar, 0-d array, Python int (integral values only)"""
    if v is None:
        return None
    if form == 'np64':
        return np.float64(v)
    if form == '0d':
        return np.array(float(v))
    if form == 'int' and float(v) == int(v):
        return int(v)
    return v


def scalar_unchanged(ctx, fn, name, arg, want):
    if isinstance(arg, np.ndarray) and not (arg.shape == np.shape(want) and np.array_equal(arg, want)):
        ctx.fail('%s:argument-modified' % fn, 'argument %s of %s was changed by the call: %r, was %r' % (name, fn, arg, want))


def rtol_of(hdtype, wdtype):
    """psd() forms map*window and sum(window^2) in the precision numpy gives those expressions: single precision (relative 6e-8 per
    operation) as soon as the map or the window is a float32 array - then 5e-4, otherwise 1e-10"""
    return 5e-4 if any(np.dtype(d) in (np.dtype(np.float32), np.dtype(np.float16)) for d in (hdtype, wdtype)) else 1e-10


def window_arg(win, seed, shape):
    """the `window` argument handed to prysm (None / name / ndarray)."""
    if win == 'auto':
        return None
    if not win.startswith('user:'):
        return win
    k = win[5:]
    if k == 'ones':
        return np.ones(shape)
    if k == 'const':
        return np.full(shape, 2.5)
    if k == 'random':
        return U.rng_of(seed, 4).uniform(0.2, 1.0, shape)
    if k == 'hann':
        return np.outer(np.hanning(shape[0]), np.hanning(shape[1]))
    if k == 'f32':
        return U.rng_of(seed, 4).uniform(0.2, 1.0, shape).astype(np.float32)
    if k in ('bool', 'uint8', 'int8', 'uint16', 'int64'):
        # a 0/1 aperture mask used as the window (what prysm.geometry.circle returns is a bool array)
        m = U.rng_of(seed, 4).uniform(0, 1, shape) > 0.3
        m.flat[0] = True
        return m if k == 'bool' else m.astype({'uint8': np.uint8, 'int8': np.int8, 'uint16': np.uint16, 'int64': np.int64}[k])
    raise ValueError(win)


def window_array(ctx, win, warg, h, dx):
    """the window as an array for the oracle: a user array is itself; for a name / None it is what the documented
    public make_window() returns (checked to be a finite real array of the map's shape with positive power)."""
    from prysm.interferogram import make_window
    if isinstance(warg, np.ndarray):
        return warg.astype(np.float64)     # the oracle works in float64
    w = np.asarray(ctx.call(make_window, h, dx, warg))
    U.check_shape(w, h.shape, 'make_window:' + win, 'window')
    ctx.require(bool(np.all(np.isfinite(w))) and float((w * w).sum()) > 0, 'make_window:' + win, 'window not finite / zero power for shape %s' % (h.shape,))
    return w


def ref_axes(shape, dx):
    ny, nx = shape
    fy = np.fft.fftshift(np.fft.fftfreq(ny, dx))
    fx = np.fft.fftshift(np.fft.fftfreq(nx, dx))
    return np.broadcast_to(fx[None, :], (ny, nx)), np.broadcast_to(fy[:, None], (ny, nx))


def ref_psd(h, w, dx):
    """|FFT(h w)|^2 dx^2 / sum(w^2), zero frequency at index n//2 on both axes."""
    hw = h * w
    return np.fft.fftshift(np.abs(np.fft.fft2(hw)) ** 2) * (dx * dx) / float((w * w).sum())


def args_unchanged(ctx, fn, **pairs):
    """every array argument must come back exactly as it was handed over: pairs name -> (array handed over, copy taken before)"""
    for name, (arr, keep) in pairs.items():
        if isinstance(arr, np.ndarray) and not (arr.shape == keep.shape and arr.dtype == keep.dtype and np.array_equal(arr, keep, equal_nan=arr.dtype.kind == 'f')):
            ctx.fail('%s:argument-modified' % fn, 'argument %s of %s (shape %s, dtype %s) was changed by the call' % (name, fn, keep.shape, keep.dtype))


def shape_strategy(tier, lo=4):
    """[ny, nx]: ny from the whole range (with forced small / prime / power-of-two values), nx = ny + delta with delta == 0 in 1 of 4."""
    N = NMAX[tier]
    ax = st.one_of(st.integers(lo, N), st.sampled_from([n for n in (4, 5, 7, 8, 9, 11, 16, 26, 27, 31, 32) if lo <= n <= N]))
    delta = st.sampled_from([0, 0, 0, 1, -1, 2, -2, 3, -3, 5, -7, 12])

    def build(t):
        ny, d = t
        nx = ny + d
        if not lo <= nx <= N:
            nx = ny - d
        if not lo <= nx <= N:
            nx = lo + (abs(d) % (N - lo + 1))
        return [ny, nx]
    return st.tuples(ax, delta).map(build)


def big_shape(shape):
    """map a drawn shape into 26..40 per axis (parities and squareness are kept): the automatic window only looks at the corners
    of arrays with at least 26 samples per axis, and a Hann-windowed line needs room to be separated from its mirror image."""
    return tuple(26 + (n - 4) % 15 for n in shape)


# exactly 1 mm is drawn often: it is the value strip_latcal() leaves behind for "pixels", and 0 is the constructor's "no lateral calibration"
# the lateral unit is the caller's: millimetre-sized pixels expressed in nanometres (dx = 2e6) or kilometre-sized ones in metres give frequency steps of
# 1e-8 and below - every relation of C13 is homogeneous in the lateral unit
DX_UNITS = [2.0e6, 3.3e7, 1.0e9, 4.0e-7, 2.5e-9]
dx_strategy = st.one_of(st.sampled_from(DXS), U.nice_float(0.01, 20.0), st.just(1.0), st.sampled_from(DX_UNITS))


# ---- how an Interferogram comes to hold its sample spacing (constructor arguments, metadata, calibration methods) -----------------
BUILDS = ['plain', 'plain', 'assigned', 'meta', 'meta', 'meta-kw', 'dx0-meta-assigned', 'latcal-from-0', 'latcal-from-1', 'relatcal']
build_strategy = st.fixed_dictionaries({
    'how': st.sampled_from(BUILDS),
    # instrument metadata as io.read_zygo_dat ('lateral_resolution', 'wavelength') / read_zygo_datx ('Lateral Resolution', 'Wavelength')
    # report it, in metres; the values name another spacing than the one given (or the same one: 1e-3 m == 1 mm), or 0 (not recorded)
    'reskey': st.sampled_from(['lateral_resolution', 'Lateral Resolution', 'both', 'none']),
    'res': st.sampled_from([2.5e-4, 1.1e-4, 1e-3, 5e-5, 0.0, 2.0, 1.0]),
    'wvlkey': st.sampled_from(['wavelength', 'Wavelength', 'none']),
    'wvlarg': st.sampled_from(['default', 'none', 'given', 'zero'])})


def build_meta(build):
    meta = {'serial': 'harness', 'camera_width': 640}
    if build['reskey'] in ('lateral_resolution', 'both'):
        meta['lateral_resolution'] = build['res']
    if build['reskey'] in ('Lateral Resolution', 'both'):
        meta['Lateral Resolution'] = build['res']
    if build['wvlkey'] != 'none':
        meta[build['wvlkey']] = 6.328e-7
    return meta


def build_ifg(ctx, h, dxarg, build):
    """an Interferogram of the map h whose sample spacing is `dxarg` (> 0), obtained the way `build` says: spacing given to the constructor
    (positionally / by keyword, with or without a metadata dictionary that names other values, wavelength given / left to the metadata),
    assigned to the public attribute after a construction without (dx = 0) calibration, or set by latcal() on an object built with
    dx = 0 / dx = 1 / another spacing.  The explicit spacing is the data's sampling in every one of them."""
    from prysm.interferogram import Interferogram
    how = build['how']
    ctx.label('build:' + how)
    if how == 'plain':
        return ctx.call(Interferogram, h, dxarg)
    if how == 'assigned':
        ifg = ctx.call(Interferogram, h)
        ifg.dx = dxarg
        return ifg
    meta = build_meta(build)
    keep = dict(meta)
    ctx.label('meta:resolution-key:' + build['reskey'], 'meta:wavelength-arg:' + build['wvlarg'])
    if float(dxarg) in (0.0, 1.0) and build['reskey'] != 'none' and build['res'] not in (0.0, 1e-3):
        ctx.label('meta:dx-exactly-1-and-metadata-names-another-spacing')
    kw = {'default': {}, 'none': {'wavelength': None}, 'given': {'wavelength': 0.6328}, 'zero': {'wavelength': 0}}[build['wvlarg']]
    if how == 'meta':
        ifg = ctx.call(Interferogram, h, dxarg, meta=meta, **kw)
    elif how == 'meta-kw':
        ifg = ctx.call(Interferogram, phase=h, dx=dxarg, intensity=None, meta=meta, **kw)
    elif how == 'dx0-meta-assigned':
        ifg = ctx.call(Interferogram, h, 0, meta=meta, **kw)
        ifg.dx = dxarg
    elif how in ('latcal-from-0', 'latcal-from-1', 'relatcal'):
        first = {'latcal-from-0': 0, 'latcal-from-1': 1.0, 'relatcal': 0.37}[how]
        ifg = ctx.call(Interferogram, h, first, meta=meta, **kw)
        got = ctx.call(ifg.latcal, dxarg)
        ctx.require(got is ifg, 'Interferogram.latcal:return', 'latcal() returned %r, not the object' % (got,))
    else:
        raise ValueError(how)
    ctx.require(meta == keep, 'Interferogram:argument-modified', 'the metadata dictionary was changed: %r, was %r' % (meta, keep))
    return ifg


def shape_labels(ctx, shape):
    ny, nx = shape
    ctx.label('square' if ny == nx else 'nonsquare', 'parity:%s%s' % ('eo'[ny % 2], 'eo'[nx % 2]))


# ---- the public data array of an object edited in place between two calls ---------------------------
EDITS = ['scale2', 'scale1e-3', 'scale1e3', 'subtract-ref', 'add-offset', 'zero-pixels', 'overwrite', 'ufunc-out']


def edit_in_place(ifg, how, seed):
    """edit `ifg.data` the way users do (unit conversion, reference subtraction, bad-pixel zeroing): through numpy, in place, the
    array object stays the same.  Integer maps get the edits that are valid for their dtype.  Returns the label of what was done."""
    d = ifg.data
    r = U.rng_of(seed, 9)
    if d.dtype.kind != 'f':
        how = {'zero-pixels': 'zero-pixels', 'overwrite': 'overwrite'}.get(how, 'int-halve' if how.startswith('scale') else 'int-roll')
    if how == 'scale2':
        ifg.data *= 2.0
    elif how == 'scale1e-3':
        ifg.data *= 1e-3         # nm -> um
    elif how == 'scale1e3':
        ifg.data *= 1e3
    elif how == 'subtract-ref':
        ifg.data -= r.standard_normal(d.shape) * (float(np.abs(d).max()) or 1.0) * 0.5
    elif how == 'add-offset':
        ifg.data += (float(np.abs(d).max()) or 1.0) * 1.5
    elif how == 'zero-pixels':
        m = r.uniform(size=d.shape) < 0.3
        m[d.shape[0] // 2, d.shape[1] // 2] = True
        ifg.data[m] = 0
    elif how == 'overwrite':
        new = r.standard_normal(d.shape) * (float(np.abs(d).max()) or 1.0)
        ifg.data[...] = new if d.dtype.kind == 'f' else r.integers(0, 100, d.shape).astype(d.dtype)
    elif how == 'ufunc-out':
        np.multiply(d, 0.25, out=d)
    elif how == 'int-halve':
        ifg.data //= 2
    elif how == 'int-roll':
        ifg.data[...] = np.roll(d, (1, 2), axis=(0, 1)) // 3
    else:
        raise ValueError(how)
    if ifg.data is not d:
        raise RuntimeError('harness: the in-place edit %s replaced the array object' % how)
    return how


def held_dx(ctx, ifg, dx, tag):
    """the spacing the oracle uses: the one the caller gave the object last (constructor / attribute / latcal / strip_latcal) when the
    caller tracks it, else the one the object reports; the two must agree"""
    got = ifg.dx
    if dx is None:
        return float(got)
    ctx.require(np.ndim(got) == 0 and float(got) == float(dx), 'Interferogram:dx' + tag,
                'the object reports dx=%r; the spacing it was given last is %r' % (got, dx))
    return float(dx)


def method_psd(ctx, ifg, tag, what, dx=None):
    """Interferogram.psd() of the data / dx the object holds *now* against the oracle (automatic window); returns the PSD object"""
    h = np.asarray(ifg.data)
    dx = held_dx(ctx, ifg, dx, tag)
    keep = h.copy()
    w = window_array(ctx, 'auto', None, h, dx)
    rt = rtol_of(h.dtype, w.dtype)
    p = ctx.call(ifg.psd)
    ux, uy, P = ctx.call(getattr, p, 'x'), ctx.call(getattr, p, 'y'), p.data
    args_unchanged(ctx, 'Interferogram.psd', data=(h, keep))
    verify_psd(ctx, h.shape, dx, h.astype(np.float64), w.astype(np.float64), ux, uy, P, rt, what, tag)
    return p


def method_band(ctx, ifg, q, lo_kind, hi_kind, form, tag, api='native', dx=None):
    """Interferogram.bandlimited_rms() over one drawn band and over the full band, of the data / dx the object holds *now*:
    each within [trapezoid sum, plain sum] of the reference PSD samples in the band (full band: up to the windowed mean square)"""
    h = np.asarray(ifg.data)
    dx = held_dx(ctx, ifg, dx, tag)
    ny, nx = h.shape
    hq = h.astype(np.float64)
    w = window_array(ctx, 'auto', None, h, dx).astype(np.float64)
    Pref = ref_psd(hq, w, dx)
    fx, fy = ref_axes((ny, nx), dx)
    R = np.hypot(fx, fy)
    cell = 1.0 / (nx * dx) / (ny * dx)
    weights = np.outer(_trap_w(ny), _trap_w(nx))
    (a, b, c), rmax = _edges(R, q)
    lo = 0.0 if lo_kind == 'zero' else a
    hi = {'edge': c, 'none': None, 'beyond': 2.5 * rmax}[hi_kind]
    hi_eff = c if hi is not None and hi < rmax else math.inf
    total = float(Pref.sum()) * cell
    tol = 1e-9 * total
    out = {}
    for name, (fl, fh, fh_eff) in (('band', (lo, hi, hi_eff)), ('full', (0.0, None, math.inf))):
        if form == 'period' and (fl > 0 or fh is not None):
            kw = {'wllow': None if fh is None else 1.0 / fh, 'wlhigh': None if fl == 0 else 1.0 / fl}
        else:
            kw = {'flow': fl, 'fhigh': fh}
        with numpy_generation(api):
            v = ctx.call(ifg.bandlimited_rms, **kw)
        ctx.require(np.ndim(v) == 0 and bool(np.isfinite(v)) and v >= 0, 'brms:value' + tag, 'bandlimited_rms(%r) returned %r' % (kw, v))
        inband = (R >= fl) & (R <= fh_eff)
        hi_b = float((Pref * inband).sum()) * cell
        lo_b = float((Pref * inband * weights).sum()) * cell
        v2 = float(v) ** 2
        ctx.require(lo_b - tol <= v2 <= hi_b + tol, 'brms:%s' % ('full-band' if name == 'full' else 'band-value') + tag,
                    'Interferogram.bandlimited_rms(%r)^2 = %.12g outside [%.12g, %.12g] (reference PSD samples of the data the object holds now, in the band, '
                    'x df_x df_y, minus / without the trapezoid half weights); %s map, dx=%g, windowed mean square %.12g'
                    % (kw, v2, lo_b, hi_b, (ny, nx), dx, total))
        out[name] = v2
    return out


def method_tis(ctx, ifg, q, limit, ang, tag, api='native', dx=None):
    """Interferogram.total_integrated_scatter(lambda, angle) of the data / dx the object holds *now* against its formula"""
    h = np.asarray(ifg.data)
    dx = held_dx(ctx, ifg, dx, tag)
    ny, nx = h.shape
    hq = h.astype(np.float64)
    w = window_array(ctx, 'auto', None, h, dx).astype(np.float64)
    Pref = ref_psd(hq, w, dx)
    fx, fy = ref_axes((ny, nx), dx)
    R = np.hypot(fx, fy)
    cell = 1.0 / (nx * dx) / (ny * dx)
    weights = np.outer(_trap_w(ny), _trap_w(nx))
    mids, rmax = _mids(R)
    f_lim = mids[q * len(mids) // (10 ** 6 + 1)] if limit == 'edge' else 3.0 * rmax
    wvl = 1000.0 / f_lim
    with numpy_generation(api):
        tis = ctx.call(ifg.total_integrated_scatter, wvl, ang)
    ctx.require(np.ndim(tis) == 0 and bool(np.isfinite(tis)), 'tis:value' + tag, 'total_integrated_scatter returned %r' % (tis,))
    inband = R <= f_lim
    hi_b = float((Pref * inband).sum()) * cell
    lo_b = float((Pref * inband * weights).sum()) * cell
    tol = 1e-9 * float(Pref.sum()) * cell

    def formula(s2):
        return 1.0 - math.exp(-(4 * math.pi * math.cos(math.radians(ang)) * math.sqrt(max(s2, 0.0)) / wvl) ** 2)
    t_lo, t_hi = formula(lo_b - tol), formula(hi_b + tol)
    slack = 1e-9 * max(t_hi, 1e-300) + 1e-15
    ctx.require(t_lo - slack <= float(tis) <= t_hi + slack, 'tis:band:' + limit + tag,
                'TIS(lambda=%.6g um, angle %g) = %.12g on the %s map the object holds now, dx=%g; the formula with the band-limited RMS over [0, 1/lambda] gives [%.12g, %.12g]'
                % (wvl, ang, float(tis), (ny, nx), dx, t_lo, t_hi))


# ---- clause 1: normalisation, whole array, axes ----------------------------------------------------
THIN = [None] * 8 + ['1xN', 'Nx1', '3xN', 'Nx3', '1x1']


def thin_shape(shape, thin):
    """degenerate but valid shapes: a single row / column / sample, three rows / columns"""
    ny, nx = shape
    return {None: (ny, nx), '1xN': (1, nx), 'Nx1': (ny, 1), '3xN': (3, nx), 'Nx3': (ny, 3), '1x1': (1, 1)}[thin]


def psd_fields(tier):
    """everything of a psd case except the sampling grid (shape, dx)"""
    return {'seed': U.seeds, 'map': st.sampled_from(MAPS),
            'amp': st.sampled_from([1.0, 1.0, 1e-3, 250.0]), 'window': st.sampled_from(WINDOWS),
            'route': st.sampled_from(['function', 'function', 'method']),
            'hdtype': st.sampled_from(HDTYPES), 'hlayout': U.layouts, 'wlayout': U.layouts,
            'again': st.sampled_from([False, False, True]), 'dxform': st.sampled_from(SCALARS),
            'call': st.sampled_from(['positional', 'positional', 'keyword', 'window-omitted']),
            'edit': st.one_of(st.none(), st.lists(st.sampled_from(EDITS), min_size=1, max_size=3)), 'build': build_strategy}


def strat_psd(tier):
    return st.fixed_dictionaries(dict(psd_fields(tier), shape=shape_strategy(tier), dx=dx_strategy,
                                      big=st.sampled_from([False, False, True]), thin=st.sampled_from(THIN)))


LARGE = {'quick': [[257, 300], [301, 263], [263, 257], [289, 299], [1, 65537], [65539, 1], [1023, 67]],
         'thorough': [[257, 300], [301, 263], [263, 257], [289, 299], [1, 65537], [65539, 1], [1023, 67], [521, 509], [1021, 67], [127, 523],
                      [1031, 65], [347, 211], [256, 257], [514, 131]]}


def strat_psd_large(tier):
    """more than 2**16 samples and at least one axis length with a large prime factor (where an FFT library switches algorithm and a
    'fast length' differs from the length)"""
    return st.fixed_dictionaries(dict(psd_fields(tier), shape=st.sampled_from(LARGE[tier]), dx=dx_strategy, big=st.just(False), thin=st.just(None)))


def verify_psd(ctx, shape, dx, hq, w, ux, uy, P, rt, what, tag=''):
    """axes == fftshift(fftfreq) per axis, array == |FFT(hw)|^2 dx^2/sum(w^2) on those axes, integral == window-weighted mean square.
    hq, w: float64 images of the map and the window that were handed to prysm."""
    ny, nx = shape
    ux, uy, P = np.asarray(ux), np.asarray(uy), np.asarray(P)
    U.check_shape(P, shape, 'psd' + tag, 'psd array of a %s map' % (shape,))
    fx, fy = ref_axes(shape, dx)
    U.check_close(ux, fx, 1e-12, 'psd:axes' + tag, 'x frequency axis of a %s map, dx=%r' % (shape, dx))
    U.check_close(uy, fy, 1e-12, 'psd:axes' + tag, 'y frequency axis of a %s map, dx=%r' % (shape, dx))
    ctx.require(bool(np.all(np.isfinite(P))) and bool(np.all(P >= 0)), 'psd:nonfinite' + tag, 'psd has negative / non-finite entries')
    wms = float(((hq * w) ** 2).sum() / (w * w).sum())
    dfx, dfy = 1.0 / (nx * dx), 1.0 / (ny * dx)
    integral = float(P.astype(np.float64).sum()) * dfx * dfy
    ctx.within(abs(integral - wms), rt * wms, 'psd:parseval' + tag,
                'sum(PSD) df_x df_y = %.15g, window-weighted mean square = %.15g (shape %s dx %g; %s)' % (integral, wms, shape, dx, what))
    odd = ('odd' if (ny % 2 or nx % 2) else 'even')
    U.check_close(P, ref_psd(hq, w, dx), rt, 'psd:array:%s-axis' % odd + tag,
                  'PSD vs fftshift(|fft2(h w)|^2) dx^2/sum(w^2) on a %s map (%s)' % (shape, what))
    return fx, fy, dfx


def check_psd(case, ctx):
    """psd(): axes == fftshift(fftfreq) per axis, array == |FFT(hw)|^2 dx^2/sum(w^2) on those axes, integral == window-weighted mean square."""
    from prysm.interferogram import psd, Interferogram
    shape, dx, win = tuple(case['shape']), case['dx'], case['window']
    route = case['route']
    if route == 'method':
        win = 'auto'          # Interferogram.psd() takes no window
    if case['big']:
        shape = big_shape(shape)
    thin = case.get('thin')
    shape = thin_shape(shape, thin)
    ny, nx = shape
    hdtype, hlayout, wlayout = case.get('hdtype', 'f8'), case.get('hlayout', 'C'), case.get('wlayout', 'C')
    kind = case['map']
    if ny == 1:
        # the radial Welch window normalises by the radius of the last row's centre, which is 0 on a single row: it is not asked for
        # by name, and the automatic choice (Welch when the corner samples are exactly 0) is kept on its Hann branch by maps whose
        # samples are never exactly 0 (no zero-filled aperture, no quantised map)
        if win.lower() == 'welch':
            win = 'hann'
        if kind == 'aperture0':
            kind = 'offset+noise'
        if hdtype not in ('f8', 'f4'):
            hdtype = 'f8'
    h = U.relayout(cast_map(make_map(kind, case['seed'], shape, case['amp']), hdtype), hlayout)
    hq = h.astype(np.float64)
    warg = window_arg(win, case['seed'], shape)
    if isinstance(warg, np.ndarray):
        warg = U.relayout(warg, wlayout)
    shape_labels(ctx, shape)
    ctx.label('window:' + win, 'map:' + kind, 'route:' + route, 'hdtype:' + hdtype, 'hlayout:' + hlayout, 'thin:%s' % thin,
              'samples>2^16' if ny * nx > 65536 else 'samples<=2^16')
    if isinstance(warg, np.ndarray):
        ctx.label('wlayout:' + wlayout)
    ctx.nt(ny != nx or ny % 2 == 1 or nx % 2 == 1 or win != 'user:ones')
    w = window_array(ctx, win, warg, h, dx)
    rt = rtol_of(h.dtype, warg.dtype if isinstance(warg, np.ndarray) else w.dtype)
    ctx.label('tolerance:%g' % rt)
    if win == 'auto':
        which = 'welch' if (ny > 1 and np.array_equal(w, window_array(ctx, 'welch', 'welch', h, dx))) else 'other'
        ctx.label('auto->' + which)
    w = w.astype(np.float64)
    keep_h, keep_w = h.copy(), (warg.copy() if isinstance(warg, np.ndarray) else None)
    dxarg = scalar_form(dx, case.get('dxform', 'float'))
    ctx.label('dx:' + type(dxarg).__name__, 'call:' + (case.get('call', 'positional') if route == 'function' else 'method'))
    what = 'window %s, map dtype %s layout %s' % (win, h.dtype, hlayout)
    # in-place edits of the object's data between calls: on the method route, for maps with at least 4 samples per axis
    edits = list(case.get('edit') or []) if (route == 'method' and thin is None) else []

    made = []

    def once(tag):
        if route == 'method':
            if made:
                ifg = made[0]         # the same object again (after its data were edited in place)
            elif case.get('build') is not None:
                ifg = build_ifg(ctx, h, dxarg, case['build'])
            elif case.get('seed', 0) % 3 == 0:
                # the spacing assigned through the public attribute after construction (dx is a plain attribute of the class)
                ifg = ctx.call(Interferogram, h)
                ifg.dx = dxarg
                ctx.label('dx-assigned-after-construction')
            else:
                ifg = ctx.call(Interferogram, h, dxarg)
            if edits:
                made[:] = [ifg]
            p = ctx.call(ifg.psd)
            ux, uy, P = ctx.call(getattr, p, 'x'), ctx.call(getattr, p, 'y'), p.data
        else:
            p = None
            form = case.get('call', 'positional')
            if form == 'keyword':
                ux, uy, P = ctx.call(psd, height=h, dx=dxarg, window=warg)
            elif form == 'window-omitted' and warg is None:
                ux, uy, P = ctx.call(psd, h, dxarg)
            else:
                ux, uy, P = ctx.call(psd, h, dxarg, warg)
        args_unchanged(ctx, 'psd', height=(h, keep_h), window=(warg, keep_w))
        scalar_unchanged(ctx, 'psd', 'dx', dxarg, dx)
        fx, fy, dfx = verify_psd(ctx, shape, dx, hq, w, ux, uy, P, rt, what, tag)
        if route == 'method':
            r = np.asarray(ctx.call(getattr, p, 'r'))
            U.check_close(r, np.hypot(fx, fy), 1e-12, 'Interferogram.psd:r' + tag, 'radial frequency of the PSD object')
            # the spacing the PSD object reports is the spacing of its own x frequency axis
            pdx = p.dx
            # (a difference of two axis samples: absolute rounding eps*f_max = eps*nx/2 spacings)
            ctx.require(np.ndim(pdx) == 0 and nx > 1 and abs(float(pdx) - dfx) <= (1e-12 + 4e-16 * nx) * dfx or nx == 1, 'Interferogram.psd:dx' + tag,
                        'PSD object reports dx=%r, its x frequency axis is spaced by %r (shape %s)' % (pdx, dfx, shape))
        return ux, uy, P

    ux, uy, P = once('')
    if edits:
        # the object's public data array is edited in place (same array object) between two psd() calls: the second PSD is that of
        # the data the object holds now
        ctx.nt(True)
        for k_, how in enumerate(edits):
            ctx.label('inplace-edit:' + edit_in_place(made[0], how, case['seed'] + k_))
            if not bool(np.all(np.isfinite(made[0].data))):
                raise RuntimeError('harness: in-place edit %s made the map non-finite' % how)
            method_psd(ctx, made[0], ':after-inplace-edit', 'psd() -> %s in place on .data -> psd() on the same Interferogram' % '; '.join(edits[:k_ + 1]))
        return
    if case.get('again', False):
        # the caller owns what was returned: overwrite it in place, ask again, and the answer must be right again
        n_over = 0
        for a in (ux, uy, P):
            if isinstance(a, np.ndarray) and a.flags.writeable:
                a[...] = -7.0
                n_over += 1
        ctx.label('again:overwrote-%d-arrays' % n_over)
        once(':aliased-state')


# ---- clause 2: a sinusoid is found where the axes say it is -----------------------------------------
def strat_sinus(tier):
    def build(shape):
        ny, nx = shape
        return st.fixed_dictionaries({
            'shape': st.just(shape), 'dx': dx_strategy,
            'ky': st.integers(-((ny - 1) // 2), (ny - 1) // 2), 'kx': st.integers(-((nx - 1) // 2), (nx - 1) // 2),
            'phase': st.sampled_from([0.0, 0.7, 1.5707963267948966, 2.9]), 'amp': st.sampled_from([1.0, 0.02, 35.0]),
            'route': st.sampled_from(['function', 'function', 'method']), 'hlayout': U.layouts, 'dxform': st.sampled_from(SCALARS),
            'build': build_strategy})
    return shape_strategy(tier).flatmap(build)


def check_sinus(case, ctx):
    """cos 2pi(f_x x + f_y y) on a bin centre: all power sits at +-(f_x, f_y) located through the returned axes."""
    from prysm.interferogram import psd, Interferogram
    shape, dx = tuple(case['shape']), case['dx']
    route = case['route']
    ky, kx = case['ky'], case['kx']
    if route == 'method':
        # Interferogram.psd() applies the automatic window; on >= 26 samples and non-zero corners that is a Hann window, whose line is
        # three bins wide: keep the line three bins away from its mirror image
        shape = big_shape(shape)
        ky, kx = (max(-lim, min(lim, k)) for k, lim in zip((ky, kx), ((shape[0] - 1) // 2 - 2, (shape[1] - 1) // 2 - 2)))
        if max(abs(kx), abs(ky)) < 3:
            kx = 3 if kx >= 0 else -3
    ny, nx = shape
    if ky == 0 and kx == 0:
        kx = 1
    fy, fx = ky / (ny * dx), kx / (nx * dx)
    yy = ((np.arange(ny) - ny // 2) * dx)[:, None]
    xx = ((np.arange(nx) - nx // 2) * dx)[None, :]
    A = case['amp']
    h = U.relayout(A * np.cos(2 * np.pi * (fx * xx + fy * yy) + case['phase']), case.get('hlayout', 'C'))
    dxarg = scalar_form(dx, case.get('dxform', 'float'))
    ctx.label('hlayout:' + case.get('hlayout', 'C'), 'dx:' + type(dxarg).__name__)
    shape_labels(ctx, shape)
    ctx.nt(ny != nx or ny % 2 == 1 or nx % 2 == 1)
    ctx.label('route:' + route, 'axis-aligned' if (kx == 0 or ky == 0) else 'oblique')
    tolf = 1e-6 * min(1.0 / (nx * dx), 1.0 / (ny * dx))
    bucket = 'psd:peak:' + ('odd-axis' if (ny % 2 or nx % 2) else 'even-axes')
    if route == 'function':
        ux, uy, P = ctx.call(psd, h, dxarg, np.ones(shape))
        ux, uy, P = np.asarray(ux), np.asarray(uy), np.asarray(P)
        U.check_shape(P, shape, 'psd', 'psd array')
        U.check_shape(ux, shape, 'psd:axes', 'ux')
        U.check_shape(uy, shape, 'psd:axes', 'uy')
        want = A * A * ny * nx * dx * dx / 4.0
        rest = np.ones(shape, dtype=bool)
        for s in (1, -1):
            at = (np.abs(ux - s * fx) <= tolf) & (np.abs(uy - s * fy) <= tolf)
            ctx.require(int(at.sum()) == 1, 'psd:axes', 'frequency (%g, %g) is not a sample of the returned axes' % (s * fx, s * fy))
            got = float(P[at][0])
            iy, ix = np.unravel_index(int(np.argmax(P)), P.shape)
            ctx.within(abs(got - want), 1e-9 * want, bucket,
                        '%s map dx=%g, sinusoid at (fx,fy)=(%.6g,%.6g): PSD there is %.4g, expected %.4g; the maximum %.4g is reported at (%.6g,%.6g)'
                        % (shape, dx, s * fx, s * fy, got, want, float(P.max()), float(ux[iy, ix]), float(uy[iy, ix])))
            rest &= ~at
        ctx.within(float(P[rest].max()), 1e-9 * want, bucket + ':leak', 'power %.3g outside the two peaks (peak %.3g)' % (float(P[rest].max()), want))
    else:
        p = ctx.call((build_ifg(ctx, h, dxarg, case['build']) if case.get('build') is not None else Interferogram(h, dxarg)).psd)
        ux, uy, P = np.asarray(p.x), np.asarray(p.y), np.asarray(p.data)
        U.check_shape(P, shape, 'psd', 'psd array')
        U.check_shape(ux, shape, 'psd:axes', 'p.x')
        U.check_shape(uy, shape, 'psd:axes', 'p.y')
        iy, ix = np.unravel_index(int(np.argmax(P)), P.shape)
        gx, gy = float(ux[iy, ix]), float(uy[iy, ix])
        ok = (abs(gx - fx) <= tolf and abs(gy - fy) <= tolf) or (abs(gx + fx) <= tolf and abs(gy + fy) <= tolf)
        ctx.require(ok, bucket, '%s map dx=%g, sinusoid at +-(%.6g,%.6g): Interferogram.psd() has its maximum at (%.6g,%.6g)' % (shape, dx, fx, fy, gx, gy))


# ---- clause 3: band-limited RMS ----------------------------------------------------------------------
def brms_fields(tier):
    """everything of a band-limited-RMS case except the sampling grid (shape, dx)"""
    q = st.integers(0, 10 ** 6)
    return {
        'seed': U.seeds, 'map': st.sampled_from(MAPS),
        'window': st.sampled_from(['user:hann', 'hann', 'auto', 'user:ones', 'user:random', 'welch']),
        'q': st.tuples(q, q, q).map(list),
        'lo': st.sampled_from(['zero', 'edge', 'edge']), 'hi': st.sampled_from(['edge', 'edge', 'none', 'beyond']),
        'form': st.sampled_from(['freq', 'period']),
        'route': st.sampled_from(['function', 'function', 'method', 'function-1d']),
        'api': st.sampled_from(['native', 'trapz-only', 'trapezoid-only']),
        'rlayout': U.layouts, 'playout': U.layouts, 'hdtype': st.sampled_from(['f8', 'f8', 'f4', 'i2']),
        'edgeform': st.sampled_from(SCALARS),
        'edit': st.one_of(st.none(), st.lists(st.sampled_from(EDITS), min_size=1, max_size=2)), 'build': build_strategy,
    }


def strat_brms(tier):
    return st.fixed_dictionaries(dict(brms_fields(tier), shape=shape_strategy(tier), dx=dx_strategy, big=st.sampled_from([False, False, False, True])))


def _mids(radii):
    """midpoints of the gaps between consecutive distinct sample radii that are wider than 1e-6 of the largest radius (so an edge
    placed there is at least 5e-7*rmax away from every sample, whichever way its radius was rounded); also the largest radius."""
    u = np.unique(radii)
    rmax = float(u[-1])
    gap = np.diff(u)
    j = np.flatnonzero(gap > 1e-6 * rmax)
    return [float(u[i] + u[i + 1]) / 2.0 for i in j], rmax


def _edges(radii, q):
    """three increasing band edges, each midway between two consecutive distinct sample radii."""
    mids, rmax = _mids(radii)
    idx = sorted(set(int(k * len(mids) // (10 ** 6 + 1)) for k in q))
    while len(idx) < 3:      # not enough distinct gaps drawn: take neighbours (len(mids) >= 3 for every shape >= 4x4)
        for j in range(len(mids)):
            if j not in idx:
                idx.append(j)
                break
        idx = sorted(idx)
    return [mids[j] for j in idx], rmax


def _trap_w(n):
    w = np.ones(n)
    if n > 1:
        w[0] = w[-1] = 0.5
    return w


def check_brms(case, ctx):
    """band-limited RMS: additive in quadrature over adjacent bands, monotone, each band within [sum - half edge weights, sum], forms agree, TIS."""
    from prysm.interferogram import psd, bandlimited_rms, Interferogram
    shape, dx, win, route, api = tuple(case['shape']), case['dx'], case['window'], case['route'], case['api']
    if route == 'method':
        win = 'auto'
    if case['big']:
        shape = big_shape(shape)
    ny, nx = shape
    rlayout, playout = case.get('rlayout', 'C'), case.get('playout', 'C')
    hdtype = case.get('hdtype', 'f8') if route == 'method' else 'f8'       # the method computes its own PSD from the object's data
    h = cast_map(make_map(case['map'], case['seed'], shape), hdtype)
    if route == 'method':
        h = U.relayout(h, playout)
    warg = window_arg(win, case['seed'], shape)
    shape_labels(ctx, shape)
    if win == 'auto':
        ctx.label('auto:corners-zero' if (case['map'] == 'aperture0' and min(shape) >= 26) else 'auto:corners-nonzero')
    ctx.label('window:' + win, 'route:' + route, 'api:' + api, 'form:' + case['form'], 'lo:' + case['lo'], 'hi:' + case['hi'],
              'edges-as:' + case.get('edgeform', 'float'),
              'layouts:r=%s,psd=%s' % (rlayout, playout) if route != 'method' else 'method:data:%s:%s' % (hdtype, playout))
    ctx.nt(ny != nx or ny % 2 == 1 or nx % 2 == 1 or case['form'] == 'period' or api != 'native' or win != 'user:ones')
    w = window_array(ctx, win, warg, h, dx).astype(np.float64)
    h_in, keep_h = h, h.copy()
    h = h.astype(np.float64)
    Pref = ref_psd(h, w, dx)
    fx, fy = ref_axes(shape, dx)
    dfx, dfy = 1.0 / (nx * dx), 1.0 / (ny * dx)
    wms = float(((h * w) ** 2).sum() / (w * w).sum())

    if route == 'function-1d':
        # the documented 1-D form: r a uniform radial frequency vector, psd a 1-D PSD (here: the x>=0 half of the central row)
        rvec = np.ascontiguousarray(fx[0, nx // 2:])
        if rvec.size < 4:
            rvec = np.arange(4) * dfx
        pvec = np.ascontiguousarray(np.resize(Pref[ny // 2, nx // 2:], rvec.size))
        R, Pin, weights, cell = rvec, pvec, _trap_w(rvec.size), dfx
        full_target = None
    else:
        R = np.hypot(fx, fy)
        Pin = Pref
        weights = np.outer(_trap_w(ny), _trap_w(nx))
        cell = dfx * dfy
        full_target = wms
    (a, b, c), rmax = _edges(R, case['q'])
    lo = 0.0 if case['lo'] == 'zero' else a
    hi = {'edge': c, 'none': None, 'beyond': 2.5 * rmax}[case['hi']]
    hi_eff = c if hi is not None and hi < rmax else math.inf

    ifg = None
    if route == 'method':
        ifg = build_ifg(ctx, h_in, dx, case['build']) if case.get('build') is not None else ctx.call(Interferogram, h_in, dx)
    R_in, P_in = U.relayout(R, rlayout), U.relayout(Pin, playout)
    keep_R, keep_P = R_in.copy(), P_in.copy()

    def brms(flow, fhigh, form):
        """one call into prysm; flow may be 0.0, fhigh may be None (= up to the data's limit)."""
        if form == 'period' and (flow > 0 or fhigh is not None):
            kw = {'wllow': None if fhigh is None else 1.0 / fhigh, 'wlhigh': None if flow == 0 else 1.0 / flow}
        else:
            kw = {'flow': flow, 'fhigh': fhigh}
        want = dict(kw)
        kw = {k_: scalar_form(v_, case.get('edgeform', 'float')) for k_, v_ in kw.items()}
        with numpy_generation(api):
            if route == 'method':
                v = ctx.call(ifg.bandlimited_rms, **kw)
                args_unchanged(ctx, 'Interferogram.bandlimited_rms', data=(h_in, keep_h))
            else:
                v = ctx.call(bandlimited_rms, R_in, P_in, **kw)
                args_unchanged(ctx, 'bandlimited_rms', r=(R_in, keep_R), psd=(P_in, keep_P))
            for k_ in kw:
                scalar_unchanged(ctx, 'bandlimited_rms', k_, kw[k_], want[k_])
        ctx.require(np.ndim(v) == 0 and bool(np.isfinite(v)) and v >= 0, 'brms:value', 'bandlimited_rms(%r) returned %r' % (kw, v))
        return float(v)

    def band_bounds(flow, fhigh):
        inband = (R >= flow) & (R <= fhigh)
        plain = float((Pin * inband).sum()) * cell
        trap = float((Pin * inband * weights).sum()) * cell
        return trap, plain

    form = case['form']
    pieces = {'ab': (lo, b, b), 'bc': (b, hi, hi_eff), 'ac': (lo, hi, hi_eff), 'full': (0.0, None, math.inf)}
    val = {}
    scale = band_bounds(0.0, math.inf)[1]
    tol = 1e-9 * scale
    for k, (fl, fh_arg, fh_eff) in pieces.items():
        v = brms(fl, fh_arg, form)
        val[k] = v * v
        lo_b, hi_b = band_bounds(fl, fh_eff)
        what = 'band [%.6g, %s] of a %s map, dx=%g, window %s, route %s, %s form' % (fl, 'max' if fh_arg is None else '%.6g' % fh_arg, shape, dx, win, route, form)
        bucket = 'brms:band-value:' + ('nonsquare' if ny != nx and route != 'function-1d' else 'square') + (':period' if form == 'period' else '')
        ctx.require(lo_b - tol <= val[k] <= hi_b + tol, bucket,
                    'brms^2 = %.12g outside [%.12g, %.12g] (PSD samples in the band x df_x df_y, minus / without the trapezoid half weights of the outermost rows and columns); %s'
                    % (val[k], lo_b, hi_b, what))
        # the other form must give the same number
        other = 'period' if form == 'freq' else 'freq'
        if other == 'freq' or fl > 0 or fh_arg is not None:
            v2 = brms(fl, fh_arg, other)
            pv_, fv_ = (v2 * v2, val[k]) if other == 'period' else (val[k], v2 * v2)
            ctx.within(abs(pv_ - fv_), tol, 'brms:period-vs-frequency', 'periods give brms^2 %.12g, frequencies %.12g; %s' % (pv_, fv_, what))
    ctx.within(abs(val['ac'] - (val['ab'] + val['bc'])), tol, 'brms:additive',
                'brms(a,c)^2=%.12g but brms(a,b)^2+brms(b,c)^2=%.12g+%.12g (a=%.6g b=%.6g c=%s) %s' % (val['ac'], val['ab'], val['bc'], lo, b, hi, shape))
    ctx.require(val['ab'] <= val['ac'] + tol and val['bc'] <= val['ac'] + tol and val['ac'] <= val['full'] + tol, 'brms:monotone',
                'widening a band decreased brms^2: ab=%.12g bc=%.12g ac=%.12g full=%.12g' % (val['ab'], val['bc'], val['ac'], val['full']))
    if full_target is not None:
        lo_b, hi_b = band_bounds(0.0, math.inf)
        ctx.within(abs(hi_b - full_target), 1e-9 * full_target, 'harness:parseval', 'reference PSD does not integrate to the mean square')
        ctx.require(lo_b - tol <= val['full'] <= full_target + tol,
                    'brms:full-band:' + ('nonsquare' if ny != nx else 'square'),
                    'full-band brms^2 = %.12g, window-weighted mean square %.12g, outermost-sample weight %.3g (shape %s dx %g window %s)'
                    % (val['full'], full_target, hi_b - lo_b, shape, dx, win))
    if route != 'method':
        # a PSD that is not finite at samples outside the requested band (a model a/f^b evaluated on the map's own frequency grid is +inf at
        # f = 0; a blanked DC bin is NaN): a band that excludes those samples integrates exactly as before
        bad = {0: np.inf, 1: np.nan, 2: -np.inf}[case['seed'] % 3]
        P_bad = np.array(Pin, dtype=np.float64, copy=True)
        P_bad[R == 0] = bad
        a_pos = a if a > 0 else b
        P_bad_in = U.relayout(P_bad, playout)
        for fl, fh in ((a_pos, b if b > a_pos else c), (b, None if hi is None else hi)):
            if not (fl > 0) or (fh is not None and fh <= fl):
                continue
            with numpy_generation(api):
                v_clean = ctx.call(bandlimited_rms, R_in, P_in, flow=fl, fhigh=fh)
                v_bad = ctx.call(bandlimited_rms, R_in, P_bad_in, flow=fl, fhigh=fh)
            ctx.label('non-finite-psd-outside-the-band')
            ctx.require(bool(np.isfinite(v_bad)) and abs(float(v_bad) ** 2 - float(v_clean) ** 2) <= tol, 'brms:non-finite-sample-outside-band',
                        'band [%.6g, %s] excludes f = 0, where the PSD is %r: brms %r, with a finite DC sample %r (%s)' % (fl, fh, bad, v_bad, v_clean, shape))
    if route == 'method' and case.get('edit'):
        # the object's data edited in place after its band-limited RMS was taken: the next values follow the data it holds now
        ctx.nt(True)
        for k_, how in enumerate(case['edit']):
            ctx.label('inplace-edit:' + edit_in_place(ifg, how, case['seed'] + k_))
            method_band(ctx, ifg, case['q'], case['lo'], case['hi'], form, ':after-inplace-edit', api)


# ---- clause 4: total integrated scatter ----------------------------------------------------------------
def tis_fields(tier):
    return {'seed': U.seeds, 'map': st.sampled_from(MAPS),
            'q': st.integers(0, 10 ** 6), 'limit': st.sampled_from(['edge', 'edge', 'beyond']),
            'angle': st.sampled_from([0.0, 30.0, 60.0]), 'api': st.sampled_from(['native', 'trapz-only', 'trapezoid-only']),
            'hlayout': U.layouts, 'wvlform': st.sampled_from(SCALARS), 'angleform': st.sampled_from(['scalar', 'scalar', '0d', 'array', 'int']),
            'edit': st.one_of(st.none(), st.none(), st.lists(st.sampled_from(EDITS), min_size=1, max_size=2)), 'build': build_strategy}


def strat_tis(tier):
    return st.fixed_dictionaries(dict(tis_fields(tier), shape=shape_strategy(tier), dx=dx_strategy))


def check_tis(case, ctx):
    """total_integrated_scatter(lambda, theta) == 1 - exp(-(4 pi cos(theta) sigma / lambda)^2) with sigma the band-limited RMS over [0, 1/lambda]."""
    from prysm.interferogram import Interferogram
    shape, dx, api = tuple(case['shape']), case['dx'], case['api']
    ny, nx = shape
    h = make_map(case['map'], case['seed'], shape)
    shape_labels(ctx, shape)
    ctx.label('limit:' + case['limit'], 'api:' + api)
    ctx.nt(case['limit'] == 'edge')
    w = window_array(ctx, 'auto', None, h, dx)
    Pref = ref_psd(h, w, dx)
    fx, fy = ref_axes(shape, dx)
    R = np.hypot(fx, fy)
    cell = 1.0 / (nx * dx) / (ny * dx)
    weights = np.outer(_trap_w(ny), _trap_w(nx))
    mids, rmax = _mids(R)
    f_edge = mids[case['q'] * len(mids) // (10 ** 6 + 1)]
    f_lim = f_edge if case['limit'] == 'edge' else 3.0 * rmax
    wvl = 1000.0 / f_lim          # wavelength in um whose 1/lambda is f_lim cy/mm
    ang = case['angle']
    h_in = U.relayout(h, case.get('hlayout', 'C'))
    ifg = build_ifg(ctx, h_in, dx, case['build']) if case.get('build') is not None else ctx.call(Interferogram, h_in, dx)
    # "incident_angle : float or ndarray": the drawn angle alone, or as one entry of a vector of angles (the answer is then a vector)
    aform = case.get('angleform', 'scalar')
    angles = [15.0, ang, 75.0]
    angarg = {'scalar': ang, 'int': int(ang), '0d': np.array(ang), 'array': np.array(angles)}[aform]
    wvlarg = scalar_form(wvl, case.get('wvlform', 'float'))
    ctx.label('angle-as:' + aform, 'wavelength-as:' + type(wvlarg).__name__)
    with numpy_generation(api):
        tis = ctx.call(ifg.total_integrated_scatter, wvlarg, angarg)
    args_unchanged(ctx, 'Interferogram.total_integrated_scatter', data=(h_in, h))
    scalar_unchanged(ctx, 'Interferogram.total_integrated_scatter', 'wavelength', wvlarg, wvl)
    scalar_unchanged(ctx, 'Interferogram.total_integrated_scatter', 'incident_angle', angarg, np.array(angles) if aform == 'array' else ang)
    tis_all = None
    if aform == 'array':
        U.check_shape(tis, (3,), 'tis:value', 'TIS for a vector of three angles')
        ctx.require(bool(np.all(np.isfinite(tis))), 'tis:value', 'total_integrated_scatter returned %r' % (tis,))
        tis_all = [float(v) for v in np.asarray(tis)]
        tis = tis[1]
    ctx.require(np.ndim(tis) == 0 and bool(np.isfinite(tis)), 'tis:value', 'total_integrated_scatter returned %r' % (tis,))
    inband = R <= f_lim
    hi_b = float((Pref * inband).sum()) * cell
    lo_b = float((Pref * inband * weights).sum()) * cell
    tol = 1e-9 * float(Pref.sum()) * cell

    def formula(s2, a=ang):
        return 1.0 - math.exp(-(4 * math.pi * math.cos(math.radians(a)) * math.sqrt(max(s2, 0.0)) / wvl) ** 2)
    for a_, v_ in ([(ang, float(tis))] if tis_all is None else list(zip(angles, tis_all))):
        t_lo, t_hi = formula(lo_b - tol, a_), formula(hi_b + tol, a_)
        slack = 1e-9 * max(t_hi, 1e-300) + 1e-15
        ctx.require(t_lo - slack <= v_ <= t_hi + slack, 'tis:band:' + case['limit'],
                    'TIS(lambda=%.6g um -> upper limit %.6g cy/mm of %.6g, angle %g) = %.12g on a %s map dx=%g; the formula with the band-limited RMS over [0, 1/lambda] gives [%.12g, %.12g]'
                    % (wvl, f_lim, rmax, a_, v_, shape, dx, t_lo, t_hi))
    for k_, how in enumerate(case.get('edit') or []):
        # the same object after its data were edited in place
        ctx.nt(True)
        ctx.label('inplace-edit:' + edit_in_place(ifg, how, case['seed'] + k_))
        method_tis(ctx, ifg, case['q'], case['limit'], ang, ':after-inplace-edit', api)


# ---- clause 5: synthesis from a PSD model ------------------------------------------------------------
# requested RMS: usual values, exactly zero (a legitimate request: the surface is identically zero over its valid samples), and the far
# ends of the floating-point range where the unchanged code is still exact to round-off (measured: 1e-200 .. 1e200; at 1e-300 the
# samples are subnormal and the RMS is off by 1e-5, so that is not asked for)
RMS_VALUES = [1.0, 5.0, 0.01, 1234.5, 0.0, 0.0, 0.0, 1e-30, 1e30, 1e-200, 1e200]


def synth_fields(tier):
    """everything of a synthesis case except the grid (samples, size)"""
    return {'rms': st.sampled_from(RMS_VALUES), 'rmsform': st.sampled_from(SCALARS),
            'k': st.integers(0, 2 ** 32 - 1), 'model': st.sampled_from(['abc', 'abc', 'ab', 'user-powerlaw', 'partial-ab']),
            'a': st.sampled_from([1.0, 1e4, 1e-2, 1e-30, 1e30]), 'b': st.sampled_from([0.01, 0.1, 1.0, 2.5]), 'c': st.sampled_from([1.0, 2.0, 3.3, 0.0, 8.0]),
            'mask': st.sampled_from(['none', 'circle-bool', 'circle-int', 'random-bool', 'half-float', 'circle-uint8', 'random-f32', 'single-bool', 'row-bool',
                                     # "keep" is any non-zero value (the code excludes mask == 0): 0/255 image masks, label maps, grey levels, negative values
                                     'circle-uint8-255', 'random-labels', 'random-grey', 'half-negative']),
            'mseed': U.seeds,
            'mlayout': U.layouts, 'twice': st.sampled_from([False, False, True]),
            'route': st.sampled_from(['function', 'function', 'render_from_psd'])}


def strat_synth(tier):
    N = {'quick': 40, 'thorough': 96}[tier]
    awkward = {'quick': [4, 5, 8, 9, 16, 31, 32, 97, 127, 128], 'thorough': [4, 5, 8, 9, 16, 31, 32, 97, 127, 128, 257, 263, 300]}[tier]
    return st.fixed_dictionaries(dict(synth_fields(tier), samples=st.one_of(st.integers(4, N), st.sampled_from(awkward)),
                                      size=st.sampled_from([1.0, 25.4, 100.0, 0.35, 1e-3, 1e4])))


def check_synth(case, ctx):
    """render_synthetic_surface(rms=R, mask=m): RMS over the finite samples == R, NaN exactly where mask == 0."""
    import numpy.random as npr
    from prysm.interferogram import render_synthetic_surface, abc_psd, ab_psd, Interferogram
    n, size, R = case['samples'], case['size'], case['rms']
    mk = case['mask']
    mlayout = case.get('mlayout', 'C')
    if mk == 'none':
        mask = None
    else:
        yy, xx = np.mgrid[:n, :n]
        if mk.startswith('circle'):
            m = np.hypot(yy - (n - 1) / 2.0, xx - (n - 1) / 2.0) <= 0.48 * n
        elif mk.startswith('random'):
            m = U.rng_of(case['mseed'], 5).uniform(size=(n, n)) < 0.7
        elif mk == 'single-bool':      # degenerate but valid apertures: one valid sample, one valid row
            m = (yy == case['mseed'] % n) & (xx == (case['mseed'] // n) % n)
        elif mk == 'row-bool':
            m = yy == case['mseed'] % n
        else:
            m = xx >= n // 2
        if not m.any():
            m[n // 2, n // 2] = True
        if mk == 'circle-uint8-255':
            mask = m.astype(np.uint8) * np.uint8(255)
        elif mk == 'random-labels':
            mask = m.astype(np.int64) * U.rng_of(case['mseed'], 6).integers(1, 4, size=(n, n))
        elif mk == 'random-grey':
            mask = m.astype(float) * U.rng_of(case['mseed'], 6).uniform(0.05, 1.0, size=(n, n))
        elif mk == 'half-negative':
            mask = m.astype(float) * -1.0
        else:
            mask = {'circle-bool': m, 'random-bool': m, 'circle-int': m.astype(int), 'half-float': m.astype(float),
                    'circle-uint8': m.astype(np.uint8), 'random-f32': m.astype(np.float32), 'single-bool': m, 'row-bool': m}[mk]
        mask = U.relayout(mask, mlayout)
    keep_mask = None if mask is None else mask.copy()
    if case['model'] == 'abc':
        fcn, kw = abc_psd, {'a': case['a'], 'b': case['b'], 'c': case['c']}
    elif case['model'] == 'user-powerlaw':
        # psd_fcn is a parameter: a user-supplied model that, like the library's own ab_psd, is singular at zero frequency
        a_, b_ = case['a'], case['b']
        fcn, kw = (lambda nu, a, b: a / nu ** b), {'a': a_, 'b': b_}
    elif case['model'] == 'partial-ab':
        import functools
        fcn, kw = functools.partial(ab_psd, b=case['b']), {'a': case['a']}
    else:
        fcn, kw = ab_psd, {'a': case['a'], 'b': case['b']}
    ctx.label('mask:' + mk, 'model:' + case['model'], 'route:' + case['route'], 'odd' if n % 2 else 'even', 'samples>40' if n > 40 else 'samples<=40')
    if mask is not None:
        ctx.label('mlayout:' + mlayout)
    ctx.nt(mask is not None or n % 2 == 1 or case['model'] == 'ab')
    want_valid = np.ones((n, n), dtype=bool) if mask is None else (np.asarray(keep_mask) != 0)

    rmsform = case.get('rmsform', 'float')
    ctx.label('rms:' + ('zero' if R == 0 else 'extreme' if not 1e-3 <= R <= 1e4 else 'usual'))

    def render(k, rms_):
        rarg = scalar_form(rms_, rmsform)
        ctx.label('rms-as:' + type(rarg).__name__)
        state = npr.get_state()
        try:
            npr.seed(k)     # synthesize_surface_from_psd draws its random phase with np.random.rand
            if case['route'] == 'function':
                x, y, z = ctx.call(render_synthetic_surface, size, n, rms=rarg, mask=mask, psd_fcn=fcn, **kw)
            else:
                i = ctx.call(Interferogram.render_from_psd, size, n, rms=rarg, mask=mask, psd_fcn=fcn, **kw)
                x, y, z = None, None, i.data
        finally:
            npr.set_state(state)
        args_unchanged(ctx, 'render_synthetic_surface', mask=(mask, keep_mask))
        scalar_unchanged(ctx, 'render_synthetic_surface', 'rms', rarg, rms_)
        return x, y, z

    def verify(z, rms_, tag=''):
        z = np.asarray(z)
        U.check_shape(z, (n, n), 'synth' + tag, 'surface')
        fin = np.isfinite(z)
        ctx.require(bool(np.array_equal(fin, want_valid)), 'synth:mask' + tag,
                    '%d samples finite where mask == 0, %d non-finite where mask != 0' % (int((fin & ~want_valid).sum()), int((~fin & want_valid).sum())))
        if rms_ == 0:
            # a requested RMS of exactly 0 is met only by a surface that is 0 at every valid sample
            got = float(np.max(np.abs(z[fin])))
            ctx.require(got == 0.0, 'synth:rms:zero-requested' + tag,
                        'requested RMS 0 (given as %s): the %d valid samples reach |z| = %.6g (samples=%d, mask=%s, model=%s)' % (rmsform, int(fin.sum()), got, n, mk, case['model']))
            return
        # formed on z / rms so that neither 1e200**2 overflows nor 1e-200**2 underflows inside the oracle
        got = rms_ * float(np.sqrt(np.mean((z[fin].astype(np.float64) / rms_) ** 2)))
        ctx.within(abs(got - rms_), 1e-9 * rms_, 'synth:rms' + (':extreme-request' if not 1e-3 <= rms_ <= 1e4 else '') + tag,
                    'requested RMS %.12g, RMS of the %d valid samples %.12g (samples=%d, mask=%s, model=%s)' % (rms_, int(fin.sum()), got, n, mk, case['model']))
        ctx.require(float(np.ptp(z[fin])) > 0 or int(fin.sum()) == 1, 'synth:flat' + tag, 'synthesised surface is constant')

    x, y, z = render(case['k'], R)
    verify(z, R)
    if case.get('twice', False):
        # results must not alias library state or each other: a second synthesis (other random phase, other RMS) on the same grid
        # leaves the arrays of the first one alone and is right itself
        kept = [None if a is None else np.array(a, copy=True) for a in (x, y, z)]
        R2 = 2.0 * R if R > 0 else [0.0, 1.5][case['k'] % 2]      # after a zero request: zero again, or a usual one
        x2, y2, z2 = render((case['k'] + 1) % 2 ** 32, R2)
        for nm, a, b in zip('xyz', (x, y, z), kept):
            if a is not None and not np.array_equal(np.asarray(a), b, equal_nan=True):
                ctx.fail('synth:result-overwritten', 'array %s returned by the first synthesis changed during the second one (samples=%d size=%g)' % (nm, n, size))
        verify(z2, R2, ':second-call')
    # not asserted: the x / y vectors (and render_from_psd's dx) that come with the surface - the statement is about the RMS only;
    # for odd `samples` they are spaced by size/(samples-1) * samples/(samples-1) on the pinned tree (fs is taken from -2*nu[0])


# ---- clause 6: different operations, one after the other, on one sampling grid -----------------------
def strat_grid(tier):
    N = NMAX[tier]
    ax = st.one_of(st.integers(4, N), st.sampled_from([4, 5, 8, 9, 16, 31, 32]))
    return st.fixed_dictionaries({'n': ax, 'm': st.one_of(st.just(0), ax), 'size': st.sampled_from([1.0, 25.4, 100.0, 0.35, 50.0, 7.7])})


def strat_grid_op(tier):
    orient = st.sampled_from(['nn', 'nn', 'nm', 'mn'])
    table = {
        'synth': st.fixed_dictionaries({'op': st.just('synth'), 'case': st.fixed_dictionaries(synth_fields(tier))}),
        'render_psd': st.fixed_dictionaries({'op': st.just('render_psd'), 'rms': st.sampled_from([1.0, 5.0, 0.01, 0.0, 1e-30, 1e30]), 'k': st.integers(0, 2 ** 32 - 1),
                                             'model': st.sampled_from(['abc', 'ab']), 'a': st.sampled_from([1.0, 1e4]), 'b': st.sampled_from([0.1, 1.0, 2.5]),
                                             'c': st.sampled_from([1.0, 2.0, 3.3])}),
        'psd': st.fixed_dictionaries({'op': st.just('psd'), 'orient': orient, 'case': st.fixed_dictionaries(psd_fields(tier))}),
        'brms': st.fixed_dictionaries({'op': st.just('brms'), 'orient': orient, 'case': st.fixed_dictionaries(brms_fields(tier))}),
        'tis': st.fixed_dictionaries({'op': st.just('tis'), 'orient': orient, 'case': st.fixed_dictionaries(tis_fields(tier))}),
        'precision32': st.fixed_dictionaries({'op': st.just('precision32'), 'orient': orient, 'seed': U.seeds}),
    }
    weighted = ['synth'] * 3 + ['render_psd'] * 2 + ['psd'] * 4 + ['brms'] * 2 + ['tis'] + ['precision32']
    return st.sampled_from(weighted).flatmap(lambda k: table[k])


class GridModel:
    """different operations, one after the other, on one sampling grid (n, size): each is checked by the oracle of its single-call clause"""

    PSD_SIDE = ('psd', 'brms', 'tis')

    def __init__(self, init, ctx):
        self.ctx = ctx
        self.n = int(init['n'])
        self.m = int(init['m']) or self.n
        self.size = float(init['size'])
        self.dx = self.size / (self.n - 1)      # the same floating-point expression render_synthetic_surface uses for its grid
        self.done = []
        ctx.label('grid:square' if self.m == self.n else 'grid:nonsquare', 'grid:odd' if self.n % 2 else 'grid:even')

    def _shape(self, orient):
        n, m = self.n, self.m
        return {'nn': [n, n], 'nm': [n, m], 'mn': [m, n]}[orient]

    def apply(self, op):
        ctx = self.ctx
        k = op['op']
        ctx.label('seq:' + k)
        if self.done:
            ctx.label('seq:%s->%s' % (self.done[-1], k))
        if k in self.PSD_SIDE + ('render_psd',) and any(d in ('synth', 'render_psd', 'precision32') for d in self.done):
            ctx.nt(True)
            ctx.label('seq:psd-side-after-synthesis-or-precision32')
        getattr(self, 'op_' + k)(op)
        self.done.append(k)

    def invariant(self):
        pass

    def op_synth(self, op):
        check_synth(dict(op['case'], samples=self.n, size=self.size), self.ctx)

    def op_psd(self, op):
        check_psd(dict(op['case'], shape=self._shape(op['orient']), dx=self.dx, big=False, thin=None), self.ctx)

    def op_brms(self, op):
        check_brms(dict(op['case'], shape=self._shape(op['orient']), dx=self.dx, big=False), self.ctx)

    def op_tis(self, op):
        check_tis(dict(op['case'], shape=self._shape(op['orient']), dx=self.dx), self.ctx)

    def op_precision32(self, op):
        """history only: the same grid is used under config.precision = 32 (nothing is asserted about single-precision results)"""
        from prysm.interferogram import psd, render_synthetic_surface
        import numpy.random as npr
        shape = tuple(self._shape(op['orient']))
        h = make_map('white', op['seed'], shape).astype(np.float32)
        state = npr.get_state()
        try:
            with U.precision(32):
                self.ctx.call(psd, h, self.dx, None)
                npr.seed(op['seed'])
                self.ctx.call(render_synthetic_surface, self.size, self.n, rms=1.0, a=1.0, b=1.0, c=2.0)
        finally:
            npr.set_state(state)

    def op_render_psd(self, op):
        """Interferogram.render_from_psd(size, n) and then psd() of that very object (its dx is whatever render_from_psd derived)"""
        import numpy.random as npr
        from prysm.interferogram import abc_psd, ab_psd, Interferogram
        ctx = self.ctx
        n = self.n
        fcn, kw = (abc_psd, {'a': op['a'], 'b': op['b'], 'c': op['c']}) if op['model'] == 'abc' else (ab_psd, {'a': op['a'], 'b': op['b']})
        state = npr.get_state()
        try:
            npr.seed(op['k'])
            i = ctx.call(Interferogram.render_from_psd, self.size, n, rms=op['rms'], mask=None, psd_fcn=fcn, **kw)
        finally:
            npr.set_state(state)
        z = np.array(i.data, copy=True)
        U.check_shape(z, (n, n), 'synth', 'surface')
        ctx.require(bool(np.all(np.isfinite(z))), 'synth:mask', 'unmasked synthesis has non-finite samples')
        got = float(np.sqrt(np.mean(z ** 2)))
        ctx.within(abs(got - op['rms']), 1e-9 * op['rms'], 'synth:rms' + (':zero-requested' if op['rms'] == 0 else ''),
                    'requested RMS %.12g, got %.12g (samples=%d)' % (op['rms'], got, n))
        dx = i.dx
        ctx.require(np.ndim(dx) == 0 and np.isfinite(dx) and float(dx) > 0, 'render_from_psd:dx', 'render_from_psd reports dx=%r' % (dx,))
        dx = float(dx)
        ctx.label('render_psd:dx-bit-identical-to-size/(n-1)' if dx == self.dx else 'render_psd:dx-differs-in-last-bits')
        p = ctx.call(i.psd)
        w = window_array(ctx, 'auto', None, z, dx).astype(np.float64)
        verify_psd(ctx, (n, n), dx, z, w, ctx.call(getattr, p, 'x'), ctx.call(getattr, p, 'y'), p.data, 1e-10,
                   'psd() of the object returned by render_from_psd(%g, %d)' % (self.size, n), ':after-render_from_psd')
        U.check_equal(np.asarray(i.data), z, 'psd:argument-modified', 'Interferogram.psd() changed the data of the object')


# ---- clause 7: one Interferogram object through its life -----------------------------------------------
def strat_obj(tier):
    return st.fixed_dictionaries({'shape': shape_strategy(tier), 'dx': dx_strategy, 'seed': U.seeds, 'map': st.sampled_from(MAPS),
                                  'hdtype': st.sampled_from(['f8', 'f8', 'f8', 'f4', 'i2']), 'hlayout': U.layouts, 'amp': st.sampled_from([1.0, 1e-3, 250.0]),
                                  'build': build_strategy})


def strat_obj_op(tier):
    q = st.integers(0, 10 ** 6)
    table = {
        'psd': st.fixed_dictionaries({'op': st.just('psd')}),
        'brms': st.fixed_dictionaries({'op': st.just('brms'), 'q': st.tuples(q, q, q).map(list), 'lo': st.sampled_from(['zero', 'edge', 'edge']),
                                       'hi': st.sampled_from(['edge', 'edge', 'none', 'beyond']), 'form': st.sampled_from(['freq', 'period'])}),
        'tis': st.fixed_dictionaries({'op': st.just('tis'), 'q': q, 'limit': st.sampled_from(['edge', 'edge', 'beyond']), 'angle': st.sampled_from([0.0, 30.0, 60.0])}),
        'edit': st.fixed_dictionaries({'op': st.just('edit'), 'how': st.sampled_from(EDITS), 'seed': U.seeds}),
        'rebind': st.fixed_dictionaries({'op': st.just('rebind'), 'seed': U.seeds, 'map': st.sampled_from(MAPS), 'hlayout': U.layouts}),
        'set_dx': st.fixed_dictionaries({'op': st.just('set_dx'), 'dx': dx_strategy, 'dxform': st.sampled_from(SCALARS)}),
        'method': st.fixed_dictionaries({'op': st.just('method'), 'name': st.sampled_from(['remove_piston', 'remove_tiptilt', 'fill'])}),
        'scribble': st.fixed_dictionaries({'op': st.just('scribble')}),
        'read_stats': st.fixed_dictionaries({'op': st.just('read_stats')}),
        'latcal': st.fixed_dictionaries({'op': st.just('latcal'), 'dx': dx_strategy, 'dxform': st.sampled_from(SCALARS)}),
        'strip_latcal': st.fixed_dictionaries({'op': st.just('strip_latcal')}),
        'set_meta': st.fixed_dictionaries({'op': st.just('set_meta'), 'build': build_strategy}),
    }
    weighted = ['psd'] * 4 + ['brms'] * 3 + ['tis'] + ['edit'] * 5 + ['rebind', 'set_dx', 'method', 'scribble', 'read_stats', 'latcal', 'strip_latcal', 'set_meta']
    return st.sampled_from(weighted).flatmap(lambda k: table[k])


class ObjectModel:
    """one Interferogram through its life: spectral calls (psd / bandlimited_rms / total_integrated_scatter) interleaved with what users do
    to the object between them - numpy edits of the public data array in place, a new array or a new dx assigned through the public
    attributes, the object's own in-place methods, overwriting a PSD that was returned earlier.  Every spectral call is checked against
    the oracle for the data and dx the object holds at that moment."""

    SPECTRAL = ('psd', 'brms', 'tis')

    def __init__(self, init, ctx):
        from prysm.interferogram import Interferogram
        self.ctx = ctx
        self.shape = tuple(init['shape'])
        h = U.relayout(cast_map(make_map(init['map'], init['seed'], self.shape, init['amp']), init['hdtype']), init['hlayout'])
        # the spacing the object was given last: the oracle's dx (None for replays recorded before it was tracked: then the object's own)
        self.dx = float(init['dx']) if init.get('build') is not None else None
        self.ifg = build_ifg(ctx, h, init['dx'], init['build']) if init.get('build') is not None else ctx.call(Interferogram, h, init['dx'])
        self.done = []
        self.last_psd = None
        shape_labels(ctx, self.shape)
        ctx.label('obj:hdtype:' + init['hdtype'])

    def invariant(self):
        pass

    def apply(self, op):
        ctx, k = self.ctx, op['op']
        ctx.label('life:' + k)
        tag = ''
        if k in self.SPECTRAL:
            # what happened to the object since its previous spectral call
            since, seen = [], False
            for d in reversed(self.done):
                if d in self.SPECTRAL:
                    seen = True
                    break
                since.append(d)
            if seen and since:
                ctx.nt(True)
                for d in set(since):
                    ctx.label('life:spectral-call-after:' + d)
                if 'edit' in since:
                    tag = ':after-inplace-edit'
                elif 'rebind' in since or 'set_dx' in since or 'latcal' in since or 'strip_latcal' in since or 'set_meta' in since:
                    tag = ':after-attribute-assignment'
                elif 'method' in since:
                    tag = ':after-inplace-method'
        getattr(self, 'op_' + k)(op, tag)
        self.done.append(k)

    def _finite(self, what):
        if not bool(np.all(np.isfinite(np.asarray(self.ifg.data, dtype=np.float64)))):
            raise RuntimeError('harness: %s made the map non-finite' % what)

    def op_psd(self, op, tag):
        self.last_psd = method_psd(self.ctx, self.ifg, tag, 'Interferogram.psd() after %s' % (self.done[-4:],), dx=self.dx)

    def op_brms(self, op, tag):
        method_band(self.ctx, self.ifg, op['q'], op['lo'], op['hi'], op['form'], tag, dx=self.dx)

    def op_tis(self, op, tag):
        method_tis(self.ctx, self.ifg, op['q'], op['limit'], op['angle'], tag, dx=self.dx)

    def op_edit(self, op, tag):
        self.ctx.label('inplace-edit:' + edit_in_place(self.ifg, op['how'], op['seed']))
        self._finite('in-place edit ' + op['how'])

    def op_rebind(self, op, tag):
        """a new array of the same shape assigned to the public attribute"""
        self.ifg.data = U.relayout(make_map(op['map'], op['seed'], self.shape), op['hlayout'])

    def op_set_dx(self, op, tag):
        self.ifg.dx = scalar_form(op['dx'], op['dxform'])
        if self.dx is not None:
            self.dx = float(op['dx'])

    def op_latcal(self, op, tag):
        """the object's own calibration method: the spacing is the plate scale from now on"""
        self.ctx.call(self.ifg.latcal, scalar_form(op['dx'], op['dxform']))
        if self.dx is not None:
            self.dx = float(op['dx'])

    def op_strip_latcal(self, op, tag):
        """back to pixels: documented to leave a spacing of 1 (sample index units)"""
        self.ctx.call(self.ifg.strip_latcal)
        if self.dx is not None:
            self.dx = 1.0

    def op_set_meta(self, op, tag):
        """a metadata dictionary assigned to the public attribute (it names other spacings; the object's calibration is not touched)"""
        self.ifg.meta = build_meta(op['build'])

    def op_method(self, op, tag):
        """the object's own in-place methods (they keep a finite map finite); integer maps only take fill()"""
        name = op['name'] if np.asarray(self.ifg.data).dtype.kind == 'f' else 'fill'
        self.ctx.label('life:method:' + name)
        self.ctx.call(getattr(self.ifg, name))
        self._finite(name)

    def op_scribble(self, op, tag):
        """the PSD object that was returned earlier belongs to the caller: overwrite its arrays"""
        p = self.last_psd
        if p is None:
            return
        for a in (p.data, p.x, p.y):
            if isinstance(a, np.ndarray) and a.flags.writeable:
                a[...] = -7.0
        self.ctx.label('life:scribbled-on-returned-psd')

    def op_read_stats(self, op, tag):
        """history only: the scalar statistics of the object are read (nothing is asserted about them)"""
        for name in ('rms', 'pv', 'std', 'shape', 'size'):
            self.ctx.call(getattr, self.ifg, name)


CLAUSES = [
    HypClause('psd_normalisation', strat_psd, check_psd, examples={'quick': 600, 'thorough': 3000}, shards={'quick': 2, 'thorough': 8}),
    HypClause('psd_sinusoid', strat_sinus, check_sinus, examples={'quick': 600, 'thorough': 3000}, shards={'quick': 2, 'thorough': 6}),
    HypClause('bandlimited_rms', strat_brms, check_brms, examples={'quick': 500, 'thorough': 2500}, shards={'quick': 3, 'thorough': 10}),
    HypClause('total_integrated_scatter', strat_tis, check_tis, examples={'quick': 400, 'thorough': 2000}, shards={'quick': 1, 'thorough': 4}),
    HypClause('synthesis_rms', strat_synth, check_synth, examples={'quick': 600, 'thorough': 2500}, shards={'quick': 1, 'thorough': 4}),
    HypClause('psd_large', strat_psd_large, check_psd, examples={'quick': 48, 'thorough': 400}, shards={'quick': 2, 'thorough': 8}),
    MachineClause('grid_history', GridModel, strat_grid, strat_grid_op, steps={'quick': 8, 'thorough': 12},
                  examples={'quick': 300, 'thorough': 1500}, shards={'quick': 3, 'thorough': 8}),
    MachineClause('object_history', ObjectModel, strat_obj, strat_obj_op, steps={'quick': 10, 'thorough': 16},
                  examples={'quick': 300, 'thorough': 1200}, shards={'quick': 2, 'thorough': 8}),
]
