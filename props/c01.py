"""C01 - padded-FFT, matrix-DFT and chirp-Z propagation compute the same (textbook) transform,
independent of executor history."""
import itertools
import math

import numpy as np
from hypothesis import strategies as st

from vlib.core import HypClause, EnumClause, MachineClause
from vlib import util as U

RULE = ("(a) exhaustive sweep of every geometry (m,n)->(M,N) with all four sizes in 1..B (B=7 quick, 12 thorough) x "
        "Q in {1, 1.7, per-axis (2,1.3)} x forward/inverse x {mdft, czt}; (b) Hypothesis cases: shape, scalar/per-axis "
        "int/float Q, per-axis output size, shift in {0,int,half,real} per axis, field class, input dtype, precision 32/64, "
        "direction, method, entered through the executors, prysm.propagation.(un)focus_fixed_sampling and the Wavefront "
        "methods; (c) the padded-FFT route focus/unfocus/Wavefront.focus/unfocus for int and float Q; (d) rule-based "
        "state machine over the two module-level executors (calls, clear(), precision switches, repeats) comparing every "
        "result with a fresh executor and the reference.  Oracle: O(N^2) textbook DFT written in the harness "
        "(vlib.util.ref_dft); with a shift only moduli are compared (a pure phase is allowed) and mdft/czt moduli must "
        "agree.  Non-trivial = not (square and in==out size and Q==1 and shift==0 and real input); histories are "
        "non-trivial when a key is reused after clear() or a precision switch.")
ASSUMPTIONS = ["float64 NumPy matmul/exp for the reference DFT", "rtol 1e-9 at 64-bit, 2e-3 at 32-bit configuration or "
               "32-bit input dtypes", "list-typed samples_out and non-Python scalar Q are outside the accepted domain"]

TOL64 = 1e-9
TOL32 = 2e-3


def _reset():
    from prysm.fttools import mdft, czt
    mdft.clear()
    czt.clear()


def _tol(prec, dtype):
    return TOL32 if (prec == 32 or dtype in ('float32', 'complex64')) else TOL64


def _scale(f, Q):
    """natural magnitude of a normalised DFT output: sum|f| / sqrt(Ny Qy Nx Qx) (an upper bound of every |F|); errors are
    measured against it so that an output that is zero by cancellation is not compared relative to rounding noise."""
    Qy, Qx = U.as_pair(Q)
    return max(float(np.abs(f).sum()) / math.sqrt(f.shape[0] * Qy * f.shape[1] * Qx), 1e-300)


def _cmp(ctx, out, ref_plus, ref_minus, shifted, tol, bucket, what, scale):
    """complex compare without shift, modulus compare (either sign of the shift, same for both axes) with one."""
    out = np.asarray(out)
    if out.shape != ref_plus.shape:
        ctx.fail(bucket + ':shape', '%s: shape %s expected %s' % (what, out.shape, ref_plus.shape))
    if not shifted:
        e = float(np.abs(out - ref_plus).max()) / scale if np.all(np.isfinite(out)) else float('inf')
        ctx.within(e, tol, bucket, '%s: complex field differs from textbook DFT, rel err %.3g (tol %.1g)' % (what, e, tol))
        return '+'
    ep = float(np.abs(np.abs(out) - np.abs(ref_plus)).max()) / scale if np.all(np.isfinite(out)) else float('inf')
    em = float(np.abs(np.abs(out) - np.abs(ref_minus)).max()) / scale if np.all(np.isfinite(out)) else float('inf')
    ctx.within(min(ep, em), tol, bucket + ':shifted',
                '%s: modulus differs from textbook DFT on the shifted grid, rel err %.3g (+s) / %.3g (-s) (tol %.1g)' % (what, ep, em, tol))
    return '+' if ep <= em else '-'


def _geom_bucket(method, m, n, M, N, Q, shift):
    parts = [method]
    if method == 'czt':
        Qy, Qx = U.as_pair(Q)
        if m != n or Qy != Qx:
            parts.append('nonsquare-or-peraxisQ')
        if (m % 2 == 0 and M % 2 == 1) or (n % 2 == 0 and N % 2 == 1):
            parts.append('even-in->odd-out')
        if any(float(s) != int(s) for s in shift):
            parts.append('fractional-shift')
    return ':'.join(parts)


# ---- (a) exhaustive geometry sweep ---------------------------------------------------------------
QS = [1, 1.7, [2, 1.3]]


def enum_geom(tier):
    B = {'quick': 7, 'thorough': 12}[tier]
    r = range(1, B + 1)
    for m, n, M, N in itertools.product(r, r, r, r):
        yield {'m': m, 'n': n, 'M': M, 'N': N}


def check_geom(case, ctx):
    """mdft.dft2/idft2 and czt.czt2/iczt2 equal the textbook DFT for this (m,n)->(M,N) geometry at three Q settings."""
    from prysm.fttools import mdft, czt
    _reset()
    m, n, M, N = case['m'], case['n'], case['M'], case['N']
    ctx.nt(not (m == n == M == N))
    ctx.label('square' if m == n else 'nonsquare', 'parity-in:%s%s' % ('eo'[m % 2], 'eo'[n % 2]),
              'even->odd' if ((m % 2 == 0 and M % 2) or (n % 2 == 0 and N % 2)) else 'other-parity')
    f = U.field(m * 1000 + n * 100 + M * 10 + N, (m, n), 'complex')
    for Q in QS:
        Qt = U.tup(Q)
        for fwd in (True, False):
            ref = U.ref_dft(f, Q, (M, N), fwd=fwd)
            for method in ('mdft', 'czt'):
                fn = {('mdft', True): mdft.dft2, ('mdft', False): mdft.idft2, ('czt', True): czt.czt2, ('czt', False): czt.iczt2}[(method, fwd)]
                out = ctx.call(fn, f, Qt, (M, N))
                ctx.tally('transforms', 1)
                _cmp(ctx, out, ref, ref, False, TOL64, _geom_bucket(method, m, n, M, N, Q, (0, 0)),
                     '%s %s (%d,%d)->(%d,%d) Q=%r' % (method, 'fwd' if fwd else 'inv', m, n, M, N, Q), _scale(f, Q))


# ---- (b) random cases through every route --------------------------------------------------------
def _shift_axis():
    return st.one_of(st.just(0), st.just(0), st.integers(-5, 5), st.integers(-10, 10).map(lambda k: k / 2),
                     U.nice_float(-6, 6).map(lambda v: round(v, 3)), st.sampled_from([-1000, 137.25, 999.5]))


def _Q():
    q1 = st.one_of(st.integers(1, 4), U.nice_float(0.3, 4).map(lambda v: round(v, 3)), st.sampled_from([1, 2, 1.5, 0.5]),
                   st.sampled_from([0.05, 0.11, 8, 25.5, 4 / 3, 16 / 15]))
    return st.one_of(q1, st.tuples(q1, q1).map(list))


def strat_routes(tier):
    nmax = {'quick': 16, 'thorough': 40}[tier]
    # mostly small axes (the O(N^2) oracle), now and then a long, awkward one (prime, power of two +- 1)
    ax = st.one_of(U.axis_len(nmax), U.axis_len(nmax), U.axis_len(nmax), U.axis_len(nmax), st.sampled_from([64, 97, 127, 129, 150]))
    return st.fixed_dictionaries({
        'shape': st.one_of(st.tuples(ax, ax).map(list), ax.map(lambda k: [k, k])),
        'out': st.one_of(st.tuples(ax, ax).map(list), ax, ax.map(lambda k: [k, k])),
        'Q': _Q(),
        'shift': st.one_of(st.just([0, 0]), st.tuples(_shift_axis(), _shift_axis()).map(list)),
        'kind': U.field_kinds,
        'dtype': st.sampled_from(['complex128', 'complex128', 'float64', 'complex64', 'float32', 'int64', 'uint8', 'bool']),
        'prec': st.sampled_from([64, 64, 64, 32]),
        'fwd': st.booleans(),
        'via': st.sampled_from(['executor', 'executor', 'function', 'wavefront']), 'layout': U.layouts,
        # Q next to (but not on) a value for which shape*Q is a whole number of samples: relative offsets of 1e-7 .. 1e-4
        'qnear': st.one_of(st.just(0), st.just(0), st.sampled_from([4e-6, -4e-6, 1e-7, -3e-5, 1e-4])),
        'phys': st.fixed_dictionaries({'dx': st.sampled_from([0.1, 0.25, 1.0, 0.037]), 'wvl': st.sampled_from([0.5, 0.6328, 1.55]),
                                       'efl': st.sampled_from([10.0, 100.0, 1234.5])}),
        'seed': U.seeds,
        # decimal exponent of an overall amplitude factor (the transform is linear: a field of order 1e-12 or 1e+30 behaves like one of order 1)
        'mag': st.sampled_from([0, 0, 0, 0, -9, -12, 9, -30, 30, -100, 100]),
        'fftbackend': U.fft_backends,       # the FFT module behind the backend shim
        # how the executors are handed the shift: "same broadcast rules apply as with samples" - one number stands for both axes
        'shiftcontainer': st.sampled_from(['tuple', 'tuple', 'list', 'f8array', 'f8array']),      # fixed-sampling functions / methods: any indexable pair
        'shiftform': st.sampled_from(['tuple', 'tuple', 'tuple', 'scalar', 'npscalar'])   # (lists / arrays are unhashable cache keys: outside the accepted domain),
    })


def _cast(f, dtype):
    if dtype in ('float64', 'float32'):
        return np.ascontiguousarray(f.real).astype(dtype)
    if dtype in ('int64', 'uint8'):
        # integer-typed pupils (counts, 0..255 transmission maps)
        return np.round(np.abs(f.real) * 100).astype(dtype)
    if dtype == 'bool':
        # a binary aperture mask, e.g. what prysm.geometry.circle returns
        m = np.abs(f.real) > 0.35
        m.flat[0] = True
        return m
    return f.astype(dtype)


def check_routes(case, ctx):
    """one random transform through mdft and czt (and optionally the propagation function / Wavefront wrappers) vs the textbook DFT."""
    be = case.get('fftbackend', 'scipy')
    if be != 'scipy':
        ctx.label('fft-backend:' + be)
    with U.fft_backend(be):
        _check_routes(case, ctx)


def _check_routes(case, ctx):
    from prysm.fttools import mdft, czt
    from prysm import propagation as P
    _reset()
    shape, out, Q, shift = case['shape'], case['out'], U.tup(case['Q']), tuple(case['shift'])
    prec, dtype, fwd, via = case['prec'], case['dtype'], case['fwd'], case['via']
    sform = case.get('shiftform', 'tuple') if via == 'executor' else 'tuple'
    if sform in ('scalar', 'npscalar'):
        shift = (shift[0], shift[0])          # one number for both axes
    shift_arg = {'tuple': shift, 'scalar': shift[0], 'npscalar': np.float64(shift[0]), 'list': list(shift), 'array': np.array(shift, dtype=float)}[sform]
    if sform != 'tuple':
        ctx.label('shift-given-as:' + sform)
    qn = case.get('qnear', 0)
    if qn:
        # snap Q to the nearest value with shape*Q integral, then move it off by the drawn relative amount
        def near(q, n):
            k = max(1, round(q * n))
            return (k / n) * (1 + qn)
        Q = tuple(near(q, n) for q, n in zip(U.as_pair(Q), shape)) if isinstance(Q, tuple) else near(Q, shape[1])
        ctx.label('Q-near-fft-grid')
    outp = U.as_pair(U.tup(out))
    if via == 'wavefront':
        # Wavefront methods document `samples` tuples as (x, y) but pass them on as (rows, cols); stay out of that
        # ambiguity by using square outputs there
        outp = (outp[0], outp[0])
        out_arg = int(outp[0]) if isinstance(out, int) else outp
    else:
        out_arg = U.tup(out)
    f = U.relayout(_cast(U.field(case['seed'], shape, case['kind']), dtype), case.get('layout', 'C'))   # same values, any memory layout
    mag = case.get('mag', 0)
    if f.dtype.kind in 'fc' and mag:
        if prec == 32 or dtype in ('float32', 'complex64'):
            mag = max(-12, min(12, mag))          # complex64 holds 1e+-38
        f = f * f.dtype.type(10.0 ** mag)
        ctx.label('mag:tiny' if mag < 0 else 'mag:huge')
    f_before = f.copy()
    fnum = f.astype(np.float64) if f.dtype.kind in 'bui' else f          # the oracle side works on the numeric values
    shifted = any(s != 0 for s in shift)
    square = shape[0] == shape[1]
    ctx.nt(not (square and tuple(shape) == outp and Q == 1 and not shifted and dtype.startswith('float')))
    ctx.label('via:' + via, 'prec%d' % prec, dtype, 'shifted' if shifted else 'unshifted', 'square' if square else 'nonsquare',
              'peraxisQ' if isinstance(Q, tuple) else 'scalarQ', 'fwd' if fwd else 'inv', 'kind:' + case['kind'], 'layout:' + case.get('layout', 'C'))
    tol = _tol(prec, dtype)
    single = prec == 32 or dtype in ('float32', 'complex64')
    qs = U.as_pair(Q)
    if single and (max(abs(v) for v in shift) > 20 or max(max(shape), max(outp)) > 48 or min(qs) < 0.2 or max(qs) > 10):
        # single precision cannot hold the phase of these arguments to the stated tolerance (the error grows with |shift|,
        # the axis length and 1/Q); the extreme classes are exercised at double precision only
        ctx.exclude('extreme arguments at single precision')
    # the transform kernel's largest phase, 2 pi (n/2+|s|)(m/2+|s|)/(n Q): double precision resolves it to ~1e-16 of its size
    arg = max(2 * math.pi * (shape[k] / 2 + abs(shift[1 - k])) * (outp[k] / 2 + abs(shift[1 - k])) / (shape[k] * qs[k]) for k in (0, 1))
    tol = max(tol, 1e-13 * arg)
    with U.precision(prec):
        if via == 'executor':
            Qpair = U.as_pair(Q)
            ref_p = U.ref_dft(fnum, Qpair, outp, shift, fwd)
            ref_m = U.ref_dft(fnum, Qpair, outp, (-shift[0], -shift[1]), fwd) if shifted else ref_p
            outs = {}
            for method, ex in (('mdft', mdft), ('czt', czt)):
                fn = getattr(ex, {('mdft', True): 'dft2', ('mdft', False): 'idft2', ('czt', True): 'czt2', ('czt', False): 'iczt2'}[(method, fwd)])
                o = ctx.call(fn, f, Q, out_arg, shift_arg)
                outs[method] = o
                sign = _cmp(ctx, o, ref_p, ref_m, shifted, tol, _geom_bucket(method, shape[0], shape[1], outp[0], outp[1], Q, shift),
                            '%s %s %s->%s Q=%r shift=%r %s prec%d' % (method, 'fwd' if fwd else 'inv', shape, outp, Q, shift, dtype, prec), _scale(f, Q))
                outs[method + '_sign'] = sign
            if shifted:
                ctx.require(outs['mdft_sign'] == outs['czt_sign'] or
                            float(np.abs(np.abs(ref_p) - np.abs(ref_m)).max()) <= 10 * tol * _scale(fnum, Q),
                            'shift-sign:mdft-vs-czt', 'mdft and czt translate in opposite directions for shift=%r' % (shift,))
                e = float(np.abs(np.abs(outs['mdft']) - np.abs(outs['czt'])).max()) / _scale(fnum, Q)
                ctx.within(e, 2 * tol, 'routes-differ-in-modulus', 'mdft vs czt modulus differs by %.3g for shift=%r' % (e, shift))
            U.check_equal(f, f_before, 'input-modified', 'the transform modified its input array')
            return
        # physical routes: Q and the sample shift are derived from (dx, wavelength, efl, output dx)
        ph = case['phys']
        dxp, wvl, efl = ph['dx'], ph['wvl'], ph['efl']
        Qy, Qx = U.as_pair(Q)   # interpreted as the per-axis Q we *want*; derive the output spacing from Qx
        if fwd:
            # pupil (mm) -> focal (um): Q_axis = wvl*efl/(N_axis*dxp*dxo); choose dxo from Qx on axis 1
            dxo = wvl * efl / (shape[1] * dxp * Qx)
            Qtrue = (wvl * efl / (shape[0] * dxp * dxo), wvl * efl / (shape[1] * dxp * dxo))
            sh_units = (shift[0] * dxo, shift[1] * dxo)
            dx_in = dxp
        else:
            # focal (um) -> pupil (mm): Q_axis = wvl*efl/(dxo*dxin*N_in_axis); field spacing dxin chosen from Qx
            dxo = dxp
            dx_in = wvl * efl / (shape[1] * dxo * Qx)
            Qtrue = (wvl * efl / (shape[0] * dxo * dx_in), wvl * efl / (shape[1] * dxo * dx_in))
            sh_units = (shift[0] * dxo, shift[1] * dxo)
        # the shift (in output units) as the caller's own container: a tuple, a list, or one float64 / float32 array object that is handed to
        # both methods one after the other and must come back unchanged
        cform = case.get('shiftcontainer', 'tuple')
        if not shifted:
            cform = 'tuple'      # documented type "tuple of float"; other indexable pairs are accepted (observed) for non-zero shifts only
        sh_tuple = sh_units
        if cform != 'tuple':
            sh_units = {'list': list(sh_tuple), 'f8array': np.array(sh_tuple, dtype=np.float64), 'f4array': np.array(sh_tuple, dtype=np.float32)}[cform]
            if cform == 'f4array':      # what the library is given is the rounded value
                shift = tuple(float(v) / dxo for v in sh_units)
                shifted = any(v != 0 for v in shift)
            ctx.label('shift-container:' + cform)
        sh_before = None if cform == 'tuple' else np.array(sh_units, copy=True)
        ref_p = U.ref_dft(fnum, Qtrue, outp, shift, fwd)
        ref_m = U.ref_dft(fnum, Qtrue, outp, (-shift[0], -shift[1]), fwd) if shifted else ref_p
        res = {}
        for method in ('mdft', 'czt'):
            if sh_before is not None:
                ctx.require(type(sh_units) is type(sh_before) or isinstance(sh_units, list), 'shift-argument-modified', 'shift container replaced')
                ctx.require(np.array_equal(np.asarray(sh_units), sh_before), 'shift-argument-modified',
                            'the caller\'s shift %s was changed by an earlier call: %r -> %r' % (cform, sh_before.tolist(), np.asarray(sh_units).tolist()))
            if via == 'function':
                fn = P.focus_fixed_sampling if fwd else P.unfocus_fixed_sampling
                o = ctx.call(fn, f, dx_in, efl, wvl, dxo, out_arg, shift=sh_units, method=method)
            else:
                w = P.Wavefront(f, wvl, dx_in, space='pupil' if fwd else 'psf')
                fn = w.focus_fixed_sampling if fwd else w.unfocus_fixed_sampling
                wo = ctx.call(fn, efl, dxo, out_arg, shift=sh_units, method=method)
                o = wo.data
                ctx.require(abs(wo.dx - dxo) <= 1e-12 * dxo and wo.space == ('psf' if fwd else 'pupil'), 'wavefront:metadata',
                            'Wavefront.%s returned dx=%r space=%r' % (fn.__name__, wo.dx, wo.space))
            b = 'fixed_sampling:' + _geom_bucket(method, shape[0], shape[1], outp[0], outp[1], Qtrue, shift)
            if shape[0] != shape[1]:
                b += ':nonsquare-input'
            res[method] = _cmp(ctx, o, ref_p, ref_m, shifted, 10 * tol, b,
                               '%s via %s %s %s->%s dx_in=%g dx_out=%g shift=%r' % (method, via, 'focus' if fwd else 'unfocus', shape, outp, dx_in, dxo, sh_units),
                               _scale(fnum, Qtrue))
        U.check_equal(f, f_before, 'input-modified', 'the propagation modified its input array')
        if sh_before is not None:
            ctx.require(np.array_equal(np.asarray(sh_units), sh_before), 'shift-argument-modified',
                        'the caller\'s shift %s was changed: %r -> %r' % (cform, sh_before.tolist(), np.asarray(sh_units).tolist()))


# ---- (c) FFT route ----------------------------------------------------------------------------------
def strat_fft(tier):
    nmax = {'quick': 16, 'thorough': 48}[tier]
    ax = U.axis_len(nmax)
    return st.fixed_dictionaries({
        'shape': st.one_of(st.tuples(ax, ax).map(list), ax.map(lambda k: [k, k])),
        'Q': st.one_of(st.integers(1, 4), st.sampled_from([1, 2, 1.5, 1.25, 2.5, 3]), U.nice_float(1, 3).map(lambda v: round(v, 2))),
        'kind': U.field_kinds, 'fwd': st.booleans(), 'via': st.sampled_from(['function', 'wavefront']),
        'dtype': st.sampled_from(['complex128', 'float64', 'complex64']), 'layout': U.layouts, 'seed': U.seeds})


def check_fft(case, ctx):
    """focus / unfocus (padded FFT) equal the textbook DFT of the field on the padded grid ceil(n*Q)."""
    from prysm import propagation as P
    shape, Q, fwd = case['shape'], case['Q'], case['fwd']
    f = U.relayout(_cast(U.field(case['seed'], shape, case['kind']), case['dtype']), case.get('layout', 'C'))
    padded = tuple(math.ceil(s * Q) for s in shape) if Q != 1 else tuple(shape)
    ctx.nt(not (shape[0] == shape[1] and Q == 1 and case['dtype'] == 'float64'))
    ctx.label('layout:' + case.get('layout', 'C'))
    ctx.label('via:' + case['via'], 'square' if shape[0] == shape[1] else 'nonsquare', 'Q=1' if Q == 1 else ('intQ' if Q == int(Q) else 'floatQ'),
              'parity:%s%s->%s%s' % ('eo'[shape[0] % 2], 'eo'[shape[1] % 2], 'eo'[padded[0] % 2], 'eo'[padded[1] % 2]))
    Qeff = (padded[0] / shape[0], padded[1] / shape[1])
    ref = U.ref_dft(f, Qeff, padded, fwd=fwd)
    tol = 1e-4 if case['dtype'] == 'complex64' else 1e-10
    if case['via'] == 'function':
        out = ctx.call(P.focus if fwd else P.unfocus, f, Q)
    else:
        w = P.Wavefront(f, 0.5, 0.1, space='pupil' if fwd else 'psf')
        wo = ctx.call(w.focus if fwd else w.unfocus, 100.0, Q)
        out = wo.data
        ctx.require(wo.space == ('psf' if fwd else 'pupil'), 'wavefront:space', 'space not switched')
    _cmp(ctx, out, ref, ref, False, tol, 'fft-route:' + ('focus' if fwd else 'unfocus'),
         '%s %s Q=%r -> %s' % ('focus' if fwd else 'unfocus', shape, Q, padded), _scale(f, Qeff))


# ---- (d) histories ----------------------------------------------------------------------------------
def strat_hist_init(tier):
    return st.fixed_dictionaries({'prec': st.sampled_from([64, 32])})


def strat_hist_op(tier):
    ax = U.axis_len(8)
    geo = st.fixed_dictionaries({
        'shape': st.sampled_from([[4, 4], [5, 5], [4, 6], [3, 8], [6, 6]]),   # few keys => frequent reuse
        'out': st.sampled_from([4, 5, [6, 4], [5, 7]]),
        'Q': st.sampled_from([1, 2, 1.5, [2, 1.5]]),
        'shift': st.sampled_from([[0, 0], [0, 0], [1, 0], [0.5, -1.5]]),
    })
    call = st.fixed_dictionaries({'op': st.just('call'), 'fn': st.sampled_from(['dft2', 'idft2', 'czt2', 'iczt2']), 'geo': geo,
                                  'dtype': st.sampled_from(['complex128', 'complex128', 'float64', 'complex64', 'float32', 'int64', 'uint8', 'bool']), 'seed': st.integers(0, 50)})
    return st.one_of(call, call, call,
                     st.fixed_dictionaries({'op': st.just('clear'), 'which': st.sampled_from(['mdft', 'czt', 'both'])}),
                     st.fixed_dictionaries({'op': st.just('precision'), 'bits': st.sampled_from([32, 64])}),
                     st.fixed_dictionaries({'op': st.just('repeat'), 'idx': st.integers(0, 30)}),
                     # an earlier call again with another shift (everything else equal): bases / kernels shared between shifts of one geometry
                     st.fixed_dictionaries({'op': st.just('reshift'), 'idx': st.integers(0, 30), 'seed': st.integers(0, 50),
                                            'shift': st.sampled_from([[0, 0], [0, 0], [1, 0], [0, 1], [-1, -1], [-2, -2], [-1, 0], [-2, 0], [0.5, -1.5], [2.25, 3]])}),
                     # an earlier call again with exactly one other argument changed (output window smaller / larger / other parity, another Q,
                     # another input shape): whatever one geometry left in the executor must not be taken for a neighbouring one
                     st.fixed_dictionaries({'op': st.just('vary'), 'idx': st.integers(0, 30), 'seed': st.integers(0, 50), 'what': st.sampled_from(['out', 'out', 'out', 'Q', 'shape']),
                                            'out': st.sampled_from([1, 2, 3, 4, 5, 6, 7, 8, 9, [6, 4], [5, 7], [3, 8], [7, 3], [4, 6]]),
                                            'Q': st.sampled_from([1, 2, 1.5, 3, [2, 1.5], [1.5, 2], 0.75]),
                                            'shape': st.sampled_from([[4, 4], [5, 5], [4, 5], [5, 4], [3, 6], [6, 6], [7, 7]])}),
                     # another public function that runs on the same module-level executor (fttools.fourier_resample, which DM.render uses, transforms with
                     # mdft.idft2 internally) with a geometry that the next checked call repeats exactly: same input shape, Q = zoom, same output samples
                     st.fixed_dictionaries({'op': st.just('resample-then-idft2'), 'shape': st.sampled_from([[4, 4], [5, 5], [4, 5], [6, 4], [8, 8]]),
                                            'zoom': st.sampled_from([2, 1.5, 0.5, [2, 1.5], 3]), 'seed': st.integers(0, 50), 'then': st.sampled_from(['idft2', 'idft2', 'dft2'])}),
                     # a burst of many distinct small geometries (bounded caches, eviction, counters); nothing but termination is asserted for the burst
                     # itself, later operations re-visit earlier geometries
                     st.fixed_dictionaries({'op': st.just('burst'), 'n': st.sampled_from([20, 40, 70, 300]), 'fn': st.sampled_from(['dft2', 'idft2', 'czt2', 'iczt2']),
                                            'revisit': st.booleans()}),
                     # a call that fails (wrong dimensionality / a Q that is not a number / no output size) and is caught by the caller: whatever it left
                     # behind in the executor must not change later answers (nothing is asserted about the failing call itself)
                     st.fixed_dictionaries({'op': st.just('failed-call'), 'fn': st.sampled_from(['dft2', 'idft2', 'czt2', 'iczt2']),
                                            'how': st.sampled_from(['3d-input', '1d-input', 'Q-not-a-number', 'no-output-size'])}),
                     # the partner of an earlier call: the return leg of a round trip (other direction, input and output grids swapped,
                     # same Q and shift), the other direction on the same grids, or the same function on the swapped grids
                     st.fixed_dictionaries({'op': st.just('partner'), 'idx': st.integers(0, 30), 'seed': st.integers(0, 50),
                                            'how': st.sampled_from(['return-leg', 'return-leg', 'other-direction', 'swapped-grids'])}))


class ExecutorHistory:
    """Module-level executors after any history: every call equals the same call on a fresh executor (same dtype, 1e-12)
    and the textbook DFT; clear() and precision switches must not change later answers."""

    def __init__(self, init, ctx):
        from prysm.conf import config
        from prysm import fttools
        self.ctx = ctx
        self.ft = fttools
        self.config = config
        self.old = 64 if config.precision == np.float64 else 32
        _reset()
        config.precision = init['prec']
        self.prec = init['prec']
        self.calls = []
        self.seen = {}     # key -> set of (prec, epoch) it was used under
        self.epoch = 0
        self.burst = 0
        self.buffers = {}  # (shape, dtype) -> the caller's array object, refilled in place for every later call of that shape
        self.kept = []     # (result object, copy of it at the time, description): results handed out earlier stay what they were

    def close(self):
        self.config.precision = self.old
        _reset()

    def invariant(self):
        pass

    def apply(self, op):
        ctx = self.ctx
        if op['op'] == 'clear':
            if op['which'] in ('mdft', 'both'):
                ctx.call(self.ft.mdft.clear)
            if op['which'] in ('czt', 'both'):
                ctx.call(self.ft.czt.clear)
            self.epoch += 1
            ctx.label('op:clear')
            return
        if op['op'] == 'precision':
            self.config.precision = op['bits']
            self.prec = op['bits']
            ctx.label('op:precision')
            return
        if op['op'] == 'failed-call':
            live = self.ft.mdft if op['fn'] in ('dft2', 'idft2') else self.ft.czt
            args = {'3d-input': (np.ones((2, 3, 2)), 1, 4), '1d-input': (np.ones(4), 1, 4), 'Q-not-a-number': (np.ones((4, 4)), 'x', 4),
                    'no-output-size': (np.ones((4, 4)), 1, None)}[op['how']]
            try:
                getattr(live, op['fn'])(*args)
                ctx.label('op:failed-call:did-not-raise')
            except Exception:      # noqa - the caller of an invalid request catches whatever comes
                ctx.label('op:failed-call:raised')
            return
        if op['op'] == 'burst':
            live = self.ft.mdft if op['fn'] in ('dft2', 'idft2') else self.ft.czt
            g = np.ones((2, 3), dtype=complex)
            for i in range(op['n']):
                ctx.call(getattr(live, op['fn']), g, 1 + (self.burst + i) / 64, (3, 2))       # a new Q each time: a new geometry
                if op['revisit'] and self.calls and i % 4 == 3:
                    c0 = self.calls[0]
                    lv = self.ft.mdft if c0['fn'] in ('dft2', 'idft2') else self.ft.czt
                    ctx.call(getattr(lv, c0['fn']), _cast(U.field(c0['seed'], c0['geo']['shape'], 'complex'), c0['dtype']), U.tup(c0['geo']['Q']), U.tup(c0['geo']['out']), tuple(c0['geo']['shift']))
            self.burst += op['n']
            ctx.label('op:burst:%d%s' % (op['n'], ':revisiting' if op['revisit'] else ''))
            ctx.nt(True)
            return
        if op['op'] == 'reshift':
            if not self.calls:
                ctx.label('op:reshift-noop')
                return
            base = self.calls[op['idx'] % len(self.calls)]
            op = {'op': 'call', 'fn': base['fn'], 'geo': dict(base['geo'], shift=list(op['shift'])), 'dtype': base['dtype'], 'seed': op['seed']}
            ctx.label('op:reshift:' + ('same-shift' if list(op['geo']['shift']) == list(base['geo']['shift']) else 'other-shift'))
            ctx.nt(True)
        if op['op'] == 'resample-then-idft2':
            zoom = U.tup(op['zoom'])
            zy, zx = U.as_pair(zoom)
            m_, n_ = op['shape']
            g = U.field(op['seed'], op['shape'], 'real').real.copy()
            ctx.call(self.ft.fourier_resample, g, zoom)
            op = {'op': 'call', 'fn': op['then'], 'geo': {'shape': list(op['shape']), 'out': [int(m_ * zy), int(n_ * zx)], 'Q': op['zoom'], 'shift': [0, 0]},
                  'dtype': 'complex128', 'seed': op['seed']}
            ctx.label('op:resample-then-' + op['fn'])
            ctx.nt(True)
        if op['op'] == 'vary':
            if not self.calls:
                ctx.label('op:vary-noop')
                return
            base = self.calls[op['idx'] % len(self.calls)]
            w = op['what']
            op = {'op': 'call', 'fn': base['fn'], 'geo': dict(base['geo'], **{w: op[w]}), 'dtype': base['dtype'], 'seed': op['seed']}
            ctx.label('op:vary:' + w + (':same' if U.canon(op['geo']) == U.canon(base['geo']) else ':changed'))
            ctx.nt(True)
        if op['op'] == 'repeat':
            if not self.calls:
                ctx.label('op:repeat-noop')
                return
            op = self.calls[op['idx'] % len(self.calls)]
            ctx.label('op:repeat')
        if op['op'] == 'partner':
            if not self.calls:
                ctx.label('op:partner-noop')
                return
            base = self.calls[op['idx'] % len(self.calls)]
            g = base['geo']
            other = {'dft2': 'idft2', 'idft2': 'dft2', 'czt2': 'iczt2', 'iczt2': 'czt2'}[base['fn']]
            swapped = dict(g, shape=list(U.as_pair(U.tup(g['out']))), out=list(g['shape']))
            fn2, geo2 = {'return-leg': (other, swapped), 'other-direction': (other, g), 'swapped-grids': (base['fn'], swapped)}[op['how']]
            op = {'op': 'call', 'fn': fn2, 'geo': geo2, 'dtype': base['dtype'], 'seed': op['seed']}
            ctx.label('op:partner:' + ('unequal-grids' if tuple(geo2['shape']) != U.as_pair(U.tup(geo2['out'])) else 'equal-grids'))
            ctx.nt(True)
        self.calls.append(op)
        geo = op['geo']
        fn = op['fn']
        f = _cast(U.field(op['seed'], geo['shape'], 'complex'), op['dtype'])
        bkey = (tuple(geo['shape']), op['dtype'])
        if bkey in self.buffers:
            # the caller re-uses one array object and overwrites its contents in place between calls
            self.buffers[bkey][...] = f
            f = self.buffers[bkey]
            ctx.label('same-array-object-new-contents')
        else:
            self.buffers[bkey] = f
        Q, out, shift = U.tup(geo['Q']), U.tup(geo['out']), tuple(geo['shift'])
        key = (fn, U.canon(geo), op['dtype'])
        hist = self.seen.setdefault(key, set())
        if hist and (self.prec, self.epoch) not in hist:
            ctx.nt(True)
            ctx.label('reuse-after-clear-or-precision-switch')
        hist.add((self.prec, self.epoch))
        ctx.label('op:call:' + fn)
        live = self.ft.mdft if fn in ('dft2', 'idft2') else self.ft.czt
        fresh = self.ft.MatrixDFTExecutor() if fn in ('dft2', 'idft2') else self.ft.ChirpZTransformExecutor()
        got = ctx.call(getattr(live, fn), f, Q, out, shift)
        want = ctx.call(getattr(fresh, fn), f, Q, out, shift)
        got = np.asarray(got)
        want = np.asarray(want)
        what = '%s(%s, Q=%r, out=%r, shift=%r) %s at precision %d after %d earlier calls' % (fn, geo['shape'], Q, out, shift, op['dtype'], self.prec, len(self.calls) - 1)
        ctx.require(got.dtype == want.dtype, 'history:dtype', '%s: dtype %s but a fresh executor gives %s' % (what, got.dtype, want.dtype))
        e = U.relerr(got, want)
        ctx.require(e <= 1e-12 if self.prec == 64 and op['dtype'] not in ('complex64', 'float32') else e <= 1e-5, 'history:value',
                    '%s: differs from a fresh executor by %.3g' % (what, e))
        shifted = any(s != 0 for s in shift)
        fwd = fn in ('dft2', 'czt2')
        outp = U.as_pair(out)
        fnum = f.astype(np.float64) if f.dtype.kind in 'bui' else f          # the oracle side works on the numeric values
        ref_p = U.ref_dft(fnum, U.as_pair(Q), outp, shift, fwd)
        ref_m = U.ref_dft(fnum, U.as_pair(Q), outp, (-shift[0], -shift[1]), fwd) if shifted else ref_p
        _cmp(ctx, got, ref_p, ref_m, shifted, _tol(self.prec, op['dtype']), 'history:vs-reference', what, _scale(fnum, Q))
        for obj, copy_, desc in self.kept:
            ctx.require(obj.shape == copy_.shape and bool(np.all(obj == copy_)), 'history:result-overwritten', 'the result of an earlier call (%s) changed during %s' % (desc, what))
        self.kept = (self.kept + [(got, got.copy(), what)])[-3:]



# ---- (e) a few large transforms (cheap thin arrays; bases of > 100 MiB) --------------------------------------------------
def enum_large(tier):
    sizes = [2900] if tier == 'quick' else [2900, 3001, 4096]
    for n in sizes:
        for method in ('mdft', 'czt'):
            for fwd in (True, False):
                yield {'n': n, 'method': method, 'fwd': fwd}


def check_large(case, ctx):
    """thin (n x 2) fields onto (n x 2) grids with n ~ 3000: the routes still equal the textbook DFT (big basis matrices, long chirps)."""
    from prysm.fttools import mdft, czt
    _reset()
    n, method, fwd = case['n'], case['method'], case['fwd']
    ctx.nt(True)
    ctx.label(method, 'fwd' if fwd else 'inv')
    f = U.field(n, (n, 2), 'complex')
    Q = (1.25, 2)
    ref = U.ref_dft(f, Q, (n, 2), fwd=fwd)
    fn = getattr(mdft, 'dft2' if fwd else 'idft2') if method == 'mdft' else getattr(czt, 'czt2' if fwd else 'iczt2')
    out = ctx.call(fn, f, Q, (n, 2))
    _reset()
    arg = 2 * math.pi * (n / 2) * (n / 2) / (n * 1.25)
    _cmp(ctx, out, ref, ref, False, max(TOL64, 1e-13 * arg), '%s:large' % method, '%s %s (%d,2)->(%d,2)' % (method, 'fwd' if fwd else 'inv', n, n), _scale(f, Q))


CLAUSES = [
    EnumClause('geometry_sweep', enum_geom, check_geom),
    HypClause('random_routes', strat_routes, check_routes, examples={'quick': 800, 'thorough': 4000}, shards={'quick': 8, 'thorough': 16}),
    HypClause('fft_route', strat_fft, check_fft, examples={'quick': 600, 'thorough': 3000}, shards={'quick': 2, 'thorough': 8}),
    EnumClause('large_transforms', enum_large, check_large, shards={'quick': 8, 'thorough': 12}),
    MachineClause('executor_histories', ExecutorHistory, strat_hist_init, strat_hist_op, steps={'quick': 20, 'thorough': 30},
                  examples={'quick': 120, 'thorough': 1000}, shards={'quick': 5, 'thorough': 16}),
]
