"""C12 - Interferogram data, mask and coordinates stay coherent over any history."""
import copy

import numpy as np
from hypothesis import strategies as st

from vlib.core import MachineClause
from vlib import util as U

RULE = ("Rule-based state machine over one prysm.interferogram.Interferogram.  Initial state: data shape (6..24 quick / "
        "6..40 thorough per axis, square and non-square, odd and even), dx, surface (noise + offset + tilt + power + spikes, "
        "expanded from a drawn integer) and a NaN pattern composed of 0-3 drawn masks (circular aperture, dropped edge "
        "rows/cols, ragged edges, interior dropouts, random).  Operations (drawn one at a time, any order, <= 25 / 40 steps): "
        "crop, pad (samples int / per axis, shape int / per axis; NaN or numeric fill), mask (same mask families), fill, "
        "spike_clip, remove_piston, remove_tiptilt, remove_power, recenter, latcal, strip_latcal, filter (lp/hp/bp/br) and "
        "explicit reads of x / y / r / t on the live object (these populate the lazy caches; ~1/3 of all draws).  An "
        "operation whose precondition does not hold in the current state (filter on data with invalid samples, statistics "
        "/ fits without enough valid samples, pad beyond the size bound) is a counted no-op.  Oracle: a reference model "
        "(harness code) of shape, dx and the set of valid samples, updated by each step's documented effect; after every "
        "step the object is observed through a deep copy (so that observation never populates a cache of the live "
        "object) and must satisfy: x,y,r,t have the data's shape, x/y are spaced by the reported dx (== model dx) and "
        "constant along the other axis, r == hypot(x,y), t == arctan2(y,x) of the *current* x,y, isfinite(data) == model "
        "validity, statistics equal the harness's own on the valid samples and rms^2 = std^2 + mean^2, Sa <= std <= PV; "
        "per-step postconditions: zero mean after remove_piston, an independent numpy least-squares re-fit of the plane "
        "(x,y) / of rho^2 finds nothing after remove_tiptilt / remove_power, crop == bounding box of the valid set, "
        "cropping again changes nothing, spike_clip removes exactly the samples beyond nsigma*std.  Non-trivial = the "
        "history contains an explicit coordinate read (or a filter() call, which reads r) before a shape- or unit-changing mutator (pad, shape-changing "
        "crop, latcal to another spacing, strip_latcal from a spacing != 1).  Distinct = distinct canonical JSON of "
        "(init, ops).  Hardening pass: the phase array is handed over in a drawn memory layout (C, Fortran, transposed view, "
        "strided view) and dtype (float64, float32; tolerances follow the dtype of the data of the moment) and may be "
        "re-assigned value-identically in another layout in mid-history (op relayout); axes may have length 1..3 (1xN, Nx1, "
        "1x1) and a few larger awkward lengths; NaN patterns include a single valid sample and valid samples on one row / "
        "column / diagonal (through the coordinate origin or not); dx may be 0 ('no lateral calibration', constructor default) "
        "and may be given as float / int / numpy scalar / 0-d array / float32; piston / tilt / power removal, crop and "
        "spike_clip are *always* performed, also on degenerate geometry (no / one / collinear valid samples): validity, "
        "coordinate and statistics invariants are asserted there and only the 're-fit finds nothing' post-condition is "
        "skipped when the harness' own design matrix is worse conditioned than 1e4; array arguments (masks, in every "
        "layout; 0-d plate scales) must come back unchanged; an untouched twin Interferogram on the same grid (same shape, "
        "same dx, re-created after every shape / unit change) must keep its coordinates bit for bit while the live object "
        "is processed (no state shared between objects).  Refused requests (op fail, ~10% of all draws): a request that the library "
        "refuses with an exception, which the harness catches the way a caller would, after which the history goes on - pad to a "
        "frame that is smaller than the data along at least one axis (shape as int / tuple / list, smaller on both axes, smaller on "
        "one and larger on the other, 'pad to n x n' with n between the two axis lengths of non-square data; negative samples as "
        "int / per axis), pad with neither / both of samples and shape, pad to a larger frame with a fill value that is not a number, latcal with None / a string / a complex number / a dict, "
        "filter with an unknown type string / None / a scalar cut-off for a band filter (also on data with invalid samples and with "
        "dx == 0: the request fails before the data is touched), mask with a mask of another shape / 1-D / None, fill and "
        "spike_clip with a non-number, pvr() on non-square data (reads r and t, then raises; like a refused filter it counts as a coordinate read).  Nothing is asserted about the "
        "refused request itself; the model then takes over the dx the object reports (which must be a finite real scalar >= 0) and, for steps that claim "
        "to change shape / validity (pad, mask, fill, spike_clip), the data's shape and valid set; steps that do not claim to "
        "change validity must have left it alone.  Every invariant above (coordinate shapes, spacing, polar = polar of the current "
        "Cartesian, read-order independence, statistics, untouched twin) is then asserted after the refused request and after "
        "every later step.  If such a request is accepted instead, nothing is asserted for the rest of that history (counted).")
ASSUMPTIONS = ["numpy.linalg.lstsq / svd, numpy.hypot / arctan2 and copy.deepcopy are correct",
               "a deep copy of an Interferogram exposes the same coordinates as the original would at that moment",
               "data never contains +-inf (the generator never produces it), so 'invalid' == NaN == not finite",
               "dx >= 0; with dx == 0 ('no lateral calibration') every coordinate is 0 and 'spaced by dx' means exactly that; filter() is not "
               "called while dx == 0 (a cut-off frequency relative to an undefined Nyquist frequency is not a valid input; the pinned code divides by dx)",
               "integer-typed phase arrays are not generated: they cannot hold the NaN that marks an invalid sample and every mutator of the "
               "unchanged class refuses them (mask / spike_clip / pad(nan) / remove_* raise a casting error)",
               "re-assigning the public attribute `data` with an element-for-element equal array in another memory layout is a neutral user action",
               "whether crop() returns None or self is not part of the property and is not asserted",
               "a refused request may leave the object with another dx than before (latcal of the unchanged code strips the calibration, dx = 1, before the "
               "multiplication by the unusable plate scale fails): the property only demands that the coordinates are spaced by the dx the object then reports"]

MAXN = {'quick': 24, 'thorough': 40}
GROW = 72          # pad is a no-op once an axis would exceed this (keeps cost bounded)
COND_MAX = 1e4     # fits are only asserted when the design matrix on the valid samples is this well conditioned


# ---- masks (expanded from drawn integers, for the shape of the moment) ----------------------------
def make_mask(spec, shape):
    """boolean keep-mask of the given shape; pure function of (spec, shape)."""
    ny, nx = shape
    k = spec['kind']
    keep = np.ones((ny, nx), dtype=bool)
    if k == 'all':
        return keep
    if k == 'random':
        r = U.rng_of(spec['seed'], 11)
        return r.uniform(size=(ny, nx)) < spec['keep']
    if k == 'circle':
        yy, xx = np.mgrid[:ny, :nx]
        cy = (ny - 1) / 2.0 + spec['cy']
        cx = (nx - 1) / 2.0 + spec['cx']
        rad = spec['rad'] * min(ny, nx) / 2.0
        return np.hypot(yy - cy, xx - cx) <= rad
    if k == 'edges':
        t, b, l, r_ = (min(spec[q], n) for q, n in (('top', ny), ('bottom', ny), ('left', nx), ('right', nx)))
        keep[:t] = False
        if b:
            keep[ny - b:] = False
        keep[:, :l] = False
        if r_:
            keep[:, nx - r_:] = False
        return keep
    if k == 'ragged':
        r = U.rng_of(spec['seed'], 12)
        d = spec['depth']
        for i in range(ny):
            a, b = r.integers(0, d + 1, 2)
            keep[i, :min(int(a), nx)] = False
            if b:
                keep[i, max(nx - int(b), 0):] = False
        for j in range(nx):
            a, b = r.integers(0, d + 1, 2)
            keep[:min(int(a), ny), j] = False
            if b:
                keep[max(ny - int(b), 0):, j] = False
        return keep
    if k == 'dropout':
        r = U.rng_of(spec['seed'], 13)
        for _ in range(spec['n']):
            keep[int(r.integers(0, ny)), int(r.integers(0, nx))] = False
        return keep
    # degenerate but valid geometry: every kept sample on one line / a single kept sample.  `k` == 0 puts the line through the
    # sample (ny//2, nx//2), which is the coordinate origin of a freshly gridded / recentred object
    if k in ('row', 'col', 'diag', 'single'):
        keep[:] = False
        off = int(spec['k'])
        iy, ix = (ny // 2 + off) % ny, (nx // 2 + off) % nx
        if k == 'row':
            keep[iy, :] = True
        elif k == 'col':
            keep[:, ix] = True
        elif k == 'single':
            keep[iy, (nx // 2 + int(spec.get('k2', off))) % nx] = True
        else:
            yy, xx = np.mgrid[:ny, :nx]
            keep = (yy - ny // 2) == int(spec.get('slope', 1)) * (xx - nx // 2) + off
        return keep
    raise ValueError(k)


def mask_specs():
    small = st.integers(0, 3)
    return st.one_of(
        st.fixed_dictionaries({'kind': st.just('circle'), 'rad': st.sampled_from([1.0, 0.9, 0.7, 0.5, 1.2, 0.35]),
                               'cy': st.sampled_from([0.0, 0.0, 0.5, -1.0, 2.0]), 'cx': st.sampled_from([0.0, 0.0, 0.5, 1.0, -2.0])}),
        st.fixed_dictionaries({'kind': st.just('edges'), 'top': small, 'bottom': small, 'left': small, 'right': small}),
        st.fixed_dictionaries({'kind': st.just('ragged'), 'seed': U.seeds, 'depth': st.integers(1, 3)}),
        st.fixed_dictionaries({'kind': st.just('dropout'), 'seed': U.seeds, 'n': st.integers(1, 6)}),
        st.fixed_dictionaries({'kind': st.just('random'), 'seed': U.seeds, 'keep': st.sampled_from([0.95, 0.8, 0.5, 0.15])}),
        st.just({'kind': 'all'}),
        line_specs(),
    )


def line_specs():
    """all kept samples on one row / column / diagonal, or a single kept sample (offset 0 = through the grid's origin sample)"""
    off = st.sampled_from([0, 0, 0, 1, -1, 2, -3, 5])
    return st.one_of(
        st.fixed_dictionaries({'kind': st.sampled_from(['row', 'col']), 'k': off}),
        st.fixed_dictionaries({'kind': st.just('diag'), 'k': off, 'slope': st.sampled_from([1, -1])}),
        st.fixed_dictionaries({'kind': st.just('single'), 'k': off, 'k2': off}),
    )


# ---- strategies ----------------------------------------------------------------------------------
DXS = [1.0, 0.5, 0.1, 2.0, 0.0125, 37.5, 0.3, 1e-6, 2.5e5]
DXFORMS = ['float', 'float', 'np64', '0d', 'f32', 'int']      # how a spacing is handed over ('int' falls back to float when not integral)
BIGAX = {'quick': [31, 48, 61], 'thorough': [31, 48, 61, 67]}


def dx_value(v, form):
    """(the object handed to prysm, the spacing the model expects): a Python float, an int (integral values only), a numpy
    float64 scalar, a 0-d array, or a float32 scalar (then the spacing is the float32-rounded value)."""
    v = float(v)
    if form == 'int' and v == int(v):
        return int(v), v
    if form == 'np64':
        return np.float64(v), v
    if form == '0d':
        return np.array(v), v
    if form == 'f32' and v > 0 and 1e-30 < v < 1e30:
        return np.float32(v), float(np.float32(v))
    return v, v


def strat_init(tier):
    ax = st.one_of(st.integers(6, MAXN[tier]), st.sampled_from([6, 7, 8, 9, 12, 15, 16]), st.integers(6, MAXN[tier]),
                   st.sampled_from([1, 1, 2, 3, 4, 5]), st.sampled_from(BIGAX[tier]))
    shape = st.tuples(ax, ax, st.integers(0, 3)).map(lambda t: [t[0], t[0]] if t[2] == 0 else [t[0], t[1]])
    return st.fixed_dictionaries({
        'shape': shape,
        'dx': st.one_of(st.sampled_from(DXS), U.nice_float(0.01, 20.0), st.sampled_from(DXS + [0.0])),
        'dxform': st.sampled_from(DXFORMS),
        'ctor': st.sampled_from(['positional', 'keyword', 'default-dx']),     # default-dx: Interferogram(z) when dx == 0
        'layout': U.layouts,
        'dtype': st.sampled_from(['f8', 'f8', 'f4']),
        'seed': U.seeds,
        'amp': st.sampled_from([1.0, 10.0, 1e-3, 1e3]),
        'offset': st.sampled_from([0.0, 0.0, 0.3, 5.0, -50.0]),
        'tilt': st.sampled_from([0.0, 1.0, 4.0]),
        'power': st.sampled_from([0.0, 1.0, 4.0]),
        'spikes': st.integers(0, 3),
        'nan': st.lists(mask_specs(), min_size=0, max_size=3),
    })


COORDS = ['x', 'y', 'r', 't']
READOUTS = ['pvr', 'pvr', 'pvr', 'psd', 'bandlimited_rms', 'stats', 'tis', 'slices', 'copy', 'dropout']
FAIL_PAD_FORMS = ['shape-int', 'shape-int-between', 'shape', 'shape', 'shape-list', 'samples', 'samples', 'samples-int', 'noargs', 'both', 'bad-value']


def strat_op(tier):
    # reads of one, two or three coordinates in any order; reading exactly one member of a lazily built pair (x without y, r without t) is its own class
    read = st.fixed_dictionaries({'op': st.just('read'),
                                  'which': st.one_of(st.lists(st.sampled_from(COORDS + ['r', 't']), min_size=1, max_size=3),
                                                     st.sampled_from([['x'], ['y'], ['r'], ['t'], ['x'], ['y']]))})
    inc = st.integers(0, 4)
    pad = st.fixed_dictionaries({'op': st.just('pad'),
                                 'form': st.sampled_from(['samples', 'samples-int', 'shape', 'shape-int']),
                                 'inc': st.tuples(inc, inc).map(list),
                                 'value': st.sampled_from([None, None, 0.0, 1.5, -3.0])})
    mask = st.fixed_dictionaries({'op': st.just('mask'), 'spec': mask_specs(), 'layout': U.layouts})
    fill = st.fixed_dictionaries({'op': st.just('fill'), 'value': st.sampled_from([0.0, 0.0, 1.0, -2.5, None])})      # None: fill()
    spike = st.fixed_dictionaries({'op': st.just('spike_clip'), 'nsigma': st.sampled_from([3.0, 3.0, 2.0, 1.0, 4.5, None])})   # None: spike_clip()
    latcal = st.fixed_dictionaries({'op': st.just('latcal'),
                                    'ps': st.one_of(st.sampled_from([2.0, 0.5, 1.0, 0.25, 3.3]), U.nice_float(0.01, 20.0)),
                                    'form': st.sampled_from(DXFORMS)})
    relayout = st.fixed_dictionaries({'op': st.just('relayout'), 'how': st.sampled_from(['F', 'T-view', 'strided', 'C'])})
    frac = st.sampled_from([0.1, 0.2, 0.35, 0.5, 0.65, 0.8])
    filt = st.fixed_dictionaries({'op': st.just('filter'), 'frac': st.tuples(frac, frac).map(list),
                                  'typ': st.sampled_from(['lp', 'hp', 'bp', 'br', 'lowpass', 'highpass', 'bandpass', 'bandreject'])})

    # requests that the library refuses (class: exception raised and caught by the caller inside a history); see IfgModel.op_fail
    dec = st.integers(-3, 3)
    fail = st.one_of(
        st.fixed_dictionaries({'op': st.just('fail'), 'what': st.just('pad'), 'form': st.sampled_from(FAIL_PAD_FORMS),
                               'dec': st.tuples(dec, dec).map(list), 'value': st.sampled_from([None, None, 0.0, 1.5])}),
        st.fixed_dictionaries({'op': st.just('fail'), 'what': st.just('latcal'), 'arg': st.sampled_from(['none', 'str', 'complex', 'dict'])}),
        st.fixed_dictionaries({'op': st.just('fail'), 'what': st.just('filter'), 'frac': frac,
                               'typ': st.sampled_from(['xx', '', 'notch', 'LP ', 'none', 'bp-scalar', 'br-scalar'])}),
        st.fixed_dictionaries({'op': st.just('fail'), 'what': st.just('mask'), 'how': st.sampled_from(['rows+1', 'cols+1', 'rows-1', '1d', 'none'])}),
        st.fixed_dictionaries({'op': st.just('fail'), 'what': st.just('fill'), 'arg': st.sampled_from(['str', 'dict'])}),
        st.fixed_dictionaries({'op': st.just('fail'), 'what': st.just('spike_clip'), 'arg': st.sampled_from(['str', 'none'])}),
        st.just({'op': 'fail', 'what': 'pvr'}),
    )

    # read-outs: public methods that report something about the data and claim no change to it
    readout = st.fixed_dictionaries({'op': st.just('readout'), 'what': st.sampled_from(READOUTS), 'radius': st.sampled_from([None, 0.3, 0.6, 1.0, 2.0])})

    def simple(name):
        return st.just({'op': name})
    table = {'readout': readout, 'fail': fail, 'read': read, 'pad': pad, 'crop': simple('crop'), 'mask': mask, 'fill': fill, 'spike_clip': spike,
             'remove_piston': simple('remove_piston'), 'remove_tiptilt': simple('remove_tiptilt'),
             'remove_power': simple('remove_power'), 'recenter': simple('recenter'), 'latcal': latcal,
             'strip_latcal': simple('strip_latcal'), 'filter': filt, 'relayout': relayout}
    # explicit weights (a drawn index into this list): reads are 1/3 of all draws; fill and filter frequent enough that
    # filter's precondition (no invalid sample) is met in a useful fraction of the histories
    weighted = (['read'] * 12 + ['pad'] * 3 + ['crop'] * 3 + ['mask'] * 3 + ['fill'] * 4 + ['spike_clip'] + ['remove_piston'] * 4 +
                ['remove_tiptilt'] * 3 + ['remove_power'] * 3 + ['recenter'] * 2 + ['latcal'] * 2 + ['strip_latcal'] * 2 + ['filter'] * 3 +
                ['relayout'] * 2 + ['fail'] * 5 + ['readout'] * 6)
    return st.sampled_from(weighted).flatmap(lambda n: table[n])


# ---- the model -----------------------------------------------------------------------------------
def _surface(init):
    ny, nx = init['shape']
    r = U.rng_of(init['seed'], 1)
    yy = ((np.arange(ny) - ny // 2) / ny)[:, None]
    xx = ((np.arange(nx) - nx // 2) / nx)[None, :]
    z = r.standard_normal((ny, nx))
    z = z + init['offset']
    tx, ty, pw = r.uniform(-1, 1, 3)
    z = z + init['tilt'] * 2 * (tx * xx + ty * yy) + init['power'] * 4 * pw * (xx * xx + yy * yy)
    for _ in range(init['spikes']):
        z[int(r.integers(0, ny)), int(r.integers(0, nx))] += float(r.choice([-8.0, 8.0, 12.0]))
    return np.ascontiguousarray(z * init['amp'], dtype=np.float64)


def _bbox(valid):
    rows = np.flatnonzero(valid.any(axis=1))
    cols = np.flatnonzero(valid.any(axis=0))
    return int(rows[0]), int(rows[-1]) + 1, int(cols[0]), int(cols[-1]) + 1


def _geometry(valid):
    """class of the set of valid samples: none | single | line (all on one row / column / diagonal) | area"""
    iy, ix = np.nonzero(valid)
    if iy.size == 0:
        return 'none'
    if iy.size == 1:
        return 'single'
    if np.ptp(iy) == 0 or np.ptp(ix) == 0 or np.ptp(iy - ix) == 0 or np.ptp(iy + ix) == 0:
        return 'line'
    return 'area'


def _cond(A):
    s = np.linalg.svd(A, compute_uv=False)
    if s.size == 0 or s[-1] <= 0 or not np.all(np.isfinite(s)):
        return float('inf')
    return float(s[0] / s[-1])


class IfgModel:
    """history of Interferogram operations vs a reference model of (shape, dx, valid set); invariants after every step"""

    def __init__(self, init, ctx):
        from prysm.interferogram import Interferogram
        self.Interferogram = Interferogram
        self.ctx = ctx
        ny, nx = init['shape']
        data = _surface(init)
        valid = np.ones((ny, nx), dtype=bool)
        kinds = []
        for spec in init['nan']:
            valid &= make_mask(spec, (ny, nx))
            if spec['kind'] != 'all':
                kinds.append(spec['kind'])
        if not valid.any():
            valid[ny // 2, nx // 2] = True
        data[~valid] = np.nan
        # new keys are read with .get so that replays recorded before the hardening pass still run
        layout, dtype = init.get('layout', 'C'), init.get('dtype', 'f8')
        dxarg, self.dx = dx_value(init['dx'], init.get('dxform', 'float'))
        ctor = init.get('ctor', 'positional')
        self.valid = valid
        phase = U.relayout(data.astype({'f8': np.float64, 'f4': np.float32}[dtype]), layout)
        if ctor == 'default-dx' and self.dx == 0:
            self.ifg = ctx.call(Interferogram, phase)           # "if zero the data has no lateral calibration" is the default
            ctor = 'default-dx(used)'
        elif ctor == 'keyword':
            self.ifg = ctx.call(Interferogram, phase=phase, dx=dxarg)
        else:
            self.ifg = ctx.call(Interferogram, phase, dxarg)
        self._arg_unchanged('Interferogram', 'dx', dxarg, self.dx)
        self.reads = set()
        self.last = 'init'
        self.nsteps = 0
        self.dead = None         # set when an out-of-domain request was accepted: nothing is asserted from there on
        self.twin = None
        self._retwin()
        ctx.label('init:square' if ny == nx else 'init:nonsquare',
                  'init:parity:%s%s' % ('eo'[ny % 2], 'eo'[nx % 2]),
                  'init:nan:' + ('+'.join(sorted(set(kinds))) if not valid.all() else 'none'),
                  'init:layout:' + layout, 'init:dtype:' + dtype, 'init:dx:' + type(dxarg).__name__ + (':zero' if self.dx == 0 else ''),
                  'init:ctor:' + ctor, 'init:axis-1' if min(ny, nx) == 1 else ('init:axis-2..5' if min(ny, nx) < 6 else 'init:axes>=6'),
                  'init:valid:' + _geometry(valid))

    # -- helpers ---------------------------------------------------------------------------------
    @property
    def shape(self):
        return self.valid.shape

    def _noop(self, op, why):
        self.ctx.label('noop:%s:%s' % (op, why))

    def _observe(self):
        """deep copy of the live object: reading coordinates from it does not touch the live caches"""
        return copy.deepcopy(self.ifg)

    def _rt(self):
        """relative tolerance of value comparisons: 1e-9 while the data is float64 (>= 1e6 eps), 2e-4 (~1700 eps) while it is float32"""
        return 1e-9 if self.ifg.data.dtype.itemsize >= 8 else 2e-4

    def _floor(self):
        """absolute floor of value comparisons: 64 smallest normal numbers of the data's dtype (data that has sunk into the subnormal range has no relative precision)"""
        return 64 * float(np.finfo(self.ifg.data.dtype).tiny) if self.ifg.data.dtype.kind == 'f' else 0.0

    def _arg_unchanged(self, fn, name, arg, want):
        """an array-like argument must come back as it was handed over"""
        if isinstance(arg, np.ndarray):
            got = np.asarray(arg)
            if got.shape != np.shape(want) or not np.array_equal(got, np.asarray(want)):
                self.ctx.fail('%s:argument-modified' % fn, 'argument %s of %s was changed by the call (shape %s, %d entries differ)' % (
                    name, fn, got.shape, int(np.sum(got != np.asarray(want))) if got.shape == np.shape(want) else -1))

    def _retwin(self):
        """a second, untouched Interferogram on the grid of the moment (same shape, same dx) with all four coordinates read;
        nothing the live object goes through may change them (checked after every step)"""
        shape = self.shape
        self.twin = self.ctx.call(self.Interferogram, np.zeros(shape), self.dx)
        self.twin_ref = {nm: np.array(self.ctx.call(getattr, self.twin, nm), copy=True) for nm in COORDS}

    def _mutator(self, name, effective):
        """bookkeeping of the non-triviality rule: explicit coordinate read earlier in the history, then a shape / unit change"""
        if not effective:
            self.ctx.label('mutator-ineffective:' + name)
            return
        if self.reads:
            self.ctx.nt(True)
            self.ctx.label('read-then:' + name)
            if self.reads & {'r', 't'}:
                self.ctx.label('polar-read-then:' + name)
        else:
            self.ctx.label('no-read-then:' + name)

    # -- operations ------------------------------------------------------------------------------
    def apply(self, op):
        name = op['op']
        if self.dead:
            return self.ctx.label('op-after-accepted-invalid-request(not asserted)')
        self.nsteps += 1
        self.last = name
        self.ctx.label('op:' + name)
        getattr(self, 'op_' + name)(op)

    def op_readout(self, op):
        """a public read-out (PVr with any normalisation radius, PSD, band-limited RMS, statistics, scatter, slices, copy): whatever it returns - or if it
        refuses the data in its present state - the interferogram is afterwards what it was before: same samples, same invalid set (the invariant
        that follows checks validity and coordinates against the unchanged model)."""
        ifg, what = self.ifg, op['what']
        before = np.array(ifg.data, copy=True)
        dx0 = ifg.dx
        try:
            if what == 'pvr':
                rad = op.get('radius')
                if rad is None:
                    ifg.pvr()
                else:
                    half = 0.5 * max(self.shape) * float(ifg.dx if ifg.dx else 1.0)
                    ifg.pvr(max(rad * half, 1e-9))
                self.reads.update(('r', 't'))
            elif what == 'psd':
                ifg.psd()
            elif what == 'bandlimited_rms':
                ifg.bandlimited_rms(flow=0.0, fhigh=None)
            elif what == 'stats':
                ifg.pv, ifg.rms, ifg.std, ifg.Sa, ifg.strehl, ifg.size, ifg.shape
            elif what == 'tis':
                ifg.total_integrated_scatter(0.5, 10.0)
            elif what == 'slices':
                sl = ifg.slices()
                sl.x, sl.y
                self.reads.update(('x', 'y'))
            elif what == 'copy':
                c = ifg.copy()
                c.data *= 0
                c.data += 1
                c.x, c.y
                c.x += 1.0
            else:
                ifg.dropout_percentage
            self.ctx.label('readout:' + what + ':returned')
        except Exception:       # noqa - a read-out may refuse the data (no valid sample, too few samples, non-square): nothing is asserted about the request
            self.ctx.label('readout:' + what + ':raised')
        after = np.asarray(ifg.data)
        U.check_shape(after, before.shape, 'readout-modified-data:' + what, 'data shape after %s' % what)
        same = (after == before) | (np.isnan(after) & np.isnan(before))
        if not bool(same.all()):
            k = tuple(int(v) for v in np.argwhere(~same)[0])
            self.ctx.fail('readout-modified-data:' + what, '%s changed the data it reports on: sample %s was %r and is %r (%d of %d samples changed, %d became invalid)' % (
                what, k, before[k], after[k], int((~same).sum()), same.size, int((np.isnan(after) & ~np.isnan(before)).sum())))
        self.ctx.require(ifg.dx == dx0, 'readout-modified-dx:' + what, 'dx changed from %r to %r during %s' % (dx0, ifg.dx, what))

    def op_read(self, op):
        for w in op['which']:
            self.ctx.call(getattr, self.ifg, w)
            self.reads.add(w)

    def op_crop(self, op):
        ctx = self.ctx
        before = self.ifg.data.copy()
        if not self.valid.any():
            # nothing to bound: the documented behaviour of the unchanged code is to leave the object alone
            self._noop('crop', 'no-valid-sample(still-called)')
            ctx.call(self.ifg.crop)
            U.check_shape(self.ifg.data, before.shape, 'crop:no-valid-sample', 'crop of data without a valid sample')
            return
        r0, r1, c0, c1 = _bbox(self.valid)
        changes = (r1 - r0, c1 - c0) != self.shape
        self._mutator('crop', changes)
        ctx.call(self.ifg.crop)
        want = before[r0:r1, c0:c1]
        got = self.ifg.data
        U.check_shape(got, want.shape, 'crop:bbox', 'crop of %s with valid bounding box rows %d:%d cols %d:%d' % (before.shape, r0, r1, c0, c1))
        U.check_equal(got, want, 'crop:keeps-valid', 'cropped data differs from the bounding box of the valid samples')
        self.valid = self.valid[r0:r1, c0:c1].copy()
        if changes:
            self._retwin()
        # idempotent: cropping a copy again changes nothing
        again = self._observe()
        ctx.call(again.crop)
        U.check_shape(again.data, got.shape, 'crop:idempotent', 'second crop changed the shape')
        U.check_equal(again.data, got, 'crop:idempotent', 'second crop changed the data')

    def op_pad(self, op):
        ctx = self.ctx
        ny, nx = self.shape
        iy, ix = op['inc']
        form = op['form']
        if form == 'samples':
            new = (ny + iy, nx + ix)
            kw = {'samples': (iy, ix)}
        elif form == 'samples-int':
            new = (ny + iy, nx + iy)
            kw = {'samples': int(iy)}
        elif form == 'shape':
            new = (ny + iy, nx + ix)
            kw = {'shape': new}
        else:
            n = max(ny, nx) + iy
            new = (n, n)
            kw = {'shape': int(n)}
        if max(new) > GROW:
            return self._noop('pad', 'size-bound')
        value = op['value']
        self._mutator('pad', True)
        ctx.label('pad:' + form, 'pad:nan' if value is None else 'pad:number', 'pad:grow' if new != (ny, nx) else 'pad:same-shape')
        ctx.call(self.ifg.pad, np.nan if value is None else value, **kw)
        U.check_shape(self.ifg.data, new, 'pad', 'pad(%r) of %s' % (kw, (ny, nx)))
        oy, ox = new[0] // 2 - ny // 2, new[1] // 2 - nx // 2
        v = np.full(new, value is not None, dtype=bool)
        v[oy:oy + ny, ox:ox + nx] = self.valid
        self.valid = v
        self._retwin()

    def op_mask(self, op):
        m = U.relayout(make_mask(op['spec'], self.shape), op.get('layout', 'C'))
        keep = m.copy()
        self.ctx.label('mask:' + op['spec']['kind'], 'mask:layout:' + op.get('layout', 'C'))
        self.ctx.call(self.ifg.mask, m)
        self._arg_unchanged('mask', 'mask', m, keep)
        self.valid = self.valid & keep

    def op_fill(self, op):
        self.ctx.label('fill:had-invalid' if not self.valid.all() else 'fill:nothing-to-fill')
        if op['value'] is None:
            self.ctx.call(self.ifg.fill)
        else:
            self.ctx.call(self.ifg.fill, op['value'])
        self.valid = np.ones(self.shape, dtype=bool)

    def op_spike_clip(self, op):
        ctx = self.ctx
        v0 = self.valid
        nsigma = 3.0 if op['nsigma'] is None else op['nsigma']      # documented default: nsigma=3
        args = () if op['nsigma'] is None else (op['nsigma'],)
        if not v0.any():
            self._noop('spike_clip', 'no-valid-sample(still-called)')
            ctx.call(self.ifg.spike_clip, *args)
            return
        d0 = self.ifg.data.astype(np.float64)
        a = np.abs(np.where(v0, d0, 0.0))
        thr = nsigma * float(d0[v0].std())
        eps = self._rt() * max(float(a.max()), thr)
        must_go = v0 & (a > thr + eps)
        must_stay = v0 & (a < thr - eps)
        if self.ifg.data.dtype == np.float32 and 0 < float(a.max()) < 1e-17:
            # single-precision heights of order 1e-18 or less (rounding residue of an all-zero map after fill / remove_*): their squares
            # are below the smallest float32, so no float32 standard deviation exists for them; nothing is asserted about which samples go
            # (found by a background sweep: f4 map, fill(0), remove_piston -> data ~1e-32, float32 std = 0)
            ctx.call(self.ifg.spike_clip, *args)
            v1 = np.isfinite(self.ifg.data)
            ctx.require(not (v1 & ~v0).any(), 'spike_clip:revived', '%d invalid samples became valid' % int((v1 & ~v0).sum()))
            ctx.label('spike_clip:float32-underflow-scale(not asserted)')
            self.valid = v0 & v1
            return
        ctx.call(self.ifg.spike_clip, *args)
        U.check_shape(self.ifg.data, v0.shape, 'spike_clip', 'data')
        v1 = np.isfinite(self.ifg.data)
        ctx.require(not (v1 & ~v0).any(), 'spike_clip:revived', '%d invalid samples became valid' % int((v1 & ~v0).sum()))
        ctx.require(not (v1 & must_go).any(), 'spike_clip:kept-outlier',
                    '%d samples beyond %g*std=%g kept' % (int((v1 & must_go).sum()), nsigma, thr))
        ctx.require(not (~v1 & must_stay).any(), 'spike_clip:removed-inlier',
                    '%d samples within %g*std=%g removed' % (int((~v1 & must_stay).sum()), nsigma, thr))
        ctx.label('spike_clip:removed-some' if must_go.any() else 'spike_clip:removed-none')
        self.valid = v0 & ~must_go & (must_stay | v1)

    def _scale(self):
        v = self.valid
        return float(np.abs(self.ifg.data[v].astype(np.float64)).max()) if v.any() else 0.0

    def op_remove_piston(self, op):
        ctx = self.ctx
        v = self.valid
        scale = self._scale()
        ctx.label('remove_piston:valid:' + _geometry(v))
        ctx.call(self.ifg.remove_piston)          # always performed: validity / coordinates / statistics are asserted by the invariant
        U.check_shape(self.ifg.data, v.shape, 'remove_piston', 'data')
        if not v.any():
            return
        d = self.ifg.data[v].astype(np.float64)
        if np.all(np.isfinite(d)):   # otherwise the validity invariant reports it
            m = float(d.mean())
            # data whose magnitude has sunk into the subnormal range of its own dtype (float32 residue of order 1e-44 after several removals and a
            # fill) has no relative precision left: the comparison carries the floor of 64 smallest normal numbers of that dtype
            # (false alarm of a thorough background run, kept as a must-pass replay)
            floor = 64 * float(np.finfo(self.ifg.data.dtype).tiny) if self.ifg.data.dtype.kind == 'f' else 0.0
            ctx.within(abs(m), self._rt() * scale + floor, 'remove_piston:mean', 'mean after remove_piston %.3g (data scale %.3g)' % (m, scale))

    def op_remove_tiptilt(self, op):
        ctx = self.ctx
        v = self.valid
        obs = self._observe()
        x, y = np.asarray(obs.x), np.asarray(obs.y)
        if x.shape != v.shape or y.shape != v.shape:
            return self._noop('remove_tiptilt', 'coords-incoherent')   # already reported by the invariant of the previous step
        A = np.stack([x[v], y[v]], axis=1).astype(np.float64)
        # the operation is always performed (it must keep validity, coordinates and statistics coherent on any geometry);
        # only the re-fit post-condition needs a plane that the valid samples determine
        determined = v.sum() >= 3 and _cond(A) <= COND_MAX
        ctx.label('remove_tiptilt:valid:' + _geometry(v), 'remove_tiptilt:' + ('determined' if determined else 'plane-undetermined'))
        scale = self._scale()
        ctx.call(self.ifg.remove_tiptilt)
        U.check_shape(self.ifg.data, v.shape, 'remove_tiptilt', 'data')
        d = self.ifg.data[v].astype(np.float64)
        if determined and np.all(np.isfinite(d)):
            c = np.linalg.lstsq(A, d, rcond=None)[0]
            resid = max(abs(float(c[0])) * float(np.abs(A[:, 0]).max()), abs(float(c[1])) * float(np.abs(A[:, 1]).max()))
            ctx.within(resid, 10 * self._rt() * scale + self._floor(), 'remove_tiptilt:idempotent',
                        're-fit of a*x+b*y after remove_tiptilt finds a=%.3g b=%.3g (%.3g over the aperture, data scale %.3g)' % (c[0], c[1], resid, scale))

    def op_remove_power(self, op):
        ctx = self.ctx
        v = self.valid
        ny, nx = v.shape
        xx, yy = np.meshgrid(np.linspace(-1, 1, nx), np.linspace(-1, 1, ny))
        rho2 = (xx * xx + yy * yy)[v]
        A = np.stack([rho2, np.ones_like(rho2)], axis=1)
        determined = v.sum() >= 3 and _cond(A) <= COND_MAX
        ctx.label('remove_power:valid:' + _geometry(v), 'remove_power:' + ('determined' if determined else 'sphere-undetermined'),
                  'remove_power:layout:' + ('C' if self.ifg.data.flags.c_contiguous else ('F' if self.ifg.data.flags.f_contiguous else 'strided')) +
                  (':nonsquare' if ny != nx else ':square'))
        scale = self._scale()
        ctx.call(self.ifg.remove_power)
        U.check_shape(self.ifg.data, v.shape, 'remove_power', 'data')
        d = self.ifg.data[v].astype(np.float64)
        if determined and np.all(np.isfinite(d)):
            c = np.linalg.lstsq(A, d, rcond=None)[0]
            resid = abs(float(c[0])) * float(rho2.max())
            ctx.within(resid, 10 * self._rt() * scale + self._floor(), 'remove_power:idempotent',
                        're-fit of c*rho^2 + const after remove_power finds c=%.3g (%.3g at the edge, data scale %.3g)' % (c[0], resid, scale))

    def op_recenter(self, op):
        self.ctx.call(self.ifg.recenter)

    def op_latcal(self, op):
        arg, ps = dx_value(op['ps'], op.get('form', 'float'))
        self.ctx.label('latcal:' + type(arg).__name__)
        self._mutator('latcal', ps != self.dx)
        self.ctx.call(self.ifg.latcal, arg)
        self._arg_unchanged('latcal', 'plate_scale', arg, ps)
        changed = ps != self.dx
        self.dx = ps
        if changed:
            self._retwin()

    def op_strip_latcal(self, op):
        changed = self.dx != 1.0
        self._mutator('strip_latcal', changed)
        self.ctx.call(self.ifg.strip_latcal)
        self.dx = 1.0
        if changed:
            self._retwin()

    def op_relayout(self, op):
        """the user re-assigns the public attribute `data` with an element-for-element equal array in another memory layout"""
        self.ctx.label('relayout:' + op['how'])
        self.ifg.data = U.relayout(self.ifg.data, op['how'])

    def op_filter(self, op):
        if not self.valid.all():
            return self._noop('filter', 'has-invalid-samples')
        if self.dx == 0:
            return self._noop('filter', 'dx-zero')
        nyq = 1.0 / (2.0 * self.dx)
        typ = op['typ']
        f = sorted(op['frac'])
        if typ in ('bp', 'br', 'bandpass', 'bandreject'):
            if f[0] == f[1]:
                f[1] = min(f[1] + 0.15, 0.95)
            fc = (f[0] * nyq, f[1] * nyq)
        else:
            fc = op['frac'][0] * nyq
        self.reads.update(('r',))     # filter designs its kernel from self.r: it is a read of the polar cache
        self.ctx.label('filter:' + typ[:2 if len(typ) == 2 else 4])
        self.ctx.call(self.ifg.filter, fc, typ)

    # -- requests the library refuses (exception raised, caught by the caller, history goes on) ---------
    def _failing_request(self, op):
        """(callable, args, kwargs, claims) for a request that the unchanged library refuses in the state of the moment, or None when
        no such request of this kind exists in this state.  `claims` = the step is one that claims to change shape / validity."""
        ifg, what = self.ifg, op['what']
        ny, nx = self.shape
        if what == 'pad':
            form = op['form']
            value = np.nan if op.get('value') is None else op['value']
            if form == 'noargs':            # "Exactly one of samples or shape must be provided"
                return ifg.pad, (value,), {}, True
            if form == 'both':
                return ifg.pad, (value,), {'samples': 1 + abs(op['dec'][0]), 'shape': (ny + 2, nx + 2)}, True
            if form == 'bad-value':         # a frame that could be padded to, filled with something that is not a number
                grow = (abs(int(op['dec'][0])), abs(int(op['dec'][1])) + 1)
                if max(ny + grow[0], nx + grow[1]) > GROW:
                    return None
                self.ctx.label('refused-pad:fill-value-not-a-number')
                return ifg.pad, ('abc' if op.get('value') is None else {},), {'samples': grow}, True
            dy, dx_ = (int(v) for v in op['dec'])
            if dy >= 0 and dx_ >= 0:        # at least one axis of the target is shorter than the data
                dy = -1 - dy
            if form in ('shape', 'shape-list'):
                new = (ny + dy, nx + dx_)
                kw = {'shape': new if form == 'shape' else list(new)}
            elif form == 'samples':
                new = (ny + dy, nx + dx_)
                kw = {'samples': (dy, dx_)}
            elif form == 'samples-int':
                k = -max(1, abs(dy))
                new = (ny + k, nx + k)
                kw = {'samples': k}
            elif form == 'shape-int-between':    # "pad to n x n" on non-square data: n is larger than one axis, smaller than the other
                n = (ny + nx) // 2 if abs(ny - nx) >= 2 else max(ny, nx) - 1
                new = (n, n)
                kw = {'shape': int(n)}
            else:
                n = max(ny, nx) - max(1, abs(dy))
                new = (n, n)
                kw = {'shape': int(n)}
            # refused by the unchanged code iff some axis of >= 2 samples would shrink (an axis of one sample broadcasts into an empty frame)
            if not any(o < i and i >= 2 for o, i in zip(new, (ny, nx))):
                return None
            self.ctx.label('refused-pad:' + ('shrink-both' if new[0] < ny and new[1] < nx else
                                             'shrink-one-grow-other' if (new[0] > ny or new[1] > nx) else 'shrink-one'))
            return ifg.pad, (value,), kw, True
        if what == 'latcal':
            return ifg.latcal, ({'none': None, 'str': 'mm', 'complex': 1j, 'dict': {}}[op['arg']],), {}, False
        if what == 'filter':
            typ = op['typ']
            fc = op['frac'] * (1.0 / (2.0 * self.dx) if self.dx > 0 else 1.0)
            if typ in ('bp-scalar', 'br-scalar'):       # band filters need (lower, upper)
                return ifg.filter, (fc, typ[:2]), {}, False
            return ifg.filter, (fc, None if typ == 'none' else typ), {}, False
        if what == 'mask':
            how = op['how']
            if how == 'none':
                return ifg.mask, (None,), {}, True
            if how == 'rows-1' and ny == 1:
                return None                 # numpy accepts an empty (0, nx) boolean index on a (1, nx) array: not refused
            shp = {'rows+1': (ny + 1, nx), 'cols+1': (ny, nx + 1), 'rows-1': (ny - 1, nx), '1d': (ny + 1,)}[how]
            return ifg.mask, (np.ones(shp, dtype=bool),), {}, True
        if what == 'fill':
            return ifg.fill, ('abc' if op['arg'] == 'str' else {},), {}, True
        if what == 'spike_clip':
            return ifg.spike_clip, ('x' if op['arg'] == 'str' else None,), {}, True
        if what == 'pvr':
            if ny == nx:
                return None                 # valid on square data
            return ifg.pvr, (), {}, False
        raise ValueError(what)

    def op_fail(self, op):
        """A request that is refused with an exception, which the caller catches; the history then goes on.  Nothing is asserted about
        the request itself (not even that it is refused: if it is accepted nothing is asserted from there on).  Afterwards every
        invariant of the property must hold for the object as it then reports itself: the model takes over the reported dx (a failed
        latcal of the unchanged code leaves dx = 1), and - for steps that claim to change validity (pad, mask, fill, spike_clip) -
        the data's shape and valid set of the moment; steps that do not claim to change validity must have left it as it was."""
        ctx = self.ctx
        what = op['what']
        self.last = 'refused-' + what
        req = self._failing_request(op)
        if req is None:
            return self._noop('fail', what + ':no-refusable-request-in-this-state')
        fn, a, k, claims = req
        try:
            fn(*a, **k)
        except Exception as e:   # noqa - the refusal is the point; what is raised is not asserted
            raised = type(e).__name__
        else:
            self.dead = 'refused-%s accepted' % what
            return ctx.label('refused:%s:ACCEPTED(nothing asserted from here on)' % what)
        ctx.label('refused:%s:%s' % (what, raised), 'refused-after-read' if self.reads else 'refused-before-any-read')
        if what in ('filter', 'pvr'):
            self.reads.update(('r',) if what == 'filter' else ('r', 't'))      # both read the polar coordinates of the live object before they raise
        d = self.ifg.data
        ctx.require(isinstance(d, np.ndarray) and d.ndim == 2 and d.size > 0, 'data-shape:' + self.last,
                    'after the refused %s the data is %s' % (what, 'an array of shape %s' % (d.shape,) if isinstance(d, np.ndarray) else type(d).__name__))
        regrid = False
        if claims and (d.shape != self.shape or not np.array_equal(np.isfinite(d), self.valid)):
            ctx.label('refused:%s:data-changed(model follows)' % what)
            regrid = d.shape != self.shape
            self.valid = np.isfinite(d).copy()
        dx = self.ifg.dx
        ok = np.ndim(dx) == 0 and isinstance(dx, (int, float, np.integer, np.floating, np.ndarray)) and not isinstance(dx, bool)
        ok = ok and np.asarray(dx).dtype.kind in 'fiu' and bool(np.isfinite(dx)) and float(dx) >= 0
        ctx.require(ok, 'dx:' + self.last, 'after the refused %s the object reports dx = %r (model dx %r): no spacing the coordinates could have' % (what, dx, self.dx))
        if float(dx) != self.dx:
            ctx.label('refused:%s:dx-changed(model follows)' % what)
            self.dx = float(dx)
            regrid = True
        if regrid:
            self._retwin()

    # -- invariants ------------------------------------------------------------------------------
    def invariant(self):
        ctx = self.ctx
        last = self.last
        if self.dead:
            return
        i = self._observe()
        d = np.asarray(i.data)
        U.check_shape(d, self.shape, 'data-shape:' + last, 'data after %s' % last)
        # validity first: it is what every later comparison is conditioned on
        fin = np.isfinite(d)
        if not np.array_equal(fin, self.valid):
            lost = int((self.valid & ~fin).sum())
            gained = int((fin & ~self.valid).sum())
            ctx.fail('validity:' + last, 'after %s: %d samples the model has valid are invalid, %d the model has invalid are valid (shape %s)'
                     % (last, lost, gained, d.shape))
        ctx.require(not np.isinf(d).any(), 'validity:inf:' + last, 'data contains inf after %s' % last)
        # coordinates
        dx = i.dx
        ctx.require(np.ndim(dx) == 0 and np.size(dx) == 1 and abs(float(dx) - self.dx) <= 1e-12 * self.dx, 'dx:' + last,
                    'reported dx %r after %s, model dx %r' % (dx, last, self.dx))
        dx = float(dx)
        c = {}
        for nm in COORDS:
            a = np.asarray(ctx.call(getattr, i, nm))
            U.check_shape(a, d.shape, 'coord-shape:%s:%s' % (nm, last), '%s after %s (populated reads so far: %s)' % (nm, last, sorted(self.reads)))
            ctx.require(bool(np.all(np.isfinite(a))), 'coord-finite:%s:%s' % (nm, last), '%s has non-finite entries after %s' % (nm, last))
            c[nm] = a
        # the answer must not depend on the order in which the lazy coordinates are first read: observe a second copy
        # in the reverse order (t before r, y before x)
        i2 = self._observe()
        for nm in reversed(COORDS):
            a2 = np.asarray(ctx.call(getattr, i2, nm))
            if a2.shape != c[nm].shape or not np.array_equal(a2, c[nm]):
                ctx.fail('coord-read-order:%s:%s' % (nm, last), '%s read first (before %s) differs from %s read in the order x,y,r,t after %s: shapes %s vs %s' % (
                    nm, [q for q in COORDS if q != nm], nm, last, a2.shape, c[nm].shape))
        x, y, r, t = c['x'], c['y'], c['r'], c['t']
        ny, nx = d.shape
        tol = 1e-9 * dx
        if nx > 1:
            e = float(np.abs(np.diff(x, axis=1) - dx).max())
            ctx.within(e, tol, 'spacing:x:' + last, 'x spacing differs from dx=%g by %.3g after %s (x[0,:3]=%s)' % (dx, e, last, x[0, :3].tolist()))
            e = float(np.abs(np.diff(y, axis=1)).max())
            ctx.within(e, tol, 'spacing:y-not-constant:' + last, 'y varies along axis 1 by %.3g after %s' % (e, last))
        if ny > 1:
            e = float(np.abs(np.diff(y, axis=0) - dx).max())
            ctx.within(e, tol, 'spacing:y:' + last, 'y spacing differs from dx=%g by %.3g after %s (y[:3,0]=%s)' % (dx, e, last, y[:3, 0].tolist()))
            e = float(np.abs(np.diff(x, axis=0)).max())
            ctx.within(e, tol, 'spacing:x-not-constant:' + last, 'x varies along axis 0 by %.3g after %s' % (e, last))
        rr = np.hypot(x, y)
        rs = max(float(rr.max()), dx)
        e = float(np.abs(r - rr).max())
        ctx.within(e, 1e-9 * rs, 'polar:r:' + last,
                    'r differs from hypot(x,y) by %.4g after %s (r.max=%.6g, hypot.max=%.6g, dx=%g, reads so far %s)' % (e, last, float(r.max()), float(rr.max()), dx, sorted(self.reads)))
        dt = np.abs((t - np.arctan2(y, x) + np.pi) % (2 * np.pi) - np.pi)
        dt = np.where(rr > 1e-9 * rs, dt, 0.0)      # angle of the origin sample is a convention
        ctx.within(float(dt.max()), 1e-9, 'polar:t:' + last, 't differs from arctan2(y,x) by %.4g rad after %s' % (float(dt.max()), last))
        # statistics
        # no state shared between objects: the untouched twin on the same grid still has the coordinates it had
        for nm in COORDS:
            a = np.asarray(ctx.call(getattr, self.twin, nm))
            if a.shape != self.twin_ref[nm].shape or not np.array_equal(a, self.twin_ref[nm]):
                ctx.fail('aliased-state:twin:%s:%s' % (nm, last), '%s of an untouched Interferogram (shape %s, dx %r) changed while %s ran on another object of that shape and dx'
                         % (nm, self.twin_ref[nm].shape, self.dx, last))
        nv = int(self.valid.sum())
        rt = 1e-9 if d.dtype.itemsize >= 8 else 2e-4
        floor = 1e3 * float(np.sqrt(np.finfo(d.dtype).tiny)) if d.dtype.kind == 'f' else 0.0    # below this, squares underflow in the data's own precision
        ctx.label('state:dtype:' + str(d.dtype), 'state:valid:' + _geometry(self.valid))
        ctx.label('state:all-valid' if nv == d.size else ('state:no-valid' if nv == 0 else 'state:some-invalid'))
        if nv >= 1:
            dd = d[self.valid].astype(np.float64)
            m = float(dd.mean())
            ref = {'pv': float(dd.max() - dd.min()), 'rms': float(np.sqrt(np.mean(dd * dd))),
                   'Sa': float(np.mean(np.abs(dd - m))), 'std': float(np.sqrt(np.mean((dd - m) ** 2)))}
            scale = float(np.abs(dd).max())
            got = {}
            for nm in ('pv', 'rms', 'Sa', 'std'):
                g = ctx.call(getattr, i, nm)
                ctx.require(np.ndim(g) == 0 and np.isfinite(g), 'stat:%s:nonfinite' % nm, '%s = %r after %s with %d valid samples' % (nm, g, last, nv))
                got[nm] = float(g)
                ctx.within(abs(got[nm] - ref[nm]), rt * scale + floor, 'stat:' + nm,
                            '%s reports %.12g, the valid samples give %.12g (after %s, %d of %d valid)' % (nm, got[nm], ref[nm], last, nv, d.size))
            lhs, rhs = got['rms'] ** 2, got['std'] ** 2 + m * m
            ctx.within(abs(lhs - rhs), rt * max(lhs, rhs) + floor * floor, 'stat:rms2=std2+mean2', 'rms^2=%.12g, std^2+mean^2=%.12g after %s' % (lhs, rhs, last))
            slack = rt * scale + floor
            ctx.require(got['Sa'] <= got['std'] + slack and got['std'] <= got['pv'] + slack, 'stat:order',
                        'Sa=%.6g std=%.6g PV=%.6g violates Sa<=std<=PV after %s' % (got['Sa'], got['std'], got['pv'], last))


CLAUSES = [
    MachineClause('history', IfgModel, strat_init, strat_op, steps={'quick': 25, 'thorough': 40},
                  examples={'quick': 400, 'thorough': 1500}, shards={'quick': 6, 'thorough': 12}),
]
