"""C16 - sensor model: DN stay in [0, 2^bits-1], are monotone and equal the clipped gain-scaled signal without
noise; binning / tiling conserve and are adjoint; Bayer (de)composition and demosaicking keep native samples."""
import contextlib

import numpy as np
from hypothesis import strategies as st

from vlib.core import HypClause, EnumClause, Violation
from vlib import util as U

RULE = ("Detector: Hypothesis draws bits (1..32; additionally EVERY bits value 1..32 x gain x frames is enumerated with a "
        "row of pixels placed below / at / between / above the ADC ceiling), conversion gain, full-well (0.3x .. 1e6x "
        "the ADC range), bias (incl. negative), dark current, exposure time, frames 1..3, prnu / dcnu in {None, ones map, "
        "non-uniform map of the image shape}, optional monotone LUT, 2-D image shape 1..8 per axis (non-square); each "
        "pixel's level is drawn (from a seed) from classes {0, tiny, mid-range, 2^bits-1, between 2^bits-1 and 2^bits, "
        "exactly 2^bits, 1.5x, 1e3x, 1e12 x full-well}.  The random generator reached through prysm.mathops' backend shim "
        "is replaced (and restored in a finally) by a deterministic proxy: poisson(lam) = lam, normal = 0 for the "
        "noise-free oracle floor(clip(min(signal, fwc)/gain, 0, 2^bits-1)) computed by the harness, and for monotonicity "
        "expose(a) <= expose(a + d), d >= 0; a seeded numpy RandomState for the noisy range / shape / dtype check.  "
        "Binning: N-D arrays (1..4 dims), per-axis factors 1..4 (scalar factor form when all equal), float / integer "
        "data; oracles: explicit per-block sums written in the harness, np.repeat, totals / levels, round trips, the two "
        "adjoint identities.  Bayer: even shapes 2..16 (non-square), both layouts, float64/float32/uint16/int32 marker "
        "arrays with unique values; oracle: colour of site (y, x) from index parity computed by the harness; exact "
        "equality (data movement).  White balance: gains, safe mode with scalar / per-channel saturation.  Non-trivial = "
        "(detector) some pixel at or above the ADC ceiling or a non-uniformity map or frames > 1 or bits not in {8,12,14,16}; "
        "(binning) ndim != 2 or unequal factors; (Bayer) non-square or cfa == bggr or non-float dtype; (WB) safe mode or bggr.  "
        "Hardening pass: every array handed to the library additionally has a drawn memory layout {C, Fortran, transpose view, "
        "strided view, negative strides} (aerial image, prnu / dcnu maps, arrays to bin / tile, mosaics, colour planes, output "
        "buffers, white-balance targets) and is compared bit for bit with a copy taken before the call (except the documented "
        "in-place targets of wb_prescale / wb_postscale); aerial images are float64 / float32 / int64 / uint16 (oracle from the "
        "typed image; float32 arithmetic allowed 2^-21 relative); detector parameters are Python floats / numpy float64 scalars "
        "/ 0-d arrays / Python ints, bits and frames Python int or numpy int64, frames also omitted / by keyword; conversion gains "
        "are also drawn from [0.05, 40]; a detector may have a history inside the process (another instance with other bits / "
        "gain / image shape / dtype exposed first, or the very object built with other parameters, exposed, then re-configured "
        "through its public attributes); the first exposure is kept, a brighter one and the first one again are exposed, the "
        "kept array must not change and the repeat must equal it.  Binning: float32 data, factors as list / tuple / ndarray / "
        "numpy integer, factors up to 16 for 1-D / 2-D, an unrelated bindown / tile call of another rank and dtype first, first "
        "result kept across the later calls.  Bayer: uint8 / uint32 / int64 mosaics, sample values at the bottom, just above "
        "2^24 and at the very top of the type's range (floats: 1e-30 and 1e30 / 1e300 scales), a mosaic of the same shape and "
        "another dtype demosaicked first, two more mosaics of the same shape demosaicked after the kept result.  White balance: "
        "gains in every scalar form, per-channel saturation as list / tuple / ndarray.  "
        "Round-6 hardening: (after a caught exception) history 'failed-request' - an unsupported or ill-typed value is assigned to a public "
        "attribute of the detector (bits 33 / 40 / 64 / 1000 / None / str, conversion_gain 0 / None / str, exposure_time, fwc, bias, "
        "dark_current, read_noise, prnu / dcnu of another shape, an empty lut) and an exposure is attempted, or a 1-D / 0-d / None image or a "
        "negative / ill-typed frame count is exposed, all inside try/except; an attribute whose assignment went through is then assigned its "
        "valid value again, one whose assignment itself raised is left alone if it still reads the old value, and the detector must satisfy "
        "the same oracle as a fresh one (buckets ...:after-failed-request:<attr>); the failing request reaches a fresh detector or one that "
        "has already made a valid exposure (drawn); every (bits, gain, frames) of the ceiling enumeration is "
        "run once fresh and once after such a request.  bindown / tile (bad mode, non-dividing / too many / zero factors, None), the Bayer "
        "routines (unknown layout, odd-shaped / 1-D mosaic, None, output= of the wrong shape / type) and white balance (unknown layout, safe "
        "mode without saturation - refused before the in-place target is touched) get failing calls on the very arrays used afterwards.  "
        "(Output buffers) recomposite_bayer / composite_bayer are called with output= none | a fresh buffer | one buffer for two consecutive "
        "calls with different planes | (composite) the buffer IS the r / g1 / g2 / b plane, whose own sites must keep their samples while the "
        "other sites receive the other colours (the four colour sites are disjoint; holds on the unchanged code) | (recomposite) the mosaic "
        "whose decomposed planes (views, one edited in place) are written back into it.  prnu and dcnu may be one and the same ones-map object.  "
        "Round-7 hardening: (value patterns, bindown / tile) float data to bin / tile come in a drawn pattern - mean removed (total = rounding "
        "residue), sign-alternating, alternating constant and point-antisymmetric (exact cancellation), decimal fractions 0.1 + 0.2 - 0.3, every "
        "block's mean removed, exact zeros inside, one dominant sample, all zero - and an overall magnitude 1e-17 .. 1e30; whole-number data get "
        "the sign / zero patterns; every oracle is per bin / per output sample (explicit block sums, np.repeat / N), totals are additional.  "
        "(Spelling) the layout name is handed to the routines that accept any capitalisation on the unchanged tree - composite_bayer, "
        "recomposite_bayer, demosaic_malvar, wb_prescale in plain mode - in lower / upper / capitalised / mixed case, by keyword or positionally; "
        "decomposite_bayer, demosaic_deinterlace and wb_prescale(safe=True) compare the name as given and get the lower-case name only; the safe "
        "flag of the white-balance routines is True / numpy.True_ / 1.")
ASSUMPTIONS = ["numpy elementwise arithmetic, np.repeat and float->unsigned casts of in-range values are correct",
               "with a non-uniform prnu map the dark current is zero and vice versa (the property does not say whether "
               "PRNU applies to dark signal; both readings then agree)",
               "aerial images are 2-D (expose documents 'output shape is same as input shape' and indexes two axes)",
               "the real-RNG clause keeps the Poisson mean below 1e15 (numpy's generator rejects lam > 9.2e18)",
               "'safe' white balance is only asserted to divide all gains by one common ratio >= 1",
               "integer-typed aerial images are exposed with a floating point exposure time (the documented type): integer image x "
               "integer time is evaluated by NumPy in the image's integer type and may wrap; bits is a Python int or numpy int64 "
               "(2 ** bits overflows for narrower numpy integer scalars)"]


# ---- deterministic RNG through the backend shim (DESIGN 2.4) -------------------------------------
class _NoNoise:
    """poisson(lam) = lam, normal = loc: the exposure without its noise sources"""

    def poisson(self, lam, size=None):
        lam = np.asarray(lam, dtype=np.float64)
        out = np.array(np.broadcast_to(lam, size if size is not None else lam.shape))
        if out.size and np.all(out == np.rint(out)) and np.all(np.abs(out) < 2.0 ** 62):
            # numpy's poisson returns int64 counts; when the mean is a whole number of electrons everywhere the noise-free
            # stand-in is returned in that dtype too, so that the integer arithmetic paths of expose() are exercised
            return out.astype(np.int64)
        return out

    def normal(self, loc=0.0, scale=1.0, size=None):
        return np.zeros(size if size is not None else ()) + loc


class _NumpyProxy:
    """delegates everything to numpy except .random"""

    def __init__(self, random):
        self.random = random

    def __getattr__(self, key):
        return getattr(np, key)


@contextlib.contextmanager
def rng_proxy(random):
    from prysm import mathops
    shim = mathops.np
    old = shim._srcmodule
    try:
        shim._srcmodule = _NumpyProxy(random)
        yield
    finally:
        shim._srcmodule = old


# ---- dtype / memory layout / scalar form of the arguments (hardening pass) ---------------------------
LAYOUTS = ['C', 'C', 'F', 'T-view', 'strided', 'negstride']
FORMS = ['float', 'float', 'np64', '0d', 'int']


def relayout(a, how):
    """same values, other strides"""
    a = np.asarray(a)
    if how == 'negstride' and a.ndim:
        rev = (slice(None, None, -1),) * a.ndim
        return np.ascontiguousarray(a[rev])[rev]
    return U.relayout(a, 'C' if how == 'negstride' else how)


def scalar_form(v, form):
    """a real parameter as Python float | numpy float64 scalar | 0-d array | Python int (only when integer valued)"""
    if form == 'np64':
        return np.float64(v)
    if form == '0d':
        return np.array(float(v))
    if form == 'int' and float(v) == int(v):
        return int(v)
    return float(v)


def snapshot(*objs):
    return [None if o is None else (np.array(o, copy=True), np.asarray(o).dtype, np.shape(o)) for o in objs]


def require_unchanged(ctx, who, names, objs, snaps):
    """every array-like argument still holds, bit for bit, what it held before the call"""
    for name, o, sn in zip(names, objs, snaps):
        if sn is None:
            continue
        keep, dt, shp = sn
        now = np.asarray(o)
        if now.dtype != dt or now.shape != tuple(shp) or np.ascontiguousarray(now).tobytes() != np.ascontiguousarray(keep).tobytes():
            if now.shape == tuple(shp) and now.dtype == dt and now.size:
                diff = np.argwhere(now != keep)
                i = tuple(int(k) for k in diff[0]) if len(diff) else ()
                detail = 'first difference at %s: was %r, now %r; %d of %d samples changed' % (i, keep[i], now[i], len(diff), now.size)
            else:
                detail = 'was %s %s, now %s %s' % (dt, tuple(shp), now.dtype, now.shape)
            ctx.fail(who + ':argument-modified', 'the %s handed to %s was changed by the call: %s' % (name, who, detail))


def require_kept(ctx, who, result, kept, what):
    """an array returned earlier still holds what it held when it was returned"""
    r = np.asarray(result)
    if r.shape != kept.shape or r.dtype != kept.dtype or not np.array_equal(r, kept, equal_nan=r.dtype.kind in 'fc'):
        ctx.fail(who + ':result-overwritten', 'the %s %s array returned by %s changed while %s' % (kept.dtype, kept.shape, who, what))


def caught(ctx, what, fn, *a, **k):
    """a request that is expected to fail and is caught by the caller; nothing is asserted about it (if it does not fail either)"""
    try:
        fn(*a, **k)
        ctx.label('failed-call:%s:did-not-raise' % what)
    except Exception:
        ctx.label('failed-call:%s:raised' % what)


# ---- detector ------------------------------------------------------------------------------------
IMG_DTYPES = ['f8', 'f8', 'f8', 'f4', 'f4', 'i8', 'u2']
LEVELS = ['zero', 'tiny', 'mid', 'mid', 'mid2', 'max', 'between', 'cap', 'over', 'far', 'huge']
CONTEMPORARY = (8, 12, 14, 16)


def _level_value(name, fs_e, bits, gain, fwc, u):
    """electrons at the ADC input that the class stands for (before bias), u in [0,1) from the seed"""
    top = 2.0 ** bits
    return {'zero': 0.0, 'tiny': 0.3 * gain * u, 'mid': fs_e * (0.05 + 0.9 * u), 'mid2': fs_e * 0.5 * u,
            'max': (top - 1) * gain, 'between': (top - 1 + 0.25 + 0.5 * u) * gain, 'cap': top * gain,
            'over': 1.5 * fs_e * (1 + u), 'far': 1e3 * fs_e * (1 + u), 'huge': 1e12 * max(fwc, fs_e) * (1 + u)}[name]


def build_detector_case(case, noisy=False):
    h, w = case['shape']
    bits, gain, t = case['bits'], case['gain'], case['t']
    fs_e = gain * 2.0 ** bits                    # electrons that fill the ADC range
    fwc = case['fwc_rel'] * fs_e
    bias = case['bias_rel'] * fs_e
    r = U.rng_of(case['seed'], 16)
    idx = r.integers(0, len(LEVELS), (h, w))
    u = r.uniform(0, 1, (h, w))
    el = np.empty((h, w))
    for k, name in enumerate(LEVELS):      # elementwise: the same arithmetic per pixel for every image size
        sel = idx == k
        if sel.any():
            el[sel] = np.broadcast_to(_level_value(name, fs_e, bits, gain, fwc, u), (h, w))[sel]
    if noisy:
        el = np.minimum(el, 1e15)
    prnu = dcnu = None
    if case['prnu'] == 'ones':
        prnu = np.ones((h, w))
    elif case['prnu'] == 'map':
        prnu = r.uniform(0.8, 1.2, (h, w))
    if case['dcnu'] == 'ones':
        # (now and then the very same array object serves as both maps)
        dcnu = prnu if (case['prnu'] == 'ones' and case['seed'] % 2) else np.ones((h, w))
    elif case['dcnu'] == 'map':
        dcnu = r.uniform(0.5, 2.0, (h, w))
    # the property does not say whether PRNU scales dark signal: never both non-trivial
    dark_e = 0.0 if case['prnu'] == 'map' else case['dark_rel'] * fs_e      # electrons accumulated over the exposure
    img = el / t                                   # e-/s
    idt = case.get('img_dtype', 'f8')
    if idt != 'f8':
        img = typed_image(img, idt)
        el = img.astype(np.float64) * t            # the electrons this image stands for (integer / float32 images are exact inputs)
    lut = None
    if case['lut'] != 'none' and bits <= 10:
        n = 2 ** bits
        if case['lut'] == 'identity':
            lut = np.arange(n, dtype=np.uint16)
        else:   # non-decreasing, stays inside [0, 2^bits-1]
            lut = np.minimum(n - 1, (np.arange(n) * 0.75).astype(np.int64) + r.integers(0, 2)).astype(np.uint16)
            lut = np.maximum.accumulate(lut)
    return dict(img=img, el=el, fwc=fwc, bias=bias, dark_rate=dark_e / t, dark_e=dark_e, prnu=prnu, dcnu=dcnu, lut=lut,
                fs_e=fs_e)


def typed_image(img, idt):
    """the aerial image (e-/s) in another container: float32, or integer counts (rounded, clipped to the type's range)"""
    if idt == 'f4':
        return img.astype(np.float32)
    dt = {'i8': np.int64, 'u2': np.uint16, 'u1': np.uint8, 'i4': np.int32}[idt]
    return np.rint(np.clip(img, 0, min(float(np.iinfo(dt).max), 2.0 ** 62))).astype(dt)


def _oracle_dn(d, case, el=None):
    """bounds (lo, hi) of floor(clip(min(signal, fwc)/gain, 0, 2^bits-1)) allowing 1e-12 relative rounding of the signal"""
    bits, gain = case['bits'], case['gain']
    el = d['el'] if el is None else el
    p = d['prnu'] if d['prnu'] is not None else 1.0
    dk = d['dark_e'] * (d['dcnu'] if d['dcnu'] is not None else 1.0)
    sig = el * p + dk + d['bias']
    # rounding of the sum (cancellation with a negative bias); a float32 image is multiplied by the exposure time and added to
    # the dark signal in float32 (two roundings of 2^-24 relative, 2^-21 allowed)
    rel = 1e-12 + (2.0 ** -21 if case.get('img_dtype', 'f8') == 'f4' else 0.0)
    s = rel * (np.abs(el * p) + np.abs(dk) + abs(d['bias']))
    v = np.minimum(sig, d['fwc']) / gain
    v_lo = np.minimum(sig - s, d['fwc']) / gain
    v_hi = np.minimum(sig + s, d['fwc']) / gain
    v_lo = v_lo - 1e-14 * np.abs(v_lo)                             # x * (1/gain) versus x / gain
    v_hi = v_hi + 1e-14 * np.abs(v_hi)
    top = 2.0 ** bits - 1
    lo = np.floor(np.clip(v_lo, 0, top))
    hi = np.floor(np.clip(v_hi, 0, top))
    return lo, hi, v


def _det_params(case, d, read_noise):
    """constructor arguments in their drawn scalar form / memory layout"""
    form = case.get('form', 'float')
    ml = case.get('map_layout', 'C')
    return dict(dark_current=scalar_form(d['dark_rate'], form), read_noise=scalar_form(read_noise, form), bias=scalar_form(d['bias'], form),
                fwc=scalar_form(d['fwc'], form), conversion_gain=scalar_form(case['gain'], form),
                bits=np.int64(case['bits']) if case.get('bits_form', 'int') == 'np64' else case['bits'],
                # documented type float; an integer image times an integer exposure time would be evaluated by NumPy in the image's
                # own integer type (uint16 * 30 wraps) - not a case the model is documented for
                exposure_time=scalar_form(case['t'], 'float' if form == 'int' and case.get('img_dtype', 'f8') not in ('f8', 'f4') else form),
                prnu=None if d['prnu'] is None else relayout(d['prnu'], ml), dcnu=None if d['dcnu'] is None else relayout(d['dcnu'], ml),
                lut=d['lut'])


# requests that fail and are caught by the caller (class "after an exception"): an unsupported / ill-typed value assigned to a public
# attribute of the detector followed by an exposure, or an exposure with a malformed image / frame count.  Nothing is asserted about
# the failing request; afterwards every attribute whose assignment went through is assigned its valid value again (an ordinary,
# valid request), an attribute whose assignment itself raised is left alone when it still reads its old value (the failed request
# "never happened"), and the detector is used as if nothing had happened.
BAD_ATTR = {'bits=40': ('bits', 40), 'bits=33': ('bits', 33), 'bits=64': ('bits', 64), 'bits=1000': ('bits', 1000), 'bits=None': ('bits', None),
            'bits=str': ('bits', 'twelve'), 'gain=0': ('conversion_gain', 0.0), 'gain=str': ('conversion_gain', 'high'),
            'gain=None': ('conversion_gain', None), 'time=None': ('exposure_time', None), 'time=str': ('exposure_time', '1/30'),
            'fwc=None': ('fwc', None), 'bias=str': ('bias', 'auto'), 'dark=None': ('dark_current', None), 'read_noise=str': ('read_noise', 'low')}
FAILS = sorted(BAD_ATTR) + ['bits=40', 'bits=33', 'bits=64', 'prnu-shape', 'dcnu-shape', 'lut-empty', 'image-1d', 'image-0d', 'image=None', 'frames=-1', 'frames=str']


def _failed_request(det, fail, img, frames, ctx, warm=False):
    """issue the failing request `fail` on det and catch whatever it raises; restore what a *successful* assignment changed.
    warm: the detector has already made a valid exposure when the failing request arrives"""
    h, w = np.shape(img)
    ctx.label('failed-request:' + ('detector-used-before' if warm else 'fresh-detector'))
    if warm:
        with rng_proxy(_NoNoise()):
            ctx.call(det.expose, img, frames)
    name = None
    fimg, fframes = img, frames
    if fail in BAD_ATTR:
        name, bad = BAD_ATTR[fail]
    elif fail == 'prnu-shape':
        name, bad = 'prnu', np.ones((h + 1, w + 2))
    elif fail == 'dcnu-shape':
        name, bad = 'dcnu', np.ones((h + 2, w + 1))
    elif fail == 'lut-empty':
        name, bad = 'lut', np.zeros(0, dtype=np.uint16)
    elif fail == 'image-1d':
        fimg, fframes = np.ravel(img), 1
    elif fail == 'image-0d':
        fimg = np.float64(3.0)
    elif fail == 'image=None':
        fimg = None
    elif fail == 'frames=-1':
        fframes = -1
    elif fail == 'frames=str':
        fframes = 'two'
    else:
        raise ValueError(fail)
    assigned = False
    if name is not None:
        original = getattr(det, name)
        try:
            setattr(det, name, bad)
            assigned = True
        except Exception:      # the request failed at the assignment; nothing is asserted about it
            ctx.label('failed-request:assignment-raised')
    try:
        with rng_proxy(_NoNoise()):
            det.expose(fimg, fframes)
        ctx.label('failed-request:expose-did-not-raise')
    except Exception:          # the request failed in expose; nothing is asserted about it
        ctx.label('failed-request:expose-raised')
    if name is not None:
        now = getattr(det, name)
        arrays = isinstance(original, np.ndarray) or isinstance(now, np.ndarray)
        same = now is original or (not arrays and type(now) is type(original) and now == original)
        if assigned or not same:
            ctx.call(setattr, det, name, original)       # a valid request: the value the detector was built with
        else:
            ctx.label('failed-request:attribute-kept-its-value')


def _mk_detector(case, d, read_noise=0.0, ctx=None):
    """the detector under test; optionally with a history inside the process: another instance (other bit depth, gain, image
    shape and dtype) exposed first, or this very object built with other parameters, exposed, and then re-configured through
    its public attributes"""
    from prysm.detector import Detector
    kw = _det_params(case, d, read_noise)
    hist = case.get('history', 'none')

    def make():
        if case.get('ctor', 'kw') == 'positional':
            return Detector(*[kw[k] for k in ('dark_current', 'read_noise', 'bias', 'fwc', 'conversion_gain', 'bits', 'exposure_time',
                                              'prnu', 'dcnu', 'lut')])
        return Detector(**kw)
    if hist == 'none' or ctx is None:
        return make(), kw
    if hist == 'failed-request':
        det = make()
        ctx.label('fail:' + case.get('fail', 'bits=40'))
        _failed_request(det, case.get('fail', 'bits=40'), d['img'], case['frames'], ctx, warm=case.get('fail_warm', False))
        return det, kw
    h, w = case['shape']
    r = U.rng_of(case['seed'], 21)
    other_bits = int(r.choice([b for b in (1, 7, 8, 10, 16, 17, 32) if b != case['bits']]))
    other = Detector(dark_current=3.0, read_noise=0.0, bias=5.0, fwc=1e4, conversion_gain=float(r.choice([0.5, 1.3, 7.9])), bits=other_bits,
                     exposure_time=0.5, prnu=None, dcnu=None, lut=None)
    shape0 = (h, w) if hist == 'same-shape-before' else (w + 1, h + 2)
    first = r.uniform(0, 3e4, shape0).astype(np.float32 if r.uniform() < 0.5 else np.float64)
    with rng_proxy(_NoNoise()):
        ctx.call(other.expose, first, int(r.integers(1, 3)))
    if hist in ('other-instance', 'same-shape-before'):
        return make(), kw
    for k, v in kw.items():          # hist == 'reassigned'
        setattr(other, k, v)
    return other, kw


def _expose(ctx, det, img, frames, case):
    if case.get('frames_form', 'int') == 'np64':
        frames = np.int64(frames)
    try:
        if case.get('frames_form', 'int') == 'default' and frames == 1:
            return ctx.call(det.expose, img)
        if case.get('frames_form', 'int') == 'kw':
            return ctx.call(det.expose, aerial_img=img, frames=frames)
        return ctx.call(det.expose, img, frames)
    except Violation as v:
        if v.bucket.startswith('raise:') and (case['prnu'] != 'none' or case['dcnu'] != 'none'):
            which = '+'.join(k for k in ('prnu', 'dcnu') if case[k] != 'none')
            raise Violation('expose:%s-map-of-image-shape:%s' % (which, v.bucket.split(':')[-1]),
                            'image %s, frames=%d, %s: %s' % (list(img.shape), frames, which, v.msg)) from v
        raise


def _check_container(ctx, out, case, frames, lut):
    h, w = case['shape']
    bits = case['bits']
    want_shape = (h, w) if frames == 1 else (frames, h, w)
    U.check_shape(out, want_shape, 'expose')
    ctx.require(np.issubdtype(out.dtype, np.integer), 'expose:dtype', 'expose returned dtype %s, not an integer type' % out.dtype)
    if lut is None:
        ctx.require(np.iinfo(out.dtype).max >= 2 ** bits - 1, 'expose:dtype', 'bits=%d: container %s cannot hold 2^bits-1' % (bits, out.dtype))


def _dn_bucket(case, dn, v, bad):
    top = 2 ** case['bits']
    sat = v >= top - 1
    if np.any(bad & sat) and not np.any(bad & ~sat):
        return 'expose:adc-ceiling'
    return 'expose:value'


def _det_labels(case, ctx, d, v):
    bits = case['bits']
    sat = bool(np.any(v >= 2.0 ** bits))
    if case['shape'][0] * case['shape'][1] > 64:
        ctx.label('large frame' + (' (> 2^16 pixels)' if case['shape'][0] * case['shape'][1] > 65536 else ''))
    ctx.label('img:' + case.get('img_dtype', 'f8'), 'layout:' + case.get('layout', 'C'), 'form:' + case.get('form', 'float'),
              'history:' + case.get('history', 'none'), 'gain:' + ('listed' if case['gain'] in GAINS else 'drawn'))
    ctx.label('bits<=8' if bits <= 8 else 'bits<=16' if bits <= 16 else 'bits<=32', 'frames:%d' % case['frames'],
              'prnu:' + case['prnu'], 'dcnu:' + case['dcnu'], 'lut:' + ('none' if d['lut'] is None else case['lut']),
              'saturating' if sat else 'unsaturated', 'fwc-limited' if d['fwc'] < d['fs_e'] else 'adc-limited',
              'bias<0' if d['bias'] < 0 else 'bias>=0', 'square' if case['shape'][0] == case['shape'][1] else 'nonsquare')
    ctx.nt(sat or case['prnu'] == 'map' or case['dcnu'] == 'map' or case['frames'] > 1 or bits not in CONTEMPORARY)


GAINS = [1.0, 0.5, 0.37, 2.7, 16.0, 0.1]


def strat_detector(tier):
    ax = st.integers(1, 8)
    # mostly small frames; now and then a large one (more than 2^16 pixels, a long single row)
    shape = st.one_of(*([st.tuples(ax, ax).map(list)] * 19 + [st.sampled_from([[64, 48], [1, 300], [257, 256]])]))
    return st.fixed_dictionaries({
        'ctor': st.sampled_from(['kw', 'kw', 'positional']),
        'img_dtype': st.sampled_from(IMG_DTYPES), 'layout': st.sampled_from(LAYOUTS), 'map_layout': st.sampled_from(LAYOUTS),
        'form': st.sampled_from(FORMS), 'bits_form': st.sampled_from(['int', 'int', 'np64']),
        'frames_form': st.sampled_from(['int', 'int', 'np64', 'default', 'kw']),
        'history': st.sampled_from(['none', 'none', 'other-instance', 'same-shape-before', 'reassigned', 'failed-request']),
        'fail': st.sampled_from(FAILS), 'fail_warm': st.booleans(),
        'shape': shape, 'bits': st.integers(1, 32),
        'gain': st.one_of(st.sampled_from(GAINS), st.sampled_from(GAINS), U.nice_float(0.05, 40.0)),
        't': st.sampled_from([1.0, 0.01, 30.0, 0.7]), 'fwc_rel': st.sampled_from([0.3, 0.9, 1.0, 1.5, 100.0, 1e6]),
        'bias_rel': st.sampled_from([0.0, 0.0, 0.01, 0.3, -0.05]), 'dark_rel': st.sampled_from([0.0, 0.0, 1e-3, 0.2]),
        'frames': st.sampled_from([1, 1, 2, 3]), 'prnu': st.sampled_from(['none', 'none', 'ones', 'map']),
        'dcnu': st.sampled_from(['none', 'none', 'ones', 'map']), 'lut': st.sampled_from(['none', 'none', 'identity', 'monotone']),
        'seed': U.seeds})


def _check_noise_free(case, ctx):
    """noise sources off: DN == floor(clip(min(signal, fwc)/gain, 0, 2^bits-1)); range; shape/dtype; monotone in the signal."""
    d = build_detector_case(case)
    lo, hi, v = _oracle_dn(d, case)
    _det_labels(case, ctx, d, v)
    frames, bits = case['frames'], case['bits']
    det, kw = _mk_detector(case, d, ctx=ctx)
    # brighter image: some pixels unchanged, some pushed across saturation
    r = U.rng_of(case['seed'], 17)
    bump = np.where(r.uniform(0, 1, d['el'].shape) < 0.4, 0.0, d['fs_e'] * r.choice([1e-3, 0.3, 1.0, 1e4], d['el'].shape))
    el2 = d['el'] + bump
    idt, lay = case.get('img_dtype', 'f8'), case.get('layout', 'C')
    img1 = relayout(d['img'], lay)
    img2 = el2 / case['t']
    if idt != 'f8':
        img2 = typed_image(img2, idt)
        el2 = img2.astype(np.float64) * case['t']
    img2 = relayout(img2, lay)
    names = ['aerial image', 'brighter aerial image', 'prnu map', 'dcnu map', 'lut', 'bias', 'fwc', 'conversion_gain']
    args = [img1, img2, kw['prnu'], kw['dcnu'], kw['lut'], kw['bias'], kw['fwc'], kw['conversion_gain']]
    snaps = snapshot(*args)
    with rng_proxy(_NoNoise()):
        out = _expose(ctx, det, img1, frames, case)
        kept = np.array(out, copy=True)
        out2 = _expose(ctx, det, img2, frames, case)
        require_kept(ctx, 'expose', out, kept, 'a second image was exposed')
        # the same image once more: no state is carried from one exposure to the next
        out3 = _expose(ctx, det, img1, frames, case)
    require_unchanged(ctx, 'expose', names, args, snaps)
    require_kept(ctx, 'expose', out, kept, 'two more images were exposed')
    U.check_equal(np.asarray(out3), kept, 'expose:not-repeatable', 'the first image exposed again after a brighter one (noise sources off)')
    _check_container(ctx, out, case, frames, d['lut'])
    _check_container(ctx, out2, case, frames, d['lut'])
    lut = d['lut']
    for name, o, (l_, h_, vv) in (('image', out, (lo, hi, v)), ('brighter image', out2, _oracle_dn(d, case, el2))):
        o = np.asarray(o).astype(np.int64).reshape((frames,) + tuple(case['shape']))
        wl, wh = (l_, h_) if lut is None else (lut[l_.astype(np.int64)].astype(np.float64), lut[h_.astype(np.int64)].astype(np.float64))
        for f in range(frames):
            bad = (o[f] < wl) | (o[f] > wh)
            if bad.any():
                i = tuple(int(k) for k in np.argwhere(bad)[0])
                ctx.fail(_dn_bucket(case, o[f], vv, bad), '%s, frame %d, pixel %s: ideal ADC input %.17g DN (bits=%d, ceiling %d, gain %g, fwc %g e-) '
                         'read as %d, expected %d%s; %d of %d pixels wrong' % (
                             name, f, i, vv[i], bits, 2 ** bits - 1, case['gain'], d['fwc'], o[f][i], wl[i],
                             '' if wl[i] == wh[i] else '..%d' % wh[i], int(bad.sum()), bad.size))
            ctx.require(o[f].min() >= 0 and o[f].max() <= 2 ** bits - 1, 'expose:range',
                        '%s: DN range [%d, %d] outside [0, %d]' % (name, o[f].min(), o[f].max(), 2 ** bits - 1))
    a = np.asarray(out).astype(np.int64)
    b = np.asarray(out2).astype(np.int64)
    dark = a > b
    if dark.any():
        i = tuple(int(k) for k in np.argwhere(dark)[0])
        ctx.fail('expose:monotone', 'a brighter pixel reads darker: index %s reads %d for the dimmer and %d for the brighter image (bits=%d)' % (
            i, a[i], b[i], bits))


def _check_noisy_range(case, ctx):
    """real (seeded) Poisson + Gaussian noise: shape, dtype and 0 <= DN <= 2^bits-1."""
    d = build_detector_case(case, noisy=True)
    _, _, v = _oracle_dn(d, case)
    _det_labels(case, ctx, d, v)
    frames, bits = case['frames'], case['bits']
    det, kw = _mk_detector(case, d, read_noise=case['gain'] * 3.0, ctx=ctx)
    img1 = relayout(d['img'], case.get('layout', 'C'))
    args = [img1, kw['prnu'], kw['dcnu'], kw['lut']]
    snaps = snapshot(*args)
    with rng_proxy(np.random.RandomState(case['seed'] % (2 ** 32))):
        out = _expose(ctx, det, img1, frames, case)
    require_unchanged(ctx, 'expose', ['aerial image', 'prnu map', 'dcnu map', 'lut'], args, snaps)
    _check_container(ctx, out, case, frames, d['lut'])
    o = np.asarray(out).astype(np.int64)
    top = 2 ** bits - 1
    if o.min() < 0 or o.max() > top:
        i = tuple(int(k) for k in np.argwhere((o < 0) | (o > top))[0])
        vi = float(np.broadcast_to(v, o.shape)[i])
        # exactly one code above the largest one is what a ceiling of 2^bits produces; anything else is a different defect
        ctx.fail('expose:adc-ceiling' if o[i] == top + 1 else 'expose:range',
                 'bits=%d: DN %d at %s (mean ADC input %.6g DN) outside [0, %d]' % (bits, o[i], i, vi, top))
    # a pixel whose mean signal exceeds the ceiling by more than 15 standard deviations of its noise must read the ceiling
    if d['lut'] is None:
        p = d['prnu'] if d['prnu'] is not None else 1.0
        dk = d['dark_e'] * (d['dcnu'] if d['dcnu'] is not None else 1.0)
        mean_e = d['el'] + dk                                        # Poisson mean, electrons
        sd_dn = (np.sqrt(mean_e) * np.max(p) + 3.0 * case['gain']) / case['gain']
        far = np.broadcast_to((v - 2.0 ** bits >= 15 * sd_dn + 2) & (mean_e * p + d['bias'] - d['fwc'] >= 15 * sd_dn * case['gain']) |
                              (v - 2.0 ** bits >= 15 * sd_dn + 2) & (d['fwc'] >= 1e3 * d['fs_e']), o.shape)
        ctx.label('has-far-saturated-pixel' if far.any() else 'no-far-saturated-pixel')
        if far.any() and np.any(o[far] != top):
            i = tuple(int(k) for k in np.argwhere(far & (o != top))[0])
            ctx.fail('expose:adc-ceiling', 'bits=%d: pixel %s with mean ADC input %.6g DN (noise sd %.3g DN) reads %d, expected the ceiling %d' % (
                bits, i, np.broadcast_to(v, o.shape)[i], np.broadcast_to(sd_dn, o.shape)[i], o[i], top))


ENUM_FAILS = ['bits=40', 'gain=0', 'bits=33', 'lut-empty', 'image-1d', 'bits=None', 'prnu-shape', 'frames=-1', 'bits=64', 'time=str', 'bits=1000']


def enum_ceiling(tier):
    k = 0
    for bits in range(1, 33):
        for gain in (1.0, 0.37, 4.0, 0.7, 1.3, 7.9):
            for frames in (1, 2):
                yield {'bits': bits, 'gain': gain, 'frames': frames}
                # the same detector after a failed request that the caller caught
                k += 1
                yield {'bits': bits, 'gain': gain, 'frames': frames, 'fail': ENUM_FAILS[k % len(ENUM_FAILS)], 'fail_warm': (k // len(ENUM_FAILS)) % 2 == 1}


def _check_ceiling(case, ctx):
    """every bit depth 1..32: pixels below / at / between / above the ADC ceiling read min(floor(x), 2^bits-1), never wrap."""
    from prysm.detector import Detector
    bits, gain, frames = case['bits'], case['gain'], case['frames']
    top = 2.0 ** bits
    dn_in = np.array([[0.0, 0.5, top / 2, top - 1, top - 0.5, top, top + 1, 1.5 * top, 1e3 * top, 1e12 * top],
                      [top, top - 1.5, 1.0, top * 7, top - 1 + 0.25, 0.0, top / 4, top + 0.5, top - 0.75, 2 * top]])
    ctx.nt(True)
    ctx.label('bits<=8' if bits <= 8 else 'bits<=16' if bits <= 16 else 'bits<=32')
    el = dn_in * gain
    det = Detector(dark_current=0.0, read_noise=0.0, bias=0.0, fwc=1e15 * top * gain, conversion_gain=gain, bits=bits, exposure_time=1.0)
    ctx.label('fail:' + case.get('fail', 'none'))
    if case.get('fail', 'none') != 'none':
        _failed_request(det, case['fail'], el, frames, ctx, warm=case.get('fail_warm', False))
    with rng_proxy(_NoNoise()):
        out = ctx.call(det.expose, el, frames)
    U.check_shape(out, (2, 10) if frames == 1 else (frames, 2, 10), 'expose')
    ctx.require(np.issubdtype(out.dtype, np.integer) and np.iinfo(out.dtype).max >= top - 1, 'expose:dtype',
                'bits=%d: dtype %s is not an integer type able to hold 2^bits-1' % (bits, out.dtype))
    o = np.asarray(out).astype(np.int64).reshape(frames, 2, 10)
    v = el / gain
    lo = np.floor(np.clip(v * (1 - 1e-12), 0, top - 1))
    hi = np.floor(np.clip(v * (1 + 1e-12), 0, top - 1))
    for f in range(frames):
        bad = (o[f] < lo) | (o[f] > hi)
        if bad.any():
            i = tuple(int(k) for k in np.argwhere(bad)[0])
            ctx.fail(_dn_bucket(case, o[f], v, bad), 'bits=%d gain=%g frame %d: ADC input %.17g DN reads %d, expected %d (ceiling %d); row reads %s' % (
                bits, gain, f, v[i], o[f][i], lo[i], int(top) - 1, o[f][i[0]].tolist()))


def _after_failed_request(inner, failed):
    """the same check; a violation found on a detector that went through a failed, caught request is filed under its own bucket"""
    def check(case, ctx):
        try:
            inner(case, ctx)
        except Violation as v:
            if failed(case):
                raise Violation(v.bucket + ':after-failed-request:' + case.get('fail', 'bits=40').split('=')[0], 'after the failed request %r was caught: %s' % (case.get('fail', 'bits=40'), v.msg)) from v
            raise
    check.__doc__ = inner.__doc__
    return check


check_noise_free = _after_failed_request(_check_noise_free, lambda c: c.get('history', 'none') == 'failed-request')
check_noisy_range = _after_failed_request(_check_noisy_range, lambda c: c.get('history', 'none') == 'failed-request')
check_ceiling = _after_failed_request(_check_ceiling, lambda c: c.get('fail', 'none') != 'none')


# ---- binning / tiling ------------------------------------------------------------------------------
def strat_bin(tier):
    hi = {'quick': 4, 'thorough': 6}[tier]

    def axes(nd):
        # 1-D / 2-D arrays also take factors well beyond the ones the repository's tests use
        f = st.integers(1, 4) if nd > 2 else st.one_of(st.integers(1, 4), st.integers(1, 4), st.sampled_from([5, 7, 8, 13, 16]))
        return st.tuples(st.lists(st.integers(1, hi), min_size=nd, max_size=nd), st.lists(f, min_size=nd, max_size=nd))
    return st.integers(1, 4).flatmap(axes).flatmap(lambda of: st.fixed_dictionaries({
        'out': st.just(of[0]), 'factor': st.just(of[1]),
        'kind': st.sampled_from(['float', 'float', 'float32', 'intfloat', 'int64', 'const', 'uint16', 'uint8', 'int32']),
        'scalar_factor': st.booleans(), 'avg_name': st.sampled_from(['avg', 'average', 'mean']),
        'seq': st.sampled_from(['list', 'tuple', 'ndarray']), 'layout': st.sampled_from(LAYOUTS), 'before': st.booleans(), 'seed': U.seeds,
        'failed_call': st.sampled_from(['none', 'none', 'none', 'bad-mode', 'not-divisible', 'factor-length', 'factor-zero', 'not-an-array']),
        'pattern': st.sampled_from(PATTERNS), 'exp10': st.sampled_from([0, 0, 0, -17, 30, -6, 9])}))


# value patterns of the data to bin / tile (both operations are linear and documented for N-D arrays, not for images only): signed data
# whose total cancels to rounding residue or exactly, data with exact zeros, one dominant sample
PATTERNS = ['plain', 'plain', 'mean-removed', 'mean-removed', 'alternating', 'alternating-const', 'antisymmetric', 'decimal-cancel',
            'block-mean-removed', 'zeros-inside', 'one-outlier', 'all-zero']


def _pattern(a, pattern, r, factor=None):
    """the float array a (values of order 1) with the value pattern imposed; same shape and dtype"""
    dt = a.dtype
    a = a.astype(np.float64)
    sign = 1.0 - 2.0 * (np.indices(a.shape).sum(axis=0) % 2) if a.ndim else np.float64(1.0)
    if pattern == 'mean-removed':
        a = a - a.mean()                      # OPD-like maps: the total is rounding residue, not 0.0
    elif pattern == 'alternating':
        a = np.abs(a) * sign
    elif pattern == 'alternating-const':
        a = 1.75 * sign                       # an even number of samples cancels exactly
    elif pattern == 'antisymmetric':
        a = (a - a[(slice(None, None, -1),) * a.ndim]) / 2
    elif pattern == 'decimal-cancel':
        vals = np.array([0.1, 0.2, -0.3, 0.7, -0.1, -0.6])      # 0.1 + 0.2 - 0.3 = 5.6e-17
        a = vals[(np.arange(a.size) + int(r.integers(0, 6))) % 6].reshape(a.shape)
    elif pattern == 'block-mean-removed' and factor is not None:
        # every block of the array to bin has (nearly) zero total
        m = a
        for ax, f in enumerate(factor):
            sh = m.shape[:ax] + (m.shape[ax] // f, f) + m.shape[ax + 1:]
            m = np.repeat(m.reshape(sh).mean(axis=ax + 1), f, axis=ax)
        a = a - m
    elif pattern == 'block-mean-removed':
        a = a - a.mean()
    elif pattern == 'zeros-inside':
        a = np.where(r.uniform(size=a.shape) < 0.4, 0.0, a)
    elif pattern == 'one-outlier':
        a = a * 1e-9
        if a.size:
            a.flat[int(r.integers(0, a.size))] = -1.0
    elif pattern == 'all-zero':
        a = np.zeros(a.shape)
    return a.astype(dt)


def _ref_bindown_sum(x, factor):
    out_shape = tuple(s // f for s, f in zip(x.shape, factor))
    out = np.zeros(out_shape, dtype=np.float64 if x.dtype.kind == 'f' else x.dtype)
    for idx in np.ndindex(*out_shape):
        sl = tuple(slice(i * f, (i + 1) * f) for i, f in zip(idx, factor))
        out[idx] = x[sl].sum()
    return out


def _ref_tile(y, factor):
    out = y
    for ax, f in enumerate(factor):
        out = np.repeat(out, f, axis=ax)
    return out


def check_bin(case, ctx):
    """bindown / tile: block sums and means, totals and levels conserved, round trips, adjoint pairs."""
    from prysm.detector import bindown, tile
    out_shape, factor = tuple(case['out']), tuple(case['factor'])
    nd = len(out_shape)
    shape = tuple(o * f for o, f in zip(out_shape, factor))
    allsame = len(set(factor)) == 1
    ctx.nt(nd != 2 or not allsame)
    ctx.label('ndim:%d' % nd, 'factors-equal' if allsame else 'factors-differ', 'kind:' + case['kind'],
              'some-factor-1' if 1 in factor else 'all-factors>1', 'seq:' + case['seq'], 'layout:' + case.get('layout', 'C'),
              'factor>4' if max(factor) > 4 else 'factors<=4')
    r = U.rng_of(case['seed'], 18)
    kind = case['kind']
    pattern, exp10 = case.get('pattern', 'plain'), case.get('exp10', 0)
    if kind in ('float', 'float32'):
        x = r.uniform(-1, 3, shape)
        y = r.uniform(-1, 3, out_shape)
        if pattern != 'plain' or exp10:
            # value pattern and overall magnitude of the data (both operations are linear); float32 keeps within its range
            rp = U.rng_of(case['seed'], 181)
            x = _pattern(x, pattern, rp, factor) * 10.0 ** exp10
            y = _pattern(y, pattern, rp) * 10.0 ** exp10
            ctx.label('pattern:' + pattern, 'magnitude:1e%d' % exp10)
            sy = float(np.sum(y))
            ctx.label('tile-input-total:' + ('exactly-zero' if sy == 0 else 'cancels-to-residue' if abs(sy) <= 1e-13 * float(np.sum(np.abs(y))) else 'does-not-cancel'))
        if kind == 'float32':
            x, y = x.astype(np.float32), y.astype(np.float32)
    elif kind == 'const':
        x = np.full(shape, 2.75)
        y = np.full(out_shape, -1.5)
    elif kind in ('uint16', 'uint8', 'int32'):
        # what Detector.expose returns: narrow integer frames, bright enough that a block sum exceeds the dtype's range
        hi = {'uint16': 65535, 'uint8': 255, 'int32': 2**31 - 1}[kind]
        x = r.integers(hi // 2, hi, shape, endpoint=True).astype(kind)
        y = r.integers(0, 1000, out_shape).astype(np.int64)
    else:
        x = r.integers(-50, 1000, shape).astype(np.float64 if kind == 'intfloat' else np.int64)
        y = r.integers(-50, 1000, out_shape).astype(np.float64 if kind == 'intfloat' else np.int64)
        if pattern in ('alternating', 'antisymmetric', 'zeros-inside', 'all-zero'):
            # whole-number data with the sign / zero patterns (arithmetic stays exact)
            rp = U.rng_of(case['seed'], 181)
            x, y = np.trunc(_pattern(x.astype(np.float64), pattern, rp)).astype(x.dtype), np.trunc(_pattern(y.astype(np.float64), pattern, rp)).astype(y.dtype)
            ctx.label('pattern:' + pattern + ':whole-numbers')
    farg = (list(factor) if case['seq'] == 'list' else np.array(factor) if case['seq'] == 'ndarray' else factor)
    if allsame and case['scalar_factor']:
        farg = np.int64(factor[0]) if case['seq'] == 'ndarray' else int(factor[0])
        ctx.label('scalar-factor')
    nblock = int(np.prod(factor))
    exact = kind in ('intfloat', 'int64', 'uint16', 'uint8', 'int32')
    # float32 data are reduced in float32 (pairwise sums of nblock terms): 2^-24 per operation, 64x head-room
    ft = 1e-12 if kind != 'float32' else 64 * 2.0 ** -24 * max(1.0, np.log2(max(nblock, 2)))
    avg = case['avg_name']
    lay = case.get('layout', 'C')
    if case.get('before', False):
        # history inside the process: another rank / dtype / factor first
        pre = r.uniform(0, 1, (6,) * (1 if nd > 1 else 2)).astype(np.float32 if kind != 'float32' else np.float64)
        ctx.call(bindown, pre, 3 if nd > 1 else [2, 3], 'sum')
        ctx.call(tile, pre, 2 if nd > 1 else (1, 2), avg)
    xs, ys = relayout(x, lay), relayout(y, lay)
    fc = case.get('failed_call', 'none')
    ctx.label('failed-call:' + fc)
    if fc == 'bad-mode':
        caught(ctx, fc, bindown, xs, farg, 'median')
        caught(ctx, fc, tile, ys, farg, 'median')
    elif fc == 'not-divisible':
        caught(ctx, fc, bindown, xs, [f + 1 if s_ % (f + 1) else s_ + 1 for f, s_ in zip(factor, shape)], 'sum')
    elif fc == 'factor-length':
        caught(ctx, fc, bindown, xs, list(factor) + [2], avg)
        caught(ctx, fc, tile, ys, list(factor)[:-1], 'sum')
    elif fc == 'factor-zero':
        caught(ctx, fc, bindown, xs, [0] * nd, 'sum')
        caught(ctx, fc, tile, ys, [0] * nd, 'sum')
    elif fc == 'not-an-array':
        caught(ctx, fc, bindown, None, farg, 'sum')
        caught(ctx, fc, tile, None, farg, avg)
    fsnap = snapshot(xs, ys, farg)
    bs = ctx.call(bindown, xs, farg, 'sum')
    bs_kept = np.array(bs, copy=True)
    ba = ctx.call(bindown, xs, farg, avg)
    ref = _ref_bindown_sum(x.astype(np.int64) if x.dtype.kind in 'iu' else x.astype(np.float64), factor)     # exact 64-bit reference for integer frames
    U.check_shape(bs, out_shape, 'bindown:sum')
    U.check_shape(ba, out_shape, 'bindown:avg')
    scale = float(np.max(np.abs(x))) * nblock
    if exact:
        U.check_equal(np.asarray(bs, dtype=np.float64), ref.astype(np.float64), 'bindown:sum', 'block sums of %s by %s' % (shape, factor))
    else:
        U.check_close(bs, ref, 0, 'bindown:sum', 'block sums of %s by %s' % (shape, factor), atol=ft * scale)
    U.check_close(ba, ref / nblock, 0, 'bindown:avg', 'block means of %s by %s' % (shape, factor), atol=ft * scale)
    # totals (sum mode) and level (average mode)
    U.check_close(np.sum(bs, dtype=np.float64), np.sum(x, dtype=np.float64), 0, 'bindown:total', 'sum mode must conserve the total', atol=ft * scale * x.size)
    U.check_close(np.mean(ba, dtype=np.float64), np.mean(x, dtype=np.float64), 0, 'bindown:level', 'average mode must conserve the mean level', atol=ft * scale)
    # tile
    ta = ctx.call(tile, ys, farg, avg)
    ts = ctx.call(tile, ys, farg, 'sum')
    rep = _ref_tile(y, factor)
    U.check_shape(ta, shape, 'tile:avg')
    U.check_shape(ts, shape, 'tile:sum')
    U.check_equal(np.asarray(ta), rep, 'tile:avg', 'tile(avg) must repeat every sample over its block (%s by %s)' % (out_shape, factor))
    ys_scale = float(np.max(np.abs(y))) + 1e-300
    U.check_close(ts, rep / nblock, 0, 'tile:sum', 'tile(sum) must spread every sample over its block', atol=(ft if kind == 'float32' else 1e-14) * ys_scale)
    U.check_close(np.sum(ts, dtype=np.float64), np.sum(y, dtype=np.float64), 0, 'tile:total', 'tile(sum) must conserve the total',
                  atol=ft * ys_scale * y.size)
    # round trips
    U.check_close(ctx.call(bindown, ta, farg, avg), y, 0, 'bindown(tile):avg', 'bindown(tile(y, avg), avg) != y', atol=max(1e-13, ft) * ys_scale)
    U.check_close(ctx.call(bindown, ts, farg, 'sum'), y, 0, 'bindown(tile):sum', 'bindown(tile(y, sum), sum) != y', atol=ft * ys_scale)
    # the documented defaults: bindown(..., mode='avg'), tile(..., scaling='sum')
    U.check_equal(np.asarray(ctx.call(bindown, xs, farg)), np.asarray(ba), 'bindown:default-mode', 'bindown(x, f) must be bindown(x, f, "avg")')
    U.check_equal(np.asarray(ctx.call(tile, ys, farg)), np.asarray(ts), 'tile:default-scaling', 'tile(y, f) must be tile(y, f, "sum")')
    # nothing that was handed in was changed, and the first result was not touched by the later calls
    require_unchanged(ctx, 'bindown/tile', ['array handed to bindown', 'array handed to tile', 'factor'], [xs, ys, farg], fsnap)
    require_kept(ctx, 'bindown', bs, bs_kept, 'bindown / tile were called %d more times' % 7)
    # adjoint pairs
    xf, yf = x.astype(np.float64), y.astype(np.float64)
    nrm = float(np.sqrt(np.sum(xf * xf)) * np.sqrt(np.sum(yf * yf))) * nblock + 1e-300
    l1, r1 = float(np.sum(np.asarray(ba, dtype=np.float64) * yf)), float(np.sum(xf * np.asarray(ts, dtype=np.float64)))
    ctx.within(abs(l1 - r1), ft * nrm, 'adjoint:bindown-avg/tile-sum', '<bindown(x,avg),y> = %.15g but <x,tile(y,sum)> = %.15g (%s by %s)' % (l1, r1, shape, factor))
    l2, r2 = float(np.sum(np.asarray(bs, dtype=np.float64) * yf)), float(np.sum(xf * np.asarray(ta, dtype=np.float64)))
    ctx.within(abs(l2 - r2), ft * nrm, 'adjoint:bindown-sum/tile-avg', '<bindown(x,sum),y> = %.15g but <x,tile(y,avg)> = %.15g (%s by %s)' % (l2, r2, shape, factor))


# ---- Bayer -------------------------------------------------------------------------------------------
CFAS = ['rggb', 'bggr']
DTYPES = ['float64', 'float64', 'float32', 'uint16', 'int32', 'uint8', 'uint32', 'int64']
VALUE_LEVELS = ['low', 'low', 'mid', 'top', 'signed']


# spelling of the layout name: wb_prescale, composite_bayer, recomposite_bayer and demosaic_malvar lower-case it (any capitalisation means
# the same layout; observed on the unchanged tree); decomposite_bayer and demosaic_deinterlace compare it as given and are only ever
# handed the lower-case name here
SPELLINGS = ['lower', 'lower', 'upper', 'upper', 'capitalised', 'mixed']


def spell(cfa, how):
    return {'lower': cfa, 'upper': cfa.upper(), 'capitalised': cfa.capitalize(), 'mixed': cfa[0] + cfa[1:3].upper() + cfa[3]}[how]


def site_colours(shape, cfa):
    """harness' own model: 0=R, 1=G1 (green in the top row of a cell), 2=G2, 3=B at every site, from index parity"""
    yy, xx = np.indices(shape)
    py, px = yy % 2, xx % 2
    first, last = (0, 3) if cfa == 'rggb' else (3, 0)
    c = np.where((py == 0) & (px == 0), first, np.where((py == 0) & (px == 1), 1, np.where((py == 1) & (px == 0), 2, last)))
    return c


# the output= buffer of recomposite_bayer / composite_bayer: none | a fresh zeroed buffer | one buffer used for two consecutive calls
# with different planes | (composite) the buffer IS one of the four dense planes - the colour sites are disjoint, so the plane keeps
# its own native samples and receives the other three colours | (recomposite) the buffer is the mosaic whose decomposed planes
# (strided views of that very buffer, one of them edited in place) are written back into it
OUT_MODES = ['none', 'none', 'fresh', 'fresh', 'reused', 'plane:r', 'plane:g1', 'plane:g2', 'plane:b', 'views']


def strat_bayer(tier):
    hi = {'quick': 8, 'thorough': 20}[tier]
    half = st.integers(1, hi)
    return st.fixed_dictionaries({'half': st.tuples(half, half).map(list), 'cfa': st.sampled_from(CFAS), 'dtype': st.sampled_from(DTYPES),
                                  'level': st.sampled_from(VALUE_LEVELS), 'layout': st.sampled_from(LAYOUTS), 'before': st.booleans(),
                                  'seed': U.seeds, 'out_arg': st.booleans(), 'out_mode': st.sampled_from(OUT_MODES),
                                  'failed_call': st.sampled_from(['none', 'none', 'none', 'bad-cfa', 'odd-mosaic', 'not-an-array', 'bad-output']),
                                  'spelling': st.sampled_from(SPELLINGS), 'cfa_positional': st.booleans()})


def _marker(shape, dtype, seed, salt, level='low', offset=0):
    """values 1..n in a seed-dependent order (unique where the type is wide enough), placed at the bottom ('low'), in the
    middle ('mid': just above 2^24, where float32 no longer holds every integer; floats: 1e-30 scale) or at the very top
    ('top': the n largest values of an integer type; floats: near the largest finite values that leave room for the kernels)"""
    n = int(np.prod(shape))
    k = (U.rng_of(seed, salt).permutation(n).reshape(shape) + 1 + offset).astype(np.int64)
    dt = np.dtype(dtype)
    if level == 'signed':
        # bias- / dark-subtracted frames: about half of the samples negative (signed integer and float types; unsigned types
        # cannot hold them and take the 'low' values)
        if dt.kind in 'fi':
            v = np.where(k % 2 == 0, -k, k)
            return (v.astype(np.float64) * 0.75).astype(dt) if dt.kind == 'f' else v.astype(dt)
        level = 'low'
    if dt.kind == 'f':
        scale = {'low': 1.0, 'mid': 1e-30, 'top': 1e30 if dt == np.float32 else 1e300}[level]
        return (k.astype(np.float64) * scale).astype(dt)
    info = np.iinfo(dt)
    span = int(info.max) + 1

    def wrap(v):     # narrow types cannot hold n distinct values
        return v % span if span < 2 ** 62 else v
    if level == 'top':
        v = int(info.max) - wrap(k - 1)
    elif level == 'mid':
        v = wrap(2 ** 24 + 1 + 257 * k) if info.bits >= 32 else wrap(int(info.max) // 2 + k)
    else:
        v = wrap(k)
    return v.astype(dt)


def check_bayer(case, ctx):
    """decomposite / recomposite / composite / demosaic: every raw sample stays at its native colour site, both layouts."""
    from prysm import bayer
    hm, hn = case['half']
    m, n = 2 * hm, 2 * hn
    cfa, dt = case['cfa'], case['dtype']
    level, lay = case.get('level', 'low'), case.get('layout', 'C')
    ctx.nt(m != n or cfa == 'bggr' or not dt.startswith('float'))
    ctx.label('cfa:' + cfa, 'dtype:' + dt, 'square' if m == n else 'nonsquare', '2x2' if (m, n) == (2, 2) else 'larger',
              'level:' + level, 'layout:' + lay)
    if not dt.startswith('float') and np.iinfo(dt).bits >= 32 and level != 'low':
        ctx.label('integer samples above 2^24')
    img0 = _marker((m, n), dt, case['seed'], 19, level)
    img = relayout(img0.copy(), lay)
    isnap = snapshot(img)
    col = site_colours((m, n), cfa)
    # the name as the caller writes it for the routines that accept any capitalisation; handed over by keyword or positionally
    spelling = case.get('spelling', 'lower')
    cfa_s = spell(cfa, spelling)
    other_s = spell('bggr' if cfa == 'rggb' else 'rggb', spelling)
    ctx.label('spelling:' + spelling, 'spelling:%s:%s' % (spelling, cfa))
    cfa_pos = case.get('cfa_positional', False)

    def recomposite(planes_, **kw):
        if cfa_pos:
            return ctx.call(bayer.recomposite_bayer, *planes_, cfa_s, *([kw['output']] if 'output' in kw else []))
        return ctx.call(bayer.recomposite_bayer, *planes_, cfa=cfa_s, **kw)

    def composite(planes_, **kw):
        if cfa_pos:
            return ctx.call(bayer.composite_bayer, *planes_, cfa_s, *([kw['output']] if 'output' in kw else []))
        return ctx.call(bayer.composite_bayer, *planes_, cfa=cfa_s, **kw)

    def untouched(fn):
        require_unchanged(ctx, fn, ['mosaic'], [img], isnap)
    fc = case.get('failed_call', 'none')
    ctx.label('failed-call:' + fc)
    if fc == 'bad-cfa':
        # a layout the library does not implement, with the very arrays that are used afterwards
        for fn in (bayer.decomposite_bayer, bayer.demosaic_malvar, bayer.demosaic_deinterlace):
            caught(ctx, fc, fn, img, 'grbg')
    elif fc == 'odd-mosaic':
        for fn in (bayer.demosaic_malvar, bayer.decomposite_bayer, bayer.demosaic_deinterlace):
            caught(ctx, fc, fn, img[:-1, :-1], cfa)
            caught(ctx, fc, fn, img[0], cfa)
    elif fc == 'not-an-array':
        for fn in (bayer.demosaic_malvar, bayer.decomposite_bayer):
            caught(ctx, fc, fn, None, cfa)
    # decomposition
    planes = ctx.call(bayer.decomposite_bayer, img, cfa)
    ctx.require(len(planes) == 4, 'decomposite:len', 'decomposite_bayer must return r, g1, g2, b')
    for k, name in enumerate(('r', 'g1', 'g2', 'b')):
        U.check_shape(planes[k], (hm, hn), 'decomposite:' + name)
        want = img0[col == k].reshape(hm, hn)
        U.check_equal(np.asarray(planes[k]), want, 'decomposite:%s:%s' % (cfa, name), 'plane %s of a %dx%d %s mosaic' % (name, m, n, cfa))
    untouched('decomposite_bayer')
    # recomposition of the planes, and of four independent planes
    out_mode = case.get('out_mode', 'fresh' if case['out_arg'] else 'none')
    ctx.label('output:' + out_mode)
    with_buf = out_mode != 'none'
    names4 = ('r', 'g1', 'g2', 'b')
    pl = [relayout(np.array(p, copy=True), lay) for p in planes]
    psnap = snapshot(*pl)
    if fc == 'bad-cfa':
        caught(ctx, fc, bayer.recomposite_bayer, *pl, cfa='grbg')
    if with_buf:
        buf = relayout(np.zeros((m, n), dtype=dt), lay)
        if fc == 'bad-cfa':
            caught(ctx, fc, bayer.recomposite_bayer, *pl, cfa='grbg', output=buf)
        elif fc == 'bad-output':
            # a buffer of the wrong shape is refused; the right one is used next
            caught(ctx, fc, bayer.recomposite_bayer, *pl, cfa=cfa, output=np.zeros((m + 1, n + 3), dtype=dt))
            caught(ctx, fc, bayer.recomposite_bayer, *pl, cfa=cfa, output=7)
        rec = recomposite(pl, output=buf)
    else:
        rec = recomposite(pl)
    U.check_equal(np.asarray(rec), img0, 'recomposite(decomposite):' + cfa, 'recomposite(decomposite(img)) != img')
    if with_buf:     # "output array": the caller's buffer is what gets filled
        U.check_equal(np.asarray(buf), img0, 'recomposite:output-not-filled', 'the array passed as output= does not hold the mosaic afterwards')
    require_unchanged(ctx, 'recomposite_bayer', ['r plane', 'g1 plane', 'g2 plane', 'b plane'], pl, psnap)
    rec_kept = np.array(rec, copy=True)
    ind0 = [_marker((hm, hn), dt, case['seed'], 20 + k, level, offset=1000 * k) for k in range(4)]
    ind = [relayout(p.copy(), lay) for p in ind0]
    if out_mode == 'reused':
        # the buffer that still holds the previous mosaic is handed over again with four other planes
        rec2 = np.asarray(recomposite(ind, output=buf))
        U.check_equal(np.asarray(buf), rec2, 'recomposite:output-not-filled', 'the re-used array passed as output= does not hold the second mosaic afterwards')
    else:
        rec2 = np.asarray(recomposite(ind))
    U.check_shape(rec2, (m, n), 'recomposite')
    rb = ':output-reused' if out_mode == 'reused' else ''
    for k, name in enumerate(names4):
        U.check_equal(rec2[col == k].reshape(hm, hn), ind0[k], 'recomposite:%s:%s%s' % (cfa, name, rb), 'plane %s must land on its own sites%s' % (
            name, ' (output= buffer used for the second time)' if rb else ''))
    if not with_buf:
        require_kept(ctx, 'recomposite_bayer', rec, rec_kept, 'four other planes of the same shape were recomposited')
    if out_mode == 'views':
        # decompose a mosaic, edit one plane in place, write the planes back into the mosaic's own buffer (the planes the library
        # hands out may be views of that buffer: every site then receives its own, current value)
        work = relayout(img0.copy(), lay)
        vplanes = ctx.call(bayer.decomposite_bayer, work, cfa)
        which = case['seed'] % 4
        expect = img0.copy()
        if np.shares_memory(vplanes[which], work):
            ctx.label('decomposite-returns-views')
            edited = np.array(vplanes[which], copy=True)[::-1, ::-1]
            vplanes[which][...] = edited
            expect[col == which] = edited.ravel()
        back = recomposite(vplanes, output=work)
        U.check_equal(np.asarray(back), expect, 'recomposite:%s:output-is-the-decomposed-mosaic' % cfa,
                      'planes of decomposite_bayer(mosaic) (plane %s edited in place) written back with output=mosaic' % names4[which])
        U.check_equal(np.asarray(work), expect, 'recomposite:output-not-filled', 'the mosaic passed as output= does not hold the recomposited planes afterwards')
    # composite: dense planes, each picked at its own sites
    dense0 = [_marker((m, n), dt, case['seed'], 30 + k, level) for k in range(4)]
    dense = [relayout(p.copy(), lay) for p in dense0]
    if fc == 'bad-cfa':
        caught(ctx, fc, bayer.composite_bayer, *dense, cfa='grbg')
    elif fc == 'bad-output':
        caught(ctx, fc, bayer.composite_bayer, *dense, cfa=cfa, output=7)
        caught(ctx, fc, bayer.composite_bayer, dense[0], dense[1][:-1], dense[2], None, cfa=cfa)
    dsnap = snapshot(*dense)
    cb = ''
    if out_mode.startswith('plane:'):
        # the buffer is one of the dense planes: its own sites keep their samples, the other sites receive the other colours
        kout = names4.index(out_mode[6:])
        cbuf = dense[kout]
        dsnap[kout] = None
        cb = ':output-is-the-%s-plane' % names4[kout]
        comp = np.asarray(composite(dense, output=cbuf))
        U.check_equal(np.asarray(cbuf), comp, 'composite:output-not-filled', 'the %s plane passed as output= does not hold the composite afterwards' % names4[kout])
    elif with_buf:
        cbuf = relayout(np.zeros((m, n), dtype=dt), lay)
        if out_mode == 'reused':
            # first use of the buffer: the same planes in another role order; second use below is the checked one
            cb = ':output-reused'
            composite([dense[3], dense[2], dense[1], dense[0]], output=cbuf)
        comp = np.asarray(composite(dense, output=cbuf))
        U.check_equal(np.asarray(cbuf), comp, 'composite:output-not-filled', 'the array passed as output= does not hold the composite afterwards')
    else:
        comp = np.asarray(composite(dense))
    U.check_shape(comp, (m, n), 'composite')
    for k, name in enumerate(names4):
        U.check_equal(comp[col == k], dense0[k][col == k], 'composite:%s:%s%s' % (cfa, name, cb), 'composite must take plane %s at the %s sites%s' % (
            name, name, ' (%s)' % cb[1:] if cb else ''))
    require_unchanged(ctx, 'composite_bayer', ['r plane', 'g1 plane', 'g2 plane', 'b plane'], dense, dsnap)
    # demosaicking keeps native samples
    chan = np.array([0, 1, 1, 2])[col]          # colour channel (R, G, B) native to each site
    if case.get('before', False):
        # history inside the process: a mosaic of the same shape in another dtype first
        other_dt = 'float32' if dt != 'float32' else 'uint16'
        ctx.call(bayer.demosaic_malvar, _marker((m, n), other_dt, case['seed'], 41), 'bggr' if cfa == 'rggb' else 'rggb')
    rgb = np.asarray(ctx.call(bayer.demosaic_malvar, img, cfa_s))
    rgb_kept = np.array(rgb, copy=True)
    untouched('demosaic_malvar')
    U.check_shape(rgb, (m, n, 3), 'demosaic_malvar')
    native = np.take_along_axis(rgb, chan[..., None], axis=2)[..., 0]
    if native.dtype != img0.dtype or not np.array_equal(native, img0):
        bad = native != img0
        i = tuple(int(k) for k in np.argwhere(bad)[0]) if bad.any() else (0, 0)
        ctx.fail('demosaic_malvar:%s:native-%s' % (cfa, ('r', 'g1', 'g2', 'b')[col[i]]),
                 'site %s (%s of %s): raw %r (%s), demosaicked %s channel %r (%s); %d sites changed' % (
                     i, ('r', 'g1', 'g2', 'b')[col[i]], cfa, img0[i], img0.dtype, 'RGB'[chan[i]], native[i], native.dtype, int(bad.sum())))
    # the other layout swaps R and B (metamorphic)
    other = np.asarray(ctx.call(bayer.demosaic_malvar, img, other_s))
    # a second mosaic of the same shape and dtype: the first result is the caller's and stays what it was
    img_b = relayout(_marker((m, n), dt, case['seed'], 42, level), lay)
    rgb_b = np.asarray(ctx.call(bayer.demosaic_malvar, img_b, cfa=cfa_s))
    require_kept(ctx, 'demosaic_malvar', rgb, rgb_kept, 'two more mosaics of the same shape were demosaicked')
    nat_b = np.take_along_axis(rgb_b, chan[..., None], axis=2)[..., 0]
    U.check_equal(nat_b, np.asarray(img_b), 'demosaic_malvar:%s:native:second-mosaic' % cfa, 'second mosaic of the same shape: native samples')
    U.check_equal(other[..., ::-1], rgb, 'demosaic_malvar:layout-swap', 'rggb and bggr results must be each other with R and B exchanged')
    # unit-sum kernels: a flat field stays flat (float data only; integer containers truncate)
    if dt.startswith('float'):
        fv = 7.25 * {'low': 1.0, 'signed': -1.0, 'mid': 1e-30, 'top': 1e30 if dt == 'float32' else 1e300}[level]
        flat = relayout(np.full((m, n), fv, dtype=dt), lay)
        frgb = np.asarray(ctx.call(bayer.demosaic_malvar, flat, cfa_s))
        U.check_close(frgb, np.full((m, n, 3), float(flat[0, 0])), 1e-12 if dt == 'float64' else 1e-5, 'demosaic_malvar:flat-field', 'flat field must stay flat')
    # deinterlace
    di = np.asarray(ctx.call(bayer.demosaic_deinterlace, img, cfa))
    untouched('demosaic_deinterlace')
    U.check_shape(di, (hm, hn, 3), 'demosaic_deinterlace')
    U.check_equal(di[..., 0].astype(np.float64), img0[col == 0].reshape(hm, hn).astype(np.float64), 'demosaic_deinterlace:%s:r' % cfa, 'R plane')
    U.check_equal(di[..., 2].astype(np.float64), img0[col == 3].reshape(hm, hn).astype(np.float64), 'demosaic_deinterlace:%s:b' % cfa, 'B plane')
    if dt.startswith('float'):
        g = (img0[col == 1].reshape(hm, hn).astype(np.float64) + img0[col == 2].reshape(hm, hn).astype(np.float64)) / 2
        U.check_close(di[..., 1], g, 1e-6 if dt == 'float32' else 1e-14, 'demosaic_deinterlace:g', 'G plane must be the mean of the two greens')


def strat_wb(tier):
    half = st.integers(1, 6)
    gain = st.sampled_from([1.0, 0.5, 2.0, 1.7, 3.25, 0.1])
    sat = st.sampled_from([0.05, 0.5, 2.0, 9.0, 100.0])
    return st.fixed_dictionaries({'half': st.tuples(half, half).map(list), 'cfa': st.sampled_from(CFAS), 'dtype': st.sampled_from(['float64', 'float32']),
                                  'gains': st.tuples(gain, gain, gain, gain).map(list), 'safe': st.sampled_from([False, True, True]),
                                  'sat': st.one_of(sat, st.tuples(sat, sat, sat, sat).map(list)), 'seed': U.seeds,
                                  'gform': st.sampled_from(FORMS), 'satseq': st.sampled_from(['list', 'tuple', 'ndarray', 'np64']),
                                  'layout': st.sampled_from(LAYOUTS),
                                  'failed_call': st.sampled_from(['none', 'none', 'bad-cfa', 'safe-without-saturation']),
                                  'spelling': st.sampled_from(SPELLINGS), 'safeform': st.sampled_from(['bool', 'bool', 'np.bool_', 'int'])})


def _common_ratio(ctx, ratios, who):
    """ratios: per-channel (requested gain) / (applied gain); must be one common value >= 1"""
    rr = np.array(ratios, dtype=np.float64)
    ctx.require(np.all(np.isfinite(rr)) and float(rr.max() - rr.min()) <= 1e-5 * float(rr.max()), who + ':safe:not-common',
                'safe mode must reduce all gains by one common ratio, per-channel ratios %s' % rr.tolist())
    ctx.require(float(rr.min()) >= 1 - 1e-5, who + ':safe:ratio<1', 'safe mode increased the gains: ratios %s' % rr.tolist())


def check_wb(case, ctx):
    """wb_prescale / wb_postscale multiply every colour site / plane by its gain (safe mode: by gain / one common ratio >= 1)."""
    from prysm import bayer
    hm, hn = case['half']
    m, n = 2 * hm, 2 * hn
    cfa, dt, safe, sat = case['cfa'], case['dtype'], case['safe'], case['sat']
    wr, wg1, wg2, wb = case['gains']
    ctx.nt(safe or cfa == 'bggr')
    gform, satseq, lay = case.get('gform', 'float'), case.get('satseq', 'list'), case.get('layout', 'C')
    ctx.label('cfa:' + cfa, 'safe' if safe else 'plain', 'sat:list' if isinstance(sat, list) else 'sat:scalar', 'dtype:' + dt,
              'gform:' + gform, 'satseq:' + satseq, 'layout:' + lay)
    r = U.rng_of(case['seed'], 40)
    mosaic0 = r.uniform(0.1, 10.0, (m, n)).astype(dt)
    col = site_colours((m, n), cfa)
    g_by_col = np.array([wr, wg1, wg2, wb])
    mosaic = relayout(mosaic0.copy(), lay)

    def sat_arg(v):
        """per-channel levels as list | tuple | ndarray; a common level as Python float | numpy scalar"""
        if isinstance(v, list):
            return {'tuple': tuple(v), 'ndarray': np.array(v, dtype=np.float64)}.get(satseq, list(v))
        return np.float64(v) if satseq == 'np64' else v
    gains = [scalar_form(g, gform) for g in (wr, wg1, wg2, wb)]
    sarg = sat_arg(sat)
    asnap = snapshot(sarg, *gains)
    # the safe flag as the object True, a numpy boolean or the integer 1 (documented "bool"; any truthy value switches the mode on)
    safe_arg = {'bool': True, 'np.bool_': np.True_, 'int': 1}[case.get('safeform', 'bool')]
    if safe:
        ctx.label('safe-flag-as:' + case.get('safeform', 'bool'))
    kw = {'safe': safe_arg, 'saturation': sarg} if safe else {}
    # requests that the library refuses before it touches the in-place target (an unknown layout, safe mode without a saturation
    # level); an ill-typed gain is not among them: the documented in-place update has then already been applied to some sites
    fc = case.get('failed_call', 'none')
    ctx.label('failed-call:' + fc)
    if fc == 'bad-cfa':
        caught(ctx, fc, bayer.wb_prescale, mosaic, *gains, 'grbg', **kw)
    elif fc == 'safe-without-saturation':
        caught(ctx, fc, bayer.wb_prescale, mosaic, *gains, cfa, safe=True)
    # other capitalisations of the layout name are accepted by wb_prescale in plain mode only (in safe mode it hands the name as given
    # to the case-sensitive decomposite_bayer, which refuses it on the unchanged tree): they are generated for plain mode
    spelling = case.get('spelling', 'lower') if not safe else 'lower'
    ctx.label('spelling:' + spelling, 'spelling:%s:%s' % (spelling, cfa))
    ctx.call(bayer.wb_prescale, mosaic, *gains, spell(cfa, spelling), **kw)
    require_unchanged(ctx, 'wb_prescale', ['saturation', 'wr', 'wg1', 'wg2', 'wb'], [sarg] + gains, asnap)
    rt = 1e-6 if dt == 'float32' else 1e-13
    applied = mosaic.astype(np.float64) / mosaic0.astype(np.float64)
    if not safe:
        U.check_close(mosaic, mosaic0.astype(np.float64) * g_by_col[col], rt, 'wb_prescale:%s' % cfa, 'every %s site times its gain' % cfa)
    else:
        per = []
        for k in range(4):
            a = applied[col == k]
            ctx.within(float(a.max() - a.min()), 10 * rt * float(a.max()), 'wb_prescale:%s:site-gain' % cfa, 'sites of one colour got different gains')
            per.append(g_by_col[k] / float(a.mean()))
        _common_ratio(ctx, per, 'wb_prescale')
        ctx.label('ratio>1' if max(per) > 1 + 1e-6 else 'ratio=1')
    # post scale on a trichromatic image
    rgb0 = r.uniform(0.1, 10.0, (m, n, 3)).astype(dt)
    rgb = relayout(rgb0.copy(), lay)
    sat3 = sat_arg(list(sat[:3]) if isinstance(sat, list) else sat)
    g3a = [gains[0], gains[1], gains[3]]
    asnap = snapshot(sat3, *g3a)
    kw = {'safe': safe_arg, 'saturation': sat3} if safe else {}
    if fc == 'safe-without-saturation':
        caught(ctx, fc, bayer.wb_postscale, rgb, *g3a, safe=True)
    ctx.call(bayer.wb_postscale, rgb, *g3a, **kw)
    require_unchanged(ctx, 'wb_postscale', ['saturation', 'wr', 'wg', 'wb'], [sat3] + g3a, asnap)
    g3 = np.array([wr, wg1, wb])
    if not safe:
        U.check_close(rgb, rgb0.astype(np.float64) * g3, rt, 'wb_postscale', 'every colour plane times its gain')
    else:
        app = rgb.astype(np.float64) / rgb0.astype(np.float64)
        per = []
        for k in range(3):
            a = app[..., k]
            ctx.within(float(a.max() - a.min()), 10 * rt * float(a.max()), 'wb_postscale:plane-gain', 'one plane got different gains')
            per.append(g3[k] / float(a.mean()))
        _common_ratio(ctx, per, 'wb_postscale')


# ---- long exposure sequences: frames x pixels well above 2**22 samples, not a multiple of anything convenient --------------------------------
def enum_sequences(tier):
    geos = [((64, 64), 1031), ((256, 256), 70), ((512, 512), 17), ((100, 37), 1201), ((1, 5), 20)]
    if tier == 'thorough':
        geos += [((1024, 1024), 5), ((256, 256), 131), ((33, 65), 2111)]
    for k, (shape, frames) in enumerate(geos):
        yield {'shape': list(shape), 'frames': frames, 'bits': [12, 14, 16, 10, 8, 12, 16, 14][k % 8], 'gain': [1.0, 0.37, 4.0, 1.3][k % 4], 'prec': 64}
        yield {'shape': list(shape), 'frames': frames, 'bits': 12, 'gain': 2.0, 'prec': 32}


def _check_sequences(case, ctx):
    """noise sources off, many frames: every frame of the returned stack - the first, the last, the ones in between - equals the clipped, gain-scaled signal and has
    the documented shape (frames, rows, cols)."""
    from prysm.detector import Detector
    shape, frames, bits, gain = tuple(case['shape']), case['frames'], case['bits'], case['gain']
    top = 2.0 ** bits
    ny, nx = shape
    yy, xx = np.mgrid[:ny, :nx]
    dn_in = ((yy * 7 + xx * 3) % 17) / 16.0 * 1.25 * top          # below, at and above the ADC ceiling in every row
    el = dn_in * gain
    ctx.nt(True)
    ctx.label('frames:%d' % frames, 'samples>2**22' if frames * ny * nx > 2 ** 22 else 'samples<=2**22')
    det = Detector(dark_current=0.0, read_noise=0.0, bias=0.0, fwc=1e15 * top * gain, conversion_gain=gain, bits=bits, exposure_time=1.0)
    with rng_proxy(_NoNoise()):
        out = ctx.call(det.expose, el, frames)
    U.check_shape(out, (frames,) + shape, 'expose:sequence')
    ctx.require(np.issubdtype(np.asarray(out).dtype, np.integer), 'expose:dtype', 'dtype %s is not an integer type' % np.asarray(out).dtype)
    v = el / gain
    lo = np.floor(np.clip(v * (1 - 1e-12), 0, top - 1)).astype(np.int64)
    hi = np.floor(np.clip(v * (1 + 1e-12), 0, top - 1)).astype(np.int64)
    o = np.asarray(out)
    for f in range(frames):
        of = o[f].astype(np.int64)
        bad = (of < lo) | (of > hi)
        if bad.any():
            i = tuple(int(k) for k in np.argwhere(bad)[0])
            ctx.fail('expose:sequence:frame-value', 'frame %d of %d (%s pixels, bits=%d): pixel %s with ADC input %.17g DN reads %d, expected %d; %d of %d pixels of that frame wrong' % (
                f, frames, shape, bits, i, v[i], of[i], lo[i], int(bad.sum()), bad.size))


check_sequences = _check_sequences


# ---- the configured precision (prysm.conf.config.precision) is part of the environment of every call: nothing in the property depends on it ----
def _with_prec(strat):
    def f(tier):
        return st.tuples(strat(tier), st.sampled_from([64, 64, 64, 32])).map(lambda t: dict(t[0], prec=t[1]))
    return f


def _enum_with_prec(enum):
    def f(tier):
        for case in enum(tier):
            yield case
            yield dict(case, prec=32)
    return f


def _at_precision(inner):
    def check(case, ctx):
        prec = case.get('prec', 64)
        if prec != 64:
            ctx.label('config.precision=%d' % prec)
        with U.precision(prec):
            inner(case, ctx)
    check.__doc__ = inner.__doc__
    return check


CLAUSES = [
    EnumClause('adc_ceiling_all_bits', _enum_with_prec(enum_ceiling), _at_precision(check_ceiling), shards={'quick': 2, 'thorough': 2}),
    EnumClause('long_sequences', enum_sequences, _at_precision(check_sequences), shards={'quick': 5, 'thorough': 8}),
    HypClause('expose_noise_free', _with_prec(strat_detector), _at_precision(check_noise_free), examples={'quick': 600, 'thorough': 3000}, shards={'quick': 3, 'thorough': 6}),
    HypClause('expose_noisy_range', _with_prec(strat_detector), _at_precision(check_noisy_range), examples={'quick': 300, 'thorough': 2000}, shards={'quick': 2, 'thorough': 4}),
    HypClause('bindown_tile', _with_prec(strat_bin), _at_precision(check_bin), examples={'quick': 600, 'thorough': 3000}, shards={'quick': 2, 'thorough': 4}),
    HypClause('bayer_sites', _with_prec(strat_bayer), _at_precision(check_bayer), examples={'quick': 500, 'thorough': 2000}, shards={'quick': 2, 'thorough': 4}),
    HypClause('white_balance', _with_prec(strat_wb), _at_precision(check_wb), examples={'quick': 300, 'thorough': 2000}, shards={'quick': 2, 'thorough': 2}),
]
