"""C18 - segmented apertures tile exactly; mask primitives respect their geometry."""
import math

import numpy as np
from hypothesis import strategies as st

from vlib.core import HypClause, EnumClause
from vlib import util as U

RULE = ("[Round-9 hardening, clause integer_grids: whole-number coordinate arrays of every integer width - int8, int16, int32, int64, uint8, uint16, uint32, uint64 - whose spacing is the drawn fraction (mostly 0.3 .. 1) of the largest whole number for which every coordinate and every coordinate - centre still fits the dtype, so that squares and products of coordinates do not (signed: sample i at (i - n//2) dx; unsigned: at (i + i0) dx, i0 = 0..3); shapes 5..40 (72) per axis and thin ones, every memory layout, rows ascending or reversed; the centre (|c| <= 3 dx; unsigned grids: at or before the first sample when it is subtracted in the integer dtype) as Python ints, floats, numpy integers of the grid dtype; sizes generic or whole numbers of samples (the radius then also as Python int).  offset_circle, circle / annulus on numpy.hypot of the arrays, rectangle (angle 0 / 90 / any), rotated_ellipse, regular_polygon, spider and rectangle_with_corner_fillets are compared sample by sample with the analytic shape evaluated in float64, offset_circle also for growth.  Clauses round_masks / spider: whole-number centres also written as Python ints (the difference coordinate - centre then keeps the dtype of the grid, e.g. int32 grids with spacing 10000).]  "
        "[Round-8 hardening: (a) the coordinate arrays handed to the primitives are also an affine image of the sample grid - rotated by any angle ('rotate the "
        "coordinates, then shade'), sheared along x or y, scaled differently in x and y, all three combined, x and y being one and the same array object (all samples on "
        "the line y = x) - stored in another sample order (axes reversed, rows / columns permuted, transposed = indexing 'ij'); with integer coordinate arrays the frames "
        "that keep whole numbers whole (quarter turns, shear +-1, whole-number scales).  Membership is defined sample by sample, so circle / annulus on r = hypot(x', y'), "
        "regular_polygon, rectangle(angle != 0), rotated_ellipse, spider and rectangle_with_corner_fillets must agree with the analytic membership of every (x', y') outside "
        "the usual band, and grow with their size parameter, in every frame; offset_circle, rectangle(angle = 0) and the 1-D-axes form of regular_polygon presuppose x = x[0, :], "
        "y = y[:, 0] and get the separable frames (anamorphic scale, reversed / permuted order); the symmetries of the sample grid are asserted on the plain grid only.  "
        "(b) the exclusion collection of the hexagonal aperture also as set / frozenset / dict-keys view / dict (enumerated for every single exclusion as well); per-ring "
        "arguments of the keystone aperture as list / tuple / array / numpy scalar / one-shot generator; coefficient sets of compose_opd as one-shot generator of rows.  "
        "(c) a failing request caught by the caller (segment_angle=45; a ring of zero segments) before the aperture that is checked; the segment angle / ring count as int, float, "
        "numpy numbers; rotation_is_rad as bool / 1 / numpy bool; angles next to the special cases taken on exact equality (1e-12, +-1e-6, 90 +- 1e-5, 360, 450); grids with a "
        "size-1 axis and with more than 2**16 samples (257 x 263, 3 x 21851, 1 x 65537); sample spacings 1e-6 and 1e4.]  "
        "[Round-7 hardening: the exclusion sequence of the hexagonal aperture is written in a drawn order - ascending, descending, as drawn (unsorted), with entries repeated - and handed over as tuple / list / int64 array / int32 array / range object (when it is an arithmetic progression) / list of numpy integers; a list must come back unchanged; Python sets are not generated: they are not sequences, and the unchanged tree keeps the centres of excluded segments in all_centers for them.]  Composite apertures: Hypothesis draws ring count, samples per segment (6..60), segment size, gap (incl. 0), "
        "orientation, exclusion set, grid parity / padding / aspect (hexagonal; all single exclusions are enumerated) and "
        "centre diameter, ring widths, segments per ring (2..12), radial / azimuthal gaps, per-ring rotations in [-720,1080] degrees (float or int; "
        "angles are periodic, negative values and whole turns are valid) or None (keystone); the coordinate grid is built by the harness (sample i at (i - n//2) dx).  Oracle: documented "
        "segment count and ids; per-sample coverage count from the returned windows and local masks (<= 1 except on a "
        "shared analytic boundary); hexagonal amp == union; keystone amp inside the union; area of every local mask == "
        "closed-form hexagon / annular-sector area within perimeter*dx, and membership equal to the analytic shape for every sample "
        "farther than 1.25 / 1.5 sample spacings from its boundary; compose_opd of a unit piston has support exactly "
        "the segment's mask and is constant there, coefficients of one segment never leak outside it, and compose_opd is "
        "linear (1e-12).  Primitives: membership vs the analytic inequality evaluated by the harness for all samples "
        "farther than the stated band from the boundary, inclusion under growth of the size parameter, mirror / rotation "
        "symmetries that map the sample grid onto itself, about the origin sample; the rectangle with circular corner fillets is compared with straight edges plus quarter circles (band: the sagitta of one chord of its polygonal outline); hexagonal apertures also on arrays that show only part of the aperture.  Non-trivial = more than one segment and "
        "a boundary crossing the grid (composites); shape neither empty nor filling the grid (primitives).  "
        "Input classes drawn for every clause: memory layout of the coordinate grids (C / Fortran / transposed view / strided view); "
        "for the primitives also float32 and integer (int64 / int32, whole-number) coordinate arrays and size parameters snapped to whole "
        "numbers of samples (samples exactly on the analytic boundary: there only growth, the symmetries that are bit-exact - mirrors of "
        "rectangle(angle 0 / 90), centred offset_circle, rotated_ellipse(angle 0), one-vane spider(rotation 0) - and, for keystone rings, "
        "single ownership are asserted); keystone apertures on binary-fraction grids whose ring radii are whole numbers of samples "
        "(Pythagorean radii, radial gap 0: samples on a radius shared by two rings), 2..36 segments per ring, centres and rings from 1-2 "
        "samples to most of the grid; exclusion sets as tuple / list / integer array; compose_opd coefficients as array (C / F / strided, "
        "float64 / float32 / integer unit piston), list of lists, tuple of arrays, at scales 1e-12 .. 1e6 and both signs with every "
        "segment at its own scale (map on segment k == s_k x map of the unscaled row, 1e-11 relative), out= entry point, prepare_opd_bases "
        "called twice on one object; every array argument compared with a copy after the call, every kept result (masks, amp, OPD maps) "
        "compared with a copy after later calls and after a second aperture is built on the same grid.  Value pattern of the coefficient set: "
        "rows that are exactly equal - the same unit piston / piston / tilt / full row on every segment, on a random subset (the others zero, or with "
        "rows of their own), or 2-3 distinct rows dealt to the segments; as array, integer array, list / tuple whose tied entries are one and the "
        "same row object; keystone: the same piston on the centre and on all segments (the centre vector being the segments' row object when the "
        "bases have as many modes).  Oracle: the map equals the sum of the single-segment compositions (1e-12), is zero outside the segments "
        "that were given a non-zero row, and a piston is non-zero on every sample owned by exactly one of its segments.")
ASSUMPTIONS = [
    "'within the rasterisation of its boundary' is read in two ways, both asserted: area within perimeter*dx, and membership may "
    "differ from the analytic shape only at samples within 1.25 (hexagon) / 1.5 (keystone) sample spacings of its boundary; the "
    "code's local windows clip at most one row or column of a segment (depth < 0.87 / < 1 spacing), which is inside both",
    "segment areas: hexagon (sqrt3/2) d^2 for flat-to-flat d; keystone local masks are whole annular sectors (the azimuthal gap "
    "is cut from amp only), area arc/2 (ro^2 - ri^2); tolerance = perimeter * dx (+ one sample)",
    "samples within 1e-9*scale of an analytic boundary (1e-7*radius for the joggled Delaunay polygons; 1e-5*scale for float32 "
    "coordinate arrays, which the routines compare and rotate in float32) are don't-care for membership.  For ownership: two hexagons "
    "with gap 0 both contain the samples on their shared edge (Delaunay point location is closed) - tolerated as before; two keystones "
    "of one ring share an edge angle that the code computes twice in floating point - samples within 1e-9 rad of it are don't-care; "
    "keystones of different rings / the centre disc are the sets ri < r <= ro, r <= rc with ri(next) >= ro(previous) whatever the "
    "rounding, so a sample owned by two of them is a violation with no band at all",
    "rotation sense of spider / rectangle / rotated_ellipse is not asserted: the mask must match one of the two senses",
    "coordinate arrays that are not the plain grid: a primitive is the set of samples whose (x, y) lies inside the shape, whatever array the samples are stored in.  "
    "offset_circle and rectangle(angle=0) go through optimize_xy_separable (x read from the first row, y from the first column): that the arrays are a meshgrid is their "
    "stated precondition, they are examined in separable frames only; rectangle_with_corner_fillets reads the sample spacing from x[0, 1] - x[0, 0] to choose the number of "
    "points on its corner arcs: its frames keep that difference positive and the band is the sagitta for that spacing",
    "exclusion collections that are not sequences (set, frozenset, dict views, dict): the construction asks `id in exclude`, and the unchanged tree honours them for segment_ids / "
    "windows / local_masks / local_coords / amp - but np.isin does not look into them, so all_centers keeps the centres of excluded ring segments; all_centers is not examined for "
    "these collections (the centres are then read from the same aperture built with the exclusion written as a tuple).  One-shot iterators are consumed by the first membership "
    "test on the unchanged tree and are not generated as `exclude`",
    "integer coordinate grids: numpy evaluates hypot / arctan2 / cos of 8-bit integers in float16 and of 16-bit integers in float32 (and compares the result with a Python-float size in that precision); "
    "samples closer to the analytic boundary than 4 eps S (one hypot, one comparison: bound 1 eps S) resp. 32 eps S (to polar coordinates, an added angle within +-180 degrees, and back: bound ~10 eps S; "
    "observed <= 3.6 eps S over 6000 grids), eps = 2**-10 / 2**-23, S = largest distance the routine works with, are don't-care on such grids (plus the 1e-9 S / 1e-7 S of the other clauses); a coordinate - centre "
    "that does not fit the integer dtype wraps in numpy's own integer arithmetic before prysm sees it (unsigned grids with a centre to the right of a sample, narrow grids used to their last value): such "
    "grids are not generated with an integer-typed centre",
    "truecircle is anti-aliased on a grid normalised to [-1,1] and is checked as such",
    "apertures are generated to lie inside the grid with >= 2 samples of margin (clipping by the array edge is not examined)",
    "OPD bases: values of the basis functions are not asserted here (C07/C08), only support, constancy of the piston, linearity",
]

SQ3 = math.sqrt(3.0)
RASTER_BAND_HEX = 1.25   # sample spacings; proven bound for the windowing of the code: sin(60 deg) = 0.866
RASTER_BAND_KEY = 1.5    # proven bound: one clipped row / column, depth < 1


# ---- harness grid and analytic shapes ------------------------------------------------------------------------------
def grid(ny, nx, dx, layout='C', dtype=None):
    """sample i of an axis of length n sits at (i - n//2) dx; `layout` is one of vlib.util.LAYOUTS (same values, other strides);
    `dtype` None / 'f64' (float64), 'f32' (coordinates rounded to float32), 'i64' / 'i32' (integer arrays, dx must be integral)"""
    x = (np.arange(nx, dtype=np.float64) - nx // 2) * dx
    y = (np.arange(ny, dtype=np.float64) - ny // 2) * dx
    X, Y = np.broadcast_to(x[None, :], (ny, nx)).copy(), np.broadcast_to(y[:, None], (ny, nx)).copy()
    if dtype in ('f32', 'i64', 'i32'):
        dt = {'f32': np.float32, 'i64': np.int64, 'i32': np.int32}[dtype]
        X, Y = X.astype(dt), Y.astype(dt)
    if layout != 'C':
        X, Y = U.relayout(X, layout), U.relayout(Y, layout)
    return X, Y


class Keep:
    """arguments must come back unchanged, results must not be overwritten by later calls: register arrays with their
    copies, verify at the end of the case"""

    def __init__(self, ctx):
        self.ctx = ctx
        self.items = []

    def arg(self, what, a):
        if isinstance(a, np.ndarray):
            self.items.append(('argument-modified', what, a, a.copy()))
        return a

    def result(self, what, a):
        if isinstance(a, np.ndarray):
            self.items.append(('result-overwritten', what, a, a.copy()))
        return a

    def verify(self, prefix):
        for cls, what, a, c in self.items:
            same = a.shape == c.shape and a.dtype == c.dtype and np.array_equal(a, c, equal_nan=a.dtype.kind == 'f')
            self.ctx.require(same, '%s:%s' % (prefix, cls),
                             '%s %s: %d of %d elements differ from the copy taken %s' % (
                                 what, 'was modified by the call' if cls == 'argument-modified' else 'was changed by a later call',
                                 int(np.sum(a != c)) if a.shape == c.shape else -1, a.size,
                                 'before the call' if cls == 'argument-modified' else 'when it was returned'))


def poly_margin(px, py, sides, radius, center, rot_deg):
    """signed 'distance' to the regular polygon prysm documents: vertex 0 at (0,+radius) for rotation 0, angles clockwise
    from +y.  < 0 inside, > 0 outside (max over the edge half-planes)."""
    k = np.arange(sides)
    th = (k + 0.5) * 2 * math.pi / sides + math.radians(rot_deg)
    nx_, ny_ = np.sin(th), np.cos(th)
    ap = radius * math.cos(math.pi / sides)
    d = (px - center[0])[..., None] * nx_ + (py - center[1])[..., None] * ny_
    return d.max(axis=-1) - ap


def place(shape, windows, masks, ctx, what):
    """coverage count per sample from (window, local mask) pairs; checks each mask fits its window"""
    cnt = np.zeros(shape, dtype=np.int32)
    for i, (w, m) in enumerate(zip(windows, masks)):
        m = np.asarray(m)
        ctx.require(isinstance(w, tuple) and len(w) == 2 and all(isinstance(s, slice) for s in w), what + ':window',
                    'window %d is %r' % (i, w))
        tgt = cnt[w]
        ctx.require(m.shape == tgt.shape, what + ':window-shape', 'local mask %d has shape %s, its window %r selects %s' % (i, m.shape, w, tgt.shape))
        ctx.require(m.dtype == bool or set(np.unique(m).tolist()) <= {0, 1}, what + ':mask-dtype', 'mask %d is not binary' % i)
        tgt += (m != 0)
    return cnt


def placed(shape, window, mask):
    out = np.zeros(shape, dtype=bool)
    out[window] = np.asarray(mask) != 0
    return out


# ---- hexagonal -----------------------------------------------------------------------------------------------------
def nhex(rings):
    return 1 + 3 * rings * (rings + 1)


def hex_setup(case):
    rings = case['rings']
    d = float(case['d'])
    gap = float(case['gapf']) * d
    half = rings * (d + gap) + d / SQ3          # farthest vertex from the origin is closer than this
    spp_max = max(6, int(240 / (2 * half / d)))
    spp = 6 + int(round(case['sppf'] * (min(60, spp_max) - 6)))
    dx = d / spp
    n = 2 * (int(math.ceil(half / dx)) + 2 + case['pad']) + 1
    if case['parity'] == 'even':
        n += 1
    ny, nx = n, n
    if case['aspect'] == 'tall':
        ny += 2 * case['pad'] + 7
    elif case['aspect'] == 'wide':
        nx += 2 * case['pad'] + 7
    # a grid that shows only part of the aperture (zoomed-in or undersized arrays): segments are clipped by the array edge or lie wholly outside it
    cy_, cx_ = case.get('crop', [1.0, 1.0])
    if cy_ < 1:
        ny = max(3, int(ny * cy_))
    if cx_ < 1:
        nx = max(3, int(nx * cx_))
    return rings, d, gap, dx, spp, ny, nx


def build_hex(case, ctx, keep=None):
    from prysm.segmented import CompositeHexagonalAperture
    rings, d, gap, dx, spp, ny, nx = hex_setup(case)
    x, y = grid(ny, nx, dx, case.get('layout', 'C'))
    total = nhex(rings)
    given = [int(e) % total for e in case['exclude']]
    excl = sorted(set(given))
    # the documented "sequence of int": tuple, list, an integer array, a range; written in any order (ascending, descending, as drawn,
    # with entries repeated) - the exclusion set is the set of its entries.  (Python sets are not sequences and are not generated: the
    # unchanged tree lists the centres of excluded segments in all_centers for them)
    order = case.get('exclude_order', 'ascending')
    first_seen = list(dict.fromkeys(given))
    seq = {'ascending': excl, 'descending': excl[::-1], 'as-drawn': first_seen,
           'repeats': first_seen + first_seen[::-1][:max(1, len(first_seen) // 2)] + first_seen[:1]}[order]
    ef = case.get('exclude_form', 'tuple')
    if ef == 'range':
        # a range object when the sequence is an arithmetic progression (any 0, 1 or 2 distinct entries are), else a tuple
        step = seq[1] - seq[0] if len(seq) > 1 else 1
        if step != 0 and all(b - a == step for a, b in zip(seq, seq[1:])):
            exarg = range(seq[0], seq[-1] + (1 if step > 0 else -1), step) if seq else range(0)
        else:
            ef, exarg = 'tuple', tuple(seq)
    elif ef == 'list-of-numpy-ints':
        exarg = [np.int64(e) if k % 2 else np.int32(e) for k, e in enumerate(seq)]
    elif ef == 'ndarray-int32':
        exarg = np.array(seq, dtype=np.int32)
    elif ef in SETLIKE:
        # collections that are not sequences but answer `id in exclude` (what the construction asks of the argument): the unchanged tree
        # honours them for the segments it builds (ids, windows, masks, local coordinates, amp)
        exarg = {'set': set, 'frozenset': frozenset, 'dict-keys': lambda q: dict.fromkeys(q).keys(), 'dict': dict.fromkeys}[ef](seq)
    else:
        exarg = tuple(seq) if ef == 'tuple' else list(seq) if ef == 'list' else np.array(seq, dtype=np.int64)
    unordered = any(b < a for a, b in zip(seq, seq[1:]))
    ctx.label('exclude-order:' + order, 'exclude-written:' + ('not-ascending' if unordered else 'ascending'), 'exclude-really-as:' + ef,
              'exclude-has-repeats' if len(seq) != len(set(seq)) else 'exclude-entries-unique')
    if unordered and rings >= 2 and any(e > 6 for e in seq):
        ctx.label('exclude:last-entry-not-the-largest:outer-ring-entry' if seq[-1] != max(seq) else 'exclude:unordered-but-last-is-largest')
    if keep is not None:
        keep.arg('x', x), keep.arg('y', y), keep.arg('exclude', exarg)
    exkeep = list(exarg) if isinstance(exarg, list) else None
    setkeep = sorted(exarg) if ef in SETLIKE else None
    if case.get('after_error', False):
        # a request that fails and is caught by the caller (an orientation the class does not build) comes first; the aperture built
        # next must be what it would have been anyway.  Nothing is asserted about the failing request
        ctx.label('after-a-failed-request')
        try:
            CompositeHexagonalAperture(x, y, rings, d, gap, segment_angle=45, exclude=exarg)
        except Exception:       # noqa - the failing request itself is not examined
            pass
    # the orientation 0 / 90 written as int, float or a numpy number; the ring count as int or numpy integer
    af = case.get('angle_form', 'int')
    angle = {'int': int, 'float': float, 'np-int': np.int64, 'np-float': np.float64}[af](case['angle'])
    ctx.label('angle-as:' + af)
    cha = ctx.call(CompositeHexagonalAperture, x, y, np.int64(rings) if af.startswith('np') else rings, d, gap, segment_angle=angle, exclude=exarg)
    if exkeep is not None:
        ctx.require(len(exarg) == len(exkeep) and all(a_ is b_ for a_, b_ in zip(exarg, exkeep)), 'hex:argument-modified',
                    'the exclusion list was modified by the constructor: %r, was %r' % (exarg, exkeep))
    if setkeep is not None:
        ctx.require(sorted(exarg) == setkeep, 'hex:argument-modified', 'the exclusion %s was modified by the constructor: %r, was %r' % (ef, sorted(exarg), setkeep))
    return cha, (rings, d, gap, dx, spp, ny, nx, x, y, total, excl)


def check_hex(case, ctx):
    """CompositeHexagonalAperture: count / ids under exclusion, no overlap, amp == union of placed local masks, hexagon area."""
    keep = Keep(ctx)
    cha, (rings, d, gap, dx, spp, ny, nx, x, y, total, excl) = build_hex(case, ctx, keep)
    want_ids = [i for i in range(total) if i not in excl]
    ctx.label('layout:' + case.get('layout', 'C'), 'exclude-as:' + case.get('exclude_form', 'tuple'))
    ctx.label('rings:%d' % rings, 'angle:%d' % case['angle'], 'parity:' + case['parity'], 'aspect:' + case['aspect'],
              'gap0' if gap == 0 else 'gap>0', 'excl:%s' % ('none' if not excl else 'center' if excl == [0] else 'some'),
              'spp:%s' % ('6-9' if spp < 10 else '10-29' if spp < 30 else '30-60'))
    ctx.nt(len(want_ids) > 1)
    ids = [int(i) for i in cha.segment_ids]
    ctx.require(ids == want_ids, 'hex:segment-ids', 'rings=%d exclude=%r (given as %s, %s): segment_ids=%r, documented %d segments minus exclusions = %r' % (
        rings, excl, case.get('exclude_form', 'tuple'), case.get('exclude_order', 'ascending'), ids, total, want_ids))
    setlike = case.get('exclude_form', 'tuple') in SETLIKE
    for name in ('windows', 'local_masks', 'local_coords') + (() if setlike else ('all_centers',)):
        ctx.require(len(getattr(cha, name)) == len(want_ids), 'hex:count', 'len(%s)=%d, expected %d segments (rings=%d, exclude=%r as %s)' % (
            name, len(getattr(cha, name)), len(want_ids), rings, excl, case.get('exclude_form', 'tuple')))
    centers = cha.all_centers
    if setlike:
        # the segments are checked like any others; where each one belongs is read from the same aperture built with the exclusion written
        # as a tuple (all_centers is not examined for collections that are no sequences, see ASSUMPTIONS)
        from prysm.segmented import CompositeHexagonalAperture
        ref = ctx.call(CompositeHexagonalAperture, x, y, rings, d, gap, segment_angle=case['angle'], exclude=tuple(excl))
        centers = ref.all_centers
        ctx.require(len(centers) == len(want_ids), 'hex:count', 'len(all_centers)=%d, expected %d segments (rings=%d, exclude=%r as tuple)' % (len(centers), len(want_ids), rings, excl))
    amp = np.asarray(cha.amp)
    U.check_shape(amp, (ny, nx), 'hex:amp')
    cnt = place((ny, nx), cha.windows, cha.local_masks, ctx, 'hex')
    rseg = d / SQ3
    # no sample in two segments (except on a shared analytic edge, gap = 0)
    if cnt.max() > 1:
        yy, xx = np.nonzero(cnt > 1)
        care = np.ones(len(yy), dtype=bool)
        for (w, m, c) in zip(cha.windows, cha.local_masks, centers):
            pm = placed((ny, nx), w, m)[yy, xx]
            mg = poly_margin(x[yy, xx], y[yy, xx], 6, rseg, c, case['angle'])
            care &= ~(pm & (np.abs(mg) <= 1e-7 * rseg))
        if care.any():
            i = int(np.argmax(care))
            ctx.fail('hex:overlap', 'sample (row %d, col %d) at (%.6g, %.6g) belongs to %d segments; %d samples overlap (rings=%d d=%g gap=%g dx=%g angle=%d)' % (
                yy[i], xx[i], x[yy[i], xx[i]], y[yy[i], xx[i]], cnt[yy[i], xx[i]], int(care.sum()), rings, d, gap, dx, case['angle']))
    # amp is exactly the union
    un = cnt > 0
    if not np.array_equal(amp.astype(bool), un):
        extra = int((amp.astype(bool) & ~un).sum())
        miss = int((~amp.astype(bool) & un).sum())
        ctx.fail('hex:union', 'amp differs from the union of the segment masks: %d samples transmit outside every segment, %d segment samples do not transmit' % (extra, miss))
    # area of each segment
    area = SQ3 / 2 * d * d
    tol = (6 * rseg) * dx + dx * dx
    clipped = case.get('crop', [1.0, 1.0]) != [1.0, 1.0]
    if clipped:
        ctx.label('grid-smaller-than-aperture', 'segment-wholly-off-grid' if any(np.asarray(m).size == 0 or not np.asarray(m).any() for m in cha.local_masks) else 'all-segments-on-grid')
    xlo, xhi, ylo, yhi = float(x.min()), float(x.max()), float(y.min()), float(y.max())
    for sid, m, c in zip(ids, cha.local_masks, centers):
        if clipped and not (xlo + dx <= c[0] - rseg and c[0] + rseg <= xhi - dx and ylo + dx <= c[1] - rseg and c[1] + rseg <= yhi - dx):
            continue        # the array edge cuts this hexagon: its area on the grid is not the area of its shape
        a = float(np.count_nonzero(m)) * dx * dx
        ctx.require(abs(a - area) <= tol, 'hex:area', 'segment %d has area %.6g (%d samples), hexagon of flat-to-flat %g has %.6g; tolerance perimeter*dx = %.3g '
                    '(rings=%d gap=%g dx=%g angle=%d grid %dx%d)' % (sid, a, int(np.count_nonzero(m)), d, area, tol, rings, gap, dx, case['angle'], ny, nx))
    # "to within the rasterisation of its boundary": a segment may differ from the analytic hexagon only at samples
    # closer than RASTER_BAND_HEX sample spacings to its edges (the code clips at most one row / column of its local
    # window at a vertex, depth < sin(60 deg) dx; see ASSUMPTIONS)
    band = RASTER_BAND_HEX * dx
    for sid, w, m, c in zip(ids, cha.windows, cha.local_masks, centers):
        big = tuple(slice(max(0, sl.start - 4), sl.stop + 4) for sl in w)
        pm = placed((ny, nx), w, m)[big]
        mg = poly_margin(x[big], y[big], 6, rseg, c, case['angle'])
        miss = (mg < -band) & ~pm
        if miss.any():
            ctx.fail('hex:interior-missing', 'segment %d lacks %d samples that lie up to %.3f sample spacings inside the analytic hexagon (centre %r, window %r; '
                     'rings=%d d=%g gap=%g dx=%g angle=%d grid %dx%d)' % (sid, int(miss.sum()), float((-mg[miss]).max() / dx), tuple(c), w, rings, d, gap, dx, case['angle'], ny, nx))
        extra = (mg > band) & pm
        if extra.any():
            ctx.fail('hex:exterior-included', 'segment %d contains %d samples up to %.3f sample spacings outside the analytic hexagon' % (
                sid, int(extra.sum()), float(mg[extra].max() / dx)))
    ctx.tally('segments_checked', len(ids))
    if case.get('second', False):
        # a second aperture built on the same coordinate arrays (other orientation, ring count, gap): what the first one
        # returned must not change (masks / windows living in shared state), nor may the coordinates
        ctx.label('second-aperture-on-same-grid')
        keep.result('amp', amp)
        for sid, m in zip(ids, cha.local_masks):
            keep.result('local mask of segment %d' % sid, np.asarray(m))
        w0 = [tuple((sl.start, sl.stop) for sl in w) for w in cha.windows]
        from prysm.segmented import CompositeHexagonalAperture
        other = ctx.call(CompositeHexagonalAperture, x, y, max(1, rings - 1), 0.8 * d, 0.05 * d, segment_angle=90 - case['angle'], exclude=(0,) if excl != [0] else ())
        ctx.require(np.asarray(other.amp).shape == (ny, nx), 'hex:amp', 'second aperture: amp shape %r' % (np.asarray(other.amp).shape,))
        w1 = [tuple((sl.start, sl.stop) for sl in w) for w in cha.windows]
        ctx.require(w0 == w1 and [int(i) for i in cha.segment_ids] == ids, 'hex:result-overwritten', 'windows / segment_ids of the first aperture changed when a second one was built')
    keep.verify('hex')
    return cha, cnt


SETLIKE = ('set', 'frozenset', 'dict-keys', 'dict')
EXCLUDE_FORMS = ['tuple', 'tuple', 'list', 'ndarray', 'ndarray-int32', 'range', 'list-of-numpy-ints', 'set', 'set', 'frozenset', 'dict-keys', 'dict']
EXCLUDE_ORDERS = ['ascending', 'as-drawn', 'as-drawn', 'descending', 'repeats']


def strat_hex(tier):
    rs = [1, 2, 2, 3, 3] if tier == 'quick' else [1, 2, 2, 3, 3, 4, 4]
    return st.sampled_from(rs).flatmap(lambda r: st.fixed_dictionaries({
        'rings': st.just(r), 'd': st.sampled_from([1.0, 0.2, 0.75, 1.5, 2.0, 0.013]),
        'gapf': st.sampled_from([0.0, 0.0, 0.01, 0.035, 0.1, 0.3]), 'sppf': st.integers(0, 20).map(lambda v: v / 20),
        'angle': st.sampled_from([0, 90]), 'parity': st.sampled_from(['odd', 'even']), 'pad': st.integers(0, 9),
        'aspect': st.sampled_from(['square', 'square', 'tall', 'wide']),
        'exclude': st.one_of(st.just([]), st.just([0]), st.lists(st.sampled_from(range(nhex(r))), max_size=nhex(r), unique=True),
                             st.lists(st.sampled_from(range(nhex(r))), min_size=1, max_size=4, unique=True),
                             st.lists(st.sampled_from(range(nhex(r))), min_size=2, max_size=4, unique=True)),
        'layout': U.layouts, 'exclude_form': st.sampled_from(EXCLUDE_FORMS), 'exclude_order': st.sampled_from(EXCLUDE_ORDERS),
        'second': st.sampled_from([False, False, False, True]), 'after_error': st.sampled_from([False, False, False, True]),
        'angle_form': st.sampled_from(['int', 'int', 'float', 'np-int', 'np-float']),
        'crop': st.one_of(st.just([1.0, 1.0]), st.just([1.0, 1.0]), st.tuples(st.sampled_from([1.0, 0.8, 0.5, 0.3, 0.15]), st.sampled_from([1.0, 0.8, 0.5, 0.3, 0.15])).map(list)),
    }))


def enum_hex_single(tier):
    for r in (1, 2, 3) if tier == 'quick' else (1, 2, 3, 4):
        for angle in (0, 90):
            for e in range(nhex(r)):
                yield {'rings': r, 'd': 1.0, 'gapf': [0.0, 0.02, 0.1][e % 3], 'sppf': [0.0, 0.15, 0.3][(e // 3) % 3], 'angle': angle,
                       'parity': ['odd', 'even'][(e + r) % 2], 'pad': e % 4, 'aspect': 'square', 'exclude': [e],
                       'layout': U.LAYOUTS[(e + angle // 90) % len(U.LAYOUTS)], 'exclude_form': ['tuple', 'list', 'ndarray', 'set', 'frozenset', 'dict-keys'][(e + e // 6) % 6]}


def check_hex_tiling(case, ctx):
    check_hex(case, ctx)


# ---- OPD composition -------------------------------------------------------------------------------------------------
def hopkins_like_seq(orders, r, t, H=1.0):
    """a user-style basis with the documented signature basis_func(orders, r, t, **kwargs), built on prysm's hopkins()"""
    from prysm.polynomials import hopkins
    return [hopkins(a, b, c, r, t, H) for (a, b, c) in orders]


BASES = {
    'zernike': [(0, 0), (1, 1), (1, -1), (2, 0), (2, 2), (3, 1), (4, 0)],
    'xy': [(0, 0), (1, 0), (0, 1), (1, 1), (2, 0), (0, 2), (2, 1)],
    'hopkins': [(0, 0, 0), (1, 1, 1), (-1, 1, 1), (0, 2, 0), (2, 2, 2), (1, 3, 1), (0, 4, 0)],
}


def basis_of(name):
    from prysm import polynomials
    return {'zernike': polynomials.zernike_nm_seq, 'xy': polynomials.xy_seq, 'hopkins': hopkins_like_seq}[name]


def orders_of(name, picks, piston_at):
    pool = BASES[name]
    rest = [pool[1 + (p % (len(pool) - 1))] for p in picks]
    # de-duplicate, keep order
    seen, out = set(), []
    for o in rest:
        if o not in seen:
            seen.add(o)
            out.append(o)
    k = piston_at % (len(out) + 1)
    out.insert(k, pool[0])
    return out, k


COEF_FORMS = ['array', 'array', 'list', 'tuple-of-arrays', 'f32', 'int', 'F', 'strided', 'generator']


def coef_arg(C, form):
    """(container handed to compose_opd, the float64 values it represents).  The docstring: 'an iterable of coefficients for
    each segment ... if an array, of shape (segments, orders)'."""
    C = np.asarray(C, dtype=np.float64)
    if form == 'f32':
        c32 = C.astype(np.float32)
        return c32, c32.astype(np.float64)
    if form == 'list':
        return [[float(v) for v in row] for row in C], C
    if form == 'tuple-of-arrays':
        return tuple(np.array(row) for row in C), C
    if form == 'generator':
        # "an iterable of coefficients for each segment": a one-shot generator of rows
        return (np.array(row) for row in C.copy()), C
    if form in ('F', 'strided'):
        return U.relayout(C, form), C
    return C.copy(), C


def _same_arg(before, after):
    if isinstance(before, np.ndarray):
        return isinstance(after, np.ndarray) and before.dtype == after.dtype and np.array_equal(before, after)
    if isinstance(before, (list, tuple)):
        return type(before) is type(after) and len(before) == len(after) and all(_same_arg(p, q) for p, q in zip(before, after))
    return before == after


def _copy_arg(a):
    if isinstance(a, np.ndarray):
        return a.copy()
    if isinstance(a, (list, tuple)):
        return type(a)(_copy_arg(v) for v in a)
    return a


def check_opd_common(ctx, compose, nseg, nmodes, piston_idx, placed_masks, shape, seed, kind, segs_to_probe, case=None):
    """compose(coefs (nseg, nmodes), **kw) -> map.  unit piston support, no leakage, linearity (whole map at one common scale,
    and per segment with every segment's coefficients at its own scale 10**-12 .. 10**6 and sign), arguments unchanged,
    results independent of each other, out= entry point."""
    case = case or {}
    exps = [int(e) for e in (case.get('cexp') or [0])]
    sgn = [int(v) for v in (case.get('csign') or [1])]
    scales = np.array([sgn[k % len(sgn)] * 10.0 ** exps[k % len(exps)] for k in range(nseg)])
    form = case.get('cform', 'array')
    ctx.label('coefs-as:' + form, *set('coef-scale:1e%+03d' % e for e in exps))

    def run_arg(arg, **kw):
        """one call with the container `arg` exactly as given: container unchanged, map of the aperture's shape"""
        before = _copy_arg(arg)
        o = np.asarray(ctx.call(compose, arg, **kw))
        ctx.require(_same_arg(before, arg), kind + ':argument-modified', 'compose_opd changed the coefficient %s it was given' % type(arg).__name__)
        U.check_shape(o, shape, kind + ':opd')
        return o

    def run(C, **kw):
        """one call with the coefficient set C in the drawn container form; returns (map, represented values)"""
        arg, vals = coef_arg(C, 'array' if form == 'int' else form)
        return run_arg(arg, **kw), vals

    zero = np.zeros((nseg, nmodes))
    base, _ = run(zero)
    ctx.require(not base.any(), kind + ':opd-zero', 'compose_opd of all-zero coefficients is not zero (max |v| = %g)' % float(np.abs(base).max()))
    cnt = np.zeros(shape, dtype=np.int32)
    for pm in placed_masks:
        cnt += pm
    r = U.rng_of(seed, 181)
    for k in segs_to_probe:
        own = placed_masks[k]
        if form == 'int':
            # a unit piston written the obvious way: an integer array with a single 1
            ci = np.zeros((nseg, nmodes), dtype=np.int64)
            ci[k, piston_idx] = 1
            o = np.asarray(ctx.call(compose, ci))
            ctx.require(int(ci.sum()) == 1 and ci[k, piston_idx] == 1, kind + ':argument-modified', 'compose_opd changed an integer coefficient array')
            U.check_shape(o, shape, kind + ':opd')
        else:
            c = zero.copy()
            c[k, piston_idx] = 1.0
            o, _ = run(c)
        ctx.require(np.isfinite(o).all(), kind + ':opd-nonfinite', 'unit piston on segment index %d gives non-finite OPD' % k)
        sup = o != 0
        if not np.array_equal(sup, own):
            out = int((sup & ~own).sum())
            miss = int((~sup & own).sum())
            ctx.fail(kind + ':piston-support', 'unit piston on segment index %d: OPD non-zero on %d samples outside the segment mask and zero on %d samples inside it' % (k, out, miss))
        vals = o[own]
        if vals.size:
            ctx.require(float(np.ptp(vals)) <= 1e-12 * max(1.0, float(np.abs(vals).max())), kind + ':piston-not-constant',
                        'unit piston on segment index %d is not constant over the segment: min %r max %r' % (k, float(vals.min()), float(vals.max())))
        # the same piston with the amplitude of this segment's scale (OPD in metres, nanometres, waves ...): same support, s times the value
        sk = float(scales[k])
        if sk != 1.0:
            c = zero.copy()
            c[k, piston_idx] = sk
            os_, cv = run(c)
            sk_ = float(cv[k, piston_idx])
            sup = os_ != 0
            if not np.array_equal(sup, own):
                ctx.fail(kind + ':piston-support:scaled', 'piston of %g on segment index %d: OPD non-zero on %d samples outside the segment mask and zero on %d samples inside it '
                         '(a unit piston has exactly the support of the mask)' % (sk_, k, int((sup & ~own).sum()), int((~sup & own).sum())))
            if vals.size:
                e = float(np.abs(os_[own] - sk_ * vals).max())
                ctx.require(e <= 1e-12 * abs(sk_) * max(1.0, float(np.abs(vals).max())), kind + ':opd-linear:scaled-piston',
                            'piston of %g on segment index %d is not %g times the unit piston: max err %.3g' % (sk_, k, sk_, e))
        # arbitrary coefficients (at this segment's scale) on this one segment stay inside it
        c = zero.copy()
        c[k] = r.uniform(-1, 1, nmodes) * sk
        o, _ = run(c)
        leak = (o != 0) & ~own
        # NaN anywhere counts as a change of that sample
        leak |= ~np.isfinite(o) & ~own
        ctx.require(not leak.any(), kind + ':opd-leak', 'coefficients on segment index %d alone change %d samples outside its mask' % (k, int(leak.sum())))
    # linearity of the whole map, all coefficients at one common scale
    S = abs(float(scales[0]))
    A = r.uniform(-1, 1, (nseg, nmodes)) * S
    B = r.uniform(-1, 1, (nseg, nmodes)) * S
    a, b = float(r.uniform(-2, 2)), float(r.uniform(-2, 2))
    oa, A = run(A)
    ob, B = run(B)
    oa_kept, ob_kept = oa.copy(), ob.copy()
    oab, _ = run(a * A + b * B) if form != 'f32' else (np.asarray(ctx.call(compose, a * A + b * B)), None)
    ctx.require(np.array_equal(oa, oa_kept, equal_nan=True) and np.array_equal(ob, ob_kept, equal_nan=True), kind + ':result-overwritten',
                'a map returned by compose_opd changed when compose_opd was called again with other coefficients')
    if np.isfinite(oa).all() and np.isfinite(ob).all():
        scale = max(S, float(np.abs(oa).max()), float(np.abs(ob).max()))
        U.check_close(oab, a * oa + b * ob, 0, kind + ':opd-linear', 'compose(a A + b B) vs a compose(A) + b compose(B), coefficients of size %g' % S, atol=1e-11 * scale)
    else:
        ctx.fail(kind + ':opd-nonfinite', 'compose_opd of random coefficients is not finite')
    # the union of supports: nothing outside all masks is ever touched
    allm = cnt > 0
    ctx.require(not ((oa != 0) & ~allm).any(), kind + ':opd-leak', 'random coefficients on all segments touch %d samples outside every segment' % int(((oa != 0) & ~allm).sum()))
    # linearity segment by segment: row k of the coefficient set multiplied by its own s_k (|s_k| from 1e-12 to 1e6, either
    # sign) multiplies the map on segment k by s_k.  Samples owned by two touching segments are left out.
    C1 = r.uniform(-1, 1, (nseg, nmodes))
    # no row may be all-small by accident at unit scale
    C1[np.arange(nseg), r.integers(0, nmodes, nseg)] = np.where(r.uniform(size=nseg) < 0.5, -1.0, 1.0) * r.uniform(0.5, 1.0, nseg)
    oS, Cs = run(scales[:, None] * C1)
    o1, _ = run(Cs / scales[:, None]) if form != 'f32' else (np.asarray(ctx.call(compose, Cs / scales[:, None])), None)
    ctx.require(np.isfinite(oS).all() and np.isfinite(o1).all(), kind + ':opd-nonfinite', 'compose_opd of scaled coefficients is not finite')
    for k in range(nseg):
        m = placed_masks[k] & (cnt == 1)
        if not m.any():
            continue
        ref = scales[k] * o1[m]
        tol = 1e-11 * abs(scales[k]) * max(1.0, float(np.abs(o1[m]).max()))
        e = np.abs(oS[m] - ref)
        if float(e.max()) > tol:
            i = int(np.argmax(e))
            ctx.fail(kind + ':opd-linear:segment-scale', 'segment index %d with its coefficients multiplied by %g (other segments by %s): map on the segment is not %g times the '
                     'map of the unscaled coefficients: got %r, expected %r (err %.3g, tol %.3g); %d of %d samples bad' % (
                         k, scales[k], sorted(set('%g' % v for v in scales)), scales[k], float(oS[m][i]), float(ref[i]), float(e.max()), tol, int((e > tol).sum()), int(m.sum())))
    ctx.tally('segments_checked_at_their_own_scale', nseg)
    # result independent of what the caller does with an earlier result
    again_ref = oS.copy()
    oS[...] = 7.0
    again, _ = run(scales[:, None] * C1)
    ctx.require(np.array_equal(again, again_ref), kind + ':aliased-state', 'compose_opd with the same coefficients gives another map after the caller overwrote the map returned before: '
                '%d samples differ' % int((again != again_ref).sum()))
    # out=: "array to insert OPD into, allocated if None"
    buf = np.zeros(shape, dtype=again.dtype)
    res, _ = run(scales[:, None] * C1, out=buf)
    ctx.require(np.array_equal(res, again_ref) and np.array_equal(buf, again_ref), kind + ':out-argument',
                'compose_opd(coefs, out=zeros): returned map / out differ from compose_opd(coefs) at %d / %d samples' % (int((res != again_ref).sum()), int((buf != again_ref).sum())))
    if case.get('tie') is not None and nseg > 1:
        check_tied_rows(ctx, run, run_arg, form, nseg, nmodes, piston_idx, placed_masks, cnt, seed, kind, case['tie'], S)


def tied_rows(tie, nseg, nmodes, piston_idx, r, S, whole):
    """coefficient set (nseg, nmodes) whose rows repeat exactly, and the group number of every segment (-1: a row of its own).
    tie['kind']: 'unit-piston' (1.0), 'piston' (one value), 'tilt' (no piston, the other modes), 'row' (every mode non-zero);
    tie['who']: 'all' (one row on every segment - global piston / tilt, what np.ones / np.tile give), 'groups' (2-3 distinct rows dealt to the
    segments), 'subset' (one row on some segments, zero rows on the others), 'subset+random' (the others get rows of their own).
    whole=True: whole-number values (integer coefficient arrays)."""
    kind = tie['kind']
    if nmodes == 1 and kind == 'tilt':
        kind = 'piston'

    def one_row():
        row = np.zeros(nmodes)
        if whole:
            v = r.integers(1, 4, nmodes) * np.where(r.uniform(size=nmodes) < 0.5, -1.0, 1.0)
        else:
            v = S * r.uniform(0.5, 2.0, nmodes) * np.where(r.uniform(size=nmodes) < 0.5, -1.0, 1.0)
        if kind == 'unit-piston':
            row[piston_idx] = 1.0
        elif kind == 'piston':
            row[piston_idx] = v[piston_idx]
        elif kind == 'tilt':
            row[:] = v
            row[piston_idx] = 0.0
        else:
            row[:] = v
        return row
    who = tie['who']
    group = np.full(nseg, -1, dtype=int)
    if who == 'all':
        group[:] = 0
    elif who == 'groups':
        ng = 2 + int(tie.get('pick', 0)) % 2
        group[:] = r.permutation(nseg) % ng
    else:
        m = max(2, int(round(nseg * (0.3 + 0.1 * (int(tie.get('pick', 0)) % 5)))))
        group[r.permutation(nseg)[:min(m, nseg)]] = 0
    rows = [one_row() for _ in range(int(group.max()) + 1)]
    if kind == 'unit-piston' and len(rows) > 1:
        for g in range(1, len(rows)):
            rows[g] = rows[g] * float(g + 1)          # pistons of 1, 2, 3
    C = np.zeros((nseg, nmodes))
    for k in range(nseg):
        if group[k] >= 0:
            C[k] = rows[group[k]]
        elif who == 'subset+random':
            C[k] = (np.rint(r.uniform(-3, 3, nmodes)) if whole else S * r.uniform(-1, 1, nmodes))
    return C, group, rows, kind


def check_tied_rows(ctx, run, run_arg, form, nseg, nmodes, piston_idx, placed_masks, cnt, seed, kind, tie, S):
    """value pattern of the coefficient set: rows that are exactly equal (the same piston / tilt / row on every segment, on a
    subset, a few distinct rows dealt to the segments).  Per-segment OPD is confined to its own segment and composition is
    linear, so the map is the sum of the maps of the single-segment coefficient sets, it vanishes outside the segments that
    have a non-zero row, and a piston covers exactly those segments."""
    r = U.rng_of(seed, 183)
    whole = form == 'int'
    C, group, rows, tkind = tied_rows(tie, nseg, nmodes, piston_idx, r, S, whole)
    ctx.label('tied-rows:' + tkind, 'tied-rows:' + tie['who'])
    same_obj = bool(tie.get('same_object', False)) and form in ('list', 'tuple-of-arrays')
    if whole:
        whole_arg = C.astype(np.int64)
        o = run_arg(whole_arg)
        vals = C
    elif same_obj:
        # the caller builds the per-segment iterable from one row object per group: (row,) * nseg, [piston_row] * nseg
        ctx.label('tied-rows:same-row-object')
        objs = [(np.array(rw) if form == 'tuple-of-arrays' else [float(v) for v in rw]) for rw in rows]
        seq = [objs[g] if g >= 0 else (np.array(C[k]) if form == 'tuple-of-arrays' else [float(v) for v in C[k]]) for k, g in enumerate(group)]
        o = run_arg(tuple(seq) if form == 'tuple-of-arrays' else seq)
        vals = C
    else:
        o, vals = run(C)
    ctx.require(np.isfinite(o).all(), kind + ':opd-nonfinite', 'compose_opd of a coefficient set with equal rows is not finite')
    live = [k for k in range(nseg) if np.any(vals[k] != 0)]
    union = np.zeros(o.shape, dtype=bool)
    for k in live:
        union |= placed_masks[k]
    what = '%s coefficient set with exactly equal rows (%s on %s; rows %s)' % (form, tkind, tie['who'], ', '.join('%d x %s' % (int((group == g).sum()), np.array2string(vals[np.argmax(group == g)], precision=6)) for g in range(len(rows))))
    leak = (o != 0) & ~union
    ctx.require(not leak.any(), kind + ':opd-leak:equal-rows', '%s: OPD is non-zero on %d samples outside the segments that were given coefficients (%d of them outside every segment)' % (
        what, int(leak.sum()), int((leak & (cnt == 0)).sum())))
    if tkind in ('unit-piston', 'piston'):
        # (samples owned by one segment only: on an edge shared by two touching segments two pistons may cancel)
        tied = np.zeros(o.shape, dtype=bool)
        for k in live:
            if group[k] >= 0:
                tied |= placed_masks[k]
        hole = (o == 0) & tied & (cnt == 1)
        ctx.require(not hole.any(), kind + ':piston-support:equal-rows', '%s: %d samples of the segments that were given a piston carry no OPD' % (what, int(hole.sum())))
    # linearity: the whole is the sum of the single-segment parts
    total = np.zeros(o.shape)
    for k in live:
        Ck = np.zeros((nseg, nmodes))
        Ck[k] = vals[k]
        part = run_arg(Ck.astype(np.int64)) if whole else run(Ck)[0]      # (float32 form: vals are float32 values already)
        own = placed_masks[k]
        lk = ((part != 0) | ~np.isfinite(part)) & ~own
        ctx.require(not lk.any(), kind + ':opd-leak', 'coefficients on segment index %d alone change %d samples outside its mask' % (k, int(lk.sum())))
        total += part
    scale = max(float(np.abs(total).max()), float(np.abs(vals).max()))
    e = np.abs(o - total)
    if float(e.max()) > 1e-12 * scale:
        i = np.unravel_index(int(np.argmax(e)), e.shape)
        ctx.fail(kind + ':opd-linear:equal-rows', '%s: compose_opd(C) differs from the sum of the %d single-segment compositions on %d samples (%d of them outside every segment); '
                 'largest difference %.3g at sample %r: %r vs %r' % (what, len(live), int((e > 1e-12 * scale).sum()), int(((e > 1e-12 * scale) & (cnt == 0)).sum()), float(e.max()), tuple(int(v) for v in i), float(o[i]), float(total[i])))
    ctx.tally('tied_row_sets_checked', 1)


def strat_hex_opd(tier):
    return st.fixed_dictionaries({
        'rings': st.integers(1, 2), 'd': st.sampled_from([1.0, 0.2, 1.5]), 'gapf': st.sampled_from([0.0, 0.02, 0.1]),
        'sppf': st.integers(0, 6).map(lambda v: v / 20), 'angle': st.sampled_from([0, 90]), 'parity': st.sampled_from(['odd', 'even']),
        'pad': st.integers(0, 5), 'aspect': st.sampled_from(['square', 'tall', 'wide']),
        'exclude': st.one_of(st.just([]), st.just([0]), st.lists(st.integers(0, 18), max_size=5, unique=True)),
        'basis': st.sampled_from(['zernike', 'xy', 'hopkins']), 'picks': st.lists(st.integers(0, 5), min_size=0, max_size=4),
        'piston_at': st.integers(0, 4), 'norm_radius': st.sampled_from([None, None, 1.0, 0.37]), 'seed': U.seeds,
        'crop': st.one_of(st.just([1.0, 1.0]), st.just([1.0, 1.0]), st.tuples(st.sampled_from([1.0, 0.8, 0.6]), st.sampled_from([1.0, 0.8, 0.6])).map(list)),
        'probe': st.lists(st.integers(0, 18), min_size=1, max_size=3),
        **opd_extras(),
    })


def opd_extras():
    """coefficient scales over many decades and both signs (one entry per segment, cyclic), container / dtype / layout of the
    coefficient set, layout of the coordinate grid, a warm-up prepare_opd_bases with another basis on the same object"""
    return {'cexp': st.lists(st.one_of(st.integers(-12, 6), st.sampled_from([-12, -10, -9, -8, -7, 0, 0, 3, 6])), min_size=1, max_size=4),
            'csign': st.lists(st.sampled_from([1, -1]), min_size=1, max_size=3),
            'cform': st.sampled_from(COEF_FORMS), 'layout': U.layouts, 'reprepare': st.booleans(),
            'exclude_form': st.sampled_from(EXCLUDE_FORMS), 'exclude_order': st.sampled_from(EXCLUDE_ORDERS),
            # coefficient sets with exactly equal rows (global piston / tilt, one row tiled, a subset of segments moved together)
            'tie': st.fixed_dictionaries({'kind': st.sampled_from(['unit-piston', 'piston', 'tilt', 'row']),
                                          'who': st.sampled_from(['all', 'all', 'groups', 'subset', 'subset+random']),
                                          'pick': st.integers(0, 9), 'same_object': st.booleans()})}


def check_hex_opd(case, ctx):
    """CompositeHexagonalAperture.prepare_opd_bases / compose_opd: unit piston support == that segment's mask, no leakage, linear."""
    keep = Keep(ctx)
    cha, (rings, d, gap, dx, spp, ny, nx, x, y, total, excl) = build_hex(case, ctx, keep)
    nseg = len(cha.segment_ids)
    if nseg == 0:
        ctx.exclude('every segment excluded')
    if any(np.asarray(m).size == 0 for m in cha.local_masks):
        ctx.exclude('a segment lies wholly outside the array (no coordinates to evaluate a basis on)')
    if case.get('crop', [1.0, 1.0]) != [1.0, 1.0]:
        ctx.label('grid-smaller-than-aperture')
    orders, pk = orders_of(case['basis'], case['picks'], case['piston_at'])
    ctx.label('basis:' + case['basis'], 'modes:%d' % len(orders), 'norm:' + ('default' if case['norm_radius'] is None else 'given'),
              'layout:' + case.get('layout', 'C'))
    ctx.nt(nseg > 1)
    kw = {}
    if case['norm_radius'] is not None:
        kw['normalization_radius'] = case['norm_radius'] * d
    keep.result('amp', np.asarray(cha.amp))
    for sid, m in zip(cha.segment_ids, cha.local_masks):
        keep.result('local mask of segment %d' % sid, np.asarray(m))
    if case.get('reprepare', False):
        # the same aperture object prepared first with another basis / other orders / another normalisation
        ctx.label('prepared-twice')
        other = {'zernike': 'xy', 'xy': 'hopkins', 'hopkins': 'zernike'}[case['basis']]
        ctx.call(cha.prepare_opd_bases, basis_of(other), BASES[other][1:4], normalization_radius=0.61 * d)
    ctx.call(cha.prepare_opd_bases, basis_of(case['basis']), list(orders), **kw)
    pms = [placed((ny, nx), w, m) for w, m in zip(cha.windows, cha.local_masks)]
    probe = sorted(set(p % nseg for p in case['probe']))
    check_opd_common(ctx, lambda c, **k: cha.compose_opd(c, **k), nseg, len(orders), pk, pms, (ny, nx), case['seed'], 'hex', probe, case)
    keep.verify('hex')


# ---- keystone --------------------------------------------------------------------------------------------------------
def key_setup(case):
    rc = float(case['center_diameter']) / 2
    rings = len(case['spr'])
    widths = [float(w) for w in case['widths']][:rings]
    gap = float(case['radial_gap'])
    R = rc + sum(widths) + gap * rings
    if case.get('dx') is not None:
        # sample spacing given outright (binary fractions, with radii that are whole numbers of samples: samples lie exactly
        # on the ring radii)
        dx = float(case['dx'])
        ro_samples = int(math.ceil(R / dx))
    else:
        ro_samples = case['ro_samples']
        dx = R / ro_samples
    n = 2 * (ro_samples + 2 + case['pad']) + 1
    if case['parity'] == 'even':
        n += 1
    return rc, rings, widths, gap, dx, n


def key_segments(case):
    """harness model: list of (ring, k, ri, ro, u_lo, arc) with u_lo the unwrapped start angle used by the documentation:
    segment k of a ring starts at k*arc + rotation degrees, measured from t = -pi."""
    rc, rings, widths, gap, dx, n = key_setup(case)
    rots = case['rotation']
    if rots is None or not isinstance(rots, list):
        rots = [rots] * rings
    out = []
    outer = rc
    for j in range(rings):
        ri = outer + gap
        ro = ri + widths[j]
        outer = ro
        ns = case['spr'][j]
        arc = 360.0 / ns
        rot = arc if rots[j] is None else float(rots[j])
        for k in range(ns):
            out.append((j, k, ri, ro, math.radians(k * arc + rot) - math.pi, math.radians(arc)))
    return out


def ang_dist(t, a):
    """distance between angles modulo 2 pi"""
    return np.abs((t - a + math.pi) % (2 * math.pi) - math.pi)


def build_keystone(case, ctx, keep=None):
    from prysm.segmented import CompositeKeystoneAperture
    rc, rings, widths, gap, dx, n = key_setup(case)
    x, y = grid(n, n, dx, case.get('layout', 'C'))
    rots = case['rotation']
    wa = list(widths) if case['list_args'] else (widths[0] if len(set(widths)) == 1 else list(widths))
    sa = list(case['spr']) if case['list_args'] or len(set(case['spr'])) > 1 else case['spr'][0]
    ra = list(rots) if isinstance(rots, list) else rots
    # "float or Iterable": the per-ring values as list / tuple / array / one-shot generator, single values also as numpy scalars
    sf = case.get('seq_form', 'list')
    ctx.label('ring-arguments-as:' + sf)

    def seq(v, scalar_type):
        if isinstance(v, list):
            if sf == 'tuple':
                return tuple(v)
            if sf == 'ndarray' and all(q is not None for q in v):
                return np.array(v)
            if sf == 'generator':
                return (q for q in list(v))
            return v
        if sf == 'ndarray' and v is not None:
            return scalar_type(v)      # a numpy scalar where one number is given
        return v
    wa, sa, ra = seq(wa, np.float64), seq(sa, np.int64), seq(ra, np.float64)
    if keep is not None:
        keep.arg('x', x), keep.arg('y', y)
    if case.get('after_error', False):
        # a failing request (a ring of zero segments), caught by the caller, before the aperture that is checked
        ctx.label('after-a-failed-request')
        try:
            CompositeKeystoneAperture(x, y, 2 * rc, rings, widths[0], 0, gap, case['azimuthal_gap'], None)
        except Exception:       # noqa - the failing request itself is not examined
            pass
    given = (_copy_arg(wa), _copy_arg(sa), _copy_arg(ra))
    ka = ctx.call(CompositeKeystoneAperture, x, y, 2 * rc, rings, wa, sa, gap, case['azimuthal_gap'], ra)
    ctx.require(all(_same_arg(g_, a_) for g_, a_ in zip(given, (wa, sa, ra))), 'keystone:argument-modified',
                'ring_radius / segments_per_ring / rotation_per_ring changed: %r -> %r' % (given, (wa, sa, ra)))
    return ka, (rc, rings, widths, gap, dx, n, x, y)


def check_keystone(case, ctx):
    """CompositeKeystoneAperture: count, no sample in two segments, every transmitting sample in a segment, sector areas."""
    keep = Keep(ctx)
    ka, (rc, rings, widths, gap, dx, n, x, y) = build_keystone(case, ctx, keep)
    segs = key_segments(case)
    nseg = sum(case['spr'])
    rots = case['rotation']
    ctx.label('layout:' + case.get('layout', 'C'), 'grid:' + ('radii-on-samples' if case.get('dx') is not None else 'generic'))
    flat = [q for q in (rots if isinstance(rots, list) else [rots]) if q is not None]
    ctx.label('rot<0' if any(q < 0 for q in flat) else 'rot>=360' if any(q >= 360 for q in flat) else 'rot-in-[0,360)-or-none',
              'rot:int' if any(isinstance(q, int) for q in flat) else 'rot:float-or-none')
    ctx.label('rings:%d' % rings, 'rot:' + ('none' if rots is None else 'scalar' if not isinstance(rots, list) else 'list'),
              'parity:' + case['parity'], 'gap0' if gap == 0 else 'gap>0', 'azgap:' + ('same' if case['azimuthal_gap'] is None else 'given'),
              *set('spr:%s' % ('2' if s == 2 else '3' if s == 3 else '4' if s == 4 else '5-12' if s <= 12 else '13+') for s in case['spr']))
    crosses = [(u + arc > 2 * math.pi) and (u <= 2 * math.pi) for (_, _, _, _, u, arc) in segs]
    wide = [arc > math.pi / 2 * (1 + 1e-12) for (_, _, _, _, u, arc) in segs]

    def _bulge(u, arc):
        """the outer arc crosses a coordinate axis somewhere else than at its ends or its middle (the pinned tree sizes the
        local window from those five points only)"""
        for q in range(-2, 8):
            a = q * math.pi / 2
            if u + 1e-12 < a < u + arc - 1e-12 and abs(a - (u + arc / 2)) > 1e-12:
                return True
        return False
    bulge = [_bulge(u, arc) for (_, _, _, _, u, arc) in segs]
    rl = rots if isinstance(rots, list) else [rots] * rings
    outside = [rl[j] is not None and not (0 <= rl[j] < 360) for (j, _, _, _, _, _) in segs]
    if any(crosses):
        ctx.label('has-segment-wrapping-past-2pi')
    if any(wide):
        ctx.label('has-arc>90deg')
    ctx.nt(nseg > 1)
    for name in ('segment_masks', 'segment_windows', 'segment_ids', 'segment_centers', 'segment_grids'):
        ctx.require(len(getattr(ka, name)) == nseg, 'keystone:count', 'len(%s) = %d, expected sum(segments_per_ring) = %d for %r' % (
            name, len(getattr(ka, name)), nseg, case['spr']))
    ctx.require([int(i) for i in ka.segment_ids] == list(range(nseg)), 'keystone:segment-ids', 'segment_ids = %r' % (list(ka.segment_ids),))
    amp = np.asarray(ka.amp)
    U.check_shape(amp, (n, n), 'keystone:amp')
    cntc = place((n, n), [ka.center_window], [ka.center_mask], ctx, 'keystone:center')
    cnts = place((n, n), ka.segment_windows, ka.segment_masks, ctx, 'keystone')
    cnt = cntc + cnts
    r = np.hypot(x, y)
    t = np.arctan2(y, x)
    rmax = segs[-1][3]
    band_r = 1e-9 * rmax

    def bucket(i, check):
        """root-cause bucket of a failure of segment i: the two confirmed classes of the pinned tree get one bucket each
        (whatever check exposes them), anything else is named after the check"""
        if outside[i]:
            return 'keystone:%s:rotation-outside-[0,360)' % check   # the ring's rotation is negative or a turn or more: the same segments as rotation % 360
        if crosses[i]:
            return 'keystone:seam-crossing'       # unwrapped interval [lo, hi] of the segment has lo <= 2 pi < hi
        if wide[i]:
            return 'keystone:wide-arc-window'     # the segment's arc exceeds 90 degrees
        if bulge[i] and check in ('area', 'interior-missing'):
            return 'keystone:arc-bulge-window'    # arc <= 90 degrees crossing a coordinate axis off its ends / middle
        return 'keystone:' + check

    # areas first: they name the faulty segment
    for i, ((j, k, ri, ro, u, arc), m) in enumerate(zip(segs, ka.segment_masks)):
        a = float(np.count_nonzero(m)) * dx * dx
        want = arc / 2 * (ro * ro - ri * ri)
        per = arc * (ro + ri) + 2 * (ro - ri)
        tol = per * dx + dx * dx
        if abs(a - want) > tol:
            ctx.fail(bucket(i, 'area'), 'area: ring %d segment %d (ri=%.6g ro=%.6g, from %.6g deg spanning %.6g deg): mask area %.6g, annular sector %.6g '
                     '(ratio %.4f), tolerance perimeter*dx = %.3g; dx=%.4g grid %d' % (j, k, ri, ro, math.degrees(u + math.pi), math.degrees(arc),
                                                                                  a, want, a / want, tol, dx, n))
    # rasterisation band: only samples closer than RASTER_BAND_KEY spacings to the analytic boundary may be wrong
    for i, ((j, k, ri, ro, u, arc), w, m) in enumerate(zip(segs, ka.segment_windows, ka.segment_masks)):
        pm = placed((n, n), w, m)
        dd = (t - u) % (2 * math.pi)
        inside = (r > ri) & (r <= ro) & (dd > 0) & (dd < arc)
        # lower bound of the distance to the boundary for inside samples: the two arcs and the two edge rays
        depth = np.minimum(np.minimum(r - ri, ro - r), np.minimum(r * np.sin(np.minimum(dd, math.pi / 2)), r * np.sin(np.minimum(arc - dd, math.pi / 2))))
        miss = inside & ~pm & (depth > RASTER_BAND_KEY * dx)
        if miss.any():
            ctx.fail(bucket(i, 'interior-missing'), 'interior-missing: ring %d segment %d (from %.6g deg spanning %.6g deg) lacks %d samples lying up to %.3f sample spacings inside the '
                     'annular sector; window %r, dx=%.4g grid %d' % (j, k, math.degrees(u + math.pi), math.degrees(arc), int(miss.sum()), float(depth[miss].max() / dx), w, dx, n))
        # outside: farther than the band from the sector in radius, or from both edge rays when outside the angular interval
        far = ((r < ri - RASTER_BAND_KEY * dx) | (r > ro + RASTER_BAND_KEY * dx) |
               ((dd > arc) & (r * np.sin(np.minimum(np.minimum(dd - arc, 2 * math.pi - dd), math.pi / 2)) > RASTER_BAND_KEY * dx)))
        extra = pm & far
        if extra.any():
            ctx.fail(bucket(i, 'exterior-included'), 'exterior-included: ring %d segment %d contains %d samples farther than %.2f spacings outside the annular sector' % (
                j, k, int(extra.sum()), RASTER_BAND_KEY))
    a = float(np.count_nonzero(ka.center_mask)) * dx * dx
    ctx.require(abs(a - math.pi * rc * rc) <= 2 * math.pi * rc * dx + dx * dx, 'keystone:center-area',
                'centre circle area %.6g vs %.6g (rc=%g dx=%g)' % (a, math.pi * rc * rc, rc, dx))
    # how many samples sit exactly on a ring radius (there the <= / < of the construction decides who owns the sample)
    radii = sorted(set([rc] + [sg[2] for sg in segs] + [sg[3] for sg in segs]))
    on_radius = np.zeros(r.shape, dtype=bool)
    for q_ in radii:
        on_radius |= (r == q_)
    ctx.tally('samples_exactly_on_a_ring_radius', int(on_radius.sum()))
    if on_radius.any():
        ctx.label('has-samples-exactly-on-a-ring-radius' + (':touching-rings' if gap == 0 else ''))
    # overlap.  Radially the segments are the half-open rings ri < r <= ro stacked on the closed centre disc r <= rc with
    # ri(next) = ro(previous) + gap >= ro(previous): two segments of different rings (or a segment and the centre) can never
    # share a sample, whatever the rounding, so there is no don't-care band in the radial direction.  Two neighbours of one
    # ring are separated by an angle both of them compute in floating point: samples within 1e-9 rad of it are don't-care.
    if cnt.max() > 1:
        yy, xx = np.nonzero(cnt > 1)
        rr, tt = r[yy, xx], t[yy, xx]
        pmc = placed((n, n), ka.center_window, ka.center_mask)[yy, xx]
        claims = [[] for _ in range(len(yy))]
        care = np.ones(len(yy), dtype=bool)
        for i, ((j, k, ri, ro, u, arc), w, m) in enumerate(zip(segs, ka.segment_windows, ka.segment_masks)):
            pm = placed((n, n), w, m)[yy, xx]
            for q in np.nonzero(pm)[0]:
                claims[q].append(i)
            onb = (ang_dist(tt, u) <= 1e-9) | (ang_dist(tt, u + arc) <= 1e-9)
            care &= ~(pm & onb)
        for q in range(len(yy)):
            rings_claiming = set(segs[i][0] for i in claims[q]) | ({-1} if pmc[q] else set())
            if len(rings_claiming) > 1:
                who = (['centre disc'] if pmc[q] else []) + ['ring %d segment %d' % (segs[i][0], segs[i][1]) for i in claims[q]]
                nbad = sum(1 for q2 in range(len(yy)) if len(set(segs[i][0] for i in claims[q2]) | ({-1} if pmc[q2] else set())) > 1)
                ctx.fail('keystone:overlap:across-rings', 'overlap: sample (row %d, col %d) at (%.6g, %.6g), r=%.17g, belongs to %s; ring radii %r, radial_gap=%g; %d such samples '
                         '(centre diameter %g, widths %r, spr=%r, dx=%g, grid %d)' % (yy[q], xx[q], x[yy[q], xx[q]], y[yy[q], xx[q]], rr[q], ' and '.join(who),
                                                                                    radii, gap, nbad, 2 * rc, widths, case['spr'], dx, n))
        if care.any():
            q = int(np.argmax(care))
            claim = claims[q]
            b = 'keystone:overlap'
            if any(outside[i] for i in claim):
                b = 'keystone:overlap:rotation-outside-[0,360)'
            elif any(crosses[i] for i in claim):
                b = 'keystone:seam-crossing'
            elif any(wide[i] for i in claim):
                b = 'keystone:wide-arc-window'
            ctx.fail(b, 'overlap: sample (row %d, col %d) r=%.6g t=%.6g deg belongs to %d segments %r; %d samples overlap (spr=%r rotation=%r)' % (
                yy[q], xx[q], rr[q], math.degrees(tt[q]), cnt[yy[q], xx[q]], [(segs[i][0], segs[i][1]) for i in claim], int(care.sum()), case['spr'], rots))
    # every transmitting sample belongs to a segment
    orphan = amp.astype(bool) & (cnt == 0)
    if orphan.any():
        yy, xx = np.nonzero(orphan)
        ctx.fail('keystone:transmitting-outside-segments', '%d transmitting samples of amp belong to no segment, first at r=%.6g t=%.6g deg' % (
            len(yy), r[yy[0], xx[0]], math.degrees(t[yy[0], xx[0]])))
    ctx.tally('segments_checked', nseg)
    if case.get('second', False):
        ctx.label('second-aperture-on-same-grid')
        keep.result('amp', amp)
        keep.result('centre mask', np.asarray(ka.center_mask))
        for i, m in enumerate(ka.segment_masks):
            keep.result('mask of segment %d' % i, np.asarray(m))
        from prysm.segmented import CompositeKeystoneAperture
        ctx.call(CompositeKeystoneAperture, x, y, 1.3 * rc, 1, 0.7 * widths[0], 5, 0.5 * gap + 0.01 * rc, None, 12.5)
    keep.verify('keystone')
    return ka


# a rotation is an angle: every real number of degrees is valid, below zero and beyond one turn (two turns either way here), as
# a float or as an integer
WIDEROT = st.integers(0, 17999).map(lambda v: ((v * 2654435761) % 18000) / 10 - 720.0)
WIDEROT_INT = st.integers(-720, 1080)
ROT_SPECIAL = [-10.0, -25.5, -70.0, -90.0, -180.0, -360.0, -0.1, 359.9, 400.0, 720.0, 725.0, -450.0]


def strat_keystone(tier):
    # scrambled so that the whole circle is covered although Hypothesis prefers small integers
    anyrot = st.integers(0, 3599).map(lambda v: ((v * 2654435761) % 3600) / 10)
    rot1 = st.one_of(st.none(), anyrot, anyrot, WIDEROT, WIDEROT, WIDEROT_INT, st.sampled_from([0.0, 90.0, 180.0, 270.0, 360.0, 22.5, 45.0, 313.2] + ROT_SPECIAL))

    common = {'layout': U.layouts, 'second': st.sampled_from([False, False, False, True]), 'after_error': st.sampled_from([False, False, False, True]),
              'seq_form': st.sampled_from(['list', 'list', 'tuple', 'ndarray', 'generator'])}

    def body(rings):
        return st.fixed_dictionaries({
            # centre from a few samples across to most of the aperture; rings from 1-2 samples thick to wide
            'center_diameter': st.sampled_from([1.0, 2.4, 0.6, 0.25, 0.06, 6.0]),
            'spr': st.lists(st.sampled_from([2, 3, 4, 5, 6, 7, 8, 9, 10, 11, 12, 3, 4, 6, 8, 16, 24, 36]), min_size=rings, max_size=rings),
            'widths': st.lists(st.sampled_from([1.0, 0.9, 0.5, 1.5, 0.31, 0.05]), min_size=rings, max_size=rings),
            'radial_gap': st.sampled_from([0.0, 0.007, 0.02, 0.05, 0.08]),
            'azimuthal_gap': st.sampled_from([None, None, 0.0, 0.01, 0.05]),
            'rotation': st.one_of(st.none(), rot1, rot1, st.lists(rot1, min_size=rings, max_size=rings), st.lists(rot1, min_size=rings, max_size=rings)),
            'ro_samples': st.integers(40, 110 if tier == 'quick' else 160), 'pad': st.integers(0, 6), 'parity': st.sampled_from(['odd', 'even']),
            'list_args': st.booleans(), **common,
        })

    def body_exact(rings):
        """sample spacing a binary fraction, centre radius / ring widths / radial gap whole numbers of samples (many of the
        cumulative radii hypotenuses of Pythagorean triples: 5, 10, 13, 15, 17, 20, 25 ...): samples lie exactly on the ring
        radii, on the axes and off them, and with radial_gap = 0 on a radius shared by two rings"""
        def mk(t):
            e, rcu, wu, gu, rest = t
            dx = 2.0 ** -e
            d = dict(rest)
            d.update({'dx': dx, 'center_diameter': 2 * rcu * dx, 'widths': [w * dx for w in wu], 'radial_gap': gu * dx, 'ro_samples': 0})
            return d
        rest = st.fixed_dictionaries({
            'spr': st.lists(st.sampled_from([2, 3, 4, 5, 6, 7, 8, 12, 16]), min_size=rings, max_size=rings),
            'azimuthal_gap': st.sampled_from([None, None, 0.0, 0.3]),
            'rotation': st.one_of(st.none(), rot1, st.lists(rot1, min_size=rings, max_size=rings)),
            'pad': st.integers(0, 4), 'parity': st.sampled_from(['odd', 'even']), 'list_args': st.booleans(), **common})
        return st.tuples(st.integers(0, 3), st.sampled_from([5, 10, 13, 15, 17, 20, 25, 4, 8]),
                         st.lists(st.sampled_from([5, 10, 3, 4, 8, 12, 15, 2, 7]), min_size=rings, max_size=rings),
                         st.sampled_from([0, 0, 0, 1, 3]), rest).map(mk)
    return st.one_of(st.sampled_from([1, 2, 2, 3]).flatmap(body), st.sampled_from([1, 2, 2, 3]).flatmap(body),
                     st.sampled_from([1, 2, 2, 3]).flatmap(body_exact))


def check_keystone_tiling(case, ctx):
    check_keystone(case, ctx)


def strat_keystone_opd(tier):
    rot1 = st.one_of(st.none(), st.integers(0, 3599).map(lambda v: ((v * 2654435761) % 3600) / 10), WIDEROT, st.sampled_from(ROT_SPECIAL))

    def body(rings):
        return st.fixed_dictionaries({
            'center_diameter': st.sampled_from([1.0, 2.4, 0.6]),
            'spr': st.lists(st.sampled_from([2, 3, 4, 5, 6, 7, 8, 9]), min_size=rings, max_size=rings),
            'widths': st.lists(st.sampled_from([1.0, 0.9, 0.5]), min_size=rings, max_size=rings),
            'radial_gap': st.sampled_from([0.0, 0.02, 0.05]), 'azimuthal_gap': st.sampled_from([None, 0.0, 0.03]),
            'rotation': st.one_of(st.none(), st.lists(rot1, min_size=rings, max_size=rings)),
            'ro_samples': st.integers(40, 80), 'pad': st.integers(0, 4), 'parity': st.sampled_from(['odd', 'even']), 'list_args': st.booleans(),
            'cbasis': st.sampled_from(['zernike', 'zernike', 'hopkins', 'xy']), 'sbasis': st.sampled_from(['zernike', 'hopkins', 'xy']),
            'picks': st.lists(st.integers(0, 5), min_size=0, max_size=3), 'piston_at': st.integers(0, 3), 'seed': U.seeds,
            'probe': st.lists(st.integers(0, 30), min_size=1, max_size=3),
            **{k: v for k, v in opd_extras().items() if k not in ('exclude_form', 'exclude_order')},
            'seq_form': st.sampled_from(['list', 'list', 'tuple', 'ndarray', 'generator']),
        })
    return st.integers(1, 2).flatmap(body)


def check_keystone_opd(case, ctx):
    """CompositeKeystoneAperture.prepare_opd_bases / compose_opd: piston support == own mask (centre and segments), no leakage, linear."""
    keep = Keep(ctx)
    ka, (rc, rings, widths, gap, dx, n, x, y) = build_keystone(case, ctx, keep)
    nseg = sum(case['spr'])
    ctx.require(len(ka.segment_masks) == nseg, 'keystone:count', 'len(segment_masks) = %d, expected %d' % (len(ka.segment_masks), nseg))
    corders, cpk = orders_of(case['cbasis'], case['picks'], case['piston_at'])
    sorders, spk = orders_of(case['sbasis'], case['picks'][::-1], case['piston_at'] + 1)
    ctx.label('center:' + case['cbasis'], 'segment:' + case['sbasis'], 'layout:' + case.get('layout', 'C'))
    ctx.nt(True)
    kw = {}
    if case['sbasis'] == 'xy':
        kw = {'rotate_xyaxes': True, 'segment_basis_kwargs': {'cartesian_grid': False}}   # the documented way to use x,y bases on rotated segments
    keep.result('amp', np.asarray(ka.amp))
    keep.result('centre mask', np.asarray(ka.center_mask))
    for i, m in enumerate(ka.segment_masks):
        keep.result('mask of segment %d' % i, np.asarray(m))
    if case.get('reprepare', False):
        # the same aperture object prepared first with the two bases exchanged and other orders
        ctx.label('prepared-twice')
        kw2 = {'rotate_xyaxes': True, 'segment_basis_kwargs': {'cartesian_grid': False}} if case['cbasis'] == 'xy' else {}
        ctx.call(ka.prepare_opd_bases, basis_of(case['sbasis']), BASES[case['sbasis']][:3], basis_of(case['cbasis']), BASES[case['cbasis']][1:5], **kw2)
    ctx.call(ka.prepare_opd_bases, basis_of(case['cbasis']), list(corders), basis_of(case['sbasis']), list(sorders), **kw)
    pms = [placed((n, n), w, m) for w, m in zip(ka.segment_windows, ka.segment_masks)]
    pmc = placed((n, n), ka.center_window, ka.center_mask)
    probe = sorted(set(p % nseg for p in case['probe']))
    zc = np.zeros(len(corders))
    check_opd_common(ctx, lambda c, **k: ka.compose_opd(zc.copy(), c, **k), nseg, len(sorders), spk, pms, (n, n), case['seed'], 'keystone', probe, case)
    ctx.require(not zc.any(), 'keystone:argument-modified', 'compose_opd changed the centre coefficients it was given')
    # centre: piston, leakage, linearity with the segments held at zero
    zs = np.zeros((nseg, len(sorders)))
    check_opd_common(ctx, lambda c, **k: ka.compose_opd(next(iter(c)), zs.copy(), **k), 1, len(corders), cpk, [pmc], (n, n), case['seed'] + 1, 'keystone:center', [0], case)
    if case.get('tie') is not None:
        # the same piston on the centre and on every segment (a global piston), and the centre's coefficient vector being the very
        # row object / an equal copy of the segments' rows when both bases have as many modes: the map is the piston on every
        # sample owned by one segment, nothing elsewhere, and the sum of the centre-only and the segments-only compositions
        ctx.label('global-piston:centre+segments')
        rr = U.rng_of(case['seed'], 187)
        v = 1.0 if case['tie']['kind'] == 'unit-piston' else float(rr.uniform(0.5, 2.0) * (-1) ** int(case['tie'].get('pick', 0)) * 10.0 ** int((case.get('cexp') or [0])[0]))
        cc = np.zeros(len(corders))
        cc[cpk] = v
        sc = np.zeros((nseg, len(sorders)))
        sc[:, spk] = v
        if len(corders) == len(sorders) and cpk == spk and case['tie'].get('same_object', False):
            ctx.label('global-piston:centre-row-is-the-segments-row-object')
            seg_arg = [cc] * nseg
        else:
            seg_arg = sc.copy()
        o = np.asarray(ctx.call(ka.compose_opd, cc, seg_arg))
        ctx.require(cc[cpk] == v and np.count_nonzero(cc) == 1 and (isinstance(seg_arg, list) or np.array_equal(seg_arg, sc)), 'keystone:argument-modified',
                    'compose_opd changed the coefficients of a global piston')
        U.check_shape(o, (n, n), 'keystone:opd')
        owners = pmc.astype(np.int32)
        for pm in pms:
            owners += pm
        leak = (o != 0) & (owners == 0)
        hole = (o == 0) & (owners > 0)
        ctx.require(not leak.any() and not hole.any(), 'keystone:piston-support:equal-rows', 'piston of %g on the centre and on all %d segments: OPD non-zero on %d samples outside every '
                    'segment, zero on %d samples of the segments' % (v, nseg, int(leak.sum()), int(hole.sum())))
        oc = np.asarray(ctx.call(ka.compose_opd, cc.copy(), np.zeros((nseg, len(sorders)))))
        os_ = np.asarray(ctx.call(ka.compose_opd, np.zeros(len(corders)), sc.copy()))
        U.check_close(o, oc + os_, 0, 'keystone:opd-linear:equal-rows', 'global piston of %g: compose(centre, segments) vs compose(centre, 0) + compose(0, segments)' % v, atol=1e-12 * abs(v))
    keep.verify('keystone')


# ---- primitives ------------------------------------------------------------------------------------------------------
GRID_DTYPES = ['f64', 'f64', 'f64', 'f32', 'i64', 'i32']
FRAME_KINDS = ['rotated', 'rotated', 'rotated', 'sheared', 'anamorphic', 'anamorphic+sheared', 'general', 'order-only', 'same-object']
FRAME_ORDERS = ['grid', 'grid', 'grid', 'rows-reversed', 'cols-reversed', 'both-reversed', 'rows-permuted', 'cols-permuted', 'both-permuted', 'transposed']


def frame_s():
    """the coordinate frame the sample grid is expressed in when it is handed to a primitive: None (the plain grid) or an affine image of
    it - rotated by any angle ("rotate the coordinates, then shade"), sheared along x or y, scaled differently in x and y, all three - with
    the samples stored in another order (axes reversed, rows / columns permuted, transposed = indexing='ij'); 'same-object': x and y are
    one and the same array object (all samples on the line y = x)"""
    rot = st.one_of(st.sampled_from([30.0, 45.0, 90.0, -90.0, 180.0, 60.0, 17.0]), st.integers(-1800, 1800).map(lambda v: v / 10))
    sc = st.sampled_from([0.5, 0.8, 1.0, 1.25, 2.0, 3.0])
    return st.one_of(st.none(), st.fixed_dictionaries({
        'kind': st.sampled_from(FRAME_KINDS), 'rot': rot, 'shear': st.sampled_from([0.3, -0.3, 0.5, 1.0, -1.0, 0.1]), 'shear_axis': st.sampled_from(['x', 'y']),
        'scale': st.tuples(sc, sc).map(list), 'order': st.sampled_from(FRAME_ORDERS), 'pseed': st.integers(0, 65535)}))


def frame_matrix(fr, whole=False):
    """2x2 matrix of the frame: scale, then shear, then rotation.  whole=True (integer coordinate arrays): entries that keep whole
    numbers whole - scales rounded to >= 1, shear +-1, rotation snapped to a multiple of 90 degrees"""
    kind = fr['kind']
    M = np.eye(2)
    if kind in ('anamorphic', 'anamorphic+sheared', 'general'):
        sx, sy = (float(v) for v in fr['scale'])
        if whole:
            sx, sy = max(1.0, float(round(sx))), max(1.0, float(round(sy)))
        M = np.diag([sx, sy]) @ M
    if kind in ('sheared', 'anamorphic+sheared', 'general'):
        sh = float(fr['shear'])
        if whole:
            sh = 1.0 if sh > 0 else -1.0
        M = (np.array([[1.0, sh], [0.0, 1.0]]) if fr['shear_axis'] == 'x' else np.array([[1.0, 0.0], [sh, 1.0]])) @ M
    if kind in ('rotated', 'general'):
        a = float(fr['rot'])
        if whole:
            c_, s_ = [(1.0, 0.0), (0.0, 1.0), (-1.0, 0.0), (0.0, -1.0)][int(round(a / 90.0)) % 4]
        else:
            c_, s_ = math.cos(math.radians(a)), math.sin(math.radians(a))
        M = np.array([[c_, -s_], [s_, c_]]) @ M
    return M


def frame_separable(fr):
    """x depends on the column only and y on the row only (what optimize_xy_separable and 1-D coordinate axes presuppose)"""
    return fr is None or (fr['kind'] in ('anamorphic', 'order-only') and fr['order'] != 'transposed')


def framed(x0, y0, fr, whole=False):
    """float64 coordinate arrays of the samples of the plain grid (x0, y0) in the frame fr, stored in the frame's sample order"""
    if fr is None:
        return x0, y0
    if fr['kind'] == 'same-object':
        X, Y = x0, x0
    else:
        M = frame_matrix(fr, whole)
        X, Y = M[0, 0] * x0 + M[0, 1] * y0, M[1, 0] * x0 + M[1, 1] * y0
    order = fr['order']
    ny, nx = x0.shape

    def reorder(A):
        if order in ('rows-reversed', 'both-reversed'):
            A = A[::-1]
        if order in ('cols-reversed', 'both-reversed'):
            A = A[:, ::-1]
        if order in ('rows-permuted', 'both-permuted'):
            A = A[U.rng_of(fr['pseed'], 301).permutation(ny)]
        if order in ('cols-permuted', 'both-permuted'):
            A = A[:, U.rng_of(fr['pseed'], 302).permutation(nx)]
        if order == 'transposed':
            A = A.T
        return np.ascontiguousarray(A)
    return reorder(X), reorder(Y)


def prim_extras():
    """memory layout and dtype of the coordinate arrays handed to the primitive; size parameters snapped to whole numbers of
    samples (samples exactly on the analytic boundary); the frame the coordinates are expressed in"""
    return {'layout': U.layouts, 'gdtype': st.sampled_from(GRID_DTYPES), 'snap': st.booleans(), 'frame': frame_s()}


class PG:
    """coordinate grid of a primitive case: .x .y as handed to prysm (frame / layout / dtype of the case), .xe .ye the same values
    as float64, .dx, .f32, band(scale) = don't-care distance to the analytic boundary.  .plain: the coordinates are the plain grid
    (grid symmetries apply); .separable: x depends on the column and y on the row only; .xs .ys (.xse .yse): the coordinates for the
    routines that presuppose that (offset_circle, rectangle(angle=0): optimize_xy_separable) - the framed ones when the frame is
    separable, the plain grid otherwise"""

    def __init__(self, case, ctx, keep):
        ny, nx = case['shape']
        self.dt = case.get('gdtype', 'f64')
        self.layout = case.get('layout', 'C')
        self.dx = float(case['dx'])
        whole = self.dt in ('i64', 'i32')
        if whole:
            self.dx = max(1.0, float(round(self.dx)))       # integer arrays: whole-number coordinates
        self.x, self.y = grid(ny, nx, self.dx, self.layout, self.dt)
        self.frame = case.get('frame')
        self.plain = self.frame is None
        self.separable = frame_separable(self.frame)
        self.half = min(ny, nx) // 2 * self.dx
        self.xs, self.ys = self.x, self.y
        if not self.plain:
            x0, y0 = grid(ny, nx, self.dx)
            X, Y = framed(x0, y0, self.frame, whole)
            if self.dt in ('f32', 'i64', 'i32'):
                dt = {'f32': np.float32, 'i64': np.int64, 'i32': np.int32}[self.dt]
                X, Y = X.astype(dt), Y.astype(dt)
            self.x = U.relayout(X, self.layout)
            self.y = self.x if self.frame['kind'] == 'same-object' else U.relayout(Y, self.layout)
            if self.separable:
                self.xs, self.ys = self.x, self.y
            ctx.label('frame:' + self.frame['kind'], 'sample-order:' + self.frame['order'], 'frame:separable' if self.separable else 'frame:not-separable')
        else:
            ctx.label('frame:plain-grid')
        self.xe, self.ye = self.x.astype(np.float64), self.y.astype(np.float64)
        self.xse, self.yse = self.xs.astype(np.float64), self.ys.astype(np.float64)
        self.ext = float(max(np.abs(self.xe).max(), np.abs(self.ye).max()))
        self.f32 = self.dt == 'f32'
        self.snap = bool(case.get('snap', False))
        self.exact = self.snap and not self.f32
        keep.arg('x', self.x), keep.arg('y', self.y)
        if self.xs is not self.x:
            keep.arg('x (plain grid)', self.xs), keep.arg('y (plain grid)', self.ys)
        ctx.label('grid-dtype:' + self.dt, 'layout:' + self.layout, 'snapped-to-samples' if self.snap else 'generic-size')

    def band(self, scale):
        # float32 coordinates: the routines compare / rotate in float32 (a Python-float radius is rounded to float32 too)
        return (1e-5 if self.f32 else 1e-9) * max(scale, self.ext)

    def size(self, v):
        """a size parameter, snapped to a whole number of samples when the case says so (k*dx is computed like the sample
        positions, so samples lie exactly on the boundary)"""
        return float(round(v / self.dx)) * self.dx if self.snap else v

    def radial(self, x=None, y=None):
        """the radial coordinate array a caller would hand to circle / annulus: hypot of the coordinate arrays, their dtype and layout"""
        r = np.hypot(self.x if x is None else x, self.y if y is None else y)
        return U.relayout(r, self.layout)


def sym_view(a):
    """largest sub-array centred on the origin sample n//2 (drop index 0 of even axes)"""
    ny, nx = a.shape
    return a[(1 - ny % 2):, (1 - nx % 2):]


def compare_mask(ctx, got, inside, margin, band, bucket, what):
    """got (bool array) must equal `inside` wherever |margin| > band"""
    got = np.asarray(got)
    U.check_shape(got, inside.shape, bucket)
    g = got != 0
    care = np.abs(margin) > band
    bad = care & (g != inside)
    if bad.any():
        yy, xx = np.nonzero(bad)
        return '%s: %d samples on the wrong side of the analytic boundary (first: row %d col %d, margin %.3g, mask says %s)' % (
            what, len(yy), yy[0], xx[0], margin[yy[0], xx[0]], bool(g[yy[0], xx[0]]))
    return None


def check_symmetry(ctx, mask, margin, band, ops, bucket, what):
    """mask must be invariant under the grid symmetries in ops (outside the don't-care band)"""
    m = sym_view(np.asarray(mask) != 0)
    care = sym_view(np.abs(margin) > band)
    for op in ops:
        if op in ('rot90', 'transpose') and m.shape[0] != m.shape[1]:
            continue
        f = {'flipx': lambda a: a[:, ::-1], 'flipy': lambda a: a[::-1, :], 'rot180': lambda a: a[::-1, ::-1],
             'rot90': lambda a: np.rot90(a), 'transpose': lambda a: a.T}[op]
        diff = (m != f(m)) & care & f(care)
        ctx.require(not diff.any(), bucket + ':symmetry', '%s is not invariant under %s about the origin sample: %d samples differ' % (what, op, int(diff.sum())))


def shape_s(lo, N):
    """grid shapes: both axes lo..N; rarely a size-1 axis, or more than 2**16 samples with prime axis lengths (square-ish and thin)"""
    ax = st.integers(lo, N)
    usual = st.tuples(ax, ax).map(list)
    return st.one_of(*([usual] * 12), st.tuples(st.just(1), ax).map(list), st.tuples(ax, st.just(1)).map(list),
                     st.sampled_from([[257, 263], [3, 21851], [21851, 3], [1, 65537]]))


DXS = [1.0, 0.1, 0.037, 2.5, 1.0, 0.1, 0.037, 1e-6, 1e4]      # sample spacings: order 1, and micrometres in metres / large units


def strat_round(tier):
    N = 40 if tier == 'quick' else 96
    return st.fixed_dictionaries({
        'shape': shape_s(5, N), 'dx': st.sampled_from(DXS),
        'rad': st.integers(0, 1500).map(lambda v: v / 1000), 'rad2': st.integers(0, 1500).map(lambda v: v / 1000),   # fractions of the half-extent
        'center': st.one_of(st.just([0.0, 0.0]), st.tuples(st.integers(-50, 50), st.integers(-50, 50)).map(lambda t: [t[0] / 10, t[1] / 10]),
                            st.tuples(st.integers(-5, 5), st.integers(-5, 5)).map(lambda t: [float(t[0]), float(t[1])])),  # in samples
        'center_form': st.sampled_from(['float', 'float', 'int']),       # a whole-number centre written as Python ints: coordinate - centre keeps the dtype of the grid
        **prim_extras(),
    })


def check_round(case, ctx):
    """circle / annulus / offset_circle / truecircle: analytic membership, growth with radius, D4 symmetry."""
    from prysm import geometry as G
    keep = Keep(ctx)
    g = PG(case, ctx, keep)
    x, y, dx = g.xs, g.ys, g.dx           # (offset_circle: optimize_xy_separable)
    ny, nx = g.x.shape
    half = g.half
    r1, r2 = sorted([g.size(case['rad'] * half), g.size(case['rad2'] * half)])
    rarg = keep.arg('r', g.radial())      # handed to prysm: radial coordinate of the samples in the frame of the case
    r = rarg.astype(np.float64)           # its values
    band = g.band(max(half, r2, dx))
    ctx.label('odd' if ny % 2 and nx % 2 else 'has-even-axis', 'square' if ny == nx else 'nonsquare', 'offset' if any(case['center']) else 'centred')
    c2 = keep.result('circle(r2)', ctx.call(G.circle, r2, rarg))
    ctx.nt(bool(np.any(c2)) and not bool(np.all(c2)))
    msg = compare_mask(ctx, c2, r <= r2, r - r2, band, 'circle', 'circle(radius=%g)' % r2)
    ctx.require(msg is None, 'circle:membership', msg or '')
    c1 = ctx.call(G.circle, r1, rarg)
    ctx.require(not (np.asarray(c1) & ~np.asarray(c2)).any(), 'circle:monotone', 'circle(%g) is not contained in circle(%g)' % (r1, r2))
    if g.plain:
        check_symmetry(ctx, c2, r - r2, band, ['flipx', 'flipy', 'rot180', 'rot90', 'transpose'], 'circle', 'circle(%g)' % r2)
    # annulus (inclusive on both radii)
    an = keep.result('annulus(r1, r2)', ctx.call(G.annulus, r1, r2, rarg))
    inside = (r >= r1) & (r <= r2)
    margin = np.minimum(np.abs(r - r1), np.abs(r - r2))
    msg = compare_mask(ctx, an, inside, margin, band, 'annulus', 'annulus(%g, %g)' % (r1, r2))
    ctx.require(msg is None, 'annulus:membership', msg or '')
    r3 = r2 + 0.37 * dx
    an_big = ctx.call(G.annulus, r1, r3, rarg)
    ctx.require(not (np.asarray(an) & ~np.asarray(an_big)).any(), 'annulus:monotone', 'annulus grows with rout: (%g,%g) not inside (%g,%g)' % (r1, r2, r1, r3))
    an_small = ctx.call(G.annulus, r1 + 0.41 * dx, r2, rarg)
    ctx.require(not (np.asarray(an_small) & ~np.asarray(an)).any(), 'annulus:monotone', 'annulus shrinks with rin')
    if g.plain:
        check_symmetry(ctx, an, margin, band, ['flipx', 'flipy', 'rot180', 'rot90', 'transpose'], 'annulus', 'annulus(%g,%g)' % (r1, r2))
    # offset circle
    cx, cy = case['center'][0] * dx, case['center'][1] * dx
    if case.get('center_form', 'float') == 'int' and float(cx).is_integer() and float(cy).is_integer() and max(abs(cx), abs(cy)) < 2 ** 31:
        cx, cy = int(cx), int(cy)
        ctx.label('offset_circle:centre-as-python-ints')
    oc = keep.result('offset_circle(r2)', ctx.call(G.offset_circle, r2, x, y, (cx, cy)))
    ro = np.hypot(g.xse - cx, g.yse - cy)
    msg = compare_mask(ctx, oc, ro <= r2, ro - r2, band, 'offset_circle', 'offset_circle(%g, center=(%g,%g))' % (r2, cx, cy))
    ctx.require(msg is None, 'offset_circle:membership', msg or '')
    oc1 = ctx.call(G.offset_circle, r1, x, y, (cx, cy))
    ctx.require(not (np.asarray(oc1) & ~np.asarray(oc)).any(), 'offset_circle:monotone', 'offset_circle(%g) not inside offset_circle(%g)' % (r1, r2))
    # offset by whole samples = the centred circle moved by that many samples
    sx, sy = case['center']
    if g.plain and float(sx).is_integer() and float(sy).is_integer() and abs(sx) < nx and abs(sy) < ny:
        sx, sy = int(sx), int(sy)
        ref = np.zeros_like(np.asarray(c2))
        src = np.asarray(c2)
        ys = slice(max(0, sy), min(ny, ny + sy))
        yd = slice(max(0, -sy), min(ny, ny - sy))
        xs = slice(max(0, sx), min(nx, nx + sx))
        xd = slice(max(0, -sx), min(nx, nx - sx))
        ref[ys, xs] = src[yd, xd]
        # only samples whose source lies inside the grid are comparable
        known = np.zeros_like(ref)
        known[ys, xs] = True
        diff = (np.asarray(oc) != ref) & known & (np.abs(ro - r2) > band)
        ctx.require(not diff.any(), 'offset_circle:shift', 'offset by (%d,%d) samples is not the shifted centred circle: %d samples differ' % (sx, sy, int(diff.sum())))
    if cx == 0 and cy == 0 and g.plain:
        # centred: mirror images of a sample have bit-identical coordinates, so the symmetry holds for every sample, the
        # ones exactly on the boundary included (no don't-care band) unless the coordinates are float32
        ctx.label('offset_circle:centred')
        check_symmetry(ctx, oc, ro - r2, -1.0 if not g.f32 else band, ['flipx', 'flipy', 'rot180'], 'offset_circle', 'offset_circle(%g, centre 0)' % r2)
    if g.exact:
        ctx.tally('samples_exactly_on_the_circle', int((r == r2).sum()))
    # truecircle on a grid normalised to [-1, 1]
    n = min(ny, 128)       # (its own square grid; the long axes of the thin shapes are not squared)
    xt, yt = grid(n, n, 2.0 / n, g.layout, 'f32' if g.f32 else None)
    rtarg = keep.arg('r (truecircle)', U.relayout(np.hypot(xt, yt), g.layout))
    rt = rtarg.astype(np.float64)
    eps_t = 1e-5 if g.f32 else 1e-12
    rad = case['rad'] if case['rad'] <= 1.2 else case['rad'] - 0.5
    tc = np.asarray(ctx.call(G.truecircle, rad, rtarg))
    U.check_shape(tc, (n, n), 'truecircle')
    px = 2.0 / n
    if rad == 0:
        ctx.require(not tc.any(), 'truecircle:zero-radius', 'truecircle(0) is not empty')
    else:
        ctx.require(float(tc.min()) >= 0 and float(tc.max()) <= 1, 'truecircle:range', 'values outside [0,1]: min %r max %r' % (float(tc.min()), float(tc.max())))
        ins = rt <= rad - px / 2 - eps_t
        out = rt >= rad + px / 2 + eps_t
        ctx.require(np.all(tc[ins] == 1), 'truecircle:inside', 'truecircle(%g) < 1 at %d samples with r <= radius - px/2' % (rad, int((tc[ins] != 1).sum())))
        ctx.require(np.all(tc[out] == 0), 'truecircle:outside', 'truecircle(%g) > 0 at %d samples with r >= radius + px/2' % (rad, int((tc[out] != 0).sum())))
        o = np.argsort(rt, axis=None, kind='stable')
        v = tc.ravel()[o]
        ctx.require(np.all(np.diff(v) <= 1e-12), 'truecircle:monotone', 'truecircle(%g) is not non-increasing in r' % rad)
    keep.verify('round-masks')


def strat_polygon(tier):
    N = 40 if tier == 'quick' else 80
    return st.fixed_dictionaries({
        'shape': shape_s(7, N), 'dx': st.sampled_from(DXS),
        'sides': st.sampled_from([3, 4, 5, 6, 7, 8, 9, 10, 11, 12, 3, 4, 6]),
        'rad': st.integers(50, 1400).map(lambda v: v / 1000), 'grow': st.integers(1, 400).map(lambda v: v / 1000),
        'rotation': st.one_of(st.just(0.0), st.sampled_from([0.0, 90.0, 30.0, 45.0, 180.0]), st.integers(-7200, 10800).map(lambda v: v / 10)),
        'center': st.one_of(st.just([0.0, 0.0]), st.tuples(st.integers(-40, 40), st.integers(-40, 40)).map(lambda t: [t[0] / 10, t[1] / 10])),
        **prim_extras(),
    })


def check_polygon(case, ctx):
    """regular_polygon: membership vs the analytic half-plane intersection, growth with radius, mirror / rotation symmetry."""
    from prysm import geometry as G
    keep = Keep(ctx)
    g = PG(case, ctx, keep)
    x, y, dx = g.x, g.y, g.dx
    ny, nx = x.shape
    half = g.half
    sides, rot = case['sides'], case['rotation']
    R = g.size(case['rad'] * half)
    if R == 0:
        R = dx
    c = (case['center'][0] * dx, case['center'][1] * dx)
    ctx.label('sides:%d' % sides if sides in (3, 4, 6) else 'sides:other', 'rot0' if rot == 0 else 'rotated', 'offset' if any(case['center']) else 'centred')
    m = keep.result('regular_polygon(R)', np.asarray(ctx.call(G.regular_polygon, sides, R, x, y, center=c, rotation=rot)))
    mg = poly_margin(g.xe, g.ye, sides, R, c, rot)
    ctx.nt(bool(np.any(m)) and not bool(np.all(m)))
    half = max(half, g.ext)
    band = 1e-7 * R + 1e-12 * half
    msg = compare_mask(ctx, m, mg < 0, mg, band, 'regular_polygon', 'regular_polygon(sides=%d, radius=%g, center=%r, rotation=%g)%s' % (
        sides, R, c, rot, '' if g.plain else ' on coordinates in the frame %r' % (g.frame,)))
    ctx.require(msg is None, 'regular_polygon:membership' + ('' if g.plain else ':separable-frame' if g.separable else ':non-separable-coordinates'), msg or '')
    if g.separable:
        # the coordinates may also be given as the two 1-D axes of the grid (documented: "2D or 1D")
        x1, y1 = keep.arg('1-D x', U.relayout(x[0, :], g.layout)), keep.arg('1-D y', U.relayout(y[:, 0], g.layout))
        m1d = ctx.call(G.regular_polygon, sides, R, x1, y1, center=c, rotation=rot)
        U.check_equal(np.asarray(m1d), np.asarray(m), 'regular_polygon:1d-coordinates', 'mask from 1-D x, y differs from the mask on the 2-D grid')
    # vertex 0 at (0, +radius) for rotation 0: the topmost point of the analytic shape is at distance R above the centre
    R2 = R * (1 + case['grow'])
    m2 = ctx.call(G.regular_polygon, sides, R2, x, y, center=c, rotation=rot)
    mg2 = poly_margin(g.xe, g.ye, sides, R2, c, rot)
    viol = (np.asarray(m) & ~np.asarray(m2)) & (np.abs(mg) > band) & (np.abs(mg2) > 1e-7 * R2 + 1e-12 * half)
    ctx.require(not viol.any(), 'regular_polygon:monotone', 'polygon of radius %g not inside polygon of radius %g: %d samples' % (R, R2, int(viol.sum())))
    if not any(case['center']) and g.plain:
        ops = []
        r_ = rot % 360
        step = 360.0 / sides
        # mirror about the y axis (x -> -x) when a vertex or an edge midpoint is on the +y axis
        if (r_ % (step / 2)) == 0:
            ops.append('flipx')
        if ((r_ - 90) % (step / 2)) == 0:
            ops.append('flipy')
        if sides % 2 == 0:
            ops.append('rot180')
        if sides % 4 == 0:
            ops.append('rot90')
        check_symmetry(ctx, m, mg, band, ops, 'regular_polygon', 'regular_polygon(sides=%d, rotation=%g)' % (sides, rot))
        for o_ in ops:
            ctx.label('sym:' + o_)
    keep.verify('regular_polygon')


def _rot(x, y, deg):
    a = math.radians(deg)
    return x * math.cos(a) - y * math.sin(a), x * math.sin(a) + y * math.cos(a)


def strat_rect(tier):
    N = 40 if tier == 'quick' else 96
    frac = st.integers(0, 1300).map(lambda v: v / 1000)
    return st.fixed_dictionaries({
        'shape': shape_s(5, N), 'dx': st.sampled_from(DXS),
        'w': frac, 'h': st.one_of(st.none(), frac), 'grow': st.integers(1, 400).map(lambda v: v / 1000),
        # (also angles next to the special cases 0 and 90 that the routine takes on exact equality)
        'angle': st.one_of(st.just(0.0), st.just(90.0), st.sampled_from([45.0, 30.0, 180.0, -90.0, 270.0]), st.integers(-7200, 10800).map(lambda v: v / 10), st.sampled_from([1e-6, -1e-6, 1e-12, 90.00001, 89.99999, -1e-9, 360.0, 450.0])),
        'a': frac, 'b': frac, 'eangle': st.one_of(st.just(0.0), st.sampled_from([90.0, 45.0, 180.0]), st.integers(-7200, 10800).map(lambda v: v / 10), st.sampled_from([1e-6, -1e-6, 1e-12, 90.00001, 89.99999, -1e-9, 360.0, 450.0])),
        **prim_extras(),
    })


def check_rect_ellipse(case, ctx):
    """rectangle (half-extents, inclusive) and rotated_ellipse (semi-axes, 0/1 floats): analytic membership for one rotation sense, growth, mirror symmetry."""
    from prysm import geometry as G
    keep = Keep(ctx)
    g = PG(case, ctx, keep)
    dx = g.dx
    half = g.half
    w = g.size(case['w'] * half)
    h = w if case['h'] is None else g.size(case['h'] * half)
    ang = case['angle']
    # angle 0 goes through optimize_xy_separable (x read from the first row, y from the first column): coordinates of a separable frame;
    # any other angle is evaluated sample by sample: coordinates in any frame
    x, y, xe, ye = (g.xs, g.ys, g.xse, g.yse) if ang == 0 else (g.x, g.y, g.xe, g.ye)
    ny, nx = x.shape
    band = g.band(max(half, w, h))
    ctx.label('rect-angle:%s' % ('0' if ang == 0 else '90' if ang == 90 else 'other'), 'square-rect' if case['h'] is None else 'rect')
    kw = {} if case['h'] is None else {'height': h}
    fsuf = '' if g.plain else ':separable-frame' if g.separable else ':non-separable-coordinates'
    m = keep.result('rectangle(w, h)', np.asarray(ctx.call(G.rectangle, w, x, y, angle=ang, **kw)))
    U.check_shape(m, (ny, nx), 'rectangle')
    nontriv = bool(np.any(m)) and not bool(np.all(m))

    def rect_model(sense):
        xr, yr = _rot(xe, ye, sense * ang)
        mg = np.maximum(np.abs(xr) - w, np.abs(yr) - h)
        return mg <= 0, mg
    msgs = []
    for sense in (+1, -1):
        inside, mg = rect_model(sense)
        msg = compare_mask(ctx, m, inside, mg, band * (1 if ang in (0, 90) else 100), 'rectangle', 'rectangle(width=%g, height=%g, angle=%g)' % (w, h, ang))
        if msg is None:
            break
        msgs.append(msg)
    else:
        ctx.fail('rectangle:membership:angle=%s' % ('0' if ang == 0 else '90' if ang == 90 else 'other') + fsuf, ' / '.join(msgs))
    m2 = ctx.call(G.rectangle, w * (1 + case['grow']), x, y, angle=ang, **({} if case['h'] is None else {'height': h * (1 + case['grow'])}))
    inside2, mg2 = rect_model(sense)
    viol = (np.asarray(m) & ~np.asarray(m2)) & (np.abs(mg) > 100 * band)
    ctx.require(not viol.any(), 'rectangle:monotone', 'rectangle does not grow with its half-extents (%d samples lost)' % int(viol.sum()))
    if not g.plain:
        pass        # the grid symmetries belong to the plain grid
    elif ang in (0, 90):
        # |x| <= w, |y| <= h on the coordinates themselves (90: the two swapped): mirror images of a sample have bit-identical
        # coordinates, so the symmetry holds for every sample, those exactly on an edge included
        ctx.label('rectangle:strict-symmetry')
        if g.exact:
            ctx.tally('samples_exactly_on_a_rectangle_edge', int((mg == 0).sum()))
        check_symmetry(ctx, m, mg, -1.0, ['flipx', 'flipy', 'rot180'], 'rectangle', 'rectangle(%g,%g,angle=%g)' % (w, h, ang))
    elif ang % 90 == 0:
        check_symmetry(ctx, m, mg, band, ['flipx', 'flipy', 'rot180'], 'rectangle', 'rectangle(%g,%g,angle=%g)' % (w, h, ang))
    else:
        check_symmetry(ctx, m, mg, 100 * band, ['rot180'], 'rectangle', 'rectangle(%g,%g,angle=%g)' % (w, h, ang))
    # ellipse
    a, b = sorted([g.size(case['a'] * half), g.size(case['b'] * half)], reverse=True)
    eb = 1e-5 if g.f32 else 1e-9
    ea = case['eangle']
    x, y, xe, ye = g.x, g.y, g.xe, g.ye
    ny, nx = x.shape
    if b > 0:
        e = keep.result('rotated_ellipse(a, b)', np.asarray(ctx.call(G.rotated_ellipse, a, b, x, y, major_axis_angle=ea)))
        U.check_shape(e, (ny, nx), 'rotated_ellipse')
        ctx.require(set(np.unique(e).tolist()) <= {0.0, 1.0}, 'rotated_ellipse:values', 'values other than 0/1: %r' % (np.unique(e)[:5],))
        nontriv = nontriv or (bool(e.any()) and not bool(e.all()))
        msgs = []
        for sense in (+1, -1):
            xr, yr = _rot(xe, ye, sense * ea)
            q = (xr / a) ** 2 + (yr / b) ** 2
            msg = compare_mask(ctx, e, q <= 1, q - 1, eb, 'rotated_ellipse', 'rotated_ellipse(%g, %g, angle=%g)' % (a, b, ea))
            if msg is None:
                break
            msgs.append(msg)
        else:
            ctx.fail('rotated_ellipse:membership' + fsuf, ' / '.join(msgs))
        e2 = np.asarray(ctx.call(G.rotated_ellipse, a * (1 + case['grow']), b * (1 + case['grow']), x, y, major_axis_angle=ea))
        viol = (e != 0) & (e2 == 0) & (np.abs(q - 1) > eb)
        ctx.require(not viol.any(), 'rotated_ellipse:monotone', 'ellipse does not grow with its semi-axes')
        # major axis along x: the quadratic form is evaluated on x^2 and y^2, identical for the mirror images of a sample
        if g.plain:
            check_symmetry(ctx, e, q - 1, -1.0 if ea == 0 else eb, ['rot180'] + (['flipx', 'flipy'] if ea % 90 == 0 else []), 'rotated_ellipse', 'rotated_ellipse(%g,%g,%g)' % (a, b, ea))
    ctx.nt(nontriv)
    keep.verify('rect-ellipse')

# ---- rectangle with circular corner fillets ---------------------------------------------------------------------------------------
def strat_fillet(tier):
    N = 40 if tier == 'quick' else 96
    ax = st.integers(8, N)
    frac = st.integers(150, 1100).map(lambda v: v / 1000)
    return st.fixed_dictionaries({
        'shape': st.tuples(ax, ax).map(list), 'dx': st.sampled_from([1.0, 0.1, 0.037]),
        'w': frac, 'h': frac, 'cf': st.integers(50, 950).map(lambda v: v / 1000), 'grow': st.integers(1, 400).map(lambda v: v / 1000),
        'center': st.one_of(st.just([0.0, 0.0]), st.tuples(st.integers(-300, 300).map(lambda v: v / 1000), st.integers(-300, 300).map(lambda v: v / 1000)).map(list)),
        'angle': st.one_of(st.just(0.0), st.just(0.0), st.sampled_from([90.0, 45.0, 30.0, 180.0, -90.0]), st.integers(-3600, 3600).map(lambda v: v / 10)),
        'layout': U.layouts, 'frame': frame_s(),
    })


def fillet_frame(fr):
    """rectangle_with_corner_fillets reads the sample spacing from x[0, 1] - x[0, 0] (number of points on the corner arcs): the frames
    of this clause keep that difference positive - rotations within +-75 degrees (+-40 combined with shear <= 0.5), rows (not columns)
    reversed / permuted, never transposed, x and y two arrays"""
    if fr is None:
        return None
    fr = dict(fr)
    if fr['kind'] == 'same-object':
        fr['kind'] = 'rotated'
    lim = 40.0 if fr['kind'] == 'general' else 75.0
    fr['rot'] = (float(fr['rot']) + lim) % (2 * lim) - lim
    if fr['kind'] == 'general':
        fr['shear'] = max(-0.5, min(0.5, float(fr['shear'])))
    fr['order'] = {'cols-reversed': 'rows-reversed', 'both-reversed': 'rows-reversed', 'cols-permuted': 'rows-permuted', 'both-permuted': 'rows-permuted',
                   'transposed': 'grid'}.get(fr['order'], fr['order'])
    return fr


def check_fillet(case, ctx):
    """rectangle_with_corner_fillets (half-extents, fillet radius): analytic membership (straight edges and quarter-circle corners) for one rotation
    sense, growth with the size, mirror symmetry when centred and unrotated."""
    from prysm import geometry as G
    keep = Keep(ctx)
    ny, nx = case['shape']
    dx = float(case['dx'])
    x, y = grid(ny, nx, dx, case.get('layout', 'C'))
    fr = fillet_frame(case.get('frame'))
    if fr is not None:
        x, y = framed(*grid(ny, nx, dx), fr)
        x, y = U.relayout(x, case.get('layout', 'C')), U.relayout(y, case.get('layout', 'C'))
        ctx.label('frame:' + fr['kind'], 'sample-order:' + fr['order'])
    else:
        ctx.label('frame:plain-grid')
    keep.arg('x', x), keep.arg('y', y)
    xe, ye = x.astype(np.float64), y.astype(np.float64)
    half = min(ny, nx) // 2 * dx
    # the spacing the routine reads; the arcs are sampled about once per that spacing
    dxc = float(xe[0, 1] - xe[0, 0])
    if not dxc > 0.05 * dx:
        ctx.exclude('frame in which x[0, 1] - x[0, 0] is not a positive sample spacing')
    w, h = case['w'] * half, case['h'] * half
    c = case['cf'] * min(w, h)
    cen = (case['center'][0] * half, case['center'][1] * half)
    ang = case['angle']
    ctx.label('fillet-angle:%s' % ('0' if ang == 0 else 'other'), 'centred' if cen == (0.0, 0.0) else 'off-centre', 'layout:' + case.get('layout', 'C'))

    def model(sense, w_, h_, c_):
        xr, yr = _rot(xe, ye, sense * ang)
        ax_, ay_ = np.abs(xr - cen[0]), np.abs(yr - cen[1])
        mg = np.maximum(ax_ - w_, ay_ - h_)
        corner = (ax_ > w_ - c_) & (ay_ > h_ - c_)
        mg = np.where(corner, np.hypot(ax_ - (w_ - c_), ay_ - (h_ - c_)) - c_, mg)
        return mg <= 0, mg
    # the outline is a polygon whose arcs are sampled about once per sample spacing: it stays inside the analytic outline by at most
    # the sagitta of one chord, (chord)^2 / (8 c) with chord <= 2 dx
    band = (2 * max(dx, dxc)) ** 2 / (8 * c) + 1e-7 * max(half, w, h, float(np.abs(xe).max()), float(np.abs(ye).max()))
    m = keep.result('rectangle_with_corner_fillets', np.asarray(ctx.call(G.rectangle_with_corner_fillets, w, h, c, x, y, center=cen, rotation=ang)))
    U.check_shape(m, (ny, nx), 'fillet-rectangle')
    msgs = []
    for sense in (+1, -1):
        inside, mg = model(sense, w, h, c)
        msg = compare_mask(ctx, m, inside, mg, band, 'fillet-rectangle', 'rectangle_with_corner_fillets(%g, %g, %g, center=%r, rotation=%g)' % (w, h, c, cen, ang))
        if msg is None:
            break
        msgs.append(msg)
    else:
        ctx.fail('fillet-rectangle:membership:angle=%s' % ('0' if ang == 0 else 'other') + ('' if fr is None else ':coordinates-in-another-frame'), ' / '.join(msgs))
    ctx.nt(bool(np.any(m)) and not bool(np.all(m)) and bool(np.any((mg > -c) & (mg <= 0))))
    k = 1 + case['grow']
    m2 = np.asarray(ctx.call(G.rectangle_with_corner_fillets, w * k, h * k, c * k, x, y, center=cen, rotation=ang))
    viol = (m != 0) & (m2 == 0) & (np.abs(mg) > band)
    ctx.require(not viol.any(), 'fillet-rectangle:monotone', 'the filleted rectangle does not grow with its size (%d samples lost)' % int(viol.sum()))
    if ang == 0 and cen == (0.0, 0.0) and fr is None:
        check_symmetry(ctx, m, mg, band, ['flipx', 'flipy', 'rot180'], 'fillet-rectangle', 'rectangle_with_corner_fillets(%g,%g,%g)' % (w, h, c))
    keep.verify('fillet-rectangle')


def strat_spider(tier):
    N = 40 if tier == 'quick' else 96
    return st.fixed_dictionaries({
        'shape': shape_s(5, N), 'dx': st.sampled_from(DXS),
        'vanes': st.sampled_from([1, 2, 3, 4, 5, 6, 7, 8]), 'width': st.integers(0, 6000).map(lambda v: v / 1000),    # in samples
        'grow': st.integers(1, 2000).map(lambda v: v / 1000),
        'rotation': st.one_of(st.just(0.0), st.sampled_from([0.0, 90.0, 45.0, 180.0]), st.integers(-7200, 10800).map(lambda v: v / 10), st.sampled_from([1e-6, -1e-6, 1e-12, 90.00001, 89.99999, -1e-9, 360.0, 450.0])),
        'rad': st.booleans(), 'rad_flag': st.sampled_from(['bool', 'bool', 'int', 'numpy']),
        'center': st.one_of(st.just([0.0, 0.0]), st.tuples(st.integers(-40, 40), st.integers(-40, 40)).map(lambda t: [t[0] / 10, t[1] / 10])),
        'center_form': st.sampled_from(['float', 'float', 'int']),
        **prim_extras(),
    })


def spider_model(x, y, vanes, width, rot_deg, center):
    """blocked = union over vanes of {x' > 0 and |y'| < width/2} with the vane axes at rot + k*360/vanes; returns (transmit, margin)"""
    px, py = x - center[0], y - center[1]
    blocked = np.zeros(x.shape, dtype=bool)
    margin = np.full(x.shape, np.inf)
    for k in range(vanes):
        a = math.radians(rot_deg + k * 360.0 / vanes)
        xr = px * math.cos(a) + py * math.sin(a)
        yr = -px * math.sin(a) + py * math.cos(a)
        blocked |= (xr > 0) & (np.abs(yr) < width / 2)
        # distance to this vane's boundary: the lines |y'| = w/2 (for x' >= 0) and the end segment x' = 0
        dline = np.where(xr >= 0, np.abs(np.abs(yr) - width / 2), np.hypot(xr, np.maximum(np.abs(yr) - width / 2, 0)))
        dend = np.where(np.abs(yr) <= width / 2, np.abs(xr), np.inf)
        margin = np.minimum(margin, np.minimum(dline, dend))
    return ~blocked, margin


def check_spider(case, ctx):
    """spider: True outside the vanes; analytic union of half-strips (either rotation sense; exact for rotation 0), growth of the blocked set with width, vanes-fold symmetry."""
    from prysm import geometry as G
    keep = Keep(ctx)
    g = PG(case, ctx, keep)
    x, y, dx = g.x, g.y, g.dx
    xe, ye = g.xe, g.ye
    ny, nx = x.shape
    half = max(max(ny, nx) * dx, 2 * g.ext)
    vanes, width, rot = case['vanes'], g.size(case['width'] * dx) * (2 if g.snap else 1), case['rotation']   # snapped: half-width on a sample row
    c = (case['center'][0] * dx, case['center'][1] * dx)
    if case.get('center_form', 'float') == 'int' and float(c[0]).is_integer() and float(c[1]).is_integer() and max(abs(c[0]), abs(c[1])) < 2 ** 31:
        c = (int(c[0]), int(c[1]))
        ctx.label('spider:centre-as-python-ints')
    band = g.band(half)
    ctx.label('vanes:%d' % vanes, 'rot0' if rot == 0 else 'rotated', 'rad' if case['rad'] else 'deg', 'offset' if any(case['center']) else 'centred')
    rarg = math.radians(rot) if case['rad'] else rot
    # the flag as the object True / False, as 1 / 0, as a numpy bool
    flag = {'bool': bool, 'int': int, 'numpy': np.bool_}[case.get('rad_flag', 'bool')](case['rad'])
    ctx.label('rotation_is_rad-as:' + case.get('rad_flag', 'bool'))
    m = ctx.call(G.spider, vanes, width, x, y, rotation=rarg, center=c, rotation_is_rad=flag)
    m = keep.result('spider(width)', np.asarray(m))
    U.check_shape(m, (ny, nx), 'spider')
    ctx.nt(bool(m.any()) and not bool(m.all()))
    msgs = []
    for sense in ((+1,) if rot == 0 else (+1, -1)):
        want, mg = spider_model(xe, ye, vanes, width, sense * rot, c)
        msg = compare_mask(ctx, m, want, mg, band, 'spider', 'spider(vanes=%d, width=%g, rotation=%g, center=%r)' % (vanes, width, rot, c))
        if msg is None:
            break
        msgs.append(msg)
    else:
        ctx.fail('spider:membership' + ('' if g.plain else ':separable-frame' if g.separable else ':non-separable-coordinates'), ' / '.join(msgs))
    w2 = width * (1 + case['grow']) + 0.3 * dx
    m2 = np.asarray(ctx.call(G.spider, vanes, w2, x, y, rotation=rarg, center=c, rotation_is_rad=flag))
    _, mgb = spider_model(xe, ye, vanes, w2, sense * rot, c)
    viol = (~m & m2) & (mg > band) & (mgb > band)
    ctx.require(not viol.any(), 'spider:monotone', 'vanes of width %g block %d samples that vanes of width %g do not' % (width, int(viol.sum()), w2))
    if not any(case['center']) and g.plain:
        ops = []
        if rot % 360 == 0 or (vanes % 2 == 0 and rot % 180 == 0):
            ops.append('flipy')
        if vanes % 2 == 0:
            ops.append('rot180')
        if vanes % 4 == 0:
            ops.append('rot90')
        if vanes % 2 == 0 and rot % 180 == 0:
            ops.append('flipx')
        check_symmetry(ctx, m, mg, band, ops, 'spider', 'spider(vanes=%d, rotation=%g)' % (vanes, rot))
        if rot == 0 and not g.f32:
            # y -> -y maps (r, p) to (r, -p) exactly and the vane test is on |r sin p|: holds for every sample, no band
            ctx.label('spider:strict-mirror')
            strict = ['flipy'] if vanes == 1 else []
            check_symmetry(ctx, m, mg, -1.0, strict, 'spider', 'spider(vanes=%d, rotation=0)' % vanes)
    keep.verify('spider')


# ---- integer coordinate grids of every width, extents whose squares / products do not fit the dtype -------------------------------------
INT_DTYPES = ['int8', 'int8', 'int16', 'int16', 'int32', 'int64', 'uint8', 'uint16', 'uint32', 'uint64']
CENTER_FORMS = ['int', 'int', 'float', 'np-same']


def strat_int_grid(tier):
    N = 40 if tier == 'quick' else 72
    ax = st.integers(5, N)
    frac = st.integers(50, 1200).map(lambda v: v / 1000)
    ang = st.one_of(st.just(0.0), st.sampled_from([90.0, 45.0, 30.0, 180.0, -90.0]), st.integers(-1800, 1800).map(lambda v: v / 10))
    return st.fixed_dictionaries({
        'shape': st.one_of(st.tuples(ax, ax).map(list), st.tuples(ax, ax).map(list), st.tuples(ax, ax).map(list), st.sampled_from([[3, 120], [120, 2], [1, 90]])),
        'idt': st.sampled_from(INT_DTYPES),
        # how much of the range of the dtype the coordinates (and coordinate - centre) use, per mille of the largest whole-number spacing that fits
        'fill': st.one_of(st.integers(300, 1000), st.integers(300, 1000), st.integers(1, 1000), st.just(1000)),
        'i0': st.integers(0, 3),                       # unsigned grids: index of the first sample (coordinates (i + i0) dx >= 0)
        'center': st.tuples(st.integers(-3, 3), st.integers(-3, 3)).map(list), 'center_form': st.sampled_from(CENTER_FORMS),     # in samples
        'rad': frac, 'grow': st.integers(1, 400).map(lambda v: v / 1000), 'snap': st.booleans(),
        'w': frac, 'h': frac, 'angle': ang, 'a': frac, 'b': frac, 'eangle': ang,
        'sides': st.sampled_from([3, 4, 5, 6, 7, 8, 12]), 'protation': ang,
        'vanes': st.integers(1, 8), 'width': st.integers(0, 6000).map(lambda v: v / 1000), 'srotation': ang,
        'cf': st.integers(50, 950).map(lambda v: v / 1000), 'fangle': st.one_of(st.just(0.0), ang),
        'layout': U.layouts, 'rows_reversed': st.booleans(),
    })


def int_grid(case):
    """whole-number coordinate arrays of the dtype case['idt']: signed - sample i of an axis of length n at (i - n//2) dx; unsigned - at
    (i + i0) dx.  dx is a whole number chosen so that every coordinate and every coordinate - centre (|centre| <= 3 dx) fits the dtype."""
    ny, nx = case['shape']
    dt = np.dtype(case['idt'])
    M = int(np.iinfo(dt).max)
    if dt.kind == 'u':
        ix, iy = [i + case['i0'] for i in range(nx)], [i + case['i0'] for i in range(ny)]
    else:
        ix, iy = [i - nx // 2 for i in range(nx)], [i - ny // 2 for i in range(ny)]
    maxidx = max(max(abs(i) for i in ix), max(abs(i) for i in iy))
    dxmax = M // (maxidx + 3)
    dx = max(1, dxmax * int(case['fill']) // 1000)            # Python ints throughout (uint64 does not fit int64)
    xv = np.array([i * dx for i in ix], dtype=dt)
    yv = np.array([i * dx for i in iy], dtype=dt)
    if case.get('rows_reversed', False):
        yv = yv[::-1]
    X = np.broadcast_to(xv[None, :], (ny, nx)).copy()
    Y = np.broadcast_to(yv[:, None], (ny, nx)).copy()
    return U.relayout(X, case.get('layout', 'C')), U.relayout(Y, case.get('layout', 'C')), dx, dt, M


def fillet_margin(xe, ye, w_, h_, c_, cen, ang):
    xr, yr = _rot(xe, ye, ang)
    ax_, ay_ = np.abs(xr - cen[0]), np.abs(yr - cen[1])
    mg = np.maximum(ax_ - w_, ay_ - h_)
    corner = (ax_ > w_ - c_) & (ay_ > h_ - c_)
    return np.where(corner, np.hypot(ax_ - (w_ - c_), ay_ - (h_ - c_)) - c_, mg)


def check_int_grid(case, ctx):
    """every primitive on whole-number coordinate arrays of every integer width (int8 .. int64, uint8 .. uint64) whose extent is large
    enough that squares and products of coordinates do not fit the dtype: membership vs the analytic shape evaluated by the harness in
    float64, growth of offset_circle.  The centre as Python ints (coordinate - centre keeps the integer dtype), as floats, as numpy
    integers of the grid's dtype."""
    from prysm import geometry as G
    keep = Keep(ctx)
    x, y, dxi, dt, M = int_grid(case)
    keep.arg('x', x), keep.arg('y', y)
    ny, nx = x.shape
    dx = float(dxi)
    xe, ye = x.astype(np.float64), y.astype(np.float64)
    unsigned = dt.kind == 'u'
    cs = [int(v) for v in case['center']]
    cform = case.get('center_form', 'int')
    if unsigned and cform != 'float':
        # coordinate - centre is evaluated in the unsigned dtype: the centre is at or before the first sample
        cs = [min(abs(v), case['i0']) for v in cs]
    ci = (cs[0] * dxi, cs[1] * dxi)
    cen = {'int': ci, 'float': (float(ci[0]), float(ci[1])), 'np-same': (dt.type(ci[0]), dt.type(ci[1])) if cform == 'np-same' else None}[cform]
    cf = (float(ci[0]), float(ci[1]))
    S = float(np.hypot(xe - cf[0], ye - cf[1]).max())           # size of the numbers the routines work with
    S = max(S, float(np.hypot(xe, ye).max()))
    extent = max(float(np.abs(xe).max()), float(np.abs(ye).max()))
    # numpy evaluates hypot / arctan2 of 8-bit integers in float16 and of 16-bit integers in float32 (and compares the result with a
    # Python-float size in that precision): samples closer to the boundary than the rounding of that arithmetic are don't-care
    wp = {1: 2.0 ** -10, 2: 2.0 ** -23}.get(dt.itemsize, 0.0)
    band0 = 1e-9 * S + 4 * wp * S                 # one hypot and one comparison
    bandr = 1e-7 * S + 32 * wp * S                # through polar coordinates, an added angle, and back
    ctx.label('grid-dtype:' + dt.name, 'center-as:' + cform, 'centre:' + ('origin' if ci == (0, 0) else 'offset'), 'layout:' + case.get('layout', 'C'),
              'squares-overflow-the-dtype' if extent * extent > M else 'products-overflow-the-dtype' if 2 * extent * 3 * dx > M else 'squares-fit-the-dtype',
              'rows-reversed' if case.get('rows_reversed', False) else 'rows-ascending')
    snap = bool(case.get('snap', False))
    half = min(extent, S)

    def size(v):
        return max(1.0, float(round(v / dx))) * dx if snap else v
    nontriv = False
    # offset_circle
    r2 = size(case['rad'] * half)
    r1 = size(0.6 * case['rad'] * half)
    rarg = int(r2) if snap and cform == 'int' else r2      # a whole-number radius written as a Python int
    oc = np.asarray(keep.result('offset_circle(r2)', ctx.call(G.offset_circle, rarg, x, y, cen)))
    U.check_shape(oc, (ny, nx), 'offset_circle')
    ro = np.hypot(xe - cf[0], ye - cf[1])
    what = ' on %s coordinates %d x %d, spacing %d, extent %.6g (dtype max %d)' % (dt.name, ny, nx, dxi, extent, M)
    msg = compare_mask(ctx, oc, ro <= r2, ro - r2, band0, 'offset_circle', 'offset_circle(%r, center=%r)%s' % (rarg, cen, what))
    ctx.require(msg is None, 'offset_circle:membership:integer-grid', msg or '')
    nontriv = nontriv or (bool(oc.any()) and not bool(oc.all()))
    oc1 = np.asarray(ctx.call(G.offset_circle, r1, x, y, cen))
    viol = oc1 & ~oc & (np.abs(ro - r1) > band0) & (np.abs(ro - r2) > band0)
    ctx.require(not viol.any(), 'offset_circle:monotone:integer-grid', 'offset_circle(%g) not inside offset_circle(%g)%s: %d samples' % (r1, r2, what, int(viol.sum())))
    # circle / annulus on the radial coordinate a caller computes from these arrays (numpy's hypot of the integer arrays)
    rr = keep.arg('r', U.relayout(np.hypot(x, y), case.get('layout', 'C')))
    re_ = np.hypot(xe, ye)
    c2 = np.asarray(ctx.call(G.circle, r2, rr))
    msg = compare_mask(ctx, c2, re_ <= r2, re_ - r2, band0, 'circle', 'circle(%g, hypot(x, y))%s' % (r2, what))
    ctx.require(msg is None, 'circle:membership:integer-grid', msg or '')
    an = np.asarray(ctx.call(G.annulus, r1, r2, rr))
    msg = compare_mask(ctx, an, (re_ >= r1) & (re_ <= r2), np.minimum(np.abs(re_ - r1), np.abs(re_ - r2)), band0, 'annulus', 'annulus(%g, %g, hypot(x, y))%s' % (r1, r2, what))
    ctx.require(msg is None, 'annulus:membership:integer-grid', msg or '')
    # rectangle
    w, h, ang = size(case['w'] * extent), size(case['h'] * extent), float(case['angle'])
    m = np.asarray(keep.result('rectangle', ctx.call(G.rectangle, w, x, y, height=h, angle=ang)))
    U.check_shape(m, (ny, nx), 'rectangle')
    msgs = []
    for sense in (+1, -1):
        xr, yr = (xe, ye) if ang == 0 else (ye, xe) if ang == 90 else _rot(xe, ye, sense * ang)
        mg = np.maximum(np.abs(xr) - w, np.abs(yr) - h)
        msg = compare_mask(ctx, m, mg <= 0, mg, 1e-9 * S if ang in (0, 90) else bandr, 'rectangle', 'rectangle(%g, height=%g, angle=%g)%s' % (w, h, ang, what))
        if msg is None:
            break
        msgs.append(msg)
    else:
        ctx.fail('rectangle:membership:integer-grid:angle=%s' % ('0' if ang == 0 else '90' if ang == 90 else 'other'), ' / '.join(msgs))
    nontriv = nontriv or (bool(m.any()) and not bool(m.all()))
    # rotated_ellipse
    a, b = sorted([size(case['a'] * extent), size(case['b'] * extent)], reverse=True)
    ea = float(case['eangle'])
    e = np.asarray(keep.result('rotated_ellipse', ctx.call(G.rotated_ellipse, a, b, x, y, major_axis_angle=ea)))
    U.check_shape(e, (ny, nx), 'rotated_ellipse')
    msgs = []
    for sense in (+1, -1):
        xr, yr = _rot(xe, ye, sense * ea)
        q = (xr / a) ** 2 + (yr / b) ** 2
        msg = compare_mask(ctx, e, q <= 1, q - 1, 1e-9 * max(1.0, (S / b) ** 2), 'rotated_ellipse', 'rotated_ellipse(%g, %g, angle=%g)%s' % (a, b, ea, what))
        if msg is None:
            break
        msgs.append(msg)
    else:
        ctx.fail('rotated_ellipse:membership:integer-grid', ' / '.join(msgs))
    # regular_polygon (the centre is added to the vertices, any centre on unsigned grids too)
    sides, prot = case['sides'], float(case['protation'])
    R = size(case['rad'] * half)
    pcen = cen if not unsigned else (cf[0] + 0.5 * extent, cf[1] + 0.4 * extent)
    pcf = (float(pcen[0]), float(pcen[1]))
    pm = np.asarray(keep.result('regular_polygon', ctx.call(G.regular_polygon, sides, R, x, y, center=pcen, rotation=prot)))
    U.check_shape(pm, (ny, nx), 'regular_polygon')
    mgp = poly_margin(xe, ye, sides, R, pcf, prot)
    msg = compare_mask(ctx, pm, mgp < 0, mgp, 1e-7 * R + 1e-9 * S, 'regular_polygon', 'regular_polygon(%d, %g, center=%r, rotation=%g)%s' % (sides, R, pcen, prot, what))
    ctx.require(msg is None, 'regular_polygon:membership:integer-grid', msg or '')
    nontriv = nontriv or (bool(pm.any()) and not bool(pm.all()))
    # spider (coordinate - centre in the dtype of the grid)
    vanes, width, srot = case['vanes'], case['width'] * dx, float(case['srotation'])
    sp = np.asarray(keep.result('spider', ctx.call(G.spider, vanes, width, x, y, rotation=srot, center=cen)))
    U.check_shape(sp, (ny, nx), 'spider')
    msgs = []
    for sense in ((+1,) if srot == 0 else (+1, -1)):
        want, mgs = spider_model(xe, ye, vanes, width, sense * srot, cf)
        msg = compare_mask(ctx, sp, want, mgs, bandr, 'spider', 'spider(%d, %g, rotation=%g, center=%r)%s' % (vanes, width, srot, cen, what))
        if msg is None:
            break
        msgs.append(msg)
    else:
        ctx.fail('spider:membership:integer-grid', ' / '.join(msgs))
    # rectangle_with_corner_fillets (reads the spacing from x[0, 1] - x[0, 0]: at least two columns)
    if nx >= 2:
        fw, fh = max(size(0.8 * case['w'] * extent), 2 * dx), max(size(0.8 * case['h'] * extent), 2 * dx)
        fc = case['cf'] * min(fw, fh)
        fang = float(case['fangle'])
        fcen = cen if not unsigned else pcen
        fm = np.asarray(keep.result('rectangle_with_corner_fillets', ctx.call(G.rectangle_with_corner_fillets, fw, fh, fc, x, y, center=fcen, rotation=fang)))
        U.check_shape(fm, (ny, nx), 'fillet-rectangle')
        fband = (2 * dx) ** 2 / (8 * fc) + (1e-7 * S if fang == 0 else bandr)
        msgs = []
        for sense in (+1, -1):
            mgf = fillet_margin(xe, ye, fw, fh, fc, (float(fcen[0]), float(fcen[1])), sense * fang)
            msg = compare_mask(ctx, fm, mgf <= 0, mgf, fband, 'fillet-rectangle', 'rectangle_with_corner_fillets(%g, %g, %g, center=%r, rotation=%g)%s' % (fw, fh, fc, fcen, fang, what))
            if msg is None:
                break
            msgs.append(msg)
        else:
            ctx.fail('fillet-rectangle:membership:integer-grid', ' / '.join(msgs))
    ctx.nt(nontriv)
    keep.verify('integer-grid')


CLAUSES = [
    HypClause('integer_grids', strat_int_grid, check_int_grid, examples={'quick': 500, 'thorough': 3000}, shards={'quick': 2, 'thorough': 6}),
    HypClause('hex_tiling', strat_hex, check_hex_tiling, examples={'quick': 250, 'thorough': 1400}, shards={'quick': 4, 'thorough': 12}),
    EnumClause('hex_single_exclusions', enum_hex_single, check_hex_tiling, shards={'quick': 2, 'thorough': 8}),
    HypClause('hex_opd', strat_hex_opd, check_hex_opd, examples={'quick': 200, 'thorough': 1000}, shards={'quick': 2, 'thorough': 8}),
    HypClause('keystone_tiling', strat_keystone, check_keystone_tiling, examples={'quick': 300, 'thorough': 1500}, shards={'quick': 4, 'thorough': 12}),
    HypClause('keystone_opd', strat_keystone_opd, check_keystone_opd, examples={'quick': 150, 'thorough': 900}, shards={'quick': 2, 'thorough': 8}),
    HypClause('round_masks', strat_round, check_round, examples={'quick': 1200, 'thorough': 6000}, shards={'quick': 1, 'thorough': 6}),
    HypClause('polygon', strat_polygon, check_polygon, examples={'quick': 1200, 'thorough': 6000}, shards={'quick': 1, 'thorough': 6}),
    HypClause('rect_ellipse', strat_rect, check_rect_ellipse, examples={'quick': 1200, 'thorough': 6000}, shards={'quick': 1, 'thorough': 6}),
    HypClause('filleted_rectangle', strat_fillet, check_fillet, examples={'quick': 300, 'thorough': 2000}, shards={'quick': 2, 'thorough': 6}),
    HypClause('spider', strat_spider, check_spider, examples={'quick': 1200, 'thorough': 6000}, shards={'quick': 1, 'thorough': 6}),
]
