"""C03 - output sampling and coordinates of the propagations are physically correct."""
import math

import numpy as np
from hypothesis import strategies as st

from vlib.core import EnumClause, HypClause
from vlib import util as U

RULE = ("Hypothesis cases: pupil shape (odd/even; non-square for the fixed-sampling routes and, restricted to the x axis, "
        "for the FFT route), pupil spacing, wavelength, focal length, tilt (kx,ky) waves (integer / fractional / both signs / "
        "either or both axes), optional random apodisation, route in {padded FFT via Wavefront.focus, fixed sampling mdft, "
        "fixed sampling czt} entered through the function and the Wavefront method, requested output spacing (as a factor of "
        "lambda f/D), per-axis output sample counts, output shift in output units.  Oracle: the analytic focal field "
        "sum_x f(x) exp(-2 pi i x xi/(lambda f)) evaluated *at the physical coordinates the output claims* "
        "(index - n//2)*dx_reported - shift; intensities must agree, so a wrong dx, a swapped axis, a dropped factor or a "
        "shift unit error moves every sample off the curve; plus peak location = k lambda f / D.  Reverse direction: "
        "focal-plane impulses at physical offset p vs the explicit inverse sum (tilt exp(+2 pi i p x/(lambda f))).  Scalar "
        "laws for the spacing conversions and Q_for_sampling.  Non-trivial = fractional tilt or non-zero shift or non-square "
        "or output spacing different from the FFT-route spacing.")
ASSUMPTIONS = ["float64 exp/matmul for the analytic sums (rtol 1e-8 on intensity relative to its natural scale)",
               "a Wavefront carries one scalar dx: for the FFT route on non-square padded arrays only the x axis (row through the "
               "origin) is asserted", "Wavefront methods are given square `samples` (their docstring and code disagree on tuple order)"]


def _reset():
    from prysm.fttools import mdft, czt
    mdft.clear()
    czt.clear()


def pupil_field(case):
    ny, nx = case['shape']
    ky, kx = case['tilt'][1], case['tilt'][0]
    y = U.cvec(ny)[:, None]
    x = U.cvec(nx)[None, :]
    f = np.exp(2j * np.pi * (kx * x / nx + ky * y / ny))
    if case['apod']:
        r = U.rng_of(case['seed'])
        f = f * (0.5 + r.uniform(0, 1, (ny, nx)))
    ap = case.get('aperture')
    if ap:
        # an aperture smaller than the array: exact zeros around it, with borders that differ between the axes and between the two sides
        # (rectangular stop, slit, decentred aperture); the tilt is still k waves across the *array* width D
        t0, b0, l0, r0 = (min(int(v * n), n - 1) for v, n in zip(ap, (ny, ny, nx, nx)))
        b0 = min(b0, ny - 1 - t0)
        r0 = min(r0, nx - 1 - l0)
        m = np.zeros((ny, nx))
        m[t0:ny - b0, l0:nx - r0] = 1.0
        f = f * m
    return f


def analytic(f, dxp, lam, efl, xi_x, xi_y, norm, sign=-1.0):
    ny, nx = f.shape
    X = U.cvec(nx) * dxp
    Y = U.cvec(ny) * dxp
    Ex = np.exp(sign * 2j * np.pi * np.outer(X, xi_x) / (lam * efl))
    Ey = np.exp(sign * 2j * np.pi * np.outer(xi_y, Y) / (lam * efl))
    return (Ey @ f @ Ex) * norm


tilt_axis = st.one_of(st.just(0), st.integers(-3, 3), st.integers(-12, 12).map(lambda k: k / 4), U.nice_float(-3, 3).map(lambda v: round(v, 3)))


def strat_focus(tier):
    nmax = {'quick': 24, 'thorough': 48}[tier]
    ax = U.axis_len(nmax, 2)
    oax = U.axis_len(nmax, 1)
    sh = st.one_of(st.just(0), st.integers(-3, 3), st.integers(-6, 6).map(lambda k: k / 2), U.nice_float(-4, 4).map(lambda v: round(v, 3)))
    return st.fixed_dictionaries({
        'shape': st.one_of(st.tuples(ax, ax).map(list), st.tuples(ax, ax).map(list), ax.map(lambda k: [k, k])),
        'dx': st.sampled_from([0.05, 0.1, 0.5, 1.0]), 'wvl': st.sampled_from([0.5, 0.6328, 1.0, 1.55]), 'efl': st.sampled_from([20.0, 100.0, 1500.0]),
        'tilt': st.tuples(tilt_axis, tilt_axis).map(list), 'apod': st.booleans(), 'seed': U.seeds,
        'route': st.sampled_from(['fft', 'mdft', 'czt', 'mdft', 'czt']), 'via': st.sampled_from(['function', 'wavefront']),
        'Qfft': st.sampled_from([1, 2, 3, 1.5, 2.5]),
        'Qfix': st.one_of(st.sampled_from([1.0, 2.0, 0.5, 1.37]), U.nice_float(0.4, 4).map(lambda v: round(v, 3))),
        'out': st.one_of(st.tuples(oax, oax).map(list), oax.map(lambda k: [k, k])),
        'shift': st.one_of(st.just([0, 0]), st.tuples(sh, sh).map(list)),     # in units of output samples; converted to output units
        'shift_type': st.sampled_from(['tuple', 'tuple', 'ndarray']), 'fftbackend': U.fft_backends,
        'layout': U.layouts, 'larger_first': st.sampled_from([False, False, True]),
        # fractions of the array that are dark above / below / left / right of the aperture
        'aperture': st.one_of(st.none(), st.none(), st.tuples(*[st.sampled_from([0.0, 0.0, 0.1, 0.25, 0.4])] * 4).map(list)),
    })


def _larger_window_first(ctx, case, call, out):
    """history: the same request first with larger output windows (even and odd, each axis on its own) - what they leave in the shared executors must not
    be cut down for the checked, smaller window"""
    if not case.get('larger_first', False):
        return
    for dy, dx_ in ((6, 6), (5, 4), (1, 0)):
        ctx.call(call, (out[0] + dy, out[1] + dx_))
    ctx.label('history:larger-output-window-first')


def check_focus(case, ctx):
    """the focal-plane intensity equals the analytic field evaluated at the coordinates the output reports; the peak sits at k*lambda*f/D."""
    be = case.get('fftbackend', 'scipy')
    if be != 'scipy':
        ctx.label('fft-backend:' + be)
    with U.fft_backend(be):
        _check_focus_inner(case, ctx)


def _check_focus_inner(case, ctx):
    from prysm import propagation as P
    _reset()
    shape, dxp, lam, efl, route, via = case['shape'], case['dx'], case['wvl'], case['efl'], case['route'], case['via']
    ny, nx = shape
    f = pupil_field(case)
    kx, ky = case['tilt']
    Dx, Dy = nx * dxp, ny * dxp
    frac = (kx != int(kx)) or (ky != int(ky))
    ctx.label('route:' + route, 'via:' + via, 'square' if ny == nx else 'nonsquare', 'fractional-tilt' if frac else 'integer-tilt',
              'apod' if case['apod'] else 'pure-tilt')
    if case.get('aperture'):
        ap = case['aperture']
        ctx.label('aperture-in-larger-array', 'aperture-borders-differ' if (ap[0] + ap[1] != ap[2] + ap[3] or ap[0] != ap[1] or ap[2] != ap[3]) else 'aperture-centred-same-borders')
    scale_f = float(np.abs(f).sum())
    if route == 'fft':
        Q = case['Qfft']
        w = P.Wavefront(f, lam, dxp)
        wo = ctx.call(w.focus, efl, Q)
        data = np.asarray(wo.data)
        my, mx = data.shape
        want_shape = (math.ceil(ny * Q), math.ceil(nx * Q)) if Q != 1 else (ny, nx)
        U.check_shape(data, want_shape, 'focus')
        dxo = wo.dx
        true_dx_x = lam * efl / (dxp * mx)
        ctx.within(abs(dxo - true_dx_x), 1e-12 * true_dx_x, 'focus:dx', 'Wavefront.focus reports dx=%.12g, physical spacing along x is lambda f/(N dx)=%.12g (padded %s)' % (
            dxo, true_dx_x, (my, mx)))
        I = wo.intensity
        xi_x = np.asarray(I.x)[0, :]
        xi_y = np.asarray(I.y)[:, 0]
        U.check_close(xi_x, U.cvec(mx) * dxo, 1e-12, 'focus:x-axis', 'intensity.x is not (i-n//2)*dx')
        U.check_close(xi_y, U.cvec(my) * dxo, 1e-12, 'focus:y-axis', 'intensity.y is not (i-n//2)*dx')
        norm = 1 / math.sqrt(my * mx)
        scale = (scale_f * norm) ** 2
        ctx.nt(frac or ny != nx)
        if my == mx:
            ref = analytic(f, dxp, lam, efl, xi_x, xi_y, norm)
            U.check_close(np.abs(data) ** 2, np.abs(ref) ** 2, 0, 'focus:where-light-lands', 'FFT route %s Q=%r tilt=%r' % (shape, Q, case['tilt']),
                          atol=1e-8 * scale)
            U.check_close(data, ref, 0, 'focus:field', 'FFT route complex field %s Q=%r' % (shape, Q), atol=1e-8 * math.sqrt(scale))
        else:
            # scalar dx cannot describe the y spacing: assert the row through xi_y = 0 only (x axis)
            ref = analytic(f, dxp, lam, efl, xi_x, np.zeros(1), norm)
            U.check_close(np.abs(data[my // 2:my // 2 + 1, :]) ** 2, np.abs(ref) ** 2, 0, 'focus:where-light-lands:x-row',
                          'FFT route %s Q=%r tilt=%r, row through the origin' % (shape, Q, case['tilt']), atol=1e-8 * scale)
        qx, qy = mx / nx, my / ny        # effective padding factors (ceil rounding)
        if not case['apod'] and not case.get('aperture') and my == mx and abs(kx) * qx <= (mx // 2 - 1) and abs(ky) * qy <= (my // 2 - 1) \
                and abs(kx * qx - round(kx * qx)) < 1e-12 and abs(ky * qy - round(ky * qy)) < 1e-12:
            # the spot falls exactly on a sample: it must be *the* maximum and sit at k*lambda*f/D
            iy, ix = np.unravel_index(int(np.argmax(np.abs(data))), data.shape)
            px, py = xi_x[ix], xi_y[iy]
            ex, ey = kx * lam * efl / Dx, ky * lam * efl / Dy
            ctx.require(abs(px - ex) <= 1e-9 * max(abs(ex), dxo) and abs(py - ey) <= 1e-9 * max(abs(ey), dxo), 'focus:peak',
                        'spot for tilt %r reported at (%.9g, %.9g) um, expected k lambda f/D = (%.9g, %.9g)' % (case['tilt'], px, py, ex, ey))
            ctx.label('peak-on-sample')
        return
    # ---- fixed-sampling routes
    out = case['out']
    if via == 'wavefront':
        out = [out[0], out[0]]
    my, mx = out
    dxo = lam * efl / (Dx * case['Qfix'])          # requested output spacing: Qfix along x
    shift_units = (case['shift'][0] * dxo, case['shift'][1] * dxo)
    shifted = any(s != 0 for s in case['shift'])
    # the shift may be handed over as a tuple, a list or a float64 ndarray; the caller's object must come back unchanged
    styp = case.get('shift_type', 'tuple')
    if not shifted:
        styp = 'tuple'      # the documented type; a zero shift is passed through to the executors' cache key and must be hashable
    shift_arg = {'tuple': tuple, 'ndarray': lambda v: np.array(v, dtype=np.float64)}[styp](shift_units)
    shift_units_t = shift_units
    shift_units = shift_arg
    ctx.label('shift-as:' + styp)
    ctx.nt(frac or shifted or ny != nx or case['Qfix'] != 1.0)
    ctx.label('shifted' if shifted else 'unshifted', 'out-square' if my == mx else 'out-nonsquare')
    if case.get('layout', 'C') != 'C':
        f = U.relayout(f, case['layout'])          # same values, another memory layout (Fortran-ordered, transposed view, strided)
        ctx.label('layout:' + case['layout'])
    if via == 'function':
        _larger_window_first(ctx, case, lambda o_: P.focus_fixed_sampling(f, dxp, efl, lam, dxo, o_, shift=shift_units, method=route), (my, mx))
        data = ctx.call(P.focus_fixed_sampling, f, dxp, efl, lam, dxo, (my, mx), shift=shift_units, method=route)
    else:
        w = P.Wavefront(f, lam, dxp)
        wo = ctx.call(w.focus_fixed_sampling, efl, dxo, (my, mx), shift=shift_units, method=route)
        data = wo.data
        ctx.within(abs(wo.dx - dxo), 1e-12 * dxo, 'focus_fixed_sampling:dx', 'reported dx %r != requested %r' % (wo.dx, dxo))
    data = np.asarray(data)
    U.check_shape(data, (my, mx), 'focus_fixed_sampling')
    ctx.require(tuple(float(v) for v in shift_arg) == tuple(float(v) for v in shift_units_t), 'focus_fixed_sampling:argument-modified',
                'the caller\'s shift %s was changed in place: %r -> %r' % (styp, shift_units_t, tuple(float(v) for v in shift_arg)))
    shift_units = shift_units_t
    norm = math.sqrt(dxp * dxo / (lam * efl)) ** 2
    scale = (scale_f * norm) ** 2
    I = np.abs(data) ** 2
    bucket = 'focus_fixed_sampling:' + route + (':nonsquare-input' if ny != nx else '')
    errs = {}
    for sgn in (+1, -1) if shifted else (+1,):
        xi_x = U.cvec(mx) * dxo - sgn * shift_units[0]
        xi_y = U.cvec(my) * dxo - sgn * shift_units[1]
        ref = analytic(f, dxp, lam, efl, xi_x, xi_y, norm)
        errs[sgn] = float(np.abs(I - np.abs(ref) ** 2).max()) if np.all(np.isfinite(I)) else float('inf')
    best = min(errs, key=errs.get)
    ctx.within(errs[best], 1e-8 * scale, bucket + (':shift' if shifted else ''),
                '%s %s->%s dx_out=%.6g shift=%r (output units) tilt=%r: intensity is off the analytic curve at the claimed coordinates by %.3g (scale %.3g)%s' % (
                    route, shape, out, dxo, shift_units, case['tilt'], errs[best], scale,
                    '; other sign: %.3g' % errs[-best] if shifted else ''))
    if shifted and errs[-best] > 1e-6 * scale:
        ctx.label('shift-sign:%+d' % best)
        # both methods and both axes must translate the same way: documented nowhere, taken from the data -> compare methods
        other = 'czt' if route == 'mdft' else 'mdft'
        d2 = np.asarray(ctx.call(P.focus_fixed_sampling, f, dxp, efl, lam, dxo, (my, mx), shift=shift_units, method=other))
        e = float(np.abs(np.abs(d2) ** 2 - I).max())
        ctx.within(e, 1e-8 * scale, 'focus_fixed_sampling:methods-disagree-on-shift',
                    'mdft and czt intensities differ by %.3g for shift %r' % (e, shift_units))


# ---- pupils and output windows of more than 2**20 samples (bases filled block by block, large prime-factor sizes) ----------------------------
def enum_large(tier):
    geos = [([1100, 1100], [1100, 1100]), ([1100, 1100], [1300, 1300]), ([1030, 1210], [1201, 1201]), ([1500, 1031], [1100, 1100])]
    if tier == 'thorough':
        geos += [([2100, 1100], [1300, 1300]), ([1025, 1025], [2049, 2049])]
    k = 0
    for shape, out in geos:
        for route in ('mdft', 'czt'):
            # spots far from the axis, on either side: the last rows / columns of the window matter as much as the centre
            tilt = [[240.5, -260.0], [-310.25, 405.0], [17.0, 480.5]][k % 3]
            yield {'shape': shape, 'dx': 0.1, 'wvl': 0.6328, 'efl': 100.0, 'tilt': tilt, 'apod': k % 2 == 1, 'seed': k, 'route': route,
                   'via': ['function', 'wavefront'][k % 2], 'Qfft': 1, 'Qfix': [1.0, 0.85, 1.37][k % 3], 'out': out,
                   'shift': [[0, 0], [3.5, -2]][(k // 2) % 2], 'shift_type': 'tuple', 'fftbackend': 'scipy', 'aperture': None}
            k += 1


def check_large(case, ctx):
    """the same oracle as focus_where_light_lands on pupils / windows above 2**20 samples with spots in the outermost rows and columns."""
    ctx.label('large:%dx%d->%dx%d' % tuple(case['shape'] + case['out']))
    _check_focus_inner(case, ctx)


def strat_unfocus(tier):
    nmax = {'quick': 20, 'thorough': 40}[tier]
    ax = U.axis_len(nmax, 1)
    return st.fixed_dictionaries({
        'fshape': st.one_of(st.tuples(ax, ax).map(list), ax.map(lambda k: [k, k])),
        'pshape': st.one_of(st.tuples(ax, ax).map(list), ax.map(lambda k: [k, k])),
        'at': st.tuples(st.integers(0, nmax - 1), st.integers(0, nmax - 1)).map(list),
        'second': st.booleans(), 'seed': U.seeds,
        'dxf': st.sampled_from([1.0, 2.5, 6.5]), 'wvl': st.sampled_from([0.5, 0.6328, 1.55]), 'efl': st.sampled_from([20.0, 100.0, 1500.0]),
        'Q': st.one_of(st.sampled_from([1.0, 2.0, 0.5, 1.37]), U.nice_float(0.4, 4).map(lambda v: round(v, 3))),
        'route': st.sampled_from(['fft', 'mdft', 'czt', 'mdft', 'czt']), 'via': st.sampled_from(['function', 'wavefront']),
        'shift': st.one_of(st.just([0, 0]), st.just([0, 0]), st.tuples(st.integers(-6, 6).map(lambda k: k / 2), st.integers(-6, 6).map(lambda k: k / 2)).map(list)),
        'fdtype': st.sampled_from(['complex128', 'complex128', 'float64', 'float32', 'bool']), 'fftbackend': U.fft_backends,
        'layout': U.layouts, 'larger_first': st.sampled_from([False, False, True]),
        # history: the forward trip of the exchanged geometry first (a focus from a p x p pupil onto the m x m focal grid at the same Q value), on
        # dyadic numbers so that the two Q values are the same float although the sample counts differ
        'twin': st.one_of(st.none(), st.none(), st.none(), st.fixed_dictionaries({'m': st.sampled_from([4, 8, 16]), 'p': st.sampled_from([4, 8, 16]), 'Q': st.sampled_from([1.0, 2.0, 4.0, 0.5])})),
    })


def check_unfocus(case, ctx):
    """a focal-plane impulse at physical offset p unfocuses to the tilt exp(+2 pi i p x/(lambda f)) on the grid the output reports."""
    be = case.get('fftbackend', 'scipy')
    if be != 'scipy':
        ctx.label('fft-backend:' + be)
    with U.fft_backend(be):
        _check_unfocus_inner(case, ctx)


def _check_unfocus_inner(case, ctx):
    from prysm import propagation as P
    _reset()
    fshape, pshape, dxf, lam, efl, route, via = (case[k] for k in ('fshape', 'pshape', 'dxf', 'wvl', 'efl', 'route', 'via'))
    tw = case.get('twin')
    if tw and route != 'fft':
        fshape, pshape, dxf, lam, efl = [tw['m'], tw['m']], [tw['p'], tw['p']], 1.0, 0.5, 64.0
        case = dict(case, Q=tw['Q'], at=[case['at'][0] % tw['m'], case['at'][1] % tw['m']])
        ctx.label('history:twin-focus-first', 'twin:same-counts' if tw['m'] == tw['p'] else 'twin:other-counts')
        dxp_ = lam * efl / (tw['m'] * dxf * tw['Q'])
        dx_twin = lam * efl / (tw['p'] * dxf * tw['Q'])
        ctx.call(P.focus_fixed_sampling, np.ones((tw['p'], tw['p']), dtype=complex), dx_twin, efl, lam, dxf, (tw['m'], tw['m']), shift=(0, 0), method=route)
        del dxp_
        # and another public function that transforms on the same module-level executor: fttools.fourier_resample(f, zoom) (DM.render uses it) runs
        # mdft.idft2 with Q = zoom onto int(m * zoom) samples - the geometry of the checked unfocus when p == m * Q
        if int(tw['m'] * tw['Q']) == tw['p'] and tw['Q'] != 1.0:
            from prysm.fttools import fourier_resample
            ctx.call(fourier_resample, np.ones((tw['m'], tw['m'])), tw['Q'])
            ctx.label('history:fourier-resample-with-the-same-geometry-first')
    my, mx = fshape
    F = np.zeros((my, mx), dtype=complex)
    iy, ix = case['at'][0] % my, case['at'][1] % mx
    F[iy, ix] = 1.0
    fdt = case.get('fdtype', 'complex128')
    if case['second']:
        r = U.rng_of(case['seed'])
        F[int(r.integers(0, my)), int(r.integers(0, mx))] += (0.5j if fdt == 'complex128' else 1.0)
    if fdt != 'complex128':
        # real-dtype focal fields (an amplitude, a mask): the displaced spot must still unfocus to the tilt of the right sign
        F = np.ascontiguousarray(F.real).astype(fdt if fdt != 'bool' else np.float64)
        if fdt == 'bool':
            F = F > 0
    ctx.label('focal-dtype:' + fdt)
    if case.get('layout', 'C') != 'C' and route != 'fft':
        F = U.relayout(F, case['layout'])          # same values, another memory layout
        ctx.label('layout:' + case['layout'])
    Fn = F.astype(np.complex128)          # numeric values for the oracle
    ctx.label('route:' + route, 'via:' + via, 'square' if my == mx else 'nonsquare', 'two-spots' if case['second'] else 'one-spot')
    ctx.nt((iy != my // 2 or ix != mx // 2) or my != mx)
    xi_x = U.cvec(mx) * dxf
    xi_y = U.cvec(my) * dxf
    if route == 'fft':
        w = P.Wavefront(F, lam, dxf, space='psf')
        wo = ctx.call(w.unfocus, efl, 1)
        g = np.asarray(wo.data)
        U.check_shape(g, (my, mx), 'unfocus')
        true_dx = lam * efl / (dxf * mx)
        ctx.within(abs(wo.dx - true_dx), 1e-12 * true_dx, 'unfocus:dx', 'Wavefront.unfocus reports dx=%.12g, physical x spacing %.12g' % (wo.dx, true_dx))
        X = U.cvec(mx) * wo.dx
        norm = 1 / math.sqrt(my * mx)
        if my == mx:
            Y = U.cvec(my) * wo.dx
            ref = (np.exp(2j * np.pi * np.outer(Y, xi_y) / (lam * efl)) @ Fn @ np.exp(2j * np.pi * np.outer(xi_x, X) / (lam * efl))) * norm
            U.check_close(g, ref, 0, 'unfocus:tilt', 'FFT unfocus of impulse at %r in %s' % ([iy, ix], fshape), atol=(2e-3 if fdt == 'float32' else 1e-9) * float(np.abs(Fn).sum()) * norm)
        else:
            # x axis only: project along y first (sum over rows of g equals the xi_y = 0 ... not available); use the row
            # of the *input* through xi_y=0 instead: an impulse on that row gives a field constant along y
            ctx.label('fft-nonsquare-x-only')
            if iy == my // 2 and not case['second']:
                ref_row = (Fn[iy:iy + 1, :] @ np.exp(2j * np.pi * np.outer(xi_x, X) / (lam * efl))) * norm
                U.check_close(g, np.broadcast_to(ref_row, g.shape), 0, 'unfocus:tilt:x-only', 'FFT unfocus non-square, impulse on the xi_y=0 row',
                              atol=(2e-3 if fdt == 'float32' else 1e-9) * norm)
        return
    py_, px_ = pshape
    if via == 'wavefront':
        py_ = px_
    dxp = lam * efl / (mx * dxf * case['Q'])
    ssam = case.get('shift', [0, 0])
    shifted = any(v != 0 for v in ssam)
    sh = (ssam[0] * dxp, ssam[1] * dxp)          # output (pupil) units
    if via == 'function':
        _larger_window_first(ctx, case, lambda o_: P.unfocus_fixed_sampling(F, dxf, efl, lam, dxp, o_, shift=sh, method=route), (py_, px_))
        g = ctx.call(P.unfocus_fixed_sampling, F, dxf, efl, lam, dxp, (py_, px_), shift=sh, method=route)
    else:
        w = P.Wavefront(F, lam, dxf, space='psf')
        wo = ctx.call(w.unfocus_fixed_sampling, efl, dxp, (py_, px_), shift=sh, method=route)
        g = wo.data
        ctx.within(abs(wo.dx - dxp), 1e-12 * dxp, 'unfocus_fixed_sampling:dx', 'reported dx %r != requested %r' % (wo.dx, dxp))
    g = np.asarray(g)
    U.check_shape(g, (py_, px_), 'unfocus_fixed_sampling')
    norm = dxp * dxf / (lam * efl)
    if shifted:
        # a requested shift translates the pupil-plane output by exactly that many output units (a pure phase is allowed):
        # |g| must equal the modulus of the explicit inverse sum at the coordinates (index - n//2)*dx -+ shift
        ctx.label('unfocus-shifted')
        ctx.nt(True)
        errs = {}
        sc = float(np.abs(Fn).sum()) * norm
        for sgn in (1, -1):
            X = U.cvec(px_) * dxp - sgn * sh[0]
            Y = U.cvec(py_) * dxp - sgn * sh[1]
            ref = (np.exp(2j * np.pi * np.outer(Y, xi_y) / (lam * efl)) @ Fn @ np.exp(2j * np.pi * np.outer(xi_x, X) / (lam * efl))) * norm
            errs[sgn] = float(np.abs(np.abs(g) - np.abs(ref)).max()) if np.all(np.isfinite(g)) else float('inf')
        tol_ = (2e-3 if fdt == 'float32' else 1e-9) * sc
        ctx.within(min(errs.values()), tol_, 'unfocus_fixed_sampling:' + route + ':shift',
                    '%s unfocus of %s onto %s (dx %.6g mm) with shift %r mm: modulus is off the explicit inverse sum at the shifted coordinates by %.3g / %.3g (scale %.3g)' % (
                        route, fshape, (py_, px_), dxp, sh, errs[1], errs[-1], sc))
        # "for both fixed-sampling methods": the other method translates the same way (decidable when the two directions differ in modulus,
        # i.e. the focal field has more than one spot)
        other = 'czt' if route == 'mdft' else 'mdft'
        if via == 'function':
            g2 = ctx.call(P.unfocus_fixed_sampling, F, dxf, efl, lam, dxp, (py_, px_), shift=sh, method=other)
        else:
            g2 = ctx.call(P.Wavefront(F, lam, dxf, space='psf').unfocus_fixed_sampling, efl, dxp, (py_, px_), shift=sh, method=other).data
        g2 = np.asarray(g2)
        U.check_shape(g2, (py_, px_), 'unfocus_fixed_sampling')
        e12 = float(np.abs(np.abs(g) - np.abs(g2)).max()) if np.all(np.isfinite(g2)) else float('inf')
        ctx.within(e12, 2 * tol_, 'unfocus_fixed_sampling:shift:mdft-vs-czt',
                    'mdft and czt unfocus of %s onto %s with shift %r mm differ in modulus by %.3g (scale %.3g): the two methods do not translate the output alike' % (
                        fshape, (py_, px_), sh, e12, sc))
        if abs(errs[1] - errs[-1]) > 10 * tol_:
            ctx.label('unfocus-shift-direction-decidable')
        return
    X = U.cvec(px_) * dxp
    Y = U.cvec(py_) * dxp
    ref = (np.exp(2j * np.pi * np.outer(Y, xi_y) / (lam * efl)) @ Fn @ np.exp(2j * np.pi * np.outer(xi_x, X) / (lam * efl))) * norm
    U.check_close(g, ref, 0, 'unfocus_fixed_sampling:' + route + (':nonsquare-input' if my != mx else ''),
                  '%s unfocus of impulse at %r in %s (dx %.4g um) onto %s (dx %.6g mm)' % (route, [iy, ix], fshape, dxf, (py_, px_), dxp),
                  atol=(2e-3 if fdt == 'float32' else 1e-9) * float(np.abs(Fn).sum()) * norm)


# ---- coordinates reported by the views of one Wavefront follow its data through in-place crop / pad -------------------------------------------
def strat_views(tier):
    n = st.sampled_from([8, 9, 12, 15, 16, 21] + ([32, 33] if tier == 'thorough' else []))
    return st.fixed_dictionaries({
        'n': n, 'Q': st.sampled_from([2, 3, 4]), 'k': st.tuples(st.integers(-1, 1), st.integers(-1, 1)).map(list), 'dx': st.sampled_from([0.1, 1.0]),
        'wvl': st.sampled_from([0.5, 1.55]), 'efl': st.sampled_from([20.0, 300.0]),
        'ops': st.lists(st.one_of(st.tuples(st.just('read'), st.sampled_from(['intensity', 'phase', 'real', 'imag'])).map(list),
                                  st.tuples(st.just('crop'), st.integers(1, 6)).map(list), st.tuples(st.just('pad'), st.integers(1, 7)).map(list),
                                  st.tuples(st.just('crop-copy'), st.integers(1, 6)).map(list), st.tuples(st.just('pad-copy'), st.integers(1, 7)).map(list)),
                        min_size=2, max_size=6)})


def check_views(case, ctx):
    """one focal-plane Wavefront through a history of view reads and in-place (or out-of-place) crop / pad2d: every view reports coordinates
    (i - n//2) * dx of the *current* array, and the spot of a pupil with k waves of tilt sits at k lambda f / D in those coordinates."""
    from prysm import propagation as P
    n, Q, (kx, ky), dxp, lam, efl = case['n'], case['Q'], case['k'], case['dx'], case['wvl'], case['efl']
    f = pupil_field({'shape': [n, n], 'tilt': [kx, ky], 'apod': False})
    w = ctx.call(P.Wavefront(f, lam, dxp).focus, efl, Q)
    D = n * dxp
    ex, ey = kx * lam * efl / D, ky * lam * efl / D
    ctx.nt(True)
    reads = 0

    def verify(obj, what):
        my, mx = obj.data.shape
        for view in ('intensity', 'phase', 'real', 'imag'):
            v = getattr(obj, view)
            U.check_shape(v.x, (my, mx), 'views:stale-grid:shape', '%s.x %s' % (view, what))
            U.check_shape(v.y, (my, mx), 'views:stale-grid:shape', '%s.y %s' % (view, what))
            U.check_close(np.asarray(v.x), np.broadcast_to(U.cvec(mx) * obj.dx, (my, mx)), 1e-12, 'views:stale-grid', '%s.x %s' % (view, what))
            U.check_close(np.asarray(v.y), np.broadcast_to((U.cvec(my) * obj.dx)[:, None], (my, mx)), 1e-12, 'views:stale-grid', '%s.y %s' % (view, what))
        I = obj.intensity
        iy, ix = np.unravel_index(int(np.argmax(np.asarray(I.data))), I.data.shape)
        px, py = float(np.asarray(I.x)[iy, ix]), float(np.asarray(I.y)[iy, ix])
        ctx.require(abs(px - ex) <= 1e-9 * max(abs(ex), obj.dx) and abs(py - ey) <= 1e-9 * max(abs(ey), obj.dx), 'views:spot-position',
                    'spot of a %r-wave tilt reported at (%.9g, %.9g), k lambda f/D = (%.9g, %.9g) %s' % ([kx, ky], px, py, ex, ey, what))
    hist = []
    for op, arg in case['ops']:
        hist.append('%s:%s' % (op, arg))
        ctx.label('op:' + op)
        my, mx = w.data.shape
        if op == 'read':
            v = getattr(w, arg)
            v.x, v.y
            reads += 1
            continue
        if op in ('crop', 'crop-copy'):
            m = max(my - arg, 2 * Q + 3, 1)      # keep the spot (|k| Q <= Q samples from the origin) inside the window
            if m > my:
                continue
            other = ctx.call(w.crop, m, inplace=(op == 'crop'))
        else:
            other = ctx.call(w.pad2d, 1, out_shape=(my + arg, mx + arg), inplace=(op == 'pad'))      # Q is positional; out_shape overrides it
        what = 'after %s' % ' '.join(hist)
        if op.endswith('-copy'):
            verify(other, what + ' (the new Wavefront)')
        else:
            ctx.require(other is w, 'views:inplace-returns-self', 'in-place %s did not return the Wavefront itself' % op)
        verify(w, what)
    ctx.label('view-reads:%d' % min(reads, 3))


def strat_scalar(tier):
    pos = U.nice_float(1e-3, 1e3)
    return st.fixed_dictionaries({'x': pos, 'samples': st.integers(1, 8192), 'wvl': U.nice_float(0.1, 20), 'efl': U.nice_float(1, 1e5),
                                  'D': pos, 'z': U.nice_float(1, 1e5), 'dxo': pos, 'c': U.nice_float(0.1, 10)})


def check_scalar(case, ctx):
    """pupil<->PSF spacing conversions are exact inverses; Q_for_sampling == lambda z/(D dx) and inverse-proportional in D and dx."""
    from prysm import propagation as P
    x, n, lam, efl, D, z, dxo, c = (case[k] for k in ('x', 'samples', 'wvl', 'efl', 'D', 'z', 'dxo', 'c'))
    ctx.nt(True)
    a = ctx.call(P.pupil_sample_to_psf_sample, x, n, lam, efl)
    ctx.within(abs(a - lam * efl / (x * n)), 1e-12 * abs(a), 'pupil_sample_to_psf_sample', 'value %r != lambda f/(dx N) = %r' % (a, lam * efl / (x * n)))
    b = ctx.call(P.psf_sample_to_pupil_sample, a, n, lam, efl)
    ctx.within(abs(b - x), 1e-12 * x, 'spacing-conversions:not-inverse', 'psf->pupil(pupil->psf(%r)) = %r' % (x, b))
    a2 = ctx.call(P.psf_sample_to_pupil_sample, x, n, lam, efl)
    b2 = ctx.call(P.pupil_sample_to_psf_sample, a2, n, lam, efl)
    ctx.within(abs(b2 - x), 1e-12 * x, 'spacing-conversions:not-inverse', 'pupil->psf(psf->pupil(%r)) = %r' % (x, b2))
    q = ctx.call(P.Q_for_sampling, D, z, lam, dxo)
    ctx.within(abs(q - lam * z / (D * dxo)), 1e-12 * q, 'Q_for_sampling', 'Q=%r != lambda z/(D dx)=%r' % (q, lam * z / (D * dxo)))
    q2 = ctx.call(P.Q_for_sampling, D * c, z, lam, dxo)
    q3 = ctx.call(P.Q_for_sampling, D, z, lam, dxo * c)
    ctx.require(abs(q2 * c - q) <= 1e-12 * q and abs(q3 * c - q) <= 1e-12 * q, 'Q_for_sampling:proportionality', 'not inverse-proportional in D / dx')



def strat_relay(tier):
    ax = U.axis_len({'quick': 24, 'thorough': 48}[tier], 2)
    return st.fixed_dictionaries({'n': ax, 'dx': st.sampled_from([0.05, 0.1, 0.5]), 'wvl': st.sampled_from([0.5, 0.6328, 1.55]),
                                  'f1': st.sampled_from([20.0, 100.0, 1500.0]), 'f2': st.sampled_from([20.0, 100.0, 250.0, 1500.0]),
                                  'Q': st.sampled_from([1, 2, 3, 1.5]), 'edit_dx': st.sampled_from([1.0, 1.0, 0.5, 2.0]), 'start': st.sampled_from(['pupil', 'psf']),
                                  'seed': U.seeds})


def check_relay(case, ctx):
    """a wavefront that was already propagated is propagated again with another focal length (a relay), or after its dx
    attribute was edited: the spacing reported for the new plane is lambda f / (N dx) of the *current* plane and focal length."""
    from prysm import propagation as P
    n, dx, lam, f1, f2, Q = case['n'], case['dx'], case['wvl'], case['f1'], case['f2'], case['Q']
    f = U.field(case['seed'], (n, n), 'complex')
    ctx.nt(f1 != f2 or case['edit_dx'] != 1.0)
    ctx.label('start:' + case['start'], 'same-efl' if f1 == f2 else 'other-efl', 'dx-edited' if case['edit_dx'] != 1.0 else 'dx-kept')
    if case['start'] == 'pupil':
        w1 = ctx.call(P.Wavefront(f, lam, dx).focus, f1, Q)
        back = 'unfocus'
    else:
        w1 = ctx.call(P.Wavefront(f, lam, dx, space='psf').unfocus, f1, Q)
        back = 'focus'
    m = w1.data.shape[1]
    d1 = lam * f1 / (dx * m)
    ctx.within(abs(w1.dx - d1), 1e-12 * d1, 'relay:first-dx', 'first propagation reports dx=%r, expected %r' % (w1.dx, d1))
    w1.dx = w1.dx * case['edit_dx']           # public attribute; e.g. a magnification applied by the user
    w2 = ctx.call(getattr(w1, back), f2, 1)
    d2 = lam * f2 / (w1.dx * m)
    ctx.within(abs(w2.dx - d2), 1e-12 * d2, 'relay:second-dx',
                '%s(efl=%g) of a plane with dx=%r (reached with efl=%g) reports dx=%r, physical spacing lambda f/(N dx) = %r' % (back, f2, w1.dx, f1, w2.dx, d2))
    # and the data of the round trip is the (padded) input field, whatever the focal lengths
    want = U.embed(f, w1.data.shape)
    U.check_close(np.asarray(w2.data), want, 0, 'relay:data', 'focus->unfocus relay does not return the field', atol=1e-9 * float(np.abs(f).max()) * n)


CLAUSES = [
    HypClause('focus_where_light_lands', strat_focus, check_focus, examples={'quick': 500, 'thorough': 3000}, shards={'quick': 8, 'thorough': 16}),
    EnumClause('large_pupils', enum_large, check_large, shards={'quick': 8, 'thorough': 12}),
    HypClause('unfocus_spot_to_tilt', strat_unfocus, check_unfocus, examples={'quick': 400, 'thorough': 3000}, shards={'quick': 4, 'thorough': 16}),
    HypClause('relay_reported_spacing', strat_relay, check_relay, examples={'quick': 300, 'thorough': 2000}, shards={'quick': 1, 'thorough': 4}),
    HypClause('views_follow_resizes', strat_views, check_views, examples={'quick': 200, 'thorough': 1500}, shards={'quick': 2, 'thorough': 4}),
    HypClause('scalar_laws', strat_scalar, check_scalar, examples={'quick': 500, 'thorough': 5000}, shards={'quick': 1, 'thorough': 4}),
]
