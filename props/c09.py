"""C09 - every routine documented as a derivative returns the derivative of the value routine it is named after."""
import contextlib
import math

import numpy as np
from hypothesis import strategies as st
from scipy import special as sps

from vlib.core import HypClause, Violation
from vlib import util as U

RULE = ("Hypothesis draws the family, the order(s) (0, 1, 2, 3 forced, otherwise uniform up to 40 quick / 120 thorough, plus the high "
        "orders 150..500 - 150 for Hermite, which overflows beyond - where the unchanged recurrences were measured to agree with the "
        "oracle to 3e-12), the shape parameters (tabulated pairs, the Chebyshev half-integers, alpha+beta in {0,-1} and next to those "
        "lines, arbitrary reals in (-1,6]), the shape of the coordinate argument (Python float, numpy scalar, 0-D, 1-D, 2-D, 3-D, "
        "optionally containing the end points of the domain), coefficient-vector lengths 1..12 with a drawn zero pattern (dense / "
        "sparse / single term; long dense / sparse vectors to 200 terms for the Jacobi sums), Clenshaw derivative orders j=1..4 and, "
        "for the surfaces, curvature / conic constant (incl. k next to -1 and 0) / off-axis shift constructed inside the real domain "
        "of the square roots, up to (1+k) c^2 rho^2 = 0.999999; coordinate and coefficient *values* are expanded from a drawn "
        "integer.  Every case also draws HOW the arguments are presented (sub-dict v): dtype of the evaluation points (float64, "
        "float32, complex128 with zero imaginary part, and - for the routines that the unchanged code accepts them in: the "
        "single-order evaluators, zernike_nm_der with a Jacobi order >= 1, the conic helpers, Python-int scalars for the Clenshaw / "
        "sag-slope routines - integer-valued points as int64/int32/int16/int8 arrays, numpy integer scalars and Python ints), memory "
        "layout of N-D arrays (C, Fortran, transposed view, strided view), coefficient / order containers (list, tuple, ndarray, "
        "integer-valued), a float32 evaluation of the same routine immediately before the checked one, and a re-use check (the kept "
        "result must be unchanged after the same routine is called with another order / other coefficients, and after the caller "
        "overwrites its result in place the same call must still be right).  Every array / list argument must come back unchanged.  "
        "Other entry points to the same result are drawn too: phi / rho^2 handed to the conic helpers by the caller, x by keyword for the "
        "Jacobi Clenshaw sum, Surface.sphere / .conic / .off_axis_conic FFp; rarely the single-order derivative is evaluated on more than "
        "2**16 points.  "
        "Oracle: complex-step derivative Im f(x+ih)/h, h=1e-30, of the *value* routine (exact to rounding, no "
        "step-size trade-off) for every first derivative (w.r.t. x, r, t, u, rho); scipy.special explicit sums "
        "sum s_n poch(n+a+b+1,j)/2^j P_(n-j)^(a+j,b+j) for higher Jacobi Clenshaw derivatives (complex step of sum s_n P_n and of "
        "sum s_n P_n' for the long vectors); the Cauchy integral "
        "(FFT over a circle in the complex plane, exact for polynomials) of the value routines Qbfs / Q2d for higher "
        "Qbfs / Q2d Clenshaw derivatives; the explicit mode sum sum c Q(n,m,u,t) and the closed conic form for the "
        "sag-and-slope evaluators (2D-Q coefficient sets: m=0 vector possibly empty, per azimuthal order both families, "
        "none, or only the cosine / only the sine family, as Q2d_nm_c_to_a_b packs them, optionally preceded by a run of empty orders).  "
        "Every Clenshaw derivative routine is also compared with the derivative of the VALUE routine it names, by complex step through that routine "
        "itself (jacobi_sum_clenshaw; clenshaw_qbfs = x(1-x)S(x); the sum formed from clenshaw_q2d), and each row k of the returned array with the "
        "complex-step derivative of row k-1 of the same routine; the slopes of compute_z_zprime_Qbfs / _Qcon / _Q2d with the complex-step derivative "
        "of the sag the same call returns.  Jacobi parameters include alpha = -beta != 0 (Chebyshev 3rd / 4th kind weights (-.5,.5), (.5,-.5), "
        "(.25,-.25), ...), alpha = beta, and pairs displaced from every equality-defined special case by a relative 1e-12 .. 1e-4.  Surface "
        "parameters include the exactly-special values together: curvature 0 (plane base: 0, 0.0, -0.0) and next to it (1e-9 .. 1e-200), k = 0, "
        "k = -1, dx = dy = 0 (positionally, by keyword or defaulted), with a normalization radius equal to the aperture, wider than it, or exactly 1; "
        "Surface objects are built with the drawn parameters or built with others and given the drawn ones through the public params dict "
        "(Surface.plane too: zero sag and slopes).  The Clenshaw routines are also given a caller-supplied alphas= workspace (fresh, or used before by a "
        "call of the same shape); orders / derivative orders as np.int64, shape parameters as np.float64; one array object for two coordinates "
        "(r is t, u is t, x is y); one case in four makes a request that fails (evaluation points None, caught) immediately before the checked call.  "
        "The single-precision request that precedes the checked one (pre32) is made with single-precision data under the double-precision configuration, or as the "
        "start of a session under prysm.conf.config.precision = 32 - single-precision data, or the very argument objects of the checked call; one time in four after "
        "vlib.util.cold_start() has cleared every functools.lru_cache of the polynomial modules -: the configuration is back at 64 for the checked request, whose "
        "answer is then also compared with the same oracle at 1/100 (single-order derivatives: 1/10) of the ordinary tolerance (bucket ...:after-single-precision-session; "
        "unchanged code <= 2e-4 of that tighter tolerance); nothing is asserted about the accuracy of the request made under the single-precision configuration.  "
        "Every Clenshaw derivative sum and every sag-and-slope evaluator (jacobi_sum_clenshaw_der, clenshaw_qbfs_der, clenshaw_q2d_der, compute_z_zprime_Qbfs / _Qcon / "
        "_Q2d, Q2d_and_der) is evaluated about one time in twelve on more than 2**16 points - 3 x 22003, 257 x 263, 22003 x 3, 2 x 1 x 32771, 65537 - in every memory "
        "layout (Fortran-ordered, transposed view, strided, C; at most 6 / 4 / 3 orders per coefficient vector there), buckets ...:size>2^16:C-ordered / not-C-ordered.  "
        "After the checked call the caller edits its coordinate arrays in place (x -> mid + (x - mid)/2, r *= 1/2, t += clocking; u^2 kept in step with u in place) and "
        "asks again with the same objects (single-order and sequence derivatives, Zernike, compute_z_zprime_*): the answer must be the derivative at the new values "
        "(...:coordinates-edited-in-place).  "
        "Failure buckets name the routine "
        "and the failing input class (n=0 / n>=1, len1, j>=2, j>=len, k!=0, x.ndim!=1 for the Chebyshev sequence forms, "
        "one-family-empty for 2D-Q, :argument-modified, :result-overwritten, :aliased-state).  Non-trivial = order in {0,1} or "
        "order >= 6 (beyond the repository's tests) or "
        "non-tabulated shape parameter or j >= 2 or a length-1 / sparse vector or an azimuthal derivative or an N-D / "
        "scalar coordinate argument or a non-zero conic constant / shift or a non-default presentation of the arguments.")
ASSUMPTIONS = [
    "prysm's polynomial and sag *value* routines are compositions of analytic elementary operations, so evaluating them "
    "at x+1e-30i gives f'(x) in the imaginary part to rounding error (Squire & Trapp 1998)",
    "scipy.special.eval_jacobi / poch are correct for degree <= 40 and parameters in (-1, 10]",
    "numpy float64 / complex128 arithmetic (IEEE-754); float32 input is only required to give the float64 answer to "
    "3e-4 (n + 10) of the largest derivative, n <= 150 (observed <= 3e-6 (n + 10) on the unchanged code)",
]

H = 1e-30
NMAX = {'quick': 40, 'thorough': 120}
RT = 1e-9      # relative tolerance (to the largest |derivative| over the drawn points) for first derivatives
HIGH_ORDERS = [150, 171, 200, 256, 300, 400, 500]    # unchanged code: <= 3e-12 of the largest derivative up to n = 500 (all families)
HERMITE_MAX = 150                                      # He_n / H_n on [-4, 4] overflow float64 beyond n ~ 170


# ---- how the arguments are presented to the code under test ------------------------------------------------------------
# One sub-dict `v` per case (absent in replays recorded before it existed -> plain float64 / C order / lists / single call).
INT_TYPES = ['int64', 'int32', 'int16', 'int8']
DEFAULT_V = {'xkind': 'f64', 'itype': 'int64', 'layout': 'C', 'layout2': 'C', 'pre32': False, 'again': False, 'cs_as': 'list', 'ns_as': 'list',
             'n_as': 'int', 'p_as': 'python', 'buf': 'none', 'prefail': False, 'session': 'data', 'edit': 'none'}
CONTAINERS = ['list', 'list', 'tuple', 'array']
# how the single-precision request that precedes the checked one (pre32) is made: single-precision data under the double-precision
# configuration ('data'), or as the start of a session under prysm.conf.config.precision = 32 - with single-precision data ('conf32'), with the
# very argument objects of the checked call ('conf32-same-args'), or that on cold memo tables ('cold-conf32': every functools.lru_cache of the
# polynomial modules cleared through the public cache_clear first)
SESSIONS = ['data', 'data', 'data', 'conf32', 'conf32-same-args', 'cold-conf32', 'cold-conf32']
# what the caller does to its coordinate arrays, in place, between the checked call and one more call with the same objects
EDITS = ['none', 'none', 'none', 'shrink', 'clock']


def variants(kinds=('f64', 'f32', 'int', 'complex')):
    pool = ['f64'] * 4 + ['f32'] * 2 * ('f32' in kinds) + ['int'] * 2 * ('int' in kinds) + ['complex'] * ('complex' in kinds)
    return st.fixed_dictionaries({
        'xkind': st.sampled_from(pool), 'itype': st.sampled_from(INT_TYPES), 'layout': U.layouts, 'layout2': U.layouts,
        'pre32': st.sampled_from([False, False, True]), 'again': st.sampled_from([False, False, True]),
        'cs_as': st.sampled_from(CONTAINERS + ['intlist', 'intarray']), 'ns_as': st.sampled_from(CONTAINERS),
        # coefficients carry units: nanometres (1e-9 of a metre), picometres, or microns of a large part
        'cscale': st.sampled_from([1.0, 1.0, 1.0, 1.0, 1e-9, 1e-12, 1e6]),
        # all evaluation points exactly at 0 (the vertex / the centre of the interval), where parity-structured sums have roots
        'xzero': st.sampled_from([False, False, False, False, True]),
        # orders / derivative orders as they come out of np.arange, shape parameters as numpy scalars (single-order evaluators)
        'n_as': st.sampled_from(['int', 'int', 'int', 'np.int64']), 'p_as': st.sampled_from(['python', 'python', 'python', 'np.float64']),
        # a caller-supplied alphas= workspace: none, a fresh one, or one that an earlier call of the same shape has already used
        'buf': st.sampled_from(['none', 'none', 'fresh', 'used']),
        # a request that fails (evaluation points None) and is caught by the caller immediately before the checked call
        'prefail': st.sampled_from([False, False, False, True]),
        # value pattern of the coefficients: independent values, all equal, or alternating +c / -c (sums that cancel exactly at x = 1 / -1)
        'cpat': st.sampled_from(['random', 'random', 'random', 'random', 'equal', 'alternating']),
        'session': st.sampled_from(SESSIONS), 'edit': st.sampled_from(EDITS)})


_CUR = {'cscale': 1.0, 'xzero': False, 'cpat': 'random'}     # presentation options of the case being checked (set by var_of, read by the generators below)


def var_of(case, kinds=('f64', 'f32', 'int', 'complex')):
    v = dict(DEFAULT_V)
    v.update(case.get('v') or {})
    if v['xkind'] not in kinds:
        v['xkind'] = 'f64'
    _CUR['cscale'] = float(v.get('cscale', 1.0))
    _CUR['xzero'] = bool(v.get('xzero', False))
    _CUR['cpat'] = v.get('cpat', 'random')
    return v


def var_labels(ctx, v, shape):
    """histogram of the presentation classes actually exercised"""
    nd = 0 if isinstance(shape, str) else len(shape)
    ctx.label('x:' + v['xkind'] + (':' + v['itype'] if v['xkind'] == 'int' and not isinstance(shape, str) else ''))
    if nd >= 1:
        ctx.label('layout:' + v['layout'])
    if v['pre32']:
        ctx.label('after-float32-call')
    if v['again']:
        ctx.label('re-use-check')
    return v['xkind'] != 'f64' or (nd >= 1 and v['layout'] not in ('C',)) or v['pre32'] or v['again'] or v.get('edit', 'none') != 'none'


def present(x, shape, v, layout=None, kind=None):
    """the float64 points x (ndarray of the drawn shape, or a Python float for the scalar shapes) as they are handed to prysm"""
    kind = kind or v['xkind']
    if shape == 'pyfloat':
        return int(x) if kind == 'int' else complex(x, 0.0) if kind == 'complex' else float(x)
    if shape == 'npscalar':
        return {'int': getattr(np, v['itype']), 'f32': np.float32, 'complex': np.complex128, 'f64': np.float64}[kind](x)
    dt = {'f64': np.float64, 'f32': np.float32, 'int': getattr(np, v['itype']), 'complex': np.complex128}[kind]
    a = np.asarray(x).astype(dt)
    return U.relayout(a, layout or v['layout']) if a.ndim else a


def order_as(n, v):
    """an order (or derivative order) as the caller holds it: a Python int, or the numpy integer an np.arange loop yields"""
    return np.int64(n) if v.get('n_as', 'int') == 'np.int64' else n


def params_as(p, v):
    """shape parameters as Python numbers, or as numpy float64 scalars (hashable, so the cached recurrence coefficients accept them)"""
    return [np.float64(q) for q in p] if v.get('p_as', 'python') == 'np.float64' else list(p)


def prefail(ctx, v, fn, *args, **kw):
    """blind-spot class 'after an exception was raised and caught': the same routine is first asked for something it cannot do (the
    evaluation points are None) and the caller catches the exception; nothing is asserted about that request - the checked call that
    follows must behave as if it had never happened"""
    if not v.get('prefail', False):
        return
    ctx.label('after-failed-request')
    try:
        fn(*args, **kw)
    except Exception:       # noqa - whatever the library raises for the impossible request; a request that does not fail asserts nothing either
        pass


def as32(x):
    """the same argument in single precision (for the evaluation that precedes the checked one)"""
    if isinstance(x, np.ndarray):
        return x.astype(np.float32) if x.dtype.kind in 'fiu' else x.astype(np.complex64)
    if isinstance(x, (complex, np.complexfloating)):
        return np.complex64(x)
    return np.float32(x)


def session_of(v):
    """'' or the kind of single-precision session in which the request that precedes the checked one is made"""
    how = v.get('session', 'data')
    return how if v['pre32'] and how != 'data' else ''


@contextlib.contextmanager
def single_session(ctx, v):
    """blind-spot class 'a session that starts under the single-precision configuration (on cold memo tables)': the request that precedes the
    checked one runs while prysm.conf.config.precision = 32 - after vlib.util.cold_start() for the 'cold' kinds -; the configuration is back at 64
    for the checked request, which must then be as accurate as double precision allows (nothing that was tabulated or memoised in single
    precision may serve it).  Nothing is asserted about the accuracy of the request made under the single-precision configuration."""
    how = session_of(v)
    if not how:
        yield
        return
    if how.startswith('cold'):
        U.cold_start()
    ctx.label('history:single-precision-session', 'session:' + how)
    with U.precision(32):
        yield


def single(v, x):
    """a coordinate argument of the request that precedes the checked one: in single precision, or - 'conf32-same-args' - the very object"""
    return x if session_of(v) == 'conf32-same-args' else as32(x)


def session_close(ctx, v, got, want, rt, bucket, what, scale, factor=1e-2):
    """after a single-precision session the double-precision answer is compared with the same oracle at `factor` times the ordinary tolerance
    (unchanged code: measured per clause, see the call sites; a remnant of single precision is 1e-8 .. 1e-7 of the scale)"""
    if not session_of(v) or v['xkind'] == 'f32':
        return
    srt = rt * factor
    keep = U.APPROACH[0]        # the tighter comparison is a pass / fail check of this history; it is not fed to the search target of the thorough tier
    try:
        U.check_close(got, want, srt, bucket + ':after-single-precision-session',
                      what + ' [double-precision request after a request made under config.precision = 32: %s]' % session_of(v), atol=srt * scale)
    finally:
        U.APPROACH[0] = keep


def editable(a):
    return isinstance(a, np.ndarray) and a.flags.writeable and a.size > 0 and a.dtype.kind in 'fc'


def now64(a):
    """the values a coordinate argument holds now, as float64 (complex points have zero imaginary part)"""
    a = np.asarray(a)
    return np.array(a.real if a.dtype.kind == 'c' else a, dtype=float)


def edit_check(ctx, v, bucket, coords, redo, verify):
    """blind-spot class 'public coordinate arrays edited in place between two calls with the same objects': after the checked call the caller
    rescales / shifts / clocks its coordinate arrays IN PLACE (t += clocking, r *= 1/radius, x -> mid + (x - mid)/2: every value stays inside the
    domain) and asks again with the same array objects; the answer must be that of the values the arrays hold now (`verify(result, bucket)` builds
    the oracle from the current values).  coords: (argument, lo, hi, periodic) per coordinate argument; arguments that are not writeable float /
    complex arrays (Python and numpy scalars, integer arrays) are left alone; one object given for two coordinates is edited once."""
    how = v.get('edit', 'none')
    if how == 'none':
        return False
    done = []
    for a, lo, hi, periodic in coords:
        if not editable(a) or any(a is b for b in done):
            continue
        if periodic:
            if how == 'clock':
                a += 0.375
            else:
                a *= 0.5
        elif how == 'clock' and lo <= 0.0 <= hi:
            a *= 0.5
        else:
            mid = 0.5 * (lo + hi)
            a -= mid
            a *= 0.5
            a += mid
        done.append(a)
    if not done:
        return False
    ctx.label('coordinates-edited-in-place:' + how)
    verify(redo(), bucket + ':coordinates-edited-in-place')
    return True


def contain(values, how):
    """a coefficient vector / order list in the drawn container"""
    if how in ('tuple',):
        return tuple(values)
    if how in ('array', 'intarray'):
        return np.array(values)
    return list(values)


def rtol_of(v, n, rt):
    """tolerance relative to the largest reference value: float64 tolerance, or the single-precision one for float32 points"""
    return max(rt, 3e-4 * (n + 10)) if v['xkind'] == 'f32' else rt


def snapshot(a):
    if isinstance(a, np.ndarray):
        return a.copy()
    if isinstance(a, (list, tuple)):
        return type(a)(snapshot(e) for e in a)
    if isinstance(a, dict):
        return {k: snapshot(e) for k, e in a.items()}
    return a


def same(a, b):
    if isinstance(a, np.ndarray):
        return isinstance(b, np.ndarray) and a.dtype == b.dtype and a.shape == b.shape and bool(np.array_equal(a, b, equal_nan=a.dtype.kind in 'fc'))
    if isinstance(a, (list, tuple)):
        return type(a) is type(b) and len(a) == len(b) and all(same(x, y) for x, y in zip(a, b))
    if isinstance(a, dict):
        return isinstance(b, dict) and list(a) == list(b) and all(same(a[k], b[k]) for k in a)
    if isinstance(a, float) and a != a:
        return isinstance(b, float) and b != b
    return type(a) is type(b) and a == b


def _arrays(o):
    if isinstance(o, np.ndarray):
        yield o
    elif isinstance(o, (list, tuple)):
        for e in o:
            yield from _arrays(e)
    elif isinstance(o, dict):
        for e in o.values():
            yield from _arrays(e)


def scribble(result, args):
    """overwrite, in place, every array of `result` that is the caller's own (writeable, no memory shared with an argument);
    returns the number of arrays overwritten"""
    ins = list(_arrays(list(args)))
    n = 0
    for r in _arrays(result):
        if r.flags.writeable and r.size and not any(np.shares_memory(r, a) for a in ins):
            r[...] = 7 if r.dtype.kind in 'iu' else 1.2345e11
            n += 1
    return n


def fname(fn):
    return getattr(fn, '__qualname__', getattr(fn, '__name__', str(fn)))


def reuse_check(ctx, v, bucket, first, args, other, redo, verify):
    """blind-spot class 'results must not alias library state or each other':
    (a) the kept result is bit-for-bit unchanged after `other()` (the same routine with another order / other coefficients),
    (b) after the caller overwrites its own result arrays in place, `redo()` (the checked call again) is still right."""
    if not v['again']:
        return
    keep = snapshot(first)
    other()
    ctx.require(same(first, keep), bucket + ':result-overwritten', 'the result kept from the first call changed when the routine was called again with other arguments')
    if scribble(first, args):
        verify(redo(), bucket + ':aliased-state')


WORKSPACES = ('alphas',)       # keyword arguments documented as output / scratch storage of the callee


def call(ctx, cls, fn, *a, **k):
    """ctx.call, with the failing input class appended to the bucket of a crash; every array / list / tuple argument must come
    back exactly as it was handed in"""
    kin = {n: e for n, e in k.items() if n not in WORKSPACES}       # a workspace is there to be written to
    before = snapshot((a, kin))
    try:
        out = ctx.call(fn, *a, **k)
    except Violation as v:
        if v.bucket.startswith('raise:') and cls:
            raise Violation(v.bucket + ':' + cls, v.msg) from v
        raise
    if not same((a, kin), before):
        bad = [i for i, (x, y) in enumerate(zip(a, before[0])) if not same(x, y)] + [n for n in kin if not same(kin[n], before[1][n])]
        raise Violation('%s:argument-modified' % fname(fn), '%s changed its argument(s) %s in place' % (fname(fn), bad))
    return out


# ---- generators ----------------------------------------------------------------------------------
def orders(tier):
    return st.one_of(st.sampled_from([0, 1, 2, 3]), st.integers(0, NMAX[tier]), st.integers(0, 12))


def orders_high(tier, cap=500):
    """orders(), plus the far end of the range in which the unchanged recurrences are still accurate"""
    return st.one_of(orders(tier), orders(tier), orders(tier), st.sampled_from([n for n in HIGH_ORDERS if n <= cap] or [cap]))


_ab_float = U.nice_float(-0.99, 6.0)
AB_TABLE = [[0, 0], [-0.5, -0.5], [0.5, 0.5], [-0.5, 0.5], [0.5, -0.5], [0, 4], [1, 1], [0, 1], [0, 2], [2, 0]]


# alpha = -beta != 0 (the weights of the Chebyshev polynomials of the third / fourth kind and their relatives: B_0 = (alpha - beta)/2 is
# the only recurrence coefficient that does not carry the factor alpha^2 - beta^2) and alpha = beta (ultraspherical: every B_n = 0)
AB_MIRROR = [[-0.5, 0.5], [0.5, -0.5], [0.25, -0.25], [-0.25, 0.25], [0.75, -0.75], [-0.9, 0.9], [0.125, -0.125]]
AB_EQUAL = [[1.5, 1.5], [2, 2], [0.25, 0.25], [-0.25, -0.25], [3.0, 3.0], [-0.9, -0.9], [0.75, 0.75], [1, 1], [5, 5]]


def ab_pairs():
    """(alpha, beta): tabulated, general, and the two special lines alpha+beta = 0 and alpha+beta = -1."""
    return st.one_of(
        st.sampled_from(AB_TABLE),
        st.sampled_from(AB_MIRROR + AB_EQUAL),
        _ab_float.map(lambda a: [a, a]),
        st.tuples(_ab_float, _ab_float).map(list),
        st.tuples(_ab_float, _ab_float).map(list),
        U.nice_float(-0.95, 0.95).map(lambda a: [a, -a]),
        U.nice_float(-0.95, -0.05).map(lambda a: [a, -1.0 - a]),
        st.tuples(st.integers(0, 6), st.integers(0, 6)).map(list),
        # next to, but not on, the two special lines (e.g. alpha = 0.1 + 0.2, beta = -0.3): formulas that divide by
        # alpha + beta (+1) after an exact == test cancel catastrophically here
        st.tuples(U.nice_float(-0.95, 0.95), st.sampled_from([5.5e-17, -1.1e-16, 1e-15, 1e-12, -1e-9, 1e-6])).map(lambda t: [t[0], -t[0] + t[1]]),
        st.tuples(U.nice_float(-0.95, -0.05), st.sampled_from([1.1e-16, -2.2e-16, 1e-12, -1e-9, 1e-6])).map(lambda t: [t[0], -1.0 - t[0] + t[1]]),
        # the far ends of the range
        st.sampled_from([[-0.99, -0.99], [6.0, 6.0], [-0.99, 6.0], [6.0, -0.99], [-0.99, 0.0], [0, -0.99]]),
    )


def ab_class(a, b):
    if [a, b] in AB_TABLE:
        return 'ab:tabulated'
    if a + b == 0:
        return 'ab:sum=0'
    if a + b == -1:
        return 'ab:sum=-1'
    if abs(a + b) < 1e-5 or abs(a + b + 1) < 1e-5:
        return 'ab:near-special-line'
    if a == b:
        return 'ab:alpha=beta'
    if float(a).is_integer() and float(b).is_integer():
        return 'ab:integer'
    return 'ab:general'


# ---- shape parameters nearly, but not exactly, on a special case ----------------------------------------------------------
# Every special case of the Jacobi family is a statement about exactly equal numbers: alpha = beta (ultraspherical: Legendre, Gegenbauer,
# Chebyshev 1st / 2nd kind - no constant term in the recurrence), alpha = -beta and alpha + beta = -1 (0/0 in the closed form of the first
# recurrence coefficients), the half-integer Chebyshev pairs, (0, 0), the Zernike / Qcon pairs (0, m).  A pair that is merely *close* to one
# of them (relative 1e-12 .. 1e-4) is an ordinary pair and must be evaluated as such.  Unchanged code against scipy for all of these, orders
# up to 120: <= 3e-12 of the largest value.  (Shared with C07.)
NEAR_RELS = [1e-4, -1e-4, 3e-5, -3e-5, 1e-5, -1e-5, 3e-6, -3e-6, 1e-6, -1e-6, 1e-7, -1e-9, 1e-12]
NEAR_BASES = [-0.9, -0.75, -0.5, -0.25, 0.25, 0.5, 1, 1.5, 2, 3, 4, 6]
CHEBY_PAIRS = [[-0.5, -0.5], [0.5, 0.5], [-0.5, 0.5], [0.5, -0.5]]


def near_special_pairs():
    base = st.one_of(st.sampled_from(NEAR_BASES), U.nice_float(-0.95, 6.0).filter(lambda a: abs(a) > 1e-3))
    rel = st.sampled_from(NEAR_RELS)
    small = st.sampled_from([0.0, 1e-4, -1e-5, 1e-6, -1e-8, 1e-9, 1e-12])
    return st.one_of(
        # alpha ~ beta, either one displaced
        st.tuples(base, rel, st.booleans()).map(lambda t: [t[0], t[0] * (1 + t[1])] if t[2] else [t[0] * (1 + t[1]), t[0]]),
        st.tuples(base, rel, st.booleans()).map(lambda t: [t[0], t[0] * (1 + t[1])] if t[2] else [t[0] * (1 + t[1]), t[0]]),
        # alpha ~ -beta and alpha + beta ~ -1, relative displacements (ab_pairs has the absolute ones down to 5e-17)
        st.tuples(st.one_of(st.sampled_from([-0.9, -0.5, -0.25, 0.25, 0.5, 0.9]), U.nice_float(-0.9, 0.9).filter(lambda a: abs(a) > 1e-3)), rel).map(
            lambda t: [t[0], -t[0] * (1 + t[1])]),
        st.tuples(st.one_of(st.sampled_from([-0.9, -0.75, -0.5, -0.25, -0.1]), U.nice_float(-0.9, -0.1)), rel).map(lambda t: [t[0], (-1.0 - t[0]) * (1 + t[1])]),
        # next to the Chebyshev half-integer pairs, to Legendre (0, 0) and to the Zernike / Qcon pairs (0, m)
        st.tuples(st.sampled_from(CHEBY_PAIRS), rel, rel, st.sampled_from([0, 1, 2])).map(
            lambda t: [t[0][0] * (1 + (t[1] if t[3] != 1 else 0.0)), t[0][1] * (1 + (t[2] if t[3] != 0 else 0.0))]),
        st.tuples(small, small).filter(lambda t: t != (0.0, 0.0)).map(list),
        st.tuples(small.filter(lambda d: d != 0), st.integers(1, 6), st.one_of(st.just(0.0), rel)).map(lambda t: [t[0], t[1] * (1 + t[2])]),
    )


def ab_pairs9():
    """ab_pairs (tabulated, mirrored, equal, general, on / absolutely next to the lines alpha + beta = 0, -1, far ends) and the nearly-special pairs"""
    return st.one_of(ab_pairs(), ab_pairs(), near_special_pairs())


def ab_class9(a, b):
    """class label of a parameter pair; pairs next to (not on) an equality-defined special case get their own classes"""
    base = ab_class(a, b)
    if base in ('ab:tabulated', 'ab:sum=0', 'ab:sum=-1', 'ab:alpha=beta'):
        return base + (':chebyshev-3rd/4th-kind-like' if a == -b and a != 0 else '')

    def close(p, q):
        return abs(p - q) <= 1.5e-4 * max(1.0, abs(q))
    if any(close(a, c[0]) and close(b, c[1]) for c in CHEBY_PAIRS):
        return 'ab:near-chebyshev-pair'
    if close(a, 0) and close(b, 0):
        return 'ab:near-(0,0)'
    if close(a, 0) and b >= 0.5 and close(b, round(b)) and (a != 0 or b != round(b)):
        return 'ab:near-(0,m)'
    if a != b and close(a, b):
        return 'ab:nearly-equal'
    if base == 'ab:near-special-line':
        return base
    if close(a, -b):
        return 'ab:near-alpha=-beta:relative'
    if close(a + b, -1.0):
        return 'ab:near-sum=-1:relative'
    return base


SCALAR_SHAPES = ('pyfloat', 'npscalar')     # Python scalar / numpy scalar (np.float64, np.float32, np.int64 ...); [] is the 0-D array


def point_shapes(nd_max=5):
    s = st.integers(1, nd_max)
    return st.one_of(st.just('pyfloat'), st.just('npscalar'), st.just([]), st.integers(1, 12).map(lambda k: [k]),
                     st.tuples(s, s).map(list), st.tuples(s, s).map(list), st.tuples(st.integers(1, 3), s, st.integers(1, 3)).map(list))


BIG_SHAPES = [[65537], [70001], [257, 263], [3, 21851, 1]]     # > 2**16 samples, prime / odd axis lengths, size-1 axes


def with_big_shapes(strategy, order_key='n', limit=60):
    """point_shapes() plus, rarely, a large array (only together with a moderate order: the cost is order * size)"""
    def fix(t):
        case, big = t
        if big is not None and case[order_key] <= limit:
            case = dict(case)
            case['shape'] = big
        return case
    return st.tuples(strategy, st.one_of(st.none(), st.none(), st.none(), st.none(), st.none(), st.none(), st.none(), st.none(), st.none(),
                                         st.sampled_from(BIG_SHAPES))).map(fix)


# Sizes that cross block sizes, TOGETHER with every memory layout: more than 2**16 evaluation points as thin 2-D / 3-D arrays (so that the Fortran-ordered,
# transposed and strided presentations of `present` differ from the C one) and as a vector; prime axis lengths, size-1 axes.  Used by every sum / sag-and-slope
# clause; the number of terms is cut to BIG_TERMS on them (the cost is terms * size).
BIG_THIN = [[3, 22003], [257, 263], [22003, 3], [2, 1, 32771], [65537], [3, 22003], [257, 263]]
BIG_TERMS = 6


def with_big(strategy, key='shape', shapes=BIG_THIN, one_in=10):
    """the drawn case, one time in `one_in` on a large array instead of its drawn shape (a sampled index compared with one value: measured frequency
    ~ 1 / one_in; st.one_of over repeated st.none() collapses the repeats and gives one in two)"""
    def fix(t):
        case, pick, big, lay = t
        if pick == one_in // 2:
            case = dict(case)
            case[key] = big
            if isinstance(case.get('v'), dict):      # the large arrays come in every memory layout, mostly not the C one
                case['v'] = dict(case['v'], layout=lay[0], layout2=lay[1])
        return case
    lays = st.sampled_from(['F', 'T-view', 'strided', 'F', 'T-view', 'C'])
    return st.tuples(strategy, st.sampled_from(list(range(one_in))), st.sampled_from(shapes), st.tuples(lays, lays)).map(fix)


def is_big(shape):
    return size_of(shape) > 65536


def cut_mask(mask, shape, terms=BIG_TERMS):
    """the drawn 0/1 pattern of a coefficient vector, cut to `terms` orders on a large array"""
    if not is_big(shape) or len(mask) <= terms:
        return mask
    m = list(mask[:terms])
    if not any(m):
        m[-1] = 1
    return m


def array_shapes(nd_max=5):
    """shapes of things that have .shape and .dtype (the sequence forms need them): numpy scalar, 0-D ... 3-D"""
    s = st.integers(1, nd_max)
    return st.one_of(st.just('npscalar'), st.just([]), st.integers(1, 12).map(lambda k: [k]), st.tuples(s, s).map(list), st.tuples(s, s).map(list),
                     st.tuples(st.integers(1, 3), s, st.integers(1, 3)).map(list))


def shape_label(shape):
    if isinstance(shape, str):
        return 'x:' + shape
    return 'x:%d-D' % len(shape)


def shape_tuple(shape):
    return () if isinstance(shape, str) else tuple(shape)


def size_of(shape):
    return 1 if isinstance(shape, str) else int(np.prod(shape, dtype=int)) if len(shape) else 1


def make_points(seed, shape, lo, hi, edge, salt=0, edges=None, kind='f64'):
    """(points as float64 in the drawn shape - a Python float for the scalar shapes -, flat base array).  The points are the first
    size_of(shape) entries of the base array; the base array has >= 8 points spread over [lo,hi] and defines the scale of the
    comparison.  kind 'int': integer-valued points of [lo,hi]; kind 'f32': points that are exactly representable in float32."""
    size = size_of(shape)
    r = U.rng_of(seed, salt)
    if kind == 'int':
        base = r.integers(math.ceil(lo), math.floor(hi) + 1, max(8, size)).astype(float)
    else:
        base = r.uniform(lo, hi, max(8, size))
    if edge:
        e = (lo, hi) if edges is None else edges
        base[0] = e[0]
        if size > 1:
            base[size - 1] = e[1]
        else:
            base[0] = e[int(seed) % 2]
    if kind == 'f32':
        base = base.astype(np.float32).astype(float)     # hi may be exceeded by half a float32 ulp when it is not representable
    if _CUR['xzero'] and lo <= 0.0 <= hi and salt == 0:
        # every evaluated point exactly at 0; eight more points of the interval follow them in the base array and set the scale
        base = np.concatenate([np.zeros(size), base[:8]])
    sub = base[:size]
    if isinstance(shape, str):
        return float(sub[0]), base
    return sub.reshape(shape).copy(), base


def cstep(x):
    """x + ih for a Python float or an ndarray"""
    if isinstance(x, float):
        return complex(x, H)
    return np.asarray(x, dtype=float) + 1j * H


def shaped(full, shape):
    size = size_of(shape)
    a = np.asarray(full)[..., :size]
    if isinstance(shape, str):
        return a.reshape(a.shape[:-1])
    return a.reshape(a.shape[:-1] + tuple(shape))


def coef_vector(mask, seed, salt):
    """coefficients: mask (drawn 0/1 list) times U(-1,1) values bounded away from 0"""
    r = U.rng_of(seed, salt)
    v = r.uniform(0.2, 1.0, len(mask)) * r.choice([-1.0, 1.0], len(mask)) * _CUR['cscale']
    if not len(mask):
        return []
    if _CUR['cpat'] == 'equal':
        v = np.full(len(mask), v[0])
    elif _CUR['cpat'] == 'alternating':
        v = v[0] * (-1.0) ** np.arange(len(mask))
    return [float(c) if k else 0.0 for c, k in zip(v, mask)]


def coef_label(ctx, v):
    ctx.label('coefficients:' + v.get('cpat', 'random'))


def masks(max_len):
    dense = st.integers(1, max_len).map(lambda k: [1] * k)
    sparse = st.lists(st.sampled_from([0, 1, 1]), min_size=3, max_size=max_len).map(lambda m: m[:-1] + [1])   # highest order present
    single = st.tuples(st.integers(1, max_len), st.integers(0, max_len - 1)).map(
        lambda t: [1 if i == t[1] % t[0] else 0 for i in range(t[0])])
    odd_only = st.integers(2, max_len).map(lambda k: [i % 2 for i in range(k)][:-1] + [1] if k % 2 == 0 else [i % 2 for i in range(k)] + [1][:0] or [0, 1])
    parity = st.tuples(st.integers(3, max_len), st.integers(0, 1)).map(lambda t: [1 if i % 2 == t[1] else 0 for i in range(t[0])]).filter(lambda m: m[-1] == 1 or any(m))
    return st.one_of(dense, sparse, sparse, single, st.just([1]), st.just([1, 1]), parity.map(lambda m: m if m[-1] else m[:-1]))


def mask_class(mask):
    if len(mask) == 1:
        return 'vec:len1'
    if all(mask):
        return 'vec:dense'
    if sum(mask) <= 1:
        return 'vec:single-term'
    return 'vec:sparse'


# ---- the one-variable families --------------------------------------------------------------------
# name -> (value, derivative, derivative sequence, number of shape parameters, (lo, hi) sampled domain)
def families():
    from prysm import polynomials as P
    return {
        'jacobi': (P.jacobi, P.jacobi_der, P.jacobi_der_seq, 2, (-1.0, 1.0)),
        'legendre': (P.legendre, P.legendre_der, P.legendre_der_seq, 0, (-1.0, 1.0)),
        'cheby1': (P.cheby1, P.cheby1_der, P.cheby1_der_seq, 0, (-1.0, 1.0)),
        'cheby2': (P.cheby2, P.cheby2_der, P.cheby2_der_seq, 0, (-1.0, 1.0)),
        'cheby3': (P.cheby3, P.cheby3_der, P.cheby3_der_seq, 0, (-1.0, 1.0)),
        'cheby4': (P.cheby4, P.cheby4_der, P.cheby4_der_seq, 0, (-1.0, 1.0)),
        'hermite_He': (P.hermite_He, P.hermite_He_der, P.hermite_He_der_seq, 0, (-4.0, 4.0)),
        'hermite_H': (P.hermite_H, P.hermite_H_der, P.hermite_H_der_seq, 0, (-4.0, 4.0)),
        'laguerre': (P.laguerre, P.laguerre_der, P.laguerre_der_seq, 1, (0.0, 20.0)),
    }


FAMS = ['jacobi', 'jacobi', 'legendre', 'cheby1', 'cheby2', 'cheby3', 'cheby4', 'hermite_He', 'hermite_H', 'laguerre', 'laguerre']
CHEBYS = ['cheby1', 'cheby2', 'cheby3', 'cheby4']


def fam_params(fam):
    if fam == 'jacobi':
        return ab_pairs9()
    if fam == 'laguerre':
        return st.one_of(st.sampled_from([0, 0.5, 1, 2, -0.5, -0.99, 6.0]), U.nice_float(-0.99, 6.0)).map(lambda a: [a])
    return st.just([])


def n_class(n):
    return 'n=0' if n == 0 else 'n=1' if n == 1 else 'n=2..5' if n <= 5 else 'n=6..40' if n <= 40 else 'n>40'


HERMITES = ('hermite_He', 'hermite_H')


def order_cap(fam):
    return HERMITE_MAX if fam in HERMITES else 500


def settle_kind(v, fam, nmax):
    """the presentation classes that the *unchanged* single-order evaluators accept, per family (measured): float32 Hermite values
    overflow beyond n ~ 40; integer points make the Hermite recurrences run in integer arithmetic (exact below 2^63: n <= 15 on
    [-4,4], int64 only) and the Laguerre ones start in it when alpha is an integer (no int8 / int16)."""
    v = dict(v)
    if v['xkind'] == 'f32' and nmax > 150:
        v['xkind'] = 'f64'      # single precision is checked where it still means something: observed <= 3e-6 (n + 10) up to n = 150
    if fam in HERMITES:
        if (v['xkind'] == 'f32' and nmax > 40) or (v['xkind'] == 'int' and nmax > 15):
            v['xkind'] = 'f64'
        v['itype'] = 'int64'
    if fam == 'laguerre' and v['itype'] in ('int8', 'int16'):
        v['itype'] = 'int32'
    return v


def strat_der_scalar(tier):
    return with_big_shapes(st.sampled_from(FAMS).flatmap(lambda fam: st.fixed_dictionaries({
        'fam': st.just(fam), 'n': orders_high(tier, order_cap(fam)), 'p': fam_params(fam), 'shape': point_shapes(),
        'edge': st.booleans(), 'seed': U.seeds, 'v': variants()})))


def check_der_scalar(case, ctx):
    """<family>_der(n, ..., x) == d/dx <family>(n, ..., x) (complex step), same shape as x, for every family, every presentation of x."""
    fam, n, p, shape = case['fam'], case['n'], case['p'], case['shape']
    val, der, _, npar, (lo, hi) = families()[fam]
    v = settle_kind(var_of(case), fam, n)
    x, base = make_points(case['seed'], shape, lo, hi, case['edge'], kind=v['xkind'])
    xarg = present(x, shape, v)
    ctx.label(fam, n_class(n), shape_label(shape), 'edge' if case['edge'] else 'interior', 'size>2^16' if size_of(shape) > 65536 else 'size<=2^16',
              'n-as:' + v['n_as'])
    if fam == 'jacobi':
        ctx.label(ab_class9(*p))
    if npar:
        ctx.label('params-as:' + v['p_as'])
    nt = var_labels(ctx, v, shape)
    ctx.nt(nt or n <= 1 or n >= 6 or isinstance(shape, str) or len(shape) != 1 or (fam == 'jacobi' and ab_class(*p) != 'ab:tabulated')
           or fam == 'laguerre' or v['n_as'] != 'int' or (npar and v['p_as'] != 'python'))
    cls = 'n=0' if n == 0 else 'n>=1'
    if v['pre32']:
        with single_session(ctx, v):
            g32 = call(ctx, cls + ':float32', der, n, *p, single(v, xarg))
        U.check_shape(g32, shape_tuple(shape), '%s_der:float32' % fam, '%s_der(%d, %s, float32 x)' % (fam, n, p))
    want_full = np.imag(ctx.call(val, n, *p, base + 1j * H)) / H
    narg, parg = order_as(n, v), params_as(p, v)       # what is handed over; n and p stay the plain numbers the reference is built from
    prefail(ctx, v, der, narg, *parg, None)
    want = shaped(want_full, shape)
    scale = float(np.max(np.abs(want_full)))
    rt = rtol_of(v, n, RT)
    what = '%s_der(n=%d, params=%s, x: %s %s) vs complex-step derivative of %s' % (fam, n, p, v['xkind'], shape_label(shape), fam)

    def verify(got, bucket, want=want):
        U.check_shape(got, np.shape(want), bucket, '%s_der(%d, %s, x) for x of shape %s' % (fam, n, p, shape))
        U.check_close(got, want, rt, bucket, what, atol=rt * scale)
    bucket = '%s_der:%s' % (fam, cls)
    got = call(ctx, cls, der, narg, *parg, xarg)
    verify(got, bucket)
    # unchanged code: <= 3e-12 of the largest derivative up to n = 500
    session_close(ctx, v, got, want, rt, bucket, what, scale, factor=1e-1)
    n2 = n + 1 if n + 1 <= order_cap(fam) and not (v['xkind'] == 'int' and fam in HERMITES and n + 1 > 15) else n - 1
    reuse_check(ctx, v, bucket, got, (xarg,), lambda: ctx.call(der, n2, *p, xarg), lambda: ctx.call(der, narg, *parg, xarg), verify)
    edit_check(ctx, v, bucket, [(xarg, lo, hi, False)], lambda: ctx.call(der, narg, *parg, xarg),
               lambda g, b_: verify(g, b_, want=np.imag(ctx.call(val, n, *p, now64(xarg) + 1j * H)) / H))


# ---- sequence forms -------------------------------------------------------------------------------
def order_lists(tier, cap=500):
    nmax = NMAX[tier]
    contiguous = st.tuples(st.sampled_from([0, 0, 1, 2, 3]), st.integers(2, 12)).map(lambda t: list(range(t[0], t[0] + t[1])))
    anystart = st.tuples(st.integers(0, nmax - 2), st.integers(2, 8)).map(lambda t: list(range(t[0], min(nmax, t[0] + t[1] - 1) + 1)))
    gapped = st.sets(st.integers(0, nmax), min_size=2, max_size=10).map(sorted)
    single = st.one_of(st.sampled_from([0, 1, 2, 3]), st.integers(0, nmax)).map(lambda n: [n])
    # the far end: a few low orders and one or two orders from the top of the accurate range
    high = st.tuples(st.sets(st.integers(0, 12), max_size=3), st.sets(st.sampled_from([n for n in HIGH_ORDERS if n <= cap] + [cap - 1, cap]), min_size=1, max_size=2)).map(
        lambda t: sorted(t[0] | t[1]))
    return st.one_of(contiguous, contiguous, gapped, gapped, anystart, single, high)


def ns_class(ns):
    if len(ns) == 1:
        return 'ns:singleton'
    if ns == list(range(ns[0], ns[0] + len(ns))):
        return 'ns:contiguous-from-%s' % ('0' if ns[0] == 0 else '1' if ns[0] == 1 else 'k')
    return 'ns:gapped'


def _strat_der_seq(fams):
    def strat(tier):
        def build(t):
            fam, ns = t
            sh = st.one_of(array_shapes(), st.integers(1, 4).map(lambda k: [len(ns), k]), st.just([len(ns)]))
            return st.fixed_dictionaries({'fam': st.just(fam), 'ns': st.just(ns), 'p': fam_params(fam), 'shape': sh,
                                          'edge': st.booleans(), 'seed': U.seeds, 'v': variants(('f64', 'f32', 'complex'))})
        return st.sampled_from(fams).flatmap(lambda fam: st.tuples(st.just(fam), order_lists(tier, order_cap(fam)))).flatmap(build)
    return strat


def check_der_seq(case, ctx):
    """<family>_der_seq(ns, ..., x)[k] == d/dx <family>(ns[k], ..., x) (complex step) and shape (len(ns), *x.shape)."""
    fam, ns, p, shape = case['fam'], case['ns'], case['p'], case['shape']
    val, _, dseq, npar, (lo, hi) = families()[fam]
    # integer-typed points are not generated here: the unchanged sequence forms allocate their output in the dtype of x
    v = settle_kind(var_of(case, ('f64', 'f32', 'complex')), fam, ns[-1])
    x, base = make_points(case['seed'], shape, lo, hi, case['edge'], kind=v['xkind'])
    xarg = present(x, shape, v)
    ctx.label(fam, ns_class(ns), shape_label(shape), 'has-n=0' if ns[0] == 0 else 'no-n=0', n_class(ns[-1]), 'ns-as:' + v['ns_as'],
              'lead-dim==len(ns)' if not isinstance(shape, str) and len(shape) >= 1 and shape[0] == len(ns) else 'lead-dim!=len(ns)')
    var_labels(ctx, v, shape)
    ctx.nt(True)
    # sequence-lane defect class of the Chebyshev forms (normalisation vector broadcast): every x that is not 1-D
    cls = ':x.ndim!=1' if fam in CHEBYS and len(shape_tuple(shape)) != 1 else ''
    name = '%s_der_seq' % fam
    ccls = cls[1:] or ('has-n=0' if ns[0] == 0 else 'n>=1')
    nsarg = contain(ns, v['ns_as'])
    if v['pre32']:
        with single_session(ctx, v):
            g32 = call(ctx, ccls + ':float32', dseq, nsarg, *p, single(v, xarg))
        U.check_shape(g32, (len(ns),) + shape_tuple(shape), name + ':float32', '%s(ns=%s, float32 x)' % (name, ns))
    wants = []
    for n in ns:
        want_full = np.imag(ctx.call(val, n, *p, base + 1j * H)) / H
        wants.append((shaped(want_full, shape), float(np.max(np.abs(want_full)))))

    def verify(got, suffix, wants=wants):
        U.check_shape(got, (len(ns),) + shape_tuple(shape), name + (suffix or cls), '%s(ns=%s, x.shape=%s)' % (name, ns, shape))
        for k, n in enumerate(ns):
            want, scale = wants[k]
            rt = rtol_of(v, n, RT)
            bucket = name + (suffix or cls or (':n=0' if n == 0 else ':n>=1'))
            U.check_close(got[k], want, rt, bucket, '%s(ns=%s, params=%s, x: %s)[%d] (order %d) vs complex-step derivative of %s' % (
                name, ns, p, v['xkind'], k, n, fam), atol=rt * scale)
    parg = params_as(p, v)
    if npar:
        ctx.label('params-as:' + v['p_as'])
    prefail(ctx, v, dseq, nsarg, *parg, None)
    got = call(ctx, ccls, dseq, nsarg, *parg, xarg)
    verify(got, '')
    ns2 = contain([n + 1 if n + 1 <= order_cap(fam) else n for n in ns][:-1] or [ns[0] + 1], v['ns_as'])     # other orders, another length
    reuse_check(ctx, v, name, got, (xarg, nsarg), lambda: ctx.call(dseq, ns2, *p, xarg), lambda: ctx.call(dseq, nsarg, *p, xarg),
                lambda g, b: verify(g, b[len(name):]))

    def verify_now(g, b):
        xn = now64(xarg)
        verify(g, b[len(name):], wants=[(np.imag(ctx.call(val, n, *p, xn + 1j * H)) / H, wants[k][1]) for k, n in enumerate(ns)])
    edit_check(ctx, v, name, [(xarg, lo, hi, False)], lambda: ctx.call(dseq, nsarg, *parg, xarg), verify_now)


# ---- Zernike ---------------------------------------------------------------------------------------
def nm_pairs(nmax, high=()):
    """(n, m) of valid parity: n uniform (small n forced), m uniform over -n..n, the extremes m = +-n, 0 / +-1 forced, and the
    far end of the range of n (unchanged code: <= 1e-13 of the largest derivative up to n = 400)"""
    n = st.one_of(st.integers(0, nmax), st.integers(0, 8), st.sampled_from(list(high))) if high else st.one_of(st.integers(0, nmax), st.integers(0, 8))

    def ms(n):
        low = n % 2
        return st.one_of(st.integers(0, n).map(lambda k: -n + 2 * k), st.integers(0, n).map(lambda k: -n + 2 * k),
                         st.sampled_from([n, -n, low, -low, n - 2 if n >= 2 else n, -(n - 2) if n >= 2 else -n])).map(lambda m: [n, m])
    return n.flatmap(ms)


ZERNIKE_HIGH = {'quick': [100, 150, 200, 300], 'thorough': [100, 150, 200, 300, 400]}


def strat_zernike(tier):
    nmax = {'quick': 40, 'thorough': 80}[tier]
    return st.fixed_dictionaries({
        'nms': st.lists(nm_pairs(nmax, ZERNIKE_HIGH[tier]), min_size=1, max_size=5), 'norm': st.booleans(), 'shape': point_shapes(),
        'rclass': st.sampled_from(['interior', 'interior', 'near0', 'zero', 'one']), 'seed': U.seeds, 'v': variants(('f64', 'f32', 'int')),
        # one array object given for both coordinates: the azimuth then holds the values of the radius
        'alias': st.sampled_from([False, False, False, False, True])})


def check_zernike(case, ctx):
    """zernike_nm_der / zernike_nm_der_seq == (d/dr, d/dt) of zernike_nm by complex step in r and in t."""
    from prysm import polynomials as P
    nms, norm, shape = [list(e) for e in case['nms']], case['norm'], case['shape']
    rcls = case['rclass']
    v = var_of(case, ('f64', 'f32', 'int'))
    # integer-typed radii: the unchanged zernike_nm_der accepts a Python int for every (n, m) and an integer array / numpy integer
    # when the radial Jacobi order (n-|m|)/2 is >= 1 (order 0 multiplies an integer array by a float in place); the sequence form
    # allocates its output in the dtype of r and is not given integer radii
    if v['xkind'] == 'int' and shape != 'pyfloat' and any((n - abs(m)) // 2 == 0 for n, m in nms):
        v['xkind'] = 'f64'
    if max(n for n, _ in nms) > 100:
        v['itype'] = 'int64'        # |m| itself must fit the integer type of r (NEP 50: m * r ** (m-1))
        if v['xkind'] == 'f32':
            v['xkind'] = 'f64'      # P_j^(0,|m|)(-1) = C(j+|m|, j) leaves the float32 range (inf * 0 at small r)
    alias = bool(case.get('alias', False))
    if alias and v['xkind'] == 'int':
        v['xkind'] = 'f64'          # the azimuth is never integer-typed (cos of an int8 array is half precision in numpy)
    kind = v['xkind']
    if kind == 'int':
        r, rbase = make_points(case['seed'], shape, 0, 1, False, salt=1, kind='int')
        rcls = 'integer'
    else:
        r, rbase = make_points(case['seed'], shape, 0.02, 1.0, False, salt=1, kind=kind)
    t, tbase = make_points(case['seed'], shape, -math.pi, 2 * math.pi, False, salt=2, kind='f32' if kind == 'f32' else 'f64')
    if rcls not in ('interior', 'integer'):
        val_ = {'near0': 1e-7, 'zero': 0.0, 'one': 1.0}[rcls]
        if kind == 'f32':
            val_ = float(np.float32(val_))
        rbase[0] = val_
        if isinstance(shape, str):
            r = float(val_)
        else:
            r.flat[0] = val_
    rarg = present(r, shape, v)
    targ = present(t, shape, v, layout=v['layout2'], kind='f32' if kind == 'f32' else 'f64')
    if alias:
        t, tbase, targ = r, rbase, rarg
    asuf = ':r-is-t' if alias else ''
    ctx.label('r:' + rcls, shape_label(shape), 'norm' if norm else 'no-norm', 'r-is-t' if alias else 'r-and-t-separate', 'n-as:' + v['n_as'])
    var_labels(ctx, v, shape)
    ctx.nt(True)
    if v['pre32']:
        with single_session(ctx, v):
            for n, m in nms:
                r32 = single(v, rarg)
                ctx.call(P.zernike_nm_der, n, m, r32, r32 if alias else single(v, targ), norm=norm)
    prefail(ctx, v, P.zernike_nm_der, nms[0][0], nms[0][1], None, None, norm=norm)
    for i, (n, m) in enumerate(nms):
        ctx.label('m=0' if m == 0 else 'm<0' if m < 0 else 'm>0', n_class(n), 'm=+-n' if abs(m) == n and n else 'm-inner')
        wr_full = np.imag(ctx.call(P.zernike_nm, n, m, rbase + 1j * H, tbase + 0j, norm=norm)) / H
        wt_full = np.imag(ctx.call(P.zernike_nm, n, m, rbase + 0j, tbase + 1j * H, norm=norm)) / H
        mc = 'm=0' if m == 0 else 'm!=0'
        rt = rtol_of(v, n, RT)

        def verify(res, suffix, n=n, m=m, wr_full=wr_full, wt_full=wt_full, mc=mc, rt=rt, now=None):
            ctx.require(isinstance(res, tuple) and len(res) == 2, 'zernike_nm_der:return', 'expected (dr, dt), got %r' % (type(res),))
            for got, wfull, which in ((res[0], wr_full, 'radial'), (res[1], wt_full, 'azimuthal')):
                want = shaped(wfull, shape) if now is None else now[which]
                bucket = 'zernike_nm_der:%s:%s%s%s' % (which, mc, asuf, suffix)
                U.check_shape(got, np.shape(want), bucket, 'zernike_nm_der(%d,%d) %s' % (n, m, which))
                U.check_close(got, want, rt, bucket, 'zernike_nm_der(n=%d, m=%d, norm=%s, r: %s %s) %s derivative vs complex step' % (
                    n, m, norm, kind, shape_label(shape), which), atol=rt * max(float(np.max(np.abs(wfull))), 1e-6))      # floor: all base radii may be exactly 0
        res = call(ctx, mc + asuf, P.zernike_nm_der, order_as(n, v), order_as(m, v), rarg, targ, norm=norm)
        verify(res, '')
        if i == 0:
            n2, m2 = n + 2, m
            reuse_check(ctx, v, 'zernike_nm_der', res, (rarg, targ), lambda: ctx.call(P.zernike_nm_der, n2, m2, rarg, targ, norm=norm),
                        lambda: ctx.call(P.zernike_nm_der, n, m, rarg, targ, norm=norm), lambda g, b: verify(g, b[len('zernike_nm_der'):]))
    seq_form = not (shape == 'pyfloat' or kind == 'int')
    if not seq_form:
        # (with the sequence form the arrays are edited after it, below)
        n0, m0 = nms[-1]

        def verify_now(g, b, verify=verify):
            rn, tn = now64(rarg), now64(targ)
            verify(g, b[len('zernike_nm_der'):], now={'radial': np.imag(ctx.call(P.zernike_nm, n0, m0, rn + 1j * H, tn + 0j, norm=norm)) / H,
                                                      'azimuthal': np.imag(ctx.call(P.zernike_nm, n0, m0, rn + 0j, tn + 1j * H, norm=norm)) / H})
        edit_check(ctx, v, 'zernike_nm_der', [(rarg, 0.0, 1.0, False), (targ, -math.pi, 2 * math.pi, not alias)],
                   lambda: ctx.call(P.zernike_nm_der, n0, m0, rarg, targ, norm=norm), verify_now)
    if seq_form:
        nmarg = [tuple(e) for e in nms] if v['ns_as'] == 'list' else tuple(tuple(e) for e in nms) if v['ns_as'] == 'tuple' else np.array(nms)
        ctx.label('nms-as:' + v['ns_as'])
        refs = []
        for n, m in nms:
            refs.append((np.imag(P.zernike_nm(n, m, rbase + 1j * H, tbase + 0j, norm=norm)) / H,
                         np.imag(P.zernike_nm(n, m, rbase + 0j, tbase + 1j * H, norm=norm)) / H))

        def verify_seq(seq, suffix, now=None):
            U.check_shape(seq, (len(nms), 2) + shape_tuple(shape), 'zernike_nm_der_seq' + suffix, 'zernike_nm_der_seq(%s)' % nms)
            for k, (n, m) in enumerate(nms):
                rt = rtol_of(v, n, RT)
                for i, which in ((0, 'radial'), (1, 'azimuthal')):
                    wfull = refs[k][i]
                    U.check_close(seq[k][i], shaped(wfull, shape) if now is None else now[k][i], rt, 'zernike_nm_der_seq:' + which + asuf + suffix,
                                  'zernike_nm_der_seq(%s)[%d] %s vs complex step' % (nms, k, which), atol=rt * max(float(np.max(np.abs(wfull))), 1e-6))      # floor: all base radii may be exactly 0
        seq = call(ctx, 'seq', P.zernike_nm_der_seq, nmarg, rarg, targ, norm=norm)
        verify_seq(seq, '')
        other = [tuple(e) for e in reversed(nms)] + [(2, 0)]
        reuse_check(ctx, v, 'zernike_nm_der_seq', seq, (rarg, targ), lambda: ctx.call(P.zernike_nm_der_seq, other, rarg, targ, norm=norm),
                    lambda: ctx.call(P.zernike_nm_der_seq, nmarg, rarg, targ, norm=norm), lambda g, b: verify_seq(g, b[len('zernike_nm_der_seq'):]))

        def verify_seq_now(g, b):
            rn, tn = now64(rarg), now64(targ)
            verify_seq(g, b[len('zernike_nm_der_seq'):], now=[(np.imag(P.zernike_nm(n, m, rn + 1j * H, tn + 0j, norm=norm)) / H,
                                                                np.imag(P.zernike_nm(n, m, rn + 0j, tn + 1j * H, norm=norm)) / H) for n, m in nms])
        edit_check(ctx, v, 'zernike_nm_der_seq', [(rarg, 0.0, 1.0, False), (targ, -math.pi, 2 * math.pi, not alias)],
                   lambda: ctx.call(P.zernike_nm_der_seq, nmarg, rarg, targ, norm=norm), verify_seq_now)


# ---- Clenshaw derivative sums: Jacobi ----------------------------------------------------------------
def coefs_of(mask, seed, salt, how):
    """coefficient values for the drawn container: U(-1,1) bounded away from 0, or non-zero integers for the integer containers"""
    if how in ('intlist', 'intarray'):
        r = U.rng_of(seed, salt)
        vals = r.integers(1, 4, len(mask)) * r.choice([-1, 1], len(mask))
        return [int(c) if k else 0 for c, k in zip(vals, mask)]
    return coef_vector(mask, seed, salt)


def long_masks(lo, hi):
    dense = st.integers(lo, hi).map(lambda k: [1] * k)
    sparse = st.lists(st.sampled_from([0, 0, 0, 1]), min_size=lo, max_size=hi).map(lambda m: m[:-1] + [1])
    return st.one_of(dense, sparse)


def settle_sum_kind(v, shape):
    """the Clenshaw / sag-and-slope routines allocate their sums in the dtype of x (configured precision for a Python scalar): on
    the unchanged code integer points are accepted only as Python ints and complex ones only as arrays / numpy scalars"""
    v = dict(v)
    if (v['xkind'] == 'int' and shape != 'pyfloat') or (v['xkind'] == 'complex' and shape == 'pyfloat'):
        v['xkind'] = 'f64'
    return v


def strat_clenshaw_jacobi(tier):
    L = {'quick': 12, 'thorough': 30}[tier]
    return with_big(st.fixed_dictionaries({'mask': st.one_of(masks(L), masks(L), masks(L), long_masks(41, 200)), 'ab': ab_pairs9(), 'j': st.integers(1, 4),
                                           'shape': point_shapes(), 'edge': st.booleans(), 'seed': U.seeds, 'v': variants()}), one_in=12)


def check_clenshaw_jacobi(case, ctx):
    """jacobi_sum_clenshaw_der(s, a, b, x, j)[k][0] == sum_n s_n d^k/dx^k P_n^(a,b)(x) for every k = 1..j (scipy explicit sum; vectors
    longer than 40 terms: k = 1, 2 by complex step of sum s_n P_n and of sum s_n P_n'); the first derivative is also the derivative of the
    value routine it names, jacobi_sum_clenshaw (complex step), and every row k of the returned array is the derivative of row k-1 of the
    same array ("alphas[0,0] the sum of the polynomials, alphas[1,0] the sum of the first derivative, and so on")."""
    from prysm.polynomials import jacobi_sum_clenshaw_der, jacobi_sum_clenshaw, jacobi, jacobi_der
    (a, b), j, shape = case['ab'], case['j'], case['shape']
    mask = cut_mask(case['mask'], shape)
    big = is_big(shape)
    if big:
        j = min(j, 2)
    v = var_of(case)
    v = settle_sum_kind(v, shape)
    if big:
        ctx.label('size>2^16', 'size>2^16:layout:' + v['layout'], 'size>2^16:%d-D' % len(shape))
    s = coefs_of(mask, case['seed'], 3, v['cs_as'])
    sarg = contain(s, v['cs_as'])
    x, base = make_points(case['seed'], shape, -1.0, 1.0, case['edge'], kind=v['xkind'])
    xarg = present(x, shape, v)
    M = len(s) - 1
    long_ = M >= 40
    abcls = ab_class9(a, b)
    ctx.label(mask_class(mask), 'j=%d' % j, abcls, shape_label(shape), 'j>=len(s)' if j > M else 'j<len(s)', 'cs-as:' + v['cs_as'],
              'len>40' if long_ else 'len<=40', 'alpha=-beta!=0' if a == -b and a != 0 else 'alpha=beta' if a == b else 'alpha!=+-beta',
              'n-as:' + v['n_as'], 'params-as:' + v['p_as'], 'alphas=:' + v['buf'])
    coef_label(ctx, v)
    nt = var_labels(ctx, v, shape)
    ctx.nt(nt or j >= 2 or len(s) == 1 or not all(mask) or ab_class(a, b) != 'ab:tabulated' or v['cs_as'] != 'list')
    vcls = 'len1' if M == 0 else 'j=1' if j == 1 else 'j>=2,j>=len(s)' if j > M else 'j>=2'
    if v['pre32']:
        with single_session(ctx, v):
            call(ctx, vcls + ':float32', jacobi_sum_clenshaw_der, sarg, a, b, single(v, xarg), j=j)
    jarg = order_as(j, v)
    aarg, barg = params_as([a, b], v)
    kw = {}
    if v['buf'] != 'none':
        # a caller-supplied workspace of the documented shape (j+1, len(s), *x.shape), fresh or already used by a call of the same shape
        kw['alphas'] = np.zeros((j + 1, len(s)) + shape_tuple(shape), dtype=xarg.dtype if hasattr(xarg, 'dtype') else float)
        if v['buf'] == 'used':
            ctx.call(jacobi_sum_clenshaw_der, [1.0 - 0.5 * c for c in s], b + 0.5, a + 0.25, xarg, j=j, **kw)
    prefail(ctx, v, jacobi_sum_clenshaw_der, sarg, aarg, barg, None, j=jarg)
    refs = {}
    for k in range(1, (min(j, 2) if long_ else j) + 1):
        full = np.zeros_like(base)
        scale = 0.0
        for n in range(k, M + 1):
            if s[n] == 0:
                continue
            if long_:       # the value routine (k = 1) / the first-derivative routine pinned by der_scalar (k = 2), by complex step
                term = s[n] * np.imag(ctx.call(jacobi if k == 1 else jacobi_der, n, a, b, base + 1j * H)) / H
            else:
                term = s[n] * sps.poch(n + a + b + 1, k) / 2.0 ** k * sps.eval_jacobi(n - k, a + k, b + k, base)
            full += term
            scale += float(np.max(np.abs(term)))
        refs[k] = (shaped(full, shape), scale)
    rt = rtol_of(v, M, 1e-8)

    def verify(alphas, bucket):
        ctx.require(np.ndim(alphas) >= 2 and np.shape(alphas)[0] == j + 1, 'jacobi_sum_clenshaw_der:shape',
                    'alphas has shape %s, expected leading dimension j+1=%d' % (np.shape(alphas), j + 1))
        for k, (want, scale) in refs.items():
            got = alphas[k][0]
            U.check_shape(got, np.shape(want), bucket, 'alphas[%d][0] for x of shape %s' % (k, shape))
            U.check_close(got, want, rt, bucket, 'jacobi_sum_clenshaw_der(s=%s, a=%r, b=%r, x: %s %s, j=%d): derivative of order %d' % (
                s if len(s) <= 12 else '<%d terms>' % len(s), a, b, v['xkind'], shape_label(shape), j, k), atol=rt * scale)
    bucket = 'jacobi_sum_clenshaw_der:%s%s' % (vcls, ':size>2^16:%s' % ('C-ordered' if v['layout'] == 'C' or len(shape) == 1 else 'not-C-ordered') if big else '')
    if case['seed'] % 2:        # other entry point: x by keyword, as compute_z_zprime_Qcon passes it
        ctx.label('x-by-keyword')
        alphas = call(ctx, vcls, jacobi_sum_clenshaw_der, sarg, aarg, barg, x=xarg, j=jarg, **kw)
    else:
        alphas = call(ctx, vcls, jacobi_sum_clenshaw_der, sarg, aarg, barg, xarg, j=jarg, **kw)
    verify(alphas, bucket)
    if not long_:       # unchanged code against scipy's explicit sum, up to 40 terms: <= 2e-12 of the term-wise scale
        session_close(ctx, v, alphas[1][0], refs[1][0], rt, bucket, 'jacobi_sum_clenshaw_der(s=%s as %s, a=%r, b=%r, x: %s %s, j=%d): first derivative' % (
            s, v['cs_as'], a, b, v['xkind'], shape_label(shape), j), max(refs[1][1], 1e-300))
    # ... and the derivative of the value routine it names: complex step through jacobi_sum_clenshaw itself, and through row k-1 of
    # the array the derivative routine returns (complex128 points of the base vector; same coefficients, same parameters)
    pcls = 'alpha=-beta!=0' if a == -b and a != 0 else 'alpha=beta' if a == b else 'general-parameters'
    zb = base + 1j * H
    scale_v = refs[1][1]       # sum over the terms of |s_n| max |P_n'|
    dval = np.imag(ctx.call(jacobi_sum_clenshaw, sarg, a, b, zb)) / H
    U.check_shape(dval, base.shape, 'jacobi_sum_clenshaw:complex-points', 'value sum at %d complex points' % base.size)
    got1 = alphas[1][0]
    U.check_close(got1, shaped(dval, shape), rt, 'jacobi_sum_clenshaw_der:vs-jacobi_sum_clenshaw:%s:%s' % (pcls, 'len1' if M == 0 else 'len2' if M == 1 else 'len>=3'),
                  'jacobi_sum_clenshaw_der(s=%s, a=%r, b=%r, x: %s %s, j=%d)[1][0] vs the complex-step derivative of jacobi_sum_clenshaw(s, a, b, x)' % (
                      s if len(s) <= 12 else '<%d terms>' % len(s), a, b, v['xkind'], shape_label(shape), j), atol=rt * max(scale_v, 1e-300))
    rows = ctx.call(jacobi_sum_clenshaw_der, sarg, a, b, zb, j=j)
    for k in range(1, j + 1):
        if k not in refs:
            continue        # vectors of more than 40 terms: the term-wise scale of the comparison is built for k = 1, 2 only
        sc = refs[k][1]
        wantk = np.imag(rows[k - 1][0]) / H
        U.check_close(alphas[k][0], shaped(wantk, shape), rt, 'jacobi_sum_clenshaw_der:row-k-vs-row-k-1:%s:%s' % (pcls, 'k=1' if k == 1 else 'k>=2'),
                      'jacobi_sum_clenshaw_der(s=%s, a=%r, b=%r, x: %s %s, j=%d): row %d vs the complex-step derivative of row %d of the same routine' % (
                          s if len(s) <= 12 else '<%d terms>' % len(s), a, b, v['xkind'], shape_label(shape), j, k, k - 1), atol=rt * max(sc, 1e-300))
    s2 = contain([-2.0 * c + 0.25 for c in s] + [0.5], 'list')
    reuse_check(ctx, v, bucket, alphas, (xarg, sarg), lambda: ctx.call(jacobi_sum_clenshaw_der, s2, a, b, xarg, j=j),
                lambda: ctx.call(jacobi_sum_clenshaw_der, sarg, a, b, xarg, j=j), verify)


# ---- Clenshaw derivative sums and sag/slope: Qbfs, Qcon ----------------------------------------------
def cauchy_taylor(f, x0, rho, kmax, K):
    """k-th derivatives (k = 0..kmax) at the real points x0 of a polynomial f of degree < K given as a callable on
    complex arrays: f^(k)(x0) = k!/(rho^k K) sum_q f(x0 + rho e^{i th_q}) e^{-i k th_q}  (exact for deg f < K)."""
    x0 = np.asarray(x0, dtype=float)
    th = 2 * np.pi * np.arange(K) / K
    z = x0[..., None] + rho * np.exp(1j * th)
    fz = f(z)
    out = []
    for k in range(kmax + 1):
        ck = np.mean(fz * np.exp(-1j * k * th), axis=-1) / rho ** k
        out.append(ck.real * math.factorial(k))
    return out, float(np.max(np.abs(fz)))


def strat_clenshaw_q(tier):
    L = {'quick': 10, 'thorough': 20}[tier]
    return with_big(st.fixed_dictionaries({'kind': st.sampled_from(['qbfs', 'q2d', 'q2d']), 'mask': masks(L), 'm': st.one_of(st.integers(1, 8), st.sampled_from([1, 2, 12, 16, 20])),
                                           'j': st.integers(1, 4), 'shape': point_shapes(4), 'seed': U.seeds, 'v': variants(('f64', 'f32', 'complex'))}), one_in=10)


def check_clenshaw_q(case, ctx):
    """clenshaw_qbfs_der / clenshaw_q2d_der rows k=1..j == d^k/dx^k (x=u^2) of sum c_n Q_n(x), Q_n taken from Qbfs / Q2d (Cauchy integral);
    the first derivative is also the derivative of the value routine it names (clenshaw_qbfs: x(1-x) S(x); clenshaw_q2d: the alpha sums that
    make up S), by complex step, and every row k of the returned array is the derivative of row k-1 of the same array."""
    from prysm.polynomials import Qbfs, Q2d
    from prysm.polynomials.qpoly import clenshaw_qbfs_der, clenshaw_q2d_der, clenshaw_qbfs, clenshaw_q2d
    kind, m, j, shape = case['kind'], case['m'], case['j'], case['shape']
    mask = cut_mask(case['mask'], shape, 4)
    big = is_big(shape)
    if big:
        j = min(j, 2)
        ctx.label('size>2^16', 'size>2^16:layout:' + var_of(case)['layout'], 'size>2^16:%d-D' % len(shape))
    v = settle_sum_kind(var_of(case, ('f64', 'f32', 'complex')), shape)
    cs = coefs_of(mask, case['seed'], 4, v['cs_as'])
    carg = contain(cs, v['cs_as'])
    x, base = make_points(case['seed'], shape, 0.2, 0.8, False, kind=v['xkind'])
    xarg = present(x, shape, v)
    N = len(cs) - 1
    use_buf = v['buf'] if N >= 1 else 'none'        # a workspace of the documented shape (j+1, len(cs), ...) has room for the recurrence from two terms on
    ctx.label(kind, mask_class(mask), 'j=%d' % j, shape_label(shape), 'j>=len' if j > N else 'j<len', 'cs-as:' + v['cs_as'], 'n-as:' + v['n_as'],
              'alphas=:' + use_buf)
    if kind == 'q2d':
        ctx.label('m=%s' % (m if m <= 3 else '4..8' if m <= 8 else '>8'))
    jarg, marg = order_as(j, v), order_as(m, v)
    coef_label(ctx, v)
    nt = var_labels(ctx, v, shape)
    ctx.nt(nt or j >= 2 or len(cs) == 1 or not all(mask) or v['cs_as'] != 'list')
    vcls = 'len1' if N == 0 else 'j=1' if j == 1 else 'j>=2,j>=len' if j > N else 'j>=2'

    if kind == 'qbfs':
        def S(z):   # sum c_n Q_n(z), Q_n(u^2) = Qbfs(n, u) / (u^2 (1-u^2))
            u = np.sqrt(z)
            return sum(c * Qbfs(n, u) for n, c in enumerate(cs) if c != 0) / (z * (1 - z)) if any(cs) else np.zeros_like(z)

        def run(c_, x_, **kw_):
            return clenshaw_qbfs_der(c_, x_, j=jarg, **kw_)

        def comb(a_):       # S from one row of alpha sums
            return 2 * (a_[0] + a_[1]) if np.shape(a_)[0] > 1 else 2 * a_[0]
    else:
        def S(z):   # Q_n^m(u^2) = Q2d(n, m, u, 0) / u^m
            u = np.sqrt(z)
            t = np.zeros_like(u)
            return sum(c * Q2d(n, m, u, t) for n, c in enumerate(cs) if c != 0) / u ** m if any(cs) else np.zeros_like(z)

        def run(c_, x_, **kw_):
            return clenshaw_q2d_der(c_, marg, x_, j=jarg, **kw_)

        def comb(a_):
            return 0.5 * a_[0] - 2 / 5 * a_[3] if m == 1 and N > 2 else 0.5 * a_[0]
    run.__name__ = run.__qualname__ = 'clenshaw_%s_der' % kind
    if v['pre32']:
        with single_session(ctx, v):
            call(ctx, vcls + ':float32', run, carg, single(v, xarg))
    derivs, fmax = ctx.call(cauchy_taylor, S, base, 0.15, j, 8 if big else 64)      # exact for degree < 8: at most 4 orders on a large array
    rt = rtol_of(v, N, 1e-7)

    def verify(alphas, bucket):
        ctx.require(np.ndim(alphas) >= 2 and np.shape(alphas)[0] == j + 1, 'clenshaw_%s_der:shape' % kind,
                    'alphas has shape %s, expected leading dimension j+1=%d' % (np.shape(alphas), j + 1))
        for k in range(1, j + 1):
            if kind == 'qbfs':
                got = 2 * (alphas[k][0] + alphas[k][1]) if np.shape(alphas)[1] > 1 else 2 * alphas[k][0]
            else:
                got = 0.5 * alphas[k][0]
                if m == 1 and N > 2:
                    got = got - 2 / 5 * alphas[k][3]
            want = shaped(derivs[k], shape)
            U.check_shape(got, np.shape(want), bucket, 'row %d' % k)
            noise = 1e-12 * fmax * math.factorial(k) / 0.15 ** k
            U.check_close(got, want, rt, bucket, 'clenshaw_%s_der(cs=%s%s, x: %s %s, j=%d): derivative of order %d w.r.t. u^2' % (
                kind, cs, '' if kind == 'qbfs' else ', m=%d' % m, v['xkind'], shape_label(shape), j, k), atol=rt * float(np.max(np.abs(derivs[k]))) + noise)
    bucket = 'clenshaw_%s_der:%s%s%s' % (kind, vcls, ':integer-coefficient-array' if v['cs_as'] == 'intarray' else '',
                                         ':size>2^16:%s' % ('C-ordered' if v['layout'] == 'C' or len(shape) == 1 else 'not-C-ordered') if big else '')
    kw = {}
    if use_buf != 'none':
        # caller-supplied workspace, fresh or already used by a call of the same shape (other coefficients, other points)
        kw['alphas'] = np.zeros((j + 1, len(cs)) + shape_tuple(shape), dtype=xarg.dtype if hasattr(xarg, 'dtype') else float)
        if use_buf == 'used':
            ctx.call(run, [0.75 - 2.0 * c for c in cs], xarg * 0.5 + 0.1, **kw)
    prefail(ctx, v, run, carg, None)
    alphas = call(ctx, vcls + ('' if use_buf == 'none' else ':alphas-given'), run, carg, xarg, **kw)
    verify(alphas, bucket + ('' if use_buf == 'none' else ':alphas-' + use_buf))
    if session_of(v) and v['xkind'] != 'f32':
        # after a single-precision session: the first derivative against the complex step of the explicit sum of the value routines Qbfs / Q2d
        # (exact to rounding, unlike the Cauchy integral above); unchanged code: <= 1e-12 of the scale
        d1 = np.imag(S(base + 1j * H)) / H
        session_close(ctx, v, comb(alphas[1]), shaped(d1, shape), 1e-8, bucket, 'clenshaw_%s_der(cs=%s as %s%s, x: %s %s, j=%d): first derivative w.r.t. u^2 vs '
                      'complex step of sum c_n Q_n' % (kind, cs, v['cs_as'], '' if kind == 'qbfs' else ', m=%d' % m, v['xkind'], shape_label(shape), j),
                      max(float(np.max(np.abs(derivs[1]))), float(np.max(np.abs(derivs[0])))))
    # ... the derivative of the value routine it names, and of its own lower rows (complex step at the complex128 base points)
    zb = base + 1j * H
    if kind == 'qbfs':
        # clenshaw_qbfs returns x (1 - x) S(x): its derivative is (1 - 2x) S + x (1 - x) S'
        dval = np.imag(ctx.call(clenshaw_qbfs, carg, zb)) / H
        xr = np.asarray(x, dtype=float)
        got1 = (1 - 2 * xr) * comb(alphas[0]) + xr * (1 - xr) * comb(alphas[1])
        sc1 = float(np.max(np.abs(derivs[0]))) + float(np.max(np.abs(derivs[1])))
        vname = 'clenshaw_qbfs(cs, x) = x (1 - x) S(x)'
    else:
        dval = np.imag(comb(ctx.call(clenshaw_q2d, carg, m, zb))) / H
        got1 = comb(alphas[1])
        sc1 = float(np.max(np.abs(derivs[1])))
        vname = 'the sum S(x) formed from clenshaw_q2d(cs, m, x)'
    U.check_close(got1, shaped(dval, shape), rt, 'clenshaw_%s_der:vs-clenshaw_%s:%s' % (kind, kind, 'len1' if N == 0 else 'len>=2'),
                  'clenshaw_%s_der(cs=%s%s, x: %s %s, j=%d): first derivative vs the complex-step derivative of %s' % (
                      kind, cs, '' if kind == 'qbfs' else ', m=%d' % m, v['xkind'], shape_label(shape), j, vname),
                  atol=rt * sc1 + 1e-12 * fmax / 0.15)
    rows = ctx.call(run, carg, zb)
    for k in range(1, j + 1):
        wantk = np.imag(comb(rows[k - 1])) / H
        U.check_close(comb(alphas[k]), shaped(wantk, shape), rt, 'clenshaw_%s_der:row-k-vs-row-k-1:%s' % (kind, 'k=1' if k == 1 else 'k>=2'),
                      'clenshaw_%s_der(cs=%s%s, x: %s %s, j=%d): S from row %d vs the complex-step derivative of S from row %d of the same routine' % (
                          kind, cs, '' if kind == 'qbfs' else ', m=%d' % m, v['xkind'], shape_label(shape), j, k, k - 1),
                      atol=rt * float(np.max(np.abs(derivs[k]))) + 1e-12 * fmax * math.factorial(k) / 0.15 ** k)
    c2 = [0.5 - c for c in cs] + [1.0]
    reuse_check(ctx, v, bucket, alphas, (xarg, carg), lambda: ctx.call(run, c2, xarg), lambda: ctx.call(run, carg, xarg), verify)


def strat_zprime(tier):
    L = {'quick': 10, 'thorough': 24}[tier]
    return with_big(st.fixed_dictionaries({'kind': st.sampled_from(['Qbfs', 'Qcon']), 'mask': st.one_of(masks(L), masks(L), masks(L), long_masks(25, 60)), 'shape': point_shapes(),
                                           'edge': st.booleans(), 'seed': U.seeds, 'v': variants()}))


def check_zprime(case, ctx):
    """compute_z_zprime_Qbfs / _Qcon: the slope output is d/du of sum c_n Q_n(u) (complex step through Qbfs / Qcon)."""
    from prysm.polynomials import Qbfs, Qcon
    from prysm.polynomials.qpoly import compute_z_zprime_Qbfs, compute_z_zprime_Qcon
    kind, shape = case['kind'], case['shape']
    mask = cut_mask(case['mask'], shape)
    v = settle_sum_kind(var_of(case), shape)
    cs = coefs_of(mask, case['seed'], 5, v['cs_as'])
    carg = contain(cs, v['cs_as'])
    u, base = make_points(case['seed'], shape, 0.0, 1.0, case['edge'], kind=v['xkind'])
    uarg = present(u, shape, v)
    usq = uarg * uarg
    ctx.label(kind, mask_class(mask), shape_label(shape), 'edge' if case['edge'] else 'interior', 'cs-as:' + v['cs_as'], 'len>24' if len(cs) > 24 else 'len<=24',
              'size>2^16' if is_big(shape) else 'size<=2^16')
    if is_big(shape):
        ctx.label('size>2^16:layout:' + v['layout'], 'size>2^16:%d-D' % len(shape))
    coef_label(ctx, v)
    nt = var_labels(ctx, v, shape)
    ctx.nt(nt or len(cs) == 1 or not all(mask) or isinstance(shape, str) or len(shape) != 1 or v['cs_as'] != 'list')
    Q = Qbfs if kind == 'Qbfs' else Qcon
    fn = compute_z_zprime_Qbfs if kind == 'Qbfs' else compute_z_zprime_Qcon
    lcls = 'len1' if len(cs) == 1 else 'len>=2'
    if v['pre32']:
        with single_session(ctx, v):
            u32 = single(v, uarg)
            call(ctx, lcls + ':float32', fn, carg, u32, u32 * u32)

    def slope_at(pts):
        """complex-step derivative of the explicit sum at the float64 points pts (any shape), and its term-wise scale"""
        full, scale = np.zeros(np.shape(pts)), 0.0
        for n, c in enumerate(cs):
            if c != 0:
                term = c * np.imag(ctx.call(Q, n, pts + 1j * H)) / H
                full += term
                scale += float(np.max(np.abs(term)))
        return full, scale
    full, scale = slope_at(base)
    want = shaped(full, shape)
    rt = rtol_of(v, len(cs), 1e-8)
    what = 'compute_z_zprime_%s(cs=%s as %s, u: %s %s %s): slope vs complex-step derivative of sum c_n %s(n,u)' % (
        kind, cs if len(cs) <= 12 else '<%d terms>' % len(cs), v['cs_as'], v['xkind'], shape_label(shape), v['layout'], kind)

    def verify(res, bucket, want=want, scale=scale):
        ctx.require(isinstance(res, tuple) and len(res) == 2, 'compute_z_zprime_%s:return' % kind, 'expected (z, zprime)')
        U.check_shape(res[1], np.shape(want), bucket, 'slope for u of shape %s' % (shape,))
        U.check_close(res[1], want, rt, bucket, what, atol=rt * scale)
    bucket = 'compute_z_zprime_%s:slope:%s%s%s' % (kind, lcls, ':integer-coefficient-array' if v['cs_as'] == 'intarray' else '',
                                                   ':size>2^16:%s' % ('C-ordered' if v['layout'] == 'C' or len(shape) == 1 else 'not-C-ordered') if is_big(shape) else '')
    prefail(ctx, v, fn, carg, None, None)
    res = call(ctx, lcls, fn, carg, uarg, usq)
    verify(res, bucket)
    # unchanged code: <= 3e-13 of the scale in double precision (60 terms, end points included)
    session_close(ctx, v, res[1], want, rt, bucket, what, scale)
    # the slope is the derivative of the sag the same call returns: complex step through the evaluator's own first output
    zb = base + 1j * H
    own = ctx.call(fn, carg, zb, zb * zb)
    ctx.require(isinstance(own, tuple) and len(own) == 2, 'compute_z_zprime_%s:return' % kind, 'expected (z, zprime)')
    U.check_close(res[1], shaped(np.imag(own[0]) / H, shape), rt, 'compute_z_zprime_%s:slope-vs-own-sag:%s' % (kind, lcls),
                  'compute_z_zprime_%s(cs=%s, u: %s %s): slope vs complex-step derivative of the sag returned by the same routine' % (
                      kind, cs if len(cs) <= 12 else '<%d terms>' % len(cs), v['xkind'], shape_label(shape)), atol=rt * scale)
    c2 = [0.5 - c for c in cs] + [1.0]
    reuse_check(ctx, v, bucket, res, (uarg, usq, carg), lambda: ctx.call(fn, c2, uarg, usq), lambda: ctx.call(fn, carg, uarg, usq), verify)

    def redo():
        np.multiply(uarg, uarg, out=usq)        # the caller keeps u^2 in step with u, in place too
        return ctx.call(fn, carg, uarg, usq)

    def verify_now(r_, b_):
        w_, s_ = slope_at(now64(uarg))
        verify(r_, b_, want=w_, scale=max(s_, scale))
    edit_check(ctx, v, bucket, [(uarg, 0.0, 1.0, False)] if editable(usq) else [], redo, verify_now)


# ---- 2D-Q sag / slope ----------------------------------------------------------------------------------
def q2d_coefs(tier):
    L = {'quick': 7, 'thorough': 12}[tier]
    mm = {'quick': 5, 'thorough': 9}[tier]
    vec = masks(L)
    # per azimuthal order: cosine and sine vectors, both present (most), both absent, or only one family present (the
    # packer Q2d_nm_c_to_a_b emits an empty list for the absent family)
    kind = st.sampled_from(['both'] * 7 + ['none', 'cosine-only', 'sine-only'])
    pair = st.tuples(kind, vec, vec).map(lambda t: [[] if t[0] in ('none', 'sine-only') else t[1], [] if t[0] in ('none', 'cosine-only') else t[2]])
    # 'gap': a run of azimuthal orders without terms before the drawn ones (high |m| with few modes, e.g. m = 12 only)
    return st.fixed_dictionaries({'cm0': st.one_of(vec, st.just([])), 'ab': st.lists(pair, min_size=0, max_size=mm),
                                  'gap': st.sampled_from([0, 0, 0, 1, 2, 5, 9, 14])})


def q2d_expand(case, how='list'):
    seed = case['seed']
    spec = q2d_spec(case)
    cm0 = coefs_of(spec['cm0'], seed, 10, how)
    gap = spec.get('gap', 0) if spec['ab'] else 0
    ams, bms = [[] for _ in range(gap)], [[] for _ in range(gap)]
    for i, (ma, mb) in enumerate(spec['ab']):
        ams.append(coefs_of(ma, seed, 100 + i, how))
        bms.append(coefs_of(mb, seed, 200 + i, how))
    return cm0, ams, bms


def q2d_spec(case):
    """the drawn coefficient pattern; on more than 2**16 evaluation points: at most 3 radial orders per vector, the first two drawn azimuthal orders, a
    gap of at most 2 empty orders (the oracle costs modes * points)"""
    c = case['coefs']
    if not is_big(case.get('shape', [])):
        return c

    def cut(m):
        m = list(m[:3])
        if m and not any(m):
            m[-1] = 1
        return m
    return {'cm0': cut(c['cm0']), 'ab': [[cut(a), cut(b)] for a, b in c['ab'][:2]], 'gap': min(c.get('gap', 0), 2)}


def q2d_contain(cm0, ams, bms, how):
    """the three coefficient arguments in the drawn container: lists of lists, tuples of tuples, or (float / integer) arrays per
    order - one rectangular 2-D array when every order has the same number of terms, as the repository's own tests pass them"""
    if how in ('list', 'intlist'):
        return [list(cm0), [list(a) for a in ams], [list(b) for b in bms]]
    if how == 'tuple':
        return [tuple(cm0), tuple(tuple(a) for a in ams), tuple(tuple(b) for b in bms)]

    def pack(vs):
        if vs and len({len(e) for e in vs}) == 1 and len(vs[0]) > 0:
            return np.array(vs)
        return [np.array(e) if len(e) else [] for e in vs]
    return [np.array(cm0) if len(cm0) else [], pack(ams), pack(bms)]


def q2d_modes(cm0, ams, bms):
    out = [(n, 0, c) for n, c in enumerate(cm0)]
    for i, (a, b) in enumerate(zip(ams, bms)):
        out += [(n, i + 1, c) for n, c in enumerate(a)]
        out += [(n, -(i + 1), c) for n, c in enumerate(b)]
    return [e for e in out if e[2] != 0]


def q2d_labels(ctx, case):
    c = q2d_spec(case)
    gap = c.get('gap', 0) if c['ab'] else 0
    ctx.label('cm0:' + ('empty' if not c['cm0'] else mask_class(c['cm0'])), 'max|m|=%s' % (len(c['ab']) + gap if len(c['ab']) + gap <= 9 else '>9'),
              'leading-empty-orders' if gap else 'no-leading-gap')
    for ma, mb in c['ab']:
        ctx.label('m-order:both-empty' if not ma and not mb else 'm-order:cosine-only' if not mb else 'm-order:sine-only' if not ma
                  else 'm-order:has-len1' if 1 in (len(ma), len(mb)) else 'm-order:len>=2')
    if any(bool(ma) != bool(mb) for ma, mb in c['ab']):
        return 'one-family-empty'
    if any(1 in (len(ma), len(mb)) for ma, mb in c['ab']) or len(c['cm0']) == 1:
        return 'short-vector'
    return 'len>=2'


def strat_q2d(tier):
    return with_big(st.fixed_dictionaries({'coefs': q2d_coefs(tier), 'shape': point_shapes(4), 'edge': st.booleans(), 'seed': U.seeds,
                                           'v': variants(('f64', 'f32')), 'alias': st.sampled_from([False, False, False, False, True])}), one_in=14)


def q2d_explicit(ctx, modes, ubase, tbase):
    """complex-step d/du and d/dt of sum c Q2d(n,m,u,t) on the base points, with the term-wise scale"""
    from prysm.polynomials import Q2d
    dr, dt = np.zeros_like(ubase), np.zeros_like(ubase)
    sr = st_ = 0.0
    for n, m, c in modes:
        a = c * np.imag(ctx.call(Q2d, n, m, ubase + 1j * H, tbase + 0j)) / H
        b = c * np.imag(ctx.call(Q2d, n, m, ubase + 0j, tbase + 1j * H)) / H
        dr += a
        dt += b
        sr += float(np.max(np.abs(a)))
        st_ += float(np.max(np.abs(b)))
    return dr, dt, sr, st_


def check_q2d(case, ctx):
    """compute_z_zprime_Q2d: radial and azimuthal slope outputs == d/du, d/dt of sum c Q2d(n,m,u,t) (complex step)."""
    from prysm.polynomials.qpoly import compute_z_zprime_Q2d
    shape = case['shape']
    v = var_of(case, ('f64', 'f32'))      # integer points: the sums are allocated in the dtype of u; complex: u and t are combined in place
    cm0, ams, bms = q2d_expand(case, v['cs_as'])
    cargs = q2d_contain(cm0, ams, bms, v['cs_as'])
    cls = q2d_labels(ctx, case)
    coef_label(ctx, v)
    ctx.label(shape_label(shape), 'cs-as:' + v['cs_as'], 'size>2^16' if is_big(shape) else 'size<=2^16')
    if is_big(shape):
        ctx.label('size>2^16:layout:' + v['layout'], 'size>2^16:%d-D' % len(shape))
    var_labels(ctx, v, shape)
    ctx.nt(True)
    u, ubase = make_points(case['seed'], shape, 0.0, 1.0, case['edge'], salt=1, kind=v['xkind'])
    t, tbase = make_points(case['seed'], shape, -math.pi, 2 * math.pi, False, salt=2, kind=v['xkind'])
    uarg = present(u, shape, v)
    targ = present(t, shape, v, layout=v['layout2'])
    alias = bool(case.get('alias', False))
    if alias:       # one object for both coordinates: the azimuth holds the values of the radius
        t, tbase, targ = u, ubase, uarg
        cls += ':u-is-t'
    ctx.label('u-is-t' if alias else 'u-and-t-separate')
    modes = q2d_modes(cm0, ams, bms)
    if v['pre32']:
        with single_session(ctx, v):
            u32 = single(v, uarg)
            call(ctx, cls + ':float32', compute_z_zprime_Q2d, *cargs, u32, u32 if alias else single(v, targ))
    prefail(ctx, v, compute_z_zprime_Q2d, *cargs, None, None)
    dr, dt, sr, st_ = q2d_explicit(ctx, modes, ubase, tbase)
    rt = rtol_of(v, 12, 1e-8)
    isuf = ':integer-coefficient-array' if v['cs_as'] == 'intarray' else ''
    if is_big(shape):
        isuf += ':size>2^16:%s' % ('C-ordered' if v['layout'] == 'C' or len(shape) == 1 else 'not-C-ordered')
    what = 'compute_z_zprime_Q2d(cm0=%s, ams=%s, bms=%s as %s, u: %s %s %s): %%s slope vs complex step of the mode sum' % (
        cm0, ams, bms, v['cs_as'], v['xkind'], shape_label(shape), v['layout'])

    def verify(res, suffix, refs=None, session=False):
        ctx.require(isinstance(res, tuple) and len(res) == 3, 'compute_z_zprime_Q2d:return', 'expected (z, dr, dt)')
        dr_, dt_, sr_, st__ = refs or (shaped(dr, shape), shaped(dt, shape), sr, st_)
        for got, want, sc, which in ((res[1], dr_, sr_, 'radial'), (res[2], dt_, st__, 'azimuthal')):
            bucket = 'compute_z_zprime_Q2d:%s:%s%s%s' % (which, cls, isuf, suffix)
            U.check_shape(got, np.shape(want), bucket, '%s slope for u of shape %s' % (which, shape))
            U.check_close(got, want, rt, bucket, what % which, atol=rt * sc)
            if session:     # unchanged code: <= 2e-12 of the term-wise scale in double precision
                session_close(ctx, v, got, want, rt, bucket, what % which, sc)
    res = call(ctx, cls, compute_z_zprime_Q2d, *cargs, uarg, targ)
    verify(res, '', session=True)
    # both slopes are the derivatives of the sag the same call returns: complex step in u, then in t, through the evaluator's own first output
    for which, got, zu, zt, sc in (('radial', res[1], ubase + 1j * H, tbase + 0j, sr), ('azimuthal', res[2], ubase + 0j, tbase + 1j * H, st_)):
        own = ctx.call(compute_z_zprime_Q2d, *cargs, zu, zt)
        ctx.require(isinstance(own, tuple) and len(own) == 3, 'compute_z_zprime_Q2d:return', 'expected (z, dr, dt)')
        U.check_close(got, shaped(np.imag(own[0]) / H, shape), rt, 'compute_z_zprime_Q2d:%s:slope-vs-own-sag:%s%s' % (which, cls, isuf),
                      'compute_z_zprime_Q2d(cm0=%s, ams=%s, bms=%s, u: %s %s): %s slope vs complex-step derivative of the sag returned by the same routine' % (
                          cm0, ams, bms, v['xkind'], shape_label(shape), which), atol=rt * sc)
    other = [[0.5] + [1.0 - c for c in cm0], [[0.25, -0.5, 1.0]] + [list(a) for a in ams], [[1.0]] + [list(b) for b in bms]]
    reuse_check(ctx, v, 'compute_z_zprime_Q2d', res, (uarg, targ, cargs), lambda: ctx.call(compute_z_zprime_Q2d, *other, uarg, targ),
                lambda: ctx.call(compute_z_zprime_Q2d, *cargs, uarg, targ), lambda g, b: verify(g, b[len('compute_z_zprime_Q2d'):]))

    def verify_now(r_, b_):
        a_, b2_, sa_, sb_ = q2d_explicit(ctx, modes, now64(uarg), now64(targ))
        verify(r_, b_[len('compute_z_zprime_Q2d'):], refs=(a_, b2_, max(sa_, sr), max(sb_, st_)))
    edit_check(ctx, v, 'compute_z_zprime_Q2d', [(uarg, 0.0, 1.0, False), (targ, -math.pi, 2 * math.pi, not alias)],
               lambda: ctx.call(compute_z_zprime_Q2d, *cargs, uarg, targ), verify_now)


# ---- ray-tracing sag / slope helpers -------------------------------------------------------------------
# conic constants: the special values, their neighbours (formulas that branch on k == -1 / k == 0 or divide by 1 + k), the ends
K_SPECIAL = [0, 0, -1, 1, -2, 0.5, -1 + 1e-12, -1 - 1e-12, -1 + 1e-6, -1 - 1e-6, 1e-12, -1e-12, 1e-300, -0.999, -1.001, -5.0, 3.0]
QMAX = [0.8, 0.8, 0.99, 0.9999, 0.999999, 0.999999]     # largest (1+k) c^2 rho^2 reached: the edge of the real-sag domain is 1


def conic_k():
    return st.one_of(st.sampled_from(K_SPECIAL), U.nice_float(-3.0, 2.0))


# curvatures: ordinary ones of either sign, exactly zero (a plane base: Python int 0, 0.0, -0.0) and next to zero (formulas that branch on c == 0)
# (the smallest ones square to exactly 0 inside the library; not smaller than 1e-200: the oracle's imaginary step of 1e-30 times c must not underflow)
C_SPECIAL = [0, 0.0, 0.0, -0.0, 1e-9, -1e-12, -1e-200, 1e-160]


def conic_c():
    plain = st.tuples(U.nice_float(0.01, 0.5), st.sampled_from([1, -1])).map(lambda t: t[0] * t[1])
    return st.one_of(plain, plain, plain, st.sampled_from(C_SPECIAL))


def c_class(c):
    return 'c=0' if c == 0 else 'c-tiny' if abs(c) < 1e-6 else 'c-plain'


def strat_conics(tier):
    return st.fixed_dictionaries({
        'fn': st.sampled_from(['sphere', 'conic', 'dircos', 'off_axis', 'sigma', 'ffp_conic', 'ffp_off_axis', 'ffp_sphere'] * 3 + ['off_axis', 'sigma', 'ffp_off_axis'] * 2 + ['ffp_plane']),
        'c': conic_c(),
        # Surface objects: built with the drawn parameters, or built with others and given the drawn ones through the public params dict
        'via_params': st.sampled_from([False, False, True]),
        'k': conic_k(), 'qmax': st.sampled_from(QMAX), 'edge': st.booleans(), 'phi_given': st.booleans(),
        'fs': U.nice_float(0.05, 0.6), 'axis': st.sampled_from(['dx', 'dy', 'none', '-dx', '-dy', 'dx', 'dy', '~dx', '~dy']), 'fr': st.one_of(U.nice_float(0.05, 0.95), st.just(1.0)),
        'shape': point_shapes(4), 'seed': U.seeds, 'v': variants()})


def conic_geometry(case, v=None):
    """limit L on sqrt(aggregate) such that (1+k) c^2 A <= qmax (0.8 unless drawn) and 1 - k c^2 A >= 1 - qmax; shift s and rho_max inside it"""
    c, k = case['c'], case['k']
    if case['fn'] in ('sphere', 'ffp_sphere'):
        k = 0
    qmax = case.get('qmax', 0.8)
    if v is not None and v['xkind'] == 'f32':
        qmax = 0.8        # single precision loses eps32 / (1 - q) next to the edge of the domain: stay where the conditioning is ~1
    csq = float(c) * float(c)       # 0 for a plane and for |c| < 1e-162: no limit from the square roots then
    L = min(math.sqrt(qmax / (max(1 + k, -k, 0.05) * csq)), 20.0) if csq > 1e-300 else 20.0
    axis = case['axis']
    if 'qmax' in case and case['fn'] in ('sphere', 'conic', 'dircos', 'ffp_conic', 'ffp_sphere'):
        axis = 'none'       # rotationally symmetric helpers: no shift to make room for, rho reaches the drawn edge of the domain
    s = 0.0 if axis == 'none' else case['fs'] * L * (-1 if axis.startswith('-') else 1)
    if axis.startswith('~'):
        s = 1e-9 * L        # a shift next to, but not at, zero (the helpers branch on dx != 0)
    rmax = case['fr'] * (L - abs(s))
    dx, dy = (s, 0.0) if axis.endswith('dx') else (0.0, s)
    return c, k, dx, dy, rmax


def k_class(k):
    return 'k=0' if k == 0 else 'k=-1' if k == -1 else 'k!=0'


def check_conics(case, ctx):
    """sphere/conic/off-axis-conic sag derivatives, d(1/phi)/drho, d(1/sigma)/dr,dt and Surface.FFp slopes vs complex step of the sag / value routine."""
    from prysm.x.raytracing import surfaces as S
    fn, shape = case['fn'], case['shape']
    v = var_of(case)
    ffp = fn.startswith('ffp')
    if v['xkind'] == 'complex' and (ffp or fn in ('off_axis', 'sigma')):
        v['xkind'] = 'f64'       # polar conversion / in-place combination of r and t: real coordinates only
    if v['itype'] in ('int8', 'int16'):
        v['itype'] = 'int32'     # numpy takes sqrt / arctan2 of 8- and 16-bit integers in half / single precision
    if v['xkind'] == 'f32' and 0 < abs(case['c']) < 1e-20:
        v['xkind'] = 'f64'       # slopes of order c leave the single-precision range
    c, k, dx, dy, rmax = conic_geometry(case, v)
    kind = v['xkind']
    edge = case.get('edge', False) or case.get('qmax', 0.8) > 0.9      # next to the edge of the domain: the outermost point is on rho_max
    if kind == 'int':
        rho, rbase = make_points(case['seed'], shape, 0, rmax, False, salt=1, kind='int')
    else:
        rho, rbase = make_points(case['seed'], shape, 0.02 * rmax, rmax, edge, salt=1, kind=kind)
    t, tbase = make_points(case['seed'], shape, -math.pi, 2 * math.pi, False, salt=2, kind='f32' if kind == 'f32' else 'f64')
    kcls = k_class(k) + ('' if c_class(c) == 'c-plain' else ':' + c_class(c)) + (':shift~0' if 0 < abs(dx) + abs(dy) < 1e-6 else '')       # the special classes of the parameters name the bucket
    q = max(1 + k, 0.0) * c * c * float(np.max(rbase)) ** 2
    ctx.label(fn, k_class(k), c_class(c), shape_label(shape), 'shift:' + ('none' if dx == dy == 0 else 'x' if dx else 'y') + ('~0' if 0 < abs(dx) + abs(dy) < 1e-6 else ''),
              'k-near-special' if k not in (0, -1) and (abs(k) < 1e-5 or abs(k + 1) < 1e-5) else 'k-plain',
              'q>0.99' if q > 0.99 else 'q>0.8' if q > 0.8 else 'q<=0.8')
    nt = var_labels(ctx, v, shape)
    ctx.nt(nt or k != 0 or dx != 0 or dy != 0 or isinstance(shape, str) or len(shape) != 1 or c_class(c) != 'c-plain')
    rt = rtol_of(v, 0, RT)
    rt8 = rtol_of(v, 0, 1e-8)
    if fn == 'ffp_plane':
        # Surface.plane: sag and both slopes vanish identically (x : ndarray with at least one axis - the unchanged code broadcasts a
        # length-1 vector to x.shape, which numpy refuses for a 0-D target)
        pshape = [1] if isinstance(shape, str) or len(shape) == 0 else shape
        xs, _ = make_points(case['seed'], pshape, -rmax, rmax, False, salt=1, kind='f32' if kind == 'f32' else 'f64')
        ys, _ = make_points(case['seed'], pshape, -rmax, rmax, False, salt=2, kind='f32' if kind == 'f32' else 'f64')
        pk = 'f32' if kind == 'f32' else 'f64'
        x, y = present(xs, pshape, v, kind=pk), present(ys, pshape, v, layout=v['layout2'], kind=pk)
        surf = ctx.call(S.Surface.plane, 'eval', [0, 0, 0])
        res = call(ctx, 'plane', surf.FFp, x, y)
        ctx.require(len(res) == 3, 'Surface.plane.FFp:return', 'expected (z, dx, dy)')
        for got, which in ((res[0], 'sag'), (res[1], 'd/dx'), (res[2], 'd/dy')):
            U.check_shape(got, shape_tuple(pshape), 'Surface.plane.FFp', which)
            U.check_equal(np.asarray(got, dtype=float), np.zeros(shape_tuple(pshape)), 'Surface.plane.FFp', which + ' of a plane')
        return

    def cmp(got, wfull, bucket, what):
        want = shaped(wfull, shape)
        U.check_shape(got, np.shape(want), bucket, what)
        U.check_close(got, want, rt, bucket, what + ' (c=%r, k=%r, dx=%r, dy=%r, rho: %s %s)' % (c, k, dx, dy, kind, shape_label(shape)),
                      atol=rt * max(float(np.max(np.abs(wfull))), 1e-6 * min(1.0, abs(c))))      # floor: all base radii may be exactly 0; it scales with c (0 for a plane: exact)

    rc = rbase + 1j * H
    rarg = present(rho, shape, v)
    targ = present(t, shape, v, layout=v['layout2'], kind='f32' if kind == 'f32' else 'f64')
    if fn in ('sphere', 'conic', 'dircos'):
        # other entry point to the same result: the caller hands in the de-duplicated phi (and rho^2), as the Q surfaces do
        kw = {}
        if case.get('phi_given', False):
            ctx.label('phi-given')
            rf = rarg * rarg
            kw = {'phi': np.sqrt(1 - (1 + k) * c * c * rf)}
            if fn == 'dircos':
                kw['rhosq'] = rf
        if fn == 'sphere':
            der, args, bucket, what = S.sphere_sag_der, (c, rarg), 'sphere_sag_der', 'sphere_sag_der vs d/drho sphere_sag'
            wfull = np.imag(ctx.call(S.sphere_sag, c, rc * rc)) / H
        elif fn == 'conic':
            der, args, bucket, what = S.conic_sag_der, (c, k, rarg), 'conic_sag_der:' + kcls, 'conic_sag_der vs d/drho conic_sag'
            wfull = np.imag(ctx.call(S.conic_sag, c, k, rc * rc)) / H
        else:
            der, args, bucket, what = (S.der_direction_cosine_spheroid, (c, k, rarg), 'der_direction_cosine_spheroid:' + kcls,
                                       'der_direction_cosine_spheroid vs d/drho (1/phi_spheroid)')
            wfull = np.imag(1 / ctx.call(S.phi_spheroid, c, k, rc * rc)) / H
        if v['pre32']:
            with single_session(ctx, v):
                call(ctx, 'float32', der, *args[:-1], single(v, rarg))
        got = call(ctx, kcls, der, *args, **kw)
        cmp(got, wfull, bucket, what)
        reuse_check(ctx, v, bucket, got, (rarg, kw), lambda: ctx.call(der, *((-0.5 * c,) + args[1:]), **kw), lambda: ctx.call(der, *args, **kw),
                    lambda g, b: cmp(g, wfull, b, what))
    elif fn in ('off_axis', 'sigma'):
        if fn == 'off_axis':
            der, name = S.off_axis_conic_der, 'off_axis_conic_der'

            def val(r_, t_):
                return ctx.call(S.off_axis_conic_sag, c, k, r_, t_, dx, dy)
        else:
            der, name = S.off_axis_conic_sigma_der, 'off_axis_conic_sigma_der'

            def val(r_, t_):
                return 1 / ctx.call(S.off_axis_conic_sigma, c, k, r_, t_, dx, dy)
        if v['pre32']:
            with single_session(ctx, v):
                call(ctx, 'float32', der, c, k, single(v, rarg), single(v, targ), dx, dy)
        wr = np.imag(val(rbase + 1j * H, tbase + 0j)) / H
        wt = np.imag(val(rbase + 0j, tbase + 1j * H)) / H

        def verify(res, suffix):
            ctx.require(isinstance(res, tuple) and len(res) == 2, name + ':return', 'expected (dr, dt)')
            # the azimuthal derivative is compared on the scale of r * (radial derivative): it vanishes identically without a shift
            cmp(res[0], wr, '%s:radial:%s%s' % (name, kcls, suffix), name + ' radial vs complex step')
            wt_scale = max(float(np.max(np.abs(wt))), 0.0)
            want = shaped(wt, shape)
            U.check_shape(res[1], np.shape(want), '%s:azimuthal:%s%s' % (name, kcls, suffix), name + ' azimuthal')
            U.check_close(res[1], want, rt, '%s:azimuthal:%s%s' % (name, kcls, suffix), name + ' azimuthal vs complex step (c=%r, k=%r, dx=%r, dy=%r, rho: %s %s)' % (
                c, k, dx, dy, kind, shape_label(shape)), atol=rt * wt_scale)
        res = call(ctx, kcls, der, c, k, rarg, targ, dx, dy)
        verify(res, '')
        reuse_check(ctx, v, name, res, (rarg, targ), lambda: ctx.call(der, -0.5 * c, k, rarg, targ, 0.5 * dx, 0.5 * dy),
                    lambda: ctx.call(der, c, k, rarg, targ, dx, dy), lambda g, b: verify(g, b[len(name):]))
    else:
        # Surface.conic / .sphere / .off_axis_conic: FFp(x, y) -> sag, d/dx, d/dy
        xb = rbase * np.cos(tbase)
        yb = rbase * np.sin(tbase)
        if kind in ('int', 'f32'):
            xb = np.trunc(xb) if kind == 'int' else xb.astype(np.float32).astype(float)
            yb = np.trunc(yb) if kind == 'int' else yb.astype(np.float32).astype(float)
        size = size_of(shape)
        xs = xb[:size].reshape(shape_tuple(shape)).copy()
        ys = yb[:size].reshape(shape_tuple(shape)).copy()
        if isinstance(shape, str):
            xs, ys = float(xs), float(ys)
        x = present(xs, shape, v)
        y = present(ys, shape, v, layout=v['layout2'])
        # the surface object is built with the drawn parameters, or with others (a weaker curvature of the same sign, half the shift:
        # inside the same real domain) and handed the drawn ones through its public params dict afterwards
        via = bool(case.get('via_params', False))
        c0, k0, dx0, dy0 = (0.5 * c + (0.001 if c >= 0 else -0.001), k, 0.5 * dx, 0.5 * dy) if via else (c, k, dx, dy)
        ctx.label('parameters:' + ('assigned-through-params' if via else 'at-construction'))
        if fn == 'ffp_conic':
            surf = ctx.call(S.Surface.conic, c0, k0, 'eval', [0, 0, 0])
            sx = sy = sx0 = sy0 = 0.0
        elif fn == 'ffp_sphere':
            surf = ctx.call(S.Surface.sphere, c0, 'eval', [0, 0, 0], None)
            sx = sy = sx0 = sy0 = 0.0
        else:
            surf = ctx.call(S.Surface.off_axis_conic, c0, k0, 'eval', [0, 0, 0], dy=dy0, dx=dx0)
            sx, sy, sx0, sy0 = dx, dy, dx0, dy0

        def sag_of(cc, sx_, sy_):
            def sag(xx, yy):
                A = (xx + sx_) ** 2 + (yy + sy_) ** 2
                return cc * A / (1 + np.sqrt(1 - (1 + k) * cc * cc * A))
            return sag
        sag = sag_of(c, sx, sy)
        if v['pre32']:
            with single_session(ctx, v):
                call(ctx, 'float32', surf.FFp, single(v, x), single(v, y))
        if via:
            ctx.require(isinstance(surf.params, dict) and 'c' in surf.params, 'Surface.params', 'Surface.%s keeps its parameters in the params dict' % fn[4:])
            surf.params['c'] = c
            if 'dx' in surf.params:
                surf.params['dx'], surf.params['dy'] = dx, dy
        wx = np.imag(sag(xb + 1j * H, yb + 0j)) / H
        wy = np.imag(sag(xb + 0j, yb + 1j * H)) / H
        sc = max(float(np.max(np.abs(wx))), float(np.max(np.abs(wy))))
        bucket = 'Surface.%s.FFp:%s%s' % (fn[4:], kcls, ':parameters-assigned-through-params' if via else '')
        zscale = max(float(np.max(np.abs(sag(xb, yb)))), 1e-300)

        def verify(res, bucket):
            ctx.require(len(res) == 3, fn + ':return', 'expected (z, dx, dy)')
            if via:
                # the slopes must be those of the sag that the same call returns: that sag follows the assigned parameters on the unchanged
                # code; were it to follow the construction-time ones (or neither), nothing is asserted here - C09 is about sag and slope agreeing
                zgot = np.asarray(res[0], dtype=float)
                zwant = shaped(sag(xb, yb), shape)
                if zgot.shape != np.shape(zwant) or not np.all(np.abs(zgot - zwant) <= max(rt8, 1e-6 if kind == 'f32' else 0) * zscale + 1e-300):
                    ctx.label('sag-does-not-follow-params')
                    return
            for got, wfull, which in ((res[1], wx, 'd/dx'), (res[2], wy, 'd/dy')):
                want = shaped(wfull, shape)
                U.check_shape(got, np.shape(want), bucket, which)
                U.check_close(got, want, rt8, bucket, 'Surface.%s(c=%r, k=%r, dx=%r, dy=%r).FFp(x: %s %s) %s vs complex step of the closed-form sag' % (
                    fn[4:], c, k, sx, sy, kind, shape_label(shape), which), atol=rt8 * sc)
        res = call(ctx, kcls, surf.FFp, x, y)
        verify(res, bucket)
        # the same surface object evaluated again at other points, then at the first points
        reuse_check(ctx, v, bucket, res, (x, y), lambda: ctx.call(surf.FFp, y, x), lambda: ctx.call(surf.FFp, x, y), verify)


def strat_q2d_surface(tier):
    return with_big(_strat_q2d_surface(tier), shapes=[b for b in BIG_THIN if len(b) > 1], one_in=12)


def _strat_q2d_surface(tier):
    return st.fixed_dictionaries({
        'coefs': q2d_coefs(tier),
        'c': conic_c(),
        'k': conic_k(), 'qmax': st.sampled_from(QMAX),
        # normalization radius: the edge of the sampled aperture, wider than it, or exactly 1 (the points then lie inside the unit disk)
        'Rmode': st.sampled_from(['aperture', 'aperture', 'wider', 'much-wider', 'unit', 'near-unit']),
        # dx, dy positionally or by keyword, or left at their defaults when there is no shift
        'shift_as': st.sampled_from(['positional', 'keyword', 'default']),
        # one array object given as x and as y: points on the diagonal
        'alias': st.sampled_from([False, False, False, False, True]),
        'fs': U.nice_float(0.05, 0.6), 'axis': st.sampled_from(['dx', 'dy', 'none', 'none', '-dx', '-dy'] * 2 + ['~dx', '~dy']), 'fr': U.nice_float(0.3, 0.95),
        'fn': st.just('q2d'), 'shape': point_shapes(4).filter(lambda s: isinstance(s, str) or len(s) != 1), 'seed': U.seeds,   # 1-D x, y mean a grid (cart_to_polar)
        'v': variants(('f64', 'f32', 'int'))})


def check_q2d_surface(case, ctx):
    """raytracing.surfaces.Q2d_and_der: slope outputs == d/drho, d/dtheta of conic + (1/sigma) sum c Q2d(n,m,rho/R,theta) (complex step)."""
    from prysm.polynomials import Q2d
    from prysm.x.raytracing import surfaces as S
    shape = case['shape']
    v = var_of(case, ('f64', 'f32', 'int'))
    if v['itype'] in ('int8', 'int16'):
        v['itype'] = 'int32'     # numpy takes sqrt / arctan2 of 8- and 16-bit integers in half / single precision
    if v['xkind'] == 'f32' and 0 < abs(case['c']) < 1e-20:
        v['xkind'] = 'f64'       # base slopes of order c leave the single-precision range
    kind = v['xkind']
    c, k, dx, dy, rmax = conic_geometry(case, v)
    cm0, ams, bms = q2d_expand(case, v['cs_as'])
    cargs = q2d_contain(cm0, ams, bms, v['cs_as'])
    cls = q2d_labels(ctx, case)
    kcls = ('k=0' if k == 0 else 'k!=0') + ('' if c_class(c) == 'c-plain' else ':' + c_class(c))
    rmode = case.get('Rmode', 'aperture')
    if rmode in ('unit', 'near-unit'):
        rmax = min(rmax, 1.0)
    R = {'aperture': rmax, 'wider': 1.5 * rmax, 'much-wider': 4.0 * rmax, 'unit': 1.0, 'near-unit': 1.000001}[rmode]
    shift_as = case.get('shift_as', 'positional')
    if shift_as == 'default' and (dx != 0 or dy != 0):
        shift_as = 'keyword'
    skw = {'positional': lambda: ((dx, dy), {}), 'keyword': lambda: ((), {'dy': dy, 'dx': dx}), 'default': lambda: ((), {})}[shift_as]
    ctx.label('k=0' if k == 0 else 'k=-1' if k == -1 else 'k!=0', c_class(c), shape_label(shape), 'shift:' + ('none' if dx == dy == 0 else 'x' if dx else 'y') + ('~0' if 0 < abs(dx) + abs(dy) < 1e-6 else ''),
              'cs-as:' + v['cs_as'], 'R:' + rmode, 'R=1' if R == 1 else 'R!=1', 'shift-as:' + shift_as,
              'plane-base,R!=1' if c == 0 and R != 1 else 'curved-base-or-R=1')
    var_labels(ctx, v, shape)
    coef_label(ctx, v)
    ctx.nt(True)
    ctx.label('size>2^16' if is_big(shape) else 'size<=2^16')
    if is_big(shape):
        ctx.label('size>2^16:layout:' + v['layout'], 'size>2^16:%d-D' % len(shape))
    _, rbase = make_points(case['seed'], shape, 0.05 * rmax, rmax, False, salt=1)
    _, tbase = make_points(case['seed'], shape, -0.98 * math.pi, 0.98 * math.pi, False, salt=2)   # arctan2 range
    xb, yb = rbase * np.cos(tbase), rbase * np.sin(tbase)
    if kind == 'int':
        # integer-valued Cartesian points (possibly the vertex itself when the aperture is small) inside the same disk; the polar
        # coordinates of the oracle are recomputed from them
        xb, yb = np.trunc(xb), np.trunc(yb)
        keep = (xb != 0) | (yb != 0)
        if not keep.all():
            ctx.label('int:some-points-at-vertex')
            xb = np.where(keep, xb, 1.0 if rmax >= 1 else 0.0)
        if not ((xb != 0) | (yb != 0)).all():
            v['xkind'] = kind = 'f64'       # aperture smaller than one unit: no integer point but the vertex, where theta is not defined
            xb, yb = rbase * np.cos(tbase), rbase * np.sin(tbase)
    alias = bool(case.get('alias', False)) and kind != 'int'
    if alias:
        xb = xb / math.sqrt(2.0)        # y = x: the points stay inside the sampled aperture
    if kind == 'f32':
        xb, yb = xb.astype(np.float32).astype(float), yb.astype(np.float32).astype(float)
    if alias:
        yb = xb
    if kind != 'f64' or alias:
        rbase, tbase = np.hypot(xb, yb), np.arctan2(yb, xb)
    ctx.label('x-is-y' if alias else 'x-and-y-separate')
    size = size_of(shape)
    xs = xb[:size].reshape(shape_tuple(shape)).copy()
    ys = yb[:size].reshape(shape_tuple(shape)).copy()
    if isinstance(shape, str):
        xs, ys = float(xs), float(ys)
    x = present(xs, shape, v)
    y = x if alias else present(ys, shape, v, layout=v['layout2'])
    asuf = ':x-is-y' if alias else ''
    modes = q2d_modes(cm0, ams, bms)

    def sag(r_, t_):
        z = ctx.call(S.off_axis_conic_sag, c, k, r_, t_, dx, dy)
        if modes:
            q = sum(cc * ctx.call(Q2d, n, m, r_ / R, t_) for n, m, cc in modes)
            z = z + q / ctx.call(S.off_axis_conic_sigma, c, k, r_, t_, dx, dy)
        return z
    if v['pre32']:
        with single_session(ctx, v):
            x32 = single(v, x)
            call(ctx, cls + ':float32', S.Q2d_and_der, *cargs, x32, x32 if alias else single(v, y), R, c, k, dx, dy)
    prefail(ctx, v, S.Q2d_and_der, *cargs, None, None, R, c, k, dx, dy)
    wr = np.imag(sag(rbase + 1j * H, tbase + 0j)) / H
    wt = np.imag(sag(rbase + 0j, tbase + 1j * H)) / H
    # term-wise scale: |conic slope| + sum |c| |d mode| / sigma
    sig = np.abs(1 / S.off_axis_conic_sigma(c, k, rbase, tbase, dx, dy))
    sr = float(np.max(np.abs(wr)))
    st_ = float(np.max(np.abs(wt)))
    for n, m, cc in modes:
        sr += float(np.max(np.abs(cc * np.imag(Q2d(n, m, (rbase + 1j * H) / R, tbase + 0j)) / H * sig)))
        st_ += float(np.max(np.abs(cc * np.imag(Q2d(n, m, rbase / R + 0j, tbase + 1j * H)) / H * sig)))
    # the azimuthal slope is r times a tangential gradient: its rounding noise is on the scale of r * (radial slope) even where it
    # vanishes itself (integer points on the axis of the shift, theta = 0 or pi exactly)
    st_ = max(st_, float(np.max(rbase)) * sr)
    rt = rtol_of(v, 12, 1e-8)
    isuf = ':integer-coefficient-array' if v['cs_as'] == 'intarray' else ''
    if is_big(shape):
        isuf += ':size>2^16:%s' % ('C-ordered' if v['layout'] == 'C' else 'not-C-ordered')

    def verify(res, suffix, session=False):
        ctx.require(isinstance(res, tuple) and len(res) == 3, 'Q2d_and_der:return', 'expected (z, dr, dt)')
        for got, wfull, sc, which in ((res[1], wr, sr, 'radial'), (res[2], wt, st_, 'azimuthal')):
            want = shaped(wfull, shape)
            bucket = 'Q2d_and_der:%s:%s%s%s%s%s' % (which, kcls, ':one-family-empty' if cls == 'one-family-empty' else '', isuf, asuf, suffix)
            what = 'Q2d_and_der(cm0=%s, ams=%s, bms=%s as %s, R=%r, c=%r, k=%r, dx=%r, dy=%r, x: %s %s): %s slope vs complex step' % (
                cm0, ams, bms, v['cs_as'], R, c, k, dx, dy, kind, shape_label(shape), which)
            U.check_shape(got, np.shape(want), bucket, which)
            U.check_close(got, want, rt, bucket, what, atol=rt * sc)
            if session and kind == 'f64':       # unchanged code: see the measurement in the report of hardening pass 7 (<= 1e-11 of the term-wise scale)
                session_close(ctx, v, got, want, rt, bucket, what, sc)
    sa, sk = skw()
    res = call(ctx, cls + asuf, S.Q2d_and_der, *cargs, x, y, R, c, k, *sa, **sk)
    verify(res, '', session=True)
    other = [[0.5] + [1.0 - cc for cc in cm0], [[0.25, -0.5, 1.0]] + [list(a) for a in ams], [[1.0]] + [list(b) for b in bms]]
    reuse_check(ctx, v, 'Q2d_and_der', res, (x, y, cargs), lambda: ctx.call(S.Q2d_and_der, *other, x, y, R, -0.5 * c, k, dx, dy),
                lambda: ctx.call(S.Q2d_and_der, *cargs, x, y, R, c, k, dx, dy), lambda g, b: verify(g, b[len('Q2d_and_der'):]))


CLAUSES = [
    HypClause('der_scalar', strat_der_scalar, check_der_scalar, examples={'quick': 1500, 'thorough': 6000}, shards={'quick': 2, 'thorough': 8}),
    HypClause('der_seq', _strat_der_seq(['jacobi', 'jacobi', 'legendre', 'hermite_He', 'hermite_H', 'laguerre', 'laguerre']), check_der_seq,
              examples={'quick': 600, 'thorough': 3000}, shards={'quick': 2, 'thorough': 8}),
    HypClause('der_seq_cheby', _strat_der_seq(CHEBYS), check_der_seq, examples={'quick': 400, 'thorough': 2000}, shards={'quick': 1, 'thorough': 4}),
    HypClause('zernike_der', strat_zernike, check_zernike, examples={'quick': 500, 'thorough': 2500}, shards={'quick': 2, 'thorough': 8}),
    HypClause('clenshaw_jacobi_der', strat_clenshaw_jacobi, check_clenshaw_jacobi, examples={'quick': 600, 'thorough': 3000},
              shards={'quick': 2, 'thorough': 8}),
    HypClause('clenshaw_q_der', strat_clenshaw_q, check_clenshaw_q, examples={'quick': 400, 'thorough': 2000}, shards={'quick': 2, 'thorough': 8}),
    HypClause('zprime_qbfs_qcon', strat_zprime, check_zprime, examples={'quick': 500, 'thorough': 2500}, shards={'quick': 1, 'thorough': 4}),
    HypClause('zprime_q2d', strat_q2d, check_q2d, examples={'quick': 300, 'thorough': 1500}, shards={'quick': 2, 'thorough': 8}),
    HypClause('conic_slopes', strat_conics, check_conics, examples={'quick': 1200, 'thorough': 5000}, shards={'quick': 2, 'thorough': 6}),
    HypClause('q2d_surface', strat_q2d_surface, check_q2d_surface, examples={'quick': 200, 'thorough': 1000}, shards={'quick': 2, 'thorough': 8}),
]
