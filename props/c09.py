"""C09 - every routine documented as a derivative returns the derivative of the value routine it is named after."""
import math

import numpy as np
from hypothesis import strategies as st
from scipy import special as sps

from vlib.core import HypClause, Violation
from vlib import util as U

RULE = ("Hypothesis draws the family, the order(s) (0, 1, 2, 3 forced, otherwise uniform up to 40 quick / 120 thorough), "
        "the shape parameters (tabulated pairs, the Chebyshev half-integers, alpha+beta in {0,-1}, arbitrary reals in "
        "(-1,6]), the shape of the coordinate argument (Python float, 0-D, 1-D, 2-D, 3-D, optionally containing the end "
        "points of the domain), coefficient-vector lengths 1..12 with a drawn zero pattern (dense / sparse / single term), "
        "Clenshaw derivative orders j=1..4 and, for the surfaces, curvature / conic constant / off-axis shift constructed "
        "inside the real domain of the square roots; coordinate and coefficient *values* are expanded from a drawn "
        "integer.  Oracle: complex-step derivative Im f(x+ih)/h, h=1e-30, of the *value* routine (exact to rounding, no "
        "step-size trade-off) for every first derivative (w.r.t. x, r, t, u, rho); scipy.special explicit sums "
        "sum s_n poch(n+a+b+1,j)/2^j P_(n-j)^(a+j,b+j) for higher Jacobi Clenshaw derivatives; the Cauchy integral "
        "(FFT over a circle in the complex plane, exact for polynomials) of the value routines Qbfs / Q2d for higher "
        "Qbfs / Q2d Clenshaw derivatives; the explicit mode sum sum c Q(n,m,u,t) and the closed conic form for the "
        "sag-and-slope evaluators (2D-Q coefficient sets: m=0 vector possibly empty, per azimuthal order both families, "
        "none, or only the cosine / only the sine family, as Q2d_nm_c_to_a_b packs them).  Failure buckets name the routine "
        "and the failing input class (n=0 / n>=1, len1, j>=2, j>=len, k!=0, x.ndim!=1 for the Chebyshev sequence forms, "
        "one-family-empty for 2D-Q).  Non-trivial = order in {0,1} or order >= 6 (beyond the repository's tests) or "
        "non-tabulated shape parameter or j >= 2 or a length-1 / sparse vector or an azimuthal derivative or an N-D / "
        "scalar coordinate argument or a non-zero conic constant / shift.")
ASSUMPTIONS = [
    "prysm's polynomial and sag *value* routines are compositions of analytic elementary operations, so evaluating them "
    "at x+1e-30i gives f'(x) in the imaginary part to rounding error (Squire & Trapp 1998)",
    "scipy.special.eval_jacobi / poch are correct for degree <= 40 and parameters in (-1, 10]",
    "numpy float64 / complex128 arithmetic (IEEE-754)",
]

H = 1e-30
NMAX = {'quick': 40, 'thorough': 120}
RT = 1e-9      # relative tolerance (to the largest |derivative| over the drawn points) for first derivatives


def call(ctx, cls, fn, *a, **k):
    """ctx.call, with the failing input class appended to the bucket of a crash"""
    try:
        return ctx.call(fn, *a, **k)
    except Violation as v:
        if v.bucket.startswith('raise:') and cls:
            raise Violation(v.bucket + ':' + cls, v.msg) from v
        raise


# ---- generators ----------------------------------------------------------------------------------
def orders(tier):
    return st.one_of(st.sampled_from([0, 1, 2, 3]), st.integers(0, NMAX[tier]), st.integers(0, 12))


_ab_float = U.nice_float(-0.99, 6.0)
AB_TABLE = [[0, 0], [-0.5, -0.5], [0.5, 0.5], [-0.5, 0.5], [0.5, -0.5], [0, 4], [1, 1], [0, 1], [0, 2], [2, 0]]


def ab_pairs():
    """(alpha, beta): tabulated, general, and the two special lines alpha+beta = 0 and alpha+beta = -1."""
    return st.one_of(
        st.sampled_from(AB_TABLE),
        st.tuples(_ab_float, _ab_float).map(list),
        st.tuples(_ab_float, _ab_float).map(list),
        U.nice_float(-0.95, 0.95).map(lambda a: [a, -a]),
        U.nice_float(-0.95, -0.05).map(lambda a: [a, -1.0 - a]),
        st.tuples(st.integers(0, 6), st.integers(0, 6)).map(list),
        # next to, but not on, the two special lines (e.g. alpha = 0.1 + 0.2, beta = -0.3): formulas that divide by
        # alpha + beta (+1) after an exact == test cancel catastrophically here
        st.tuples(U.nice_float(-0.95, 0.95), st.sampled_from([5.5e-17, -1.1e-16, 1e-15, 1e-12, -1e-9, 1e-6])).map(lambda t: [t[0], -t[0] + t[1]]),
        st.tuples(U.nice_float(-0.95, -0.05), st.sampled_from([1.1e-16, -2.2e-16, 1e-12, -1e-9, 1e-6])).map(lambda t: [t[0], -1.0 - t[0] + t[1]]),
    )


def ab_class(a, b):
    if [a, b] in AB_TABLE:
        return 'ab:tabulated'
    if a + b == 0:
        return 'ab:sum=0'
    if a + b == -1:
        return 'ab:sum=-1'
    if abs(a + b) < 1e-5 or abs(a + b + 1) < 1e-5:
        return 'ab:near-special-line'
    if float(a).is_integer() and float(b).is_integer():
        return 'ab:integer'
    return 'ab:general'


def point_shapes(nd_max=5):
    s = st.integers(1, nd_max)
    return st.one_of(st.just('pyfloat'), st.just([]), st.integers(1, 12).map(lambda k: [k]),
                     st.tuples(s, s).map(list), st.tuples(st.integers(1, 3), s, st.integers(1, 3)).map(list))


def array_shapes(nd_max=5):
    s = st.integers(1, nd_max)
    return st.one_of(st.just([]), st.integers(1, 12).map(lambda k: [k]), st.tuples(s, s).map(list),
                     st.tuples(st.integers(1, 3), s, st.integers(1, 3)).map(list))


def shape_label(shape):
    if shape == 'pyfloat':
        return 'x:pyfloat'
    return 'x:%d-D' % len(shape)


def size_of(shape):
    return 1 if shape == 'pyfloat' else int(np.prod(shape, dtype=int)) if len(shape) else 1


def make_points(seed, shape, lo, hi, edge, salt=0, edges=None):
    """(argument handed to prysm, flat base array).  The argument is the first size_of(shape) entries of the base array;
    the base array has >= 8 points spread over [lo,hi] and defines the scale of the comparison."""
    size = size_of(shape)
    r = U.rng_of(seed, salt)
    base = r.uniform(lo, hi, max(8, size))
    if edge:
        e = (lo, hi) if edges is None else edges
        base[0] = e[0]
        if size > 1:
            base[size - 1] = e[1]
        else:
            base[0] = e[int(seed) % 2]
    sub = base[:size]
    if shape == 'pyfloat':
        return float(sub[0]), base
    return sub.reshape(shape).copy(), base


def cstep(x):
    """x + ih for a Python float or an ndarray"""
    if isinstance(x, float):
        return complex(x, H)
    return np.asarray(x, dtype=float) + 1j * H


def shaped(full, shape):
    size = size_of(shape)
    a = np.asarray(full)[..., :size]
    if shape == 'pyfloat':
        return a.reshape(a.shape[:-1])
    return a.reshape(a.shape[:-1] + tuple(shape))


def coef_vector(mask, seed, salt):
    """coefficients: mask (drawn 0/1 list) times U(-1,1) values bounded away from 0"""
    r = U.rng_of(seed, salt)
    v = r.uniform(0.2, 1.0, len(mask)) * r.choice([-1.0, 1.0], len(mask))
    return [float(c) if k else 0.0 for c, k in zip(v, mask)]


def masks(max_len):
    dense = st.integers(1, max_len).map(lambda k: [1] * k)
    sparse = st.lists(st.sampled_from([0, 1, 1]), min_size=3, max_size=max_len).map(lambda m: m[:-1] + [1])   # highest order present
    single = st.tuples(st.integers(1, max_len), st.integers(0, max_len - 1)).map(
        lambda t: [1 if i == t[1] % t[0] else 0 for i in range(t[0])])
    return st.one_of(dense, sparse, sparse, single, st.just([1]), st.just([1, 1]))


def mask_class(mask):
    if len(mask) == 1:
        return 'vec:len1'
    if all(mask):
        return 'vec:dense'
    if sum(mask) <= 1:
        return 'vec:single-term'
    return 'vec:sparse'


# ---- the one-variable families --------------------------------------------------------------------
# name -> (value, derivative, derivative sequence, number of shape parameters, (lo, hi) sampled domain)
def families():
    from prysm import polynomials as P
    return {
        'jacobi': (P.jacobi, P.jacobi_der, P.jacobi_der_seq, 2, (-1.0, 1.0)),
        'legendre': (P.legendre, P.legendre_der, P.legendre_der_seq, 0, (-1.0, 1.0)),
        'cheby1': (P.cheby1, P.cheby1_der, P.cheby1_der_seq, 0, (-1.0, 1.0)),
        'cheby2': (P.cheby2, P.cheby2_der, P.cheby2_der_seq, 0, (-1.0, 1.0)),
        'cheby3': (P.cheby3, P.cheby3_der, P.cheby3_der_seq, 0, (-1.0, 1.0)),
        'cheby4': (P.cheby4, P.cheby4_der, P.cheby4_der_seq, 0, (-1.0, 1.0)),
        'hermite_He': (P.hermite_He, P.hermite_He_der, P.hermite_He_der_seq, 0, (-4.0, 4.0)),
        'hermite_H': (P.hermite_H, P.hermite_H_der, P.hermite_H_der_seq, 0, (-4.0, 4.0)),
        'laguerre': (P.laguerre, P.laguerre_der, P.laguerre_der_seq, 1, (0.0, 20.0)),
    }


FAMS = ['jacobi', 'jacobi', 'legendre', 'cheby1', 'cheby2', 'cheby3', 'cheby4', 'hermite_He', 'hermite_H', 'laguerre', 'laguerre']
CHEBYS = ['cheby1', 'cheby2', 'cheby3', 'cheby4']


def fam_params(fam):
    if fam == 'jacobi':
        return ab_pairs()
    if fam == 'laguerre':
        return st.one_of(st.sampled_from([0, 0.5, 1, 2, -0.5]), U.nice_float(-0.99, 6.0)).map(lambda a: [a])
    return st.just([])


def n_class(n):
    return 'n=0' if n == 0 else 'n=1' if n == 1 else 'n=2..5' if n <= 5 else 'n=6..40' if n <= 40 else 'n>40'


def strat_der_scalar(tier):
    return st.sampled_from(FAMS).flatmap(lambda fam: st.fixed_dictionaries({
        'fam': st.just(fam), 'n': orders(tier), 'p': fam_params(fam), 'shape': point_shapes(),
        'edge': st.booleans(), 'seed': U.seeds}))


def check_der_scalar(case, ctx):
    """<family>_der(n, ..., x) == d/dx <family>(n, ..., x) (complex step), same shape as x, for every family."""
    fam, n, p, shape = case['fam'], case['n'], case['p'], case['shape']
    val, der, _, npar, (lo, hi) = families()[fam]
    x, base = make_points(case['seed'], shape, lo, hi, case['edge'])
    ctx.label(fam, n_class(n), shape_label(shape), 'edge' if case['edge'] else 'interior')
    if fam == 'jacobi':
        ctx.label(ab_class(*p))
    ctx.nt(n <= 1 or n >= 6 or shape == 'pyfloat' or len(shape) != 1 or (fam == 'jacobi' and ab_class(*p) != 'ab:tabulated')
           or fam == 'laguerre')
    want_full = np.imag(ctx.call(val, n, *p, base + 1j * H)) / H
    want = shaped(want_full, shape)
    bucket = '%s_der:%s' % (fam, 'n=0' if n == 0 else 'n>=1')
    got = call(ctx, 'n=0' if n == 0 else 'n>=1', der, n, *p, x)
    U.check_shape(got, np.shape(want), bucket, '%s_der(%d, %s, x) for x of shape %s' % (fam, n, p, shape))
    scale = float(np.max(np.abs(want_full)))
    U.check_close(got, want, RT, bucket, '%s_der(n=%d, params=%s) vs complex-step derivative of %s' % (fam, n, p, fam),
                  atol=RT * scale)


# ---- sequence forms -------------------------------------------------------------------------------
def order_lists(tier):
    nmax = NMAX[tier]
    contiguous = st.tuples(st.sampled_from([0, 0, 1, 2, 3]), st.integers(2, 12)).map(lambda t: list(range(t[0], t[0] + t[1])))
    anystart = st.tuples(st.integers(0, nmax - 2), st.integers(2, 8)).map(lambda t: list(range(t[0], min(nmax, t[0] + t[1] - 1) + 1)))
    gapped = st.sets(st.integers(0, nmax), min_size=2, max_size=10).map(sorted)
    single = st.one_of(st.sampled_from([0, 1, 2, 3]), st.integers(0, nmax)).map(lambda n: [n])
    return st.one_of(contiguous, contiguous, gapped, gapped, anystart, single)


def ns_class(ns):
    if len(ns) == 1:
        return 'ns:singleton'
    if ns == list(range(ns[0], ns[0] + len(ns))):
        return 'ns:contiguous-from-%s' % ('0' if ns[0] == 0 else '1' if ns[0] == 1 else 'k')
    return 'ns:gapped'


def _strat_der_seq(fams):
    def strat(tier):
        def build(t):
            fam, ns = t
            sh = st.one_of(array_shapes(), st.integers(1, 4).map(lambda k: [len(ns), k]), st.just([len(ns)]))
            return st.fixed_dictionaries({'fam': st.just(fam), 'ns': st.just(ns), 'p': fam_params(fam), 'shape': sh,
                                          'edge': st.booleans(), 'seed': U.seeds})
        return st.tuples(st.sampled_from(fams), order_lists(tier)).flatmap(build)
    return strat


def check_der_seq(case, ctx):
    """<family>_der_seq(ns, ..., x)[k] == d/dx <family>(ns[k], ..., x) (complex step) and shape (len(ns), *x.shape)."""
    fam, ns, p, shape = case['fam'], case['ns'], case['p'], case['shape']
    val, _, dseq, npar, (lo, hi) = families()[fam]
    x, base = make_points(case['seed'], shape, lo, hi, case['edge'])
    ctx.label(fam, ns_class(ns), shape_label(shape), 'has-n=0' if ns[0] == 0 else 'no-n=0',
              'lead-dim==len(ns)' if len(shape) >= 1 and shape[0] == len(ns) else 'lead-dim!=len(ns)')
    ctx.nt(True)
    # sequence-lane defect class of the Chebyshev forms (normalisation vector broadcast): every x that is not 1-D
    cls = ':x.ndim!=1' if fam in CHEBYS and len(shape) != 1 else ''
    name = '%s_der_seq' % fam
    got = call(ctx, cls[1:] or ('has-n=0' if ns[0] == 0 else 'n>=1'), dseq, list(ns), *p, x)
    U.check_shape(got, (len(ns),) + tuple(shape), name + cls, '%s(ns=%s, x.shape=%s)' % (name, ns, shape))
    for k, n in enumerate(ns):
        want_full = np.imag(ctx.call(val, n, *p, base + 1j * H)) / H
        want = shaped(want_full, shape)
        scale = float(np.max(np.abs(want_full)))
        bucket = name + (cls or (':n=0' if n == 0 else ':n>=1'))
        U.check_close(got[k], want, RT, bucket, '%s(ns=%s, params=%s)[%d] (order %d) vs complex-step derivative of %s' % (
            name, ns, p, k, n, fam), atol=RT * scale)


# ---- Zernike ---------------------------------------------------------------------------------------
def nm_pairs(nmax):
    return st.one_of(st.integers(0, nmax), st.integers(0, 8)).flatmap(
        lambda n: st.integers(0, n).map(lambda k: [n, -n + 2 * k]))


def strat_zernike(tier):
    nmax = {'quick': 40, 'thorough': 80}[tier]
    return st.fixed_dictionaries({
        'nms': st.lists(nm_pairs(nmax), min_size=1, max_size=5), 'norm': st.booleans(), 'shape': point_shapes(),
        'rclass': st.sampled_from(['interior', 'interior', 'near0', 'zero', 'one']), 'seed': U.seeds})


def check_zernike(case, ctx):
    """zernike_nm_der / zernike_nm_der_seq == (d/dr, d/dt) of zernike_nm by complex step in r and in t."""
    from prysm import polynomials as P
    nms, norm, shape = [list(e) for e in case['nms']], case['norm'], case['shape']
    rcls = case['rclass']
    r, rbase = make_points(case['seed'], shape, 0.02, 1.0, False, salt=1)
    t, tbase = make_points(case['seed'], shape, -math.pi, 2 * math.pi, False, salt=2)
    if rcls != 'interior':
        v = {'near0': 1e-7, 'zero': 0.0, 'one': 1.0}[rcls]
        rbase[0] = v
        if shape == 'pyfloat':
            r = float(v)
        else:
            r.flat[0] = v
    ctx.label('r:' + rcls, shape_label(shape), 'norm' if norm else 'no-norm')
    ctx.nt(True)
    for n, m in nms:
        ctx.label('m=0' if m == 0 else 'm<0' if m < 0 else 'm>0', n_class(n))
        wr_full = np.imag(ctx.call(P.zernike_nm, n, m, rbase + 1j * H, tbase + 0j, norm=norm)) / H
        wt_full = np.imag(ctx.call(P.zernike_nm, n, m, rbase + 0j, tbase + 1j * H, norm=norm)) / H
        res = ctx.call(P.zernike_nm_der, n, m, r, t, norm=norm)
        ctx.require(isinstance(res, tuple) and len(res) == 2, 'zernike_nm_der:return', 'expected (dr, dt), got %r' % (type(res),))
        mc = 'm=0' if m == 0 else 'm!=0'
        for got, wfull, which in ((res[0], wr_full, 'radial'), (res[1], wt_full, 'azimuthal')):
            want = shaped(wfull, shape)
            bucket = 'zernike_nm_der:%s:%s' % (which, mc)
            U.check_shape(got, np.shape(want), bucket, 'zernike_nm_der(%d,%d) %s' % (n, m, which))
            U.check_close(got, want, RT, bucket, 'zernike_nm_der(n=%d, m=%d, norm=%s) %s derivative vs complex step' % (n, m, norm, which),
                          atol=RT * float(np.max(np.abs(wfull))))
    if shape != 'pyfloat':
        seq = ctx.call(P.zernike_nm_der_seq, [tuple(e) for e in nms], r, t, norm=norm)
        U.check_shape(seq, (len(nms), 2) + tuple(shape), 'zernike_nm_der_seq', 'zernike_nm_der_seq(%s)' % nms)
        for k, (n, m) in enumerate(nms):
            wr_full = np.imag(P.zernike_nm(n, m, rbase + 1j * H, tbase + 0j, norm=norm)) / H
            wt_full = np.imag(P.zernike_nm(n, m, rbase + 0j, tbase + 1j * H, norm=norm)) / H
            for i, wfull, which in ((0, wr_full, 'radial'), (1, wt_full, 'azimuthal')):
                U.check_close(seq[k][i], shaped(wfull, shape), RT, 'zernike_nm_der_seq:' + which,
                              'zernike_nm_der_seq(%s)[%d] %s vs complex step' % (nms, k, which), atol=RT * float(np.max(np.abs(wfull))))


# ---- Clenshaw derivative sums: Jacobi ----------------------------------------------------------------
def strat_clenshaw_jacobi(tier):
    L = {'quick': 12, 'thorough': 30}[tier]
    return st.fixed_dictionaries({'mask': masks(L), 'ab': ab_pairs(), 'j': st.integers(1, 4), 'shape': point_shapes(),
                                  'edge': st.booleans(), 'seed': U.seeds})


def check_clenshaw_jacobi(case, ctx):
    """jacobi_sum_clenshaw_der(s, a, b, x, j)[k][0] == sum_n s_n d^k/dx^k P_n^(a,b)(x) for every k = 1..j (scipy explicit sum)."""
    from prysm.polynomials import jacobi_sum_clenshaw_der
    mask, (a, b), j, shape = case['mask'], case['ab'], case['j'], case['shape']
    s = coef_vector(mask, case['seed'], 3)
    x, base = make_points(case['seed'], shape, -1.0, 1.0, case['edge'])
    M = len(s) - 1
    ctx.label(mask_class(mask), 'j=%d' % j, ab_class(a, b), shape_label(shape), 'j>=len(s)' if j > M else 'j<len(s)')
    ctx.nt(j >= 2 or len(s) == 1 or not all(mask) or ab_class(a, b) != 'ab:tabulated')
    vcls = 'len1' if M == 0 else 'j=1' if j == 1 else 'j>=2,j>=len(s)' if j > M else 'j>=2'
    alphas = call(ctx, vcls, jacobi_sum_clenshaw_der, s, a, b, x, j=j)
    ctx.require(np.ndim(alphas) >= 2 and np.shape(alphas)[0] == j + 1, 'jacobi_sum_clenshaw_der:shape',
                'alphas has shape %s, expected leading dimension j+1=%d' % (np.shape(alphas), j + 1))
    for k in range(1, j + 1):
        full = np.zeros_like(base)
        scale = 0.0
        for n in range(k, M + 1):
            if s[n] == 0:
                continue
            term = s[n] * sps.poch(n + a + b + 1, k) / 2.0 ** k * sps.eval_jacobi(n - k, a + k, b + k, base)
            full += term
            scale += float(np.max(np.abs(term)))
        want = shaped(full, shape)
        got = alphas[k][0]
        bucket = 'jacobi_sum_clenshaw_der:%s' % vcls
        U.check_shape(got, np.shape(want), bucket, 'alphas[%d][0] for x of shape %s' % (k, shape))
        U.check_close(got, want, 1e-8, bucket, 'jacobi_sum_clenshaw_der(s=%s, a=%r, b=%r, j=%d): derivative of order %d' % (s, a, b, j, k),
                      atol=1e-8 * scale)


# ---- Clenshaw derivative sums and sag/slope: Qbfs, Qcon ----------------------------------------------
def cauchy_taylor(f, x0, rho, kmax, K):
    """k-th derivatives (k = 0..kmax) at the real points x0 of a polynomial f of degree < K given as a callable on
    complex arrays: f^(k)(x0) = k!/(rho^k K) sum_q f(x0 + rho e^{i th_q}) e^{-i k th_q}  (exact for deg f < K)."""
    x0 = np.asarray(x0, dtype=float)
    th = 2 * np.pi * np.arange(K) / K
    z = x0[..., None] + rho * np.exp(1j * th)
    fz = f(z)
    out = []
    for k in range(kmax + 1):
        ck = np.mean(fz * np.exp(-1j * k * th), axis=-1) / rho ** k
        out.append(ck.real * math.factorial(k))
    return out, float(np.max(np.abs(fz)))


def strat_clenshaw_q(tier):
    L = {'quick': 10, 'thorough': 20}[tier]
    return st.fixed_dictionaries({'kind': st.sampled_from(['qbfs', 'q2d', 'q2d']), 'mask': masks(L), 'm': st.integers(1, 8),
                                  'j': st.integers(1, 4), 'shape': array_shapes(4), 'seed': U.seeds})


def check_clenshaw_q(case, ctx):
    """clenshaw_qbfs_der / clenshaw_q2d_der rows k=1..j == d^k/dx^k (x=u^2) of sum c_n Q_n(x), Q_n taken from Qbfs / Q2d (Cauchy integral)."""
    from prysm.polynomials import Qbfs, Q2d
    from prysm.polynomials.qpoly import clenshaw_qbfs_der, clenshaw_q2d_der
    kind, mask, m, j, shape = case['kind'], case['mask'], case['m'], case['j'], case['shape']
    cs = coef_vector(mask, case['seed'], 4)
    x, base = make_points(case['seed'], shape, 0.2, 0.8, False)
    N = len(cs) - 1
    ctx.label(kind, mask_class(mask), 'j=%d' % j, shape_label(shape), 'j>=len' if j > N else 'j<len')
    if kind == 'q2d':
        ctx.label('m=%s' % (m if m <= 3 else '>3'))
    ctx.nt(j >= 2 or len(cs) == 1 or not all(mask))
    vcls = 'len1' if N == 0 else 'j=1' if j == 1 else 'j>=2,j>=len' if j > N else 'j>=2'

    if kind == 'qbfs':
        def S(z):   # sum c_n Q_n(z), Q_n(u^2) = Qbfs(n, u) / (u^2 (1-u^2))
            u = np.sqrt(z)
            return sum(c * Qbfs(n, u) for n, c in enumerate(cs) if c != 0) / (z * (1 - z)) if any(cs) else np.zeros_like(z)
        alphas = call(ctx, vcls, clenshaw_qbfs_der, cs, x, j=j)
    else:
        def S(z):   # Q_n^m(u^2) = Q2d(n, m, u, 0) / u^m
            u = np.sqrt(z)
            t = np.zeros_like(u)
            return sum(c * Q2d(n, m, u, t) for n, c in enumerate(cs) if c != 0) / u ** m if any(cs) else np.zeros_like(z)
        alphas = call(ctx, vcls, clenshaw_q2d_der, cs, m, x, j=j)
    derivs, fmax = ctx.call(cauchy_taylor, S, base, 0.15, j, 64)
    ctx.require(np.ndim(alphas) >= 2 and np.shape(alphas)[0] == j + 1, 'clenshaw_%s_der:shape' % kind,
                'alphas has shape %s, expected leading dimension j+1=%d' % (np.shape(alphas), j + 1))
    for k in range(1, j + 1):
        if kind == 'qbfs':
            got = 2 * (alphas[k][0] + alphas[k][1]) if np.shape(alphas)[1] > 1 else 2 * alphas[k][0]
        else:
            got = 0.5 * alphas[k][0]
            if m == 1 and N > 2:
                got = got - 2 / 5 * alphas[k][3]
        want = shaped(derivs[k], shape)
        bucket = 'clenshaw_%s_der:%s' % (kind, vcls)
        U.check_shape(got, np.shape(want), bucket, 'row %d' % k)
        noise = 1e-12 * fmax * math.factorial(k) / 0.15 ** k
        U.check_close(got, want, 1e-7, bucket, 'clenshaw_%s_der(cs=%s%s, j=%d): derivative of order %d w.r.t. u^2' % (
            kind, cs, '' if kind == 'qbfs' else ', m=%d' % m, j, k), atol=1e-7 * float(np.max(np.abs(derivs[k]))) + noise)


def strat_zprime(tier):
    L = {'quick': 10, 'thorough': 24}[tier]
    return st.fixed_dictionaries({'kind': st.sampled_from(['Qbfs', 'Qcon']), 'mask': masks(L), 'shape': point_shapes(),
                                  'edge': st.booleans(), 'seed': U.seeds})


def check_zprime(case, ctx):
    """compute_z_zprime_Qbfs / _Qcon: the slope output is d/du of sum c_n Q_n(u) (complex step through Qbfs / Qcon)."""
    from prysm.polynomials import Qbfs, Qcon
    from prysm.polynomials.qpoly import compute_z_zprime_Qbfs, compute_z_zprime_Qcon
    kind, mask, shape = case['kind'], case['mask'], case['shape']
    cs = coef_vector(mask, case['seed'], 5)
    u, base = make_points(case['seed'], shape, 0.0, 1.0, case['edge'])
    ctx.label(kind, mask_class(mask), shape_label(shape), 'edge' if case['edge'] else 'interior')
    ctx.nt(len(cs) == 1 or not all(mask) or shape == 'pyfloat' or len(shape) != 1)
    Q = Qbfs if kind == 'Qbfs' else Qcon
    fn = compute_z_zprime_Qbfs if kind == 'Qbfs' else compute_z_zprime_Qcon
    full = np.zeros_like(base)
    scale = 0.0
    for n, c in enumerate(cs):
        if c != 0:
            term = c * np.imag(ctx.call(Q, n, base + 1j * H)) / H
            full += term
            scale += float(np.max(np.abs(term)))
    res = call(ctx, 'len1' if len(cs) == 1 else 'len>=2', fn, cs, u, u * u)
    ctx.require(isinstance(res, tuple) and len(res) == 2, 'compute_z_zprime_%s:return' % kind, 'expected (z, zprime)')
    want = shaped(full, shape)
    bucket = 'compute_z_zprime_%s:slope:%s' % (kind, 'len1' if len(cs) == 1 else 'len>=2')
    U.check_shape(res[1], np.shape(want), bucket, 'slope for u of shape %s' % (shape,))
    U.check_close(res[1], want, 1e-8, bucket, 'compute_z_zprime_%s(cs=%s): slope vs complex-step derivative of sum c_n %s(n,u)' % (kind, cs, kind),
                  atol=1e-8 * scale)


# ---- 2D-Q sag / slope ----------------------------------------------------------------------------------
def q2d_coefs(tier):
    L = {'quick': 7, 'thorough': 12}[tier]
    mm = {'quick': 5, 'thorough': 9}[tier]
    vec = masks(L)
    # per azimuthal order: cosine and sine vectors, both present (most), both absent, or only one family present (the
    # packer Q2d_nm_c_to_a_b emits an empty list for the absent family)
    kind = st.sampled_from(['both'] * 7 + ['none', 'cosine-only', 'sine-only'])
    pair = st.tuples(kind, vec, vec).map(lambda t: [[] if t[0] in ('none', 'sine-only') else t[1], [] if t[0] in ('none', 'cosine-only') else t[2]])
    return st.fixed_dictionaries({'cm0': st.one_of(vec, st.just([])), 'ab': st.lists(pair, min_size=0, max_size=mm)})


def q2d_expand(case):
    seed = case['seed']
    cm0 = coef_vector(case['coefs']['cm0'], seed, 10)
    ams, bms = [], []
    for i, (ma, mb) in enumerate(case['coefs']['ab']):
        ams.append(coef_vector(ma, seed, 100 + i))
        bms.append(coef_vector(mb, seed, 200 + i))
    return cm0, ams, bms


def q2d_modes(cm0, ams, bms):
    out = [(n, 0, c) for n, c in enumerate(cm0)]
    for i, (a, b) in enumerate(zip(ams, bms)):
        out += [(n, i + 1, c) for n, c in enumerate(a)]
        out += [(n, -(i + 1), c) for n, c in enumerate(b)]
    return [e for e in out if e[2] != 0]


def q2d_labels(ctx, case):
    c = case['coefs']
    ctx.label('cm0:' + ('empty' if not c['cm0'] else mask_class(c['cm0'])), 'max|m|=%d' % len(c['ab']))
    for ma, mb in c['ab']:
        ctx.label('m-order:both-empty' if not ma and not mb else 'm-order:cosine-only' if not mb else 'm-order:sine-only' if not ma
                  else 'm-order:has-len1' if 1 in (len(ma), len(mb)) else 'm-order:len>=2')
    if any(bool(ma) != bool(mb) for ma, mb in c['ab']):
        return 'one-family-empty'
    if any(1 in (len(ma), len(mb)) for ma, mb in c['ab']) or len(c['cm0']) == 1:
        return 'short-vector'
    return 'len>=2'


def strat_q2d(tier):
    return st.fixed_dictionaries({'coefs': q2d_coefs(tier), 'shape': point_shapes(4), 'edge': st.booleans(), 'seed': U.seeds})


def q2d_explicit(ctx, modes, ubase, tbase):
    """complex-step d/du and d/dt of sum c Q2d(n,m,u,t) on the base points, with the term-wise scale"""
    from prysm.polynomials import Q2d
    dr, dt = np.zeros_like(ubase), np.zeros_like(ubase)
    sr = st_ = 0.0
    for n, m, c in modes:
        a = c * np.imag(ctx.call(Q2d, n, m, ubase + 1j * H, tbase + 0j)) / H
        b = c * np.imag(ctx.call(Q2d, n, m, ubase + 0j, tbase + 1j * H)) / H
        dr += a
        dt += b
        sr += float(np.max(np.abs(a)))
        st_ += float(np.max(np.abs(b)))
    return dr, dt, sr, st_


def check_q2d(case, ctx):
    """compute_z_zprime_Q2d: radial and azimuthal slope outputs == d/du, d/dt of sum c Q2d(n,m,u,t) (complex step)."""
    from prysm.polynomials.qpoly import compute_z_zprime_Q2d
    shape = case['shape']
    cm0, ams, bms = q2d_expand(case)
    cls = q2d_labels(ctx, case)
    ctx.label(shape_label(shape))
    ctx.nt(True)
    u, ubase = make_points(case['seed'], shape, 0.0, 1.0, case['edge'], salt=1)
    t, tbase = make_points(case['seed'], shape, -math.pi, 2 * math.pi, False, salt=2)
    modes = q2d_modes(cm0, ams, bms)
    dr, dt, sr, st_ = q2d_explicit(ctx, modes, ubase, tbase)
    res = call(ctx, cls, compute_z_zprime_Q2d, cm0, ams, bms, u, t)
    ctx.require(isinstance(res, tuple) and len(res) == 3, 'compute_z_zprime_Q2d:return', 'expected (z, dr, dt)')
    for got, wfull, sc, which in ((res[1], dr, sr, 'radial'), (res[2], dt, st_, 'azimuthal')):
        want = shaped(wfull, shape)
        bucket = 'compute_z_zprime_Q2d:%s:%s' % (which, cls)
        U.check_shape(got, np.shape(want), bucket, '%s slope for u of shape %s' % (which, shape))
        U.check_close(got, want, 1e-8, bucket, 'compute_z_zprime_Q2d(cm0=%s, ams=%s, bms=%s): %s slope vs complex step of the mode sum' % (
            cm0, ams, bms, which), atol=1e-8 * sc)


# ---- ray-tracing sag / slope helpers -------------------------------------------------------------------
def strat_conics(tier):
    return st.fixed_dictionaries({
        'fn': st.sampled_from(['sphere', 'conic', 'dircos', 'off_axis', 'sigma', 'ffp_conic', 'ffp_off_axis']),
        'c': st.tuples(U.nice_float(0.01, 0.5), st.sampled_from([1, -1])).map(lambda t: t[0] * t[1]),
        'k': st.one_of(st.sampled_from([0, 0, -1, 1, -2, 0.5]), U.nice_float(-3.0, 2.0)),
        'fs': U.nice_float(0.05, 0.6), 'axis': st.sampled_from(['dx', 'dy', 'none', '-dx', '-dy']), 'fr': U.nice_float(0.05, 0.95),
        'shape': point_shapes(4), 'seed': U.seeds})


def conic_geometry(case):
    """limit L on sqrt(aggregate) such that (1+k) c^2 A <= 0.8 (and 1 - k c^2 A >= 0.2); shift s and rho_max inside it"""
    c, k = case['c'], case['k']
    if case['fn'] in ('sphere',):
        k = 0
    lim = 0.8 / (max(1 + k, -k, 0.05) * c * c)
    L = min(math.sqrt(lim), 20.0)
    axis = case['axis']
    s = 0.0 if axis == 'none' else case['fs'] * L * (-1 if axis.startswith('-') else 1)
    rmax = case['fr'] * (L - abs(s))
    dx, dy = (s, 0.0) if axis.endswith('dx') else (0.0, s)
    return c, k, dx, dy, rmax


def check_conics(case, ctx):
    """sphere/conic/off-axis-conic sag derivatives, d(1/phi)/drho, d(1/sigma)/dr,dt and Surface.FFp slopes vs complex step of the sag / value routine."""
    from prysm.x.raytracing import surfaces as S
    fn, shape = case['fn'], case['shape']
    c, k, dx, dy, rmax = conic_geometry(case)
    rho, rbase = make_points(case['seed'], shape, 0.02 * rmax, rmax, False, salt=1)
    t, tbase = make_points(case['seed'], shape, -math.pi, 2 * math.pi, False, salt=2)
    kcls = 'k=0' if k == 0 else 'k=-1' if k == -1 else 'k!=0'
    ctx.label(fn, kcls, shape_label(shape), 'shift:' + ('none' if dx == dy == 0 else 'x' if dx else 'y'))
    ctx.nt(k != 0 or dx != 0 or dy != 0 or shape == 'pyfloat' or len(shape) != 1)

    def cmp(got, wfull, bucket, what):
        want = shaped(wfull, shape)
        U.check_shape(got, np.shape(want), bucket, what)
        U.check_close(got, want, RT, bucket, what + ' (c=%r, k=%r, dx=%r, dy=%r)' % (c, k, dx, dy), atol=RT * float(np.max(np.abs(wfull))))

    rc = rbase + 1j * H
    if fn == 'sphere':
        cmp(ctx.call(S.sphere_sag_der, c, rho), np.imag(ctx.call(S.sphere_sag, c, rc * rc)) / H, 'sphere_sag_der', 'sphere_sag_der vs d/drho sphere_sag')
    elif fn == 'conic':
        cmp(ctx.call(S.conic_sag_der, c, k, rho), np.imag(ctx.call(S.conic_sag, c, k, rc * rc)) / H, 'conic_sag_der:' + kcls,
            'conic_sag_der vs d/drho conic_sag')
    elif fn == 'dircos':
        cmp(ctx.call(S.der_direction_cosine_spheroid, c, k, rho), np.imag(1 / ctx.call(S.phi_spheroid, c, k, rc * rc)) / H,
            'der_direction_cosine_spheroid:' + kcls, 'der_direction_cosine_spheroid vs d/drho (1/phi_spheroid)')
    elif fn in ('off_axis', 'sigma'):
        if fn == 'off_axis':
            der, name = S.off_axis_conic_der, 'off_axis_conic_der'

            def val(r_, t_):
                return ctx.call(S.off_axis_conic_sag, c, k, r_, t_, dx, dy)
        else:
            der, name = S.off_axis_conic_sigma_der, 'off_axis_conic_sigma_der'

            def val(r_, t_):
                return 1 / ctx.call(S.off_axis_conic_sigma, c, k, r_, t_, dx, dy)
        res = ctx.call(der, c, k, rho, t, dx, dy)
        ctx.require(isinstance(res, tuple) and len(res) == 2, name + ':return', 'expected (dr, dt)')
        wr = np.imag(val(rbase + 1j * H, tbase + 0j)) / H
        wt = np.imag(val(rbase + 0j, tbase + 1j * H)) / H
        # the azimuthal derivative is compared on the scale of r * (radial derivative): it vanishes identically without a shift
        cmp(res[0], wr, '%s:radial:%s' % (name, kcls), name + ' radial vs complex step')
        wt_scale = max(float(np.max(np.abs(wt))), 0.0)
        want = shaped(wt, shape)
        U.check_shape(res[1], np.shape(want), '%s:azimuthal:%s' % (name, kcls), name + ' azimuthal')
        U.check_close(res[1], want, RT, '%s:azimuthal:%s' % (name, kcls), name + ' azimuthal vs complex step (c=%r, k=%r, dx=%r, dy=%r)' % (c, k, dx, dy),
                      atol=RT * wt_scale)
    else:
        # Surface.conic / Surface.off_axis_conic: FFp(x, y) -> sag, d/dx, d/dy
        xb = rbase * np.cos(tbase)
        yb = rbase * np.sin(tbase)
        size = size_of(shape)
        if shape == 'pyfloat':
            shape_ = []
        else:
            shape_ = shape
        x = xb[:size].reshape(shape_).copy()
        y = yb[:size].reshape(shape_).copy()
        if fn == 'ffp_conic':
            surf = ctx.call(S.Surface.conic, c, k, 'eval', [0, 0, 0])
            sx = sy = 0.0
        else:
            surf = ctx.call(S.Surface.off_axis_conic, c, k, 'eval', [0, 0, 0], dy=dy, dx=dx)
            sx, sy = dx, dy

        def sag(xx, yy):
            A = (xx + sx) ** 2 + (yy + sy) ** 2
            return c * A / (1 + np.sqrt(1 - (1 + k) * c * c * A))
        res = ctx.call(surf.FFp, x, y)
        ctx.require(len(res) == 3, fn + ':return', 'expected (z, dx, dy)')
        wx = np.imag(sag(xb + 1j * H, yb + 0j)) / H
        wy = np.imag(sag(xb + 0j, yb + 1j * H)) / H
        sc = max(float(np.max(np.abs(wx))), float(np.max(np.abs(wy))))
        for got, wfull, which in ((res[1], wx, 'd/dx'), (res[2], wy, 'd/dy')):
            want = shaped(wfull, shape_)
            bucket = 'Surface.%s.FFp:%s' % (fn[4:], kcls)
            U.check_shape(got, np.shape(want), bucket, which)
            U.check_close(got, want, 1e-8, bucket, 'Surface.%s(c=%r, k=%r, dx=%r, dy=%r).FFp %s vs complex step of the closed-form sag' % (
                fn[4:], c, k, sx, sy, which), atol=1e-8 * sc)


def strat_q2d_surface(tier):
    return st.fixed_dictionaries({
        'coefs': q2d_coefs(tier),
        'c': st.tuples(U.nice_float(0.01, 0.5), st.sampled_from([1, -1])).map(lambda t: t[0] * t[1]),
        'k': st.one_of(st.sampled_from([0, 0, -1, 1, 0.5]), U.nice_float(-3.0, 2.0)),
        'fs': U.nice_float(0.05, 0.6), 'axis': st.sampled_from(['dx', 'dy', 'none', 'none', '-dx', '-dy']), 'fr': U.nice_float(0.3, 0.95),
        'fn': st.just('q2d'), 'shape': array_shapes(4).filter(lambda s: len(s) != 1), 'seed': U.seeds})   # 1-D x, y mean a grid (cart_to_polar)


def check_q2d_surface(case, ctx):
    """raytracing.surfaces.Q2d_and_der: slope outputs == d/drho, d/dtheta of conic + (1/sigma) sum c Q2d(n,m,rho/R,theta) (complex step)."""
    from prysm.polynomials import Q2d
    from prysm.x.raytracing import surfaces as S
    shape = case['shape']
    c, k, dx, dy, rmax = conic_geometry(case)
    cm0, ams, bms = q2d_expand(case)
    cls = q2d_labels(ctx, case)
    kcls = 'k=0' if k == 0 else 'k!=0'
    ctx.label(kcls, shape_label(shape), 'shift:' + ('none' if dx == dy == 0 else 'x' if dx else 'y'))
    ctx.nt(True)
    R = rmax
    _, rbase = make_points(case['seed'], shape, 0.05 * rmax, rmax, False, salt=1)
    _, tbase = make_points(case['seed'], shape, -0.98 * math.pi, 0.98 * math.pi, False, salt=2)   # arctan2 range
    size = size_of(shape)
    x = (rbase * np.cos(tbase))[:size].reshape(shape).copy()
    y = (rbase * np.sin(tbase))[:size].reshape(shape).copy()
    modes = q2d_modes(cm0, ams, bms)

    def sag(r_, t_):
        z = ctx.call(S.off_axis_conic_sag, c, k, r_, t_, dx, dy)
        if modes:
            q = sum(cc * ctx.call(Q2d, n, m, r_ / R, t_) for n, m, cc in modes)
            z = z + q / ctx.call(S.off_axis_conic_sigma, c, k, r_, t_, dx, dy)
        return z
    wr = np.imag(sag(rbase + 1j * H, tbase + 0j)) / H
    wt = np.imag(sag(rbase + 0j, tbase + 1j * H)) / H
    # term-wise scale: |conic slope| + sum |c| |d mode| / sigma
    sig = np.abs(1 / S.off_axis_conic_sigma(c, k, rbase, tbase, dx, dy))
    sr = float(np.max(np.abs(wr)))
    st_ = float(np.max(np.abs(wt)))
    for n, m, cc in modes:
        sr += float(np.max(np.abs(cc * np.imag(Q2d(n, m, (rbase + 1j * H) / R, tbase + 0j)) / H * sig)))
        st_ += float(np.max(np.abs(cc * np.imag(Q2d(n, m, rbase / R + 0j, tbase + 1j * H)) / H * sig)))
    res = call(ctx, cls, S.Q2d_and_der, cm0, ams, bms, x, y, R, c, k, dx, dy)
    ctx.require(isinstance(res, tuple) and len(res) == 3, 'Q2d_and_der:return', 'expected (z, dr, dt)')
    for got, wfull, sc, which in ((res[1], wr, sr, 'radial'), (res[2], wt, st_, 'azimuthal')):
        want = shaped(wfull, shape)
        bucket = 'Q2d_and_der:%s:%s%s' % (which, kcls, ':one-family-empty' if cls == 'one-family-empty' else '')
        U.check_shape(got, np.shape(want), bucket, which)
        U.check_close(got, want, 1e-8, bucket, 'Q2d_and_der(cm0=%s, ams=%s, bms=%s, R=%r, c=%r, k=%r, dx=%r, dy=%r): %s slope vs complex step' % (
            cm0, ams, bms, R, c, k, dx, dy, which), atol=1e-8 * sc)


CLAUSES = [
    HypClause('der_scalar', strat_der_scalar, check_der_scalar, examples={'quick': 1500, 'thorough': 6000}, shards={'quick': 2, 'thorough': 8}),
    HypClause('der_seq', _strat_der_seq(['jacobi', 'jacobi', 'legendre', 'hermite_He', 'hermite_H', 'laguerre', 'laguerre']), check_der_seq,
              examples={'quick': 600, 'thorough': 3000}, shards={'quick': 2, 'thorough': 8}),
    HypClause('der_seq_cheby', _strat_der_seq(CHEBYS), check_der_seq, examples={'quick': 400, 'thorough': 2000}, shards={'quick': 1, 'thorough': 4}),
    HypClause('zernike_der', strat_zernike, check_zernike, examples={'quick': 500, 'thorough': 2500}, shards={'quick': 2, 'thorough': 8}),
    HypClause('clenshaw_jacobi_der', strat_clenshaw_jacobi, check_clenshaw_jacobi, examples={'quick': 600, 'thorough': 3000},
              shards={'quick': 2, 'thorough': 8}),
    HypClause('clenshaw_q_der', strat_clenshaw_q, check_clenshaw_q, examples={'quick': 400, 'thorough': 2000}, shards={'quick': 2, 'thorough': 8}),
    HypClause('zprime_qbfs_qcon', strat_zprime, check_zprime, examples={'quick': 500, 'thorough': 2500}, shards={'quick': 1, 'thorough': 4}),
    HypClause('zprime_q2d', strat_q2d, check_q2d, examples={'quick': 300, 'thorough': 1500}, shards={'quick': 2, 'thorough': 8}),
    HypClause('conic_slopes', strat_conics, check_conics, examples={'quick': 700, 'thorough': 3500}, shards={'quick': 1, 'thorough': 4}),
    HypClause('q2d_surface', strat_q2d_surface, check_q2d_surface, examples={'quick': 200, 'thorough': 1000}, shards={'quick': 2, 'thorough': 8}),
]
