"""C04 - one origin convention: sample n//2 is the origin for every grid, pad, crop, slice, centroid."""
import itertools

import numpy as np
from hypothesis import strategies as st

from vlib.core import HypClause, EnumClause
from vlib import util as U

RULE = ("Exhaustive enumeration of every (n_in, n_out) pair with 1<=n_in<=n_out<=N (pad) / n_out<=n_in (crop) "
        "for 1-D-in-2-D arrays in every pad mode, plus Hypothesis-drawn 2-D shape pairs (axes independent), fill "
        "values and modes through fttools.pad2d/crop_center and Wavefront.pad2d/crop; every n in 1..N for "
        "fftrange, make_xy_grid (grid / vector, dx / diameter), forward_ft_unit (shift True/False), RichData.x/.y/"
        ".slices(); a point source at every index of small arrays for psf.centroid.  Oracle: reference model of "
        "an axis, coordinate (i - n//2)*dx; integer data movement compared exactly.  Non-trivial = parity of "
        "n_in differs from parity of n_out, or n odd, or non-zero fill / non-constant mode.  Distinct = distinct "
        "canonical JSON of the case.")
ASSUMPTIONS = ["numpy indexing and np.pad are correct", "pad2d is only called with out_shape >= in_shape and "
               "crop_center with out_shape <= in_shape (neither supports the other direction)"]

MODES = ['constant', 'edge', 'reflect', 'wrap', 'symmetric', 'mean']
NMAX = {'quick': 20, 'thorough': 48}


def _marker(shape):
    """array whose entries are unique integers (so any misplacement is visible)"""
    return (np.arange(int(np.prod(shape)), dtype=np.float64).reshape(shape) + 1.0)


def _model_pad_offsets(n_in, n_out):
    return n_out // 2 - n_in // 2


# ---- pad ---------------------------------------------------------------------------------------
def enum_pad(tier):
    N = NMAX[tier]
    for n_in in range(1, N + 1):
        for n_out in range(n_in, N + 1):
            for axis in (0, 1):
                for mode in MODES:
                    fills = (0, 1.5, -3) if mode == 'constant' else (0,)
                    for fill in fills:
                        yield {'n_in': n_in, 'n_out': n_out, 'axis': axis, 'mode': mode, 'fill': fill, 'other': 1 + (n_in % 3)}


def check_pad_axis(case, ctx):
    """pad2d along one axis: out[k + n_out//2] == in[k + n_in//2]; origin sample moves to the origin; crop undoes pad."""
    from prysm.fttools import pad2d, crop_center
    n_in, n_out, axis, mode, fill = case['n_in'], case['n_out'], case['axis'], case['mode'], case['fill']
    if mode in ('reflect',) and n_in == 1 and n_out > n_in:
        ctx.exclude('np.pad reflect undefined for length-1 axis')
    other = case['other']
    in_shape = [other, other]
    in_shape[axis] = n_in
    out_shape = list(in_shape)
    out_shape[axis] = n_out
    ctx.nt(n_in % 2 != n_out % 2 or n_in % 2 == 1 or fill != 0 or mode != 'constant')
    ctx.label('parity:%s->%s' % ('eo'[n_in % 2], 'eo'[n_out % 2]), 'mode:' + mode)
    a = _marker(in_shape)
    kw = {} if mode == 'constant' else {'mode': mode}
    out = ctx.call(pad2d, a, value=fill, out_shape=tuple(out_shape), **kw) if mode == 'constant' else \
        ctx.call(pad2d, a, out_shape=tuple(out_shape), mode=mode)
    U.check_shape(out, out_shape, 'pad2d')
    off = _model_pad_offsets(n_in, n_out)
    sl = [slice(None), slice(None)]
    sl[axis] = slice(off, off + n_in)
    bucket = 'pad2d:%s->%s' % (('even', 'odd')[n_in % 2], ('even', 'odd')[n_out % 2])
    U.check_equal(out[tuple(sl)], a, bucket + ':interior', 'interior of padded array at model offset n_out//2-n_in//2=%d' % off)
    if mode == 'constant':
        m = np.ones(out_shape, bool)
        m[tuple(sl)] = False
        ctx.require(np.all(out[m] == fill), bucket + ':fill', 'padding region not equal to fill value %r' % fill)
    # impulse at the origin stays at the origin
    d = np.zeros(in_shape)
    idx = [s // 2 for s in in_shape]
    d[tuple(idx)] = 1
    od = ctx.call(pad2d, d, out_shape=tuple(out_shape))
    want = [s // 2 for s in out_shape]
    got = np.argwhere(od == 1)
    ctx.require(len(got) == 1 and list(got[0]) == want, bucket + ':origin',
                'impulse at origin %s of %s lands at %s in %s, expected %s' % (idx, in_shape, got.tolist(), out_shape, want))
    back = ctx.call(crop_center, out, tuple(in_shape))
    U.check_equal(back, a, 'crop(pad)', 'crop_center(pad2d(a)) != a for %s->%s' % (in_shape, out_shape))


# ---- crop --------------------------------------------------------------------------------------
def enum_crop(tier):
    N = NMAX[tier]
    for n_in in range(1, N + 1):
        for n_out in range(1, n_in + 1):
            for axis in (0, 1):
                yield {'n_in': n_in, 'n_out': n_out, 'axis': axis, 'other': 1 + (n_in % 3)}


def check_crop_axis(case, ctx):
    """crop_center along one axis: out[k + n_out//2] == in[k + n_in//2]."""
    from prysm.fttools import crop_center
    n_in, n_out, axis, other = case['n_in'], case['n_out'], case['axis'], case['other']
    in_shape = [other, other]
    in_shape[axis] = n_in
    out_shape = list(in_shape)
    out_shape[axis] = n_out
    ctx.nt(n_in % 2 != n_out % 2 or n_in % 2 == 1)
    ctx.label('parity:%s->%s' % ('eo'[n_in % 2], 'eo'[n_out % 2]))
    a = _marker(in_shape)
    out = ctx.call(crop_center, a, tuple(out_shape))
    U.check_shape(out, out_shape, 'crop_center')
    off = n_in // 2 - n_out // 2
    sl = [slice(None), slice(None)]
    sl[axis] = slice(off, off + n_out)
    bucket = 'crop_center:%s->%s' % (('even', 'odd')[n_in % 2], ('even', 'odd')[n_out % 2])
    U.check_equal(out, a[tuple(sl)], bucket, 'crop %s->%s should start at n_in//2-n_out//2=%d' % (in_shape, out_shape, off))


# ---- 2-D pad / crop through the functions and the Wavefront methods ------------------------------
def strat_padcrop2d(tier):
    N = NMAX[tier]
    ax = U.axis_len(N)
    return st.fixed_dictionaries({
        'a': st.tuples(ax, ax).map(list), 'b': st.tuples(ax, ax).map(list),
        'mode': st.sampled_from(MODES), 'fill': st.sampled_from([0, 0, 1.5, -3]),
        'via': st.sampled_from(['function', 'wavefront', 'wavefront-copy', 'scalar-out', 'Q']),
        # integer data whose values need every bit of the type (raw counts, packed flags): padding and cropping only move samples
        'dtype': st.sampled_from(['float64', 'complex128', 'float32', 'int64', 'int64-huge', 'uint64-huge', 'int32-big', 'uint8', 'bool']),
        'Q': st.sampled_from([1, 1.5, 2, 3, 1.25, 2.5]), 'prec': st.sampled_from([64, 64, 32]),
    })


def check_padcrop2d(case, ctx):
    """2-D pad then crop with independent axes, through fttools and Wavefront; model offsets per axis."""
    with U.precision(case.get('prec', 64)):
        _check_padcrop2d(case, ctx)


def _check_padcrop2d(case, ctx):
    from prysm.fttools import pad2d, crop_center
    from prysm.propagation import Wavefront
    import math
    a_, b_ = case['a'], case['b']
    small = [min(x, y) for x, y in zip(a_, b_)]
    big = [max(x, y) for x, y in zip(a_, b_)]
    via, mode, fill = case['via'], case['mode'], case['fill']
    if via == 'scalar-out':
        big = [max(big)] * 2
    if via == 'Q':
        big = [math.ceil(s * case['Q']) for s in small]
    if mode == 'reflect' and any(s == 1 and g > 1 for s, g in zip(small, big)):
        ctx.exclude('np.pad reflect undefined for length-1 axis')
    INTS = {'int64': (np.int64, 0), 'int64-huge': (np.int64, 2 ** 62), 'uint64-huge': (np.uint64, 2 ** 63), 'int32-big': (np.int32, 2 ** 30), 'uint8': (np.uint8, 0),
            'bool': (np.bool_, 0)}
    if via in ('wavefront', 'wavefront-copy') and case['dtype'] in INTS:
        dtype = 'float64'
    else:
        dtype = case['dtype']
    if mode == 'mean' and dtype in INTS:
        dtype = 'float64'
    if dtype in INTS and (mode != 'constant' or via == 'Q') and dtype != 'int64':
        dtype = 'int64'          # the wide / narrow integer classes go through the default constant mode with an explicit output shape
    if dtype in INTS:
        ctx.label('dtype:' + dtype, 'config.precision=%d' % case.get('prec', 64))
    parity_mix = any(s % 2 != g % 2 for s, g in zip(small, big))
    ctx.nt(parity_mix or any(s % 2 for s in small) or fill != 0 or mode != 'constant')
    ctx.label('via:' + via, 'mode:' + mode, 'paritymix' if parity_mix else 'parity-same',
              'square' if small[0] == small[1] else 'nonsquare')
    if dtype in INTS and fill == 1.5:
        fill = 2
    if dtype in INTS and dtype != 'int64':
        fill = 0 if dtype != 'bool' else False
        npdt, off = INTS[dtype]
        if dtype == 'bool':
            a = (_marker(small) % 3 > 0)
        elif dtype == 'uint8':
            a = (_marker(small) % 251).astype(np.uint8)
        else:
            a = _marker(small).astype(npdt) + npdt(off)
    else:
        a = _marker(small).astype(INTS[dtype][0] if dtype in INTS else dtype)
    if dtype == 'complex128':
        a = a + 1j * _marker(small)[::-1, ::-1]
    kw = {'value': fill} if mode == 'constant' else {'mode': mode}
    if via == 'function':
        out = ctx.call(pad2d, a, out_shape=tuple(big), **kw)
    elif via == 'scalar-out':
        out = ctx.call(pad2d, a, out_shape=int(big[0]), **kw)
    elif via == 'Q':
        out = ctx.call(pad2d, a, Q=case['Q'], **kw)
    else:
        w = Wavefront(a.copy(), 0.5, 1.0)
        w2 = ctx.call(w.pad2d, 1, out_shape=tuple(big), inplace=(via == 'wavefront'), **kw)
        out = w2.data
        if via == 'wavefront-copy':
            U.check_equal(w.data, a, 'Wavefront.pad2d:mutated', 'inplace=False modified the source wavefront')
            ctx.require(w2.dx == w.dx, 'Wavefront.pad2d:dx', 'padding changed dx')
    U.check_shape(out, big, 'pad2d')
    if dtype in INTS:
        ctx.require(np.asarray(out).dtype == a.dtype, 'pad2d:integer-data:dtype', 'padding %s data with %r returned %s' % (a.dtype, fill, np.asarray(out).dtype))
    oy, ox = (g // 2 - s // 2 for s, g in zip(small, big))
    bucket = 'pad2d:' + ','.join('%s->%s' % (('even', 'odd')[s % 2], ('even', 'odd')[g % 2]) for s, g in zip(small, big))
    U.check_equal(out[oy:oy + small[0], ox:ox + small[1]], a, bucket + ':interior',
                  '%s -> %s interior at model offset (%d,%d)' % (small, big, oy, ox))
    if mode == 'constant':
        m = np.ones(big, bool)
        m[oy:oy + small[0], ox:ox + small[1]] = False
        ctx.require(np.all(out[m] == fill), bucket + ':fill', 'padding region != fill %r' % fill)
    # crop back
    if via in ('wavefront', 'wavefront-copy'):
        w3 = Wavefront(out.copy(), 0.5, 1.0)
        back = ctx.call(w3.crop, tuple(small), inplace=(via == 'wavefront')).data
    elif via == 'scalar-out' and small[0] == small[1]:
        back = ctx.call(crop_center, out, int(small[0]))
    else:
        back = ctx.call(crop_center, out, tuple(small))
    U.check_equal(back, a, 'crop(pad)', 'crop(pad(a)) != a for %s -> %s' % (small, big))
    # crop of a marker array directly
    bmark = _marker(big)
    cr = ctx.call(crop_center, bmark, tuple(small))
    cy, cx = (g // 2 - s // 2 for s, g in zip(small, big))
    bucket = 'crop_center:' + ','.join('%s->%s' % (('even', 'odd')[g % 2], ('even', 'odd')[s % 2]) for s, g in zip(small, big))
    U.check_equal(cr, bmark[cy:cy + small[0], cx:cx + small[1]], bucket, 'crop %s -> %s' % (big, small))
    # an integer out_shape means (k, k) whatever the shape of the input (a_ and b_ are independent draws, so amark is usually not square)
    amark = _marker([max(x, 1) for x in a_])
    k = int(min(min(a_), min(b_)))
    crk = ctx.call(crop_center, amark, k)
    ky, kx = (g // 2 - k // 2 for g in amark.shape)
    U.check_equal(crk, amark[ky:ky + k, kx:kx + k], 'crop_center:scalar-out_shape', 'crop %s -> %d (integer out_shape)' % (list(amark.shape), k))
    if via in ('wavefront', 'wavefront-copy'):
        wk = ctx.call(Wavefront(amark.astype(float), 0.5, 1.0).crop, k, inplace=(via == 'wavefront')).data
        U.check_equal(wk, amark[ky:ky + k, kx:kx + k], 'Wavefront.crop:scalar-out_shape', 'Wavefront.crop(%d) of %s' % (k, list(amark.shape)))


# ---- coordinate vectors / grids ------------------------------------------------------------------
def enum_grids(tier):
    N = {'quick': 64, 'thorough': 160}[tier]
    dxs = [1.0, 0.1, 0.37, 3.0, 1e-3, 12.5]
    for n in range(1, N + 1):
        for k, other in enumerate((n, 1 + (n * 7) % 13, 1 + (n * 5) % 32)):
            yield {'n': n, 'other': other, 'dx': dxs[(n + k) % len(dxs)], 'prec': 64 if (n + k) % 4 else 32}
        # a negative sample spacing (an axis that runs the other way: descending coordinates and frequencies, origin still on sample n//2)
        yield {'n': n, 'other': 1 + (n * 3) % 11, 'dx': -dxs[n % len(dxs)], 'prec': 64}


def _check_ft_unit(ctx, forward_ft_unit, dx, n, prec):
    fu = ctx.call(forward_ft_unit, dx, n, True)
    U.check_shape(fu, (n,), 'forward_ft_unit')
    U.check_close(fu, U.cvec(n) / (n * dx), 1e-5 if prec == 32 else 1e-12, 'forward_ft_unit', 'shifted frequency axis n=%d' % n)
    ctx.require(fu[n // 2] == 0 and np.count_nonzero(fu == 0) == 1, 'forward_ft_unit:zero', 'zero frequency not exactly at n//2')
    fn_ = ctx.call(forward_ft_unit, dx, n, False)
    ctx.require(fn_[0] == 0, 'forward_ft_unit:zero', 'unshifted axis does not start at 0')
    U.check_close(np.fft.fftshift(np.asarray(fn_)), U.cvec(n) / (n * dx), 1e-5 if prec == 32 else 1e-12, 'forward_ft_unit',
                  'unshifted axis')


def check_grids(case, ctx):
    """fftrange / make_xy_grid / forward_ft_unit / RichData.x,.y,.slices(): exact zero at n//2 and nowhere else."""
    from prysm.fttools import fftrange, forward_ft_unit
    from prysm.coordinates import make_xy_grid
    from prysm._richdata import RichData
    n, other, dx, prec = case['n'], case['other'], case['dx'], case['prec']
    ctx.nt(n % 2 == 1 or other % 2 == 1)
    ctx.label('odd' if n % 2 else 'even', 'prec%d' % prec)
    with U.precision(prec):
        v = ctx.call(fftrange, n)
        U.check_equal(np.asarray(v, dtype=float), U.cvec(n), 'fftrange', 'fftrange(%d)' % n)
        # make_xy_grid: shape=(rows, cols) -> x varies along axis 1 with cols entries
        shape = (n, other)
        x, y = ctx.call(make_xy_grid, shape, dx=dx)
        U.check_shape(x, shape, 'make_xy_grid:x')
        U.check_shape(y, shape, 'make_xy_grid:y')
        rt = 1e-6 if prec == 32 else 1e-12
        U.check_close(x, np.broadcast_to(U.cvec(other) * dx, shape), rt, 'make_xy_grid:x', 'x grid %s dx=%g' % (shape, dx))
        U.check_close(y, np.broadcast_to((U.cvec(n) * dx)[:, None], shape), rt, 'make_xy_grid:y', 'y grid %s dx=%g' % (shape, dx))
        ctx.require(np.all((x == 0) == (np.arange(other) == other // 2)[None, :]), 'make_xy_grid:zero',
                    'x has exact zero not exactly at column n//2 for shape %s' % (shape,))
        ctx.require(np.all((y == 0) == (np.arange(n) == n // 2)[:, None]), 'make_xy_grid:zero',
                    'y has exact zero not exactly at row n//2 for shape %s' % (shape,))
        xv, yv = ctx.call(make_xy_grid, shape, dx=dx, grid=False)
        U.check_close(xv, U.cvec(other) * dx, rt, 'make_xy_grid:vec', 'x vector')
        U.check_close(yv, U.cvec(n) * dx, rt, 'make_xy_grid:vec', 'y vector')
        if dx < 0:
            ctx.label('negative-dx')
        # diameter form: dx = diameter / max(shape)
        diam = abs(dx) * max(shape)
        xd, yd = ctx.call(make_xy_grid, shape, diameter=diam)
        U.check_close(xd, np.broadcast_to(U.cvec(other) * abs(dx), shape), 10 * rt, 'make_xy_grid:diameter', 'x grid from diameter')
        ctx.require(xd[0, other // 2] == 0 and yd[n // 2, 0] == 0, 'make_xy_grid:zero', 'diameter grid origin not exact zero')
        # integer shape -> square
        xs, ys = ctx.call(make_xy_grid, n, dx=dx)
        U.check_shape(xs, (n, n), 'make_xy_grid:int-shape')
        ctx.require(xs[0, n // 2] == 0 and ys[n // 2, 0] == 0, 'make_xy_grid:zero', 'square grid origin not exact zero')
        # forward_ft_unit (also with other FFT modules behind the backend shim: one without next_fast_len, one without any helper functions)
        be = ['scipy', 'numpy', 'transforms-only'][(n + other) % 3]
        ctx.label('fft-backend:' + be)
        with U.fft_backend(be):
            _check_ft_unit(ctx, forward_ft_unit, dx, n, prec)
        # RichData coordinates and slices
        data = _marker(shape)
        rd = RichData(data, dx, 0.5)
        U.check_close(rd.x, np.broadcast_to(U.cvec(other) * dx, shape), rt, 'RichData.x', 'x')
        U.check_close(rd.y, np.broadcast_to((U.cvec(n) * dx)[:, None], shape), rt, 'RichData.y', 'y')
        sl = ctx.call(rd.slices)
        ux, sx = sl.x
        uy, sy = sl.y
        U.check_equal(sx, data[n // 2, :], 'slices:x', 'x slice must be the row through the origin sample')
        U.check_equal(sy, data[:, other // 2], 'slices:y', 'y slice must be the column through the origin sample')
        U.check_close(ux, U.cvec(other) * dx, rt, 'slices:x-coords', 'x slice coordinates')
        U.check_close(uy, U.cvec(n) * dx, rt, 'slices:y-coords', 'y slice coordinates')


# ---- centroid ------------------------------------------------------------------------------------
def enum_centroid(tier):
    N = {'quick': 9, 'thorough': 14}[tier]
    for ny in range(1, N + 1):
        for nx in range(1, N + 1):
            if tier == 'quick' and (ny * 3 + nx) % 3 == 2 and ny > 4 and nx > 4:
                continue
            for iy in range(ny):
                for ix in range(nx):
                    yield {'shape': [ny, nx], 'at': [iy, ix], 'dx': [1.0, 0.25, 2.5][(iy + ix) % 3]}


def check_centroid(case, ctx):
    """a point source k samples from the origin has centroid k*dx (row axis first, as returned)."""
    from prysm.psf import centroid
    (ny, nx), (iy, ix), dx = case['shape'], case['at'], case['dx']
    ctx.nt(ny % 2 == 1 or nx % 2 == 1)
    ctx.label('%s,%s' % ('eo'[ny % 2], 'eo'[nx % 2]))
    # camera frames are integer typed: a bright source in a uint8 / uint16 / int16 / int32 frame as well as a float one
    dt, val = [('float64', 3.0), ('uint16', 60000), ('uint8', 250), ('int16', 30000), ('float32', 3.0), ('int32', 2**31 - 5)][(iy * 7 + ix * 3 + ny + nx) % 6]
    ctx.label('dtype:' + dt)
    if dt in ('float64', 'float32', 'int16', 'int32') and (iy + 2 * ix + ny) % 3 == 0:
        val = -val          # a dark point on a zero background (difference images, signed maps): the centroid is where the point is
        ctx.label('negative-source')
    d = np.zeros((ny, nx), dtype=dt)
    d[iy, ix] = val
    c = ctx.call(centroid, d, dx)
    ctx.require(len(c) == 2, 'centroid:len', 'centroid should return 2 values')
    want = ((iy - ny // 2) * dx, (ix - nx // 2) * dx)
    bucket = 'centroid:' + ('odd' if (ny % 2 or nx % 2) else 'even')
    ctx.require(abs(c[0] - want[0]) <= 1e-9 * max(1, abs(want[0])) and abs(c[1] - want[1]) <= 1e-9 * max(1, abs(want[1])),
                bucket, 'source at index %s of %s, dx=%g: centroid %r, expected %r' % ([iy, ix], [ny, nx], dx, tuple(map(float, c)), want))
    p = ctx.call(centroid, d, None, 'pixels')
    ctx.require(abs(p[0] - iy) < 1e-9 and abs(p[1] - ix) < 1e-9, 'centroid:pixels', 'pixel centroid %r expected %r' % (p, (iy, ix)))


def strat_centroid2(tier):
    N = {'quick': 12, 'thorough': 40}[tier]
    ax = st.one_of(U.axis_len(N), st.sampled_from([200, 301, 640]))      # a few frame-sized arrays (index * count overflow needs large indices)
    return st.tuples(ax, ax).flatmap(lambda s: st.fixed_dictionaries({
        'shape': st.just(list(s)),
        'p1': st.tuples(st.integers(0, s[0] - 1), st.integers(0, s[1] - 1)).map(list),
        'p2': st.tuples(st.integers(0, s[0] - 1), st.integers(0, s[1] - 1)).map(list),
        'w1': st.integers(1, 9), 'w2': st.integers(0, 9), 'dx': st.sampled_from([1.0, 0.5, 0.125, 3.0]),
        'dtype': st.sampled_from(['float64', 'float64', 'uint16', 'uint8', 'int32'])}))


def check_centroid2(case, ctx):
    """intensity-weighted centroid of two impulses is the weighted mean of their positions about n//2."""
    from prysm.psf import centroid
    (ny, nx), p1, p2, w1, w2, dx = case['shape'], case['p1'], case['p2'], case['w1'], case['w2'], case['dx']
    ctx.nt(ny % 2 == 1 or nx % 2 == 1)
    dt = case.get('dtype', 'float64')
    scale = {'float64': 1, 'uint16': 7000, 'uint8': 14, 'int32': 10**8}[dt]      # bright frames: index * count exceeds the dtype's range
    ctx.label('dtype:' + dt)
    d = np.zeros((ny, nx), dtype=dt)
    d[tuple(p1)] += w1 * scale
    d[tuple(p2)] += w2 * scale
    c = ctx.call(centroid, d, dx)
    W = w1 + w2
    want = [((p1[k] * w1 + p2[k] * w2) / W - (ny, nx)[k] // 2) * dx for k in (0, 1)]
    bucket = 'centroid:' + ('odd' if (ny % 2 or nx % 2) else 'even')
    ctx.require(all(abs(c[k] - want[k]) <= 1e-9 * max(1, abs(want[k])) for k in (0, 1)), bucket,
                'two impulses %s w=%d, %s w=%d in %s dx=%g: centroid %r expected %r' % (p1, w1, p2, w2, [ny, nx], dx, tuple(map(float, c)), want))



# ---- returned coordinate arrays are the caller's own (no aliasing with library state) -------------------
def strat_fresh(tier):
    ax = U.axis_len({'quick': 24, 'thorough': 64}[tier])
    return st.fixed_dictionaries({'shape': st.one_of(st.tuples(ax, ax).map(list), ax.map(lambda k: [k, k])),
                                  'dx': st.sampled_from([1.0, 0.1, 0.37, 2.5]), 'grid': st.booleans(),
                                  'how': st.sampled_from(['add', 'scale', 'zero']), 'prec': st.sampled_from([64, 64, 32]), 'consumer': st.booleans()})


def check_fresh(case, ctx):
    """a caller changing a returned grid / vector in place (prysm.x.shack_hartmann does this with `x += pitch/2`) must not change any later grid: the same request again still has its exact zero at n//2."""
    from prysm.coordinates import make_xy_grid
    from prysm._richdata import RichData
    shape, dx, grid, how = tuple(case['shape']), case['dx'], case['grid'], case['how']
    ctx.nt(not grid or shape[0] % 2 == 1 or shape[1] % 2 == 1)
    ctx.label('grid' if grid else 'vectors', 'how:' + how)
    with U.precision(case['prec']):
        rt = 1e-6 if case['prec'] == 32 else 1e-12
        x, y = ctx.call(make_xy_grid, shape, dx=dx, grid=grid)
        x = np.asarray(x)
        y = np.asarray(y)
        # the two returned arrays are two coordinate arrays: editing one in place does not move the other
        y_kept = y.copy()
        x += 0.25 * dx
        U.check_equal(y, y_kept, 'make_xy_grid:x-and-y-share-memory', 'y changed when the caller edited x in place (shape %s, grid=%r)' % (shape, grid))
        x -= 0.25 * dx
        if how == 'add':
            x += dx / 2
            y -= 3 * dx
        elif how == 'scale':
            x *= 2.0
            y *= -1.0
        elif how == 'zero':
            x[...] = 7.0
            y[...] = 7.0
        x2, y2 = ctx.call(make_xy_grid, shape, dx=dx, grid=grid)
        wx = U.cvec(shape[1]) * dx
        wy = U.cvec(shape[0]) * dx
        if grid:
            wx, wy = np.broadcast_to(wx, shape), np.broadcast_to(wy[:, None], shape)
        U.check_close(x2, wx, rt, 'make_xy_grid:aliased-state', 'x after an earlier caller modified its own copy in place (%s)' % how)
        U.check_close(y2, wy, rt, 'make_xy_grid:aliased-state', 'y after an earlier caller modified its own copy in place (%s)' % how)
        # the same for the other public grid makers: frequency axes and index ranges handed out earlier belong to the caller
        from prysm.fttools import forward_ft_unit, fftrange
        for n in sorted(set(shape)):
            for sh in (True, False):
                f1 = np.asarray(ctx.call(forward_ft_unit, dx, n, sh))
                if f1.flags.writeable:
                    f1[...] = 7.0 if how == 'zero' else f1 * 2 + 1
                f2 = np.asarray(ctx.call(forward_ft_unit, dx, n, sh))
                want = U.cvec(n) / (n * dx)
                U.check_close(f2, want if sh else np.fft.ifftshift(want), 1e-5 if case['prec'] == 32 else 1e-12, 'forward_ft_unit:aliased-state',
                              'forward_ft_unit(%g, %d, shift=%r) after an earlier caller modified the axis it had been given' % (dx, n, sh))
            r1 = np.asarray(ctx.call(fftrange, n))
            if r1.flags.writeable:
                r1 += 3
            U.check_equal(np.asarray(ctx.call(fftrange, n), dtype=float), U.cvec(n), 'fftrange:aliased-state', 'fftrange(%d) after an earlier caller modified its result' % n)
        if case.get('consumer', False) and min(shape) >= 4:
            # another public consumer of the same frequency axes (it edits the zero-frequency sample of the axis it is handed)
            from prysm.interferogram import render_synthetic_surface, ab_psd
            np.random.seed(7)
            for n in sorted(set(shape)):
                try:
                    render_synthetic_surface(dx * (n - 1), n, rms=1.0, mask=None, psd_fcn=ab_psd, a=1.0, b=2.0)
                except Exception:       # noqa - nothing is asserted about this request
                    ctx.label('render-synthetic-surface:raised')
                f3 = np.asarray(ctx.call(forward_ft_unit, dx, n, True))
                ctx.require(f3[n // 2] == 0 and np.count_nonzero(f3 == 0) == 1, 'forward_ft_unit:aliased-state',
                            'zero frequency of forward_ft_unit(%g, %d) is %r after render_synthetic_surface with the same sampling' % (dx, n, f3[n // 2]))
            ctx.label('after-render-synthetic-surface')
        rd = RichData(np.zeros(shape), dx, 0.5)
        U.check_close(rd.x, np.broadcast_to(U.cvec(shape[1]) * dx, shape), rt, 'RichData.x:aliased-state', 'RichData.x after in-place edits of earlier grids')
        ctx.require(np.asarray(rd.x)[0, shape[1] // 2] == 0 and np.asarray(rd.y)[shape[0] // 2, 0] == 0, 'RichData:zero', 'no exact zero at n//2')



# ---- slices follow the current coordinates ---------------------------------------------------------------------
def strat_slices_hist(tier):
    ax = U.axis_len({'quick': 16, 'thorough': 40}[tier], 3)
    mv = st.integers(-3, 3)
    return st.fixed_dictionaries({'shape': st.tuples(ax, ax).map(list), 'dx': st.sampled_from([1.0, 0.5, 0.2]),
                                  'moves': st.lists(st.tuples(st.sampled_from(['shift-xy', 'rescale', 'read-slices', 'flip-axis']), mv, mv).map(list), min_size=1, max_size=5),
                                  'twosided': st.booleans()})


def check_slices_hist(case, ctx):
    """after the coordinates of a data set are reassigned (documented setters RichData.x / .y), slices() passes through the sample where the *current* coordinates are zero, whatever was asked before."""
    from prysm._richdata import RichData
    ny, nx = case['shape']
    dx = case['dx']
    data = _marker((ny, nx))
    rd = RichData(data, dx, 0.5)
    ox, oy = nx // 2, ny // 2            # model: index of the origin sample
    sgx = sgy = 1.0                      # model: direction of each axis (a caller may use a y-down or x-left convention: descending coordinates)
    ctx.nt(True)
    asked = False

    def assign():
        rd.x = np.broadcast_to(sgx * (np.arange(nx) - ox) * dx, (ny, nx)).copy()
        rd.y = np.broadcast_to((sgy * (np.arange(ny) - oy) * dx)[:, None], (ny, nx)).copy()
    for kind, a, b in case['moves']:
        if kind == 'read-slices':
            ctx.call(rd.slices, case['twosided'])
            asked = True
            continue
        if kind == 'shift-xy':
            ox = min(max(ox + a, 0), nx - 1)
            oy = min(max(oy + b, 0), ny - 1)
        elif kind == 'flip-axis':
            if a >= 0:
                sgy = -sgy
            if b >= 0:
                sgx = -sgx
            ctx.label('descending-axis' if (sgx < 0 or sgy < 0) else 'ascending-axes')
        else:
            dx = dx * (1.5 if a >= 0 else 0.5)
            rd.dx = dx
        assign()
        sl = ctx.call(rd.slices, True)
        ux, sx = sl.x
        uy, sy = sl.y
        what = 'after %s (origin sample now [%d,%d] of %s, axis directions x %+d y %+d%s)' % (kind, oy, ox, [ny, nx], sgx, sgy, ', slices() had been called before' if asked else '')
        U.check_equal(sx, data[oy, :], 'slices:stale-origin:x', 'x slice is not the row through the current origin ' + what)
        U.check_equal(sy, data[:, ox], 'slices:stale-origin:y', 'y slice is not the column through the current origin ' + what)
        U.check_close(ux, sgx * (np.arange(nx) - ox) * dx, 1e-12, 'slices:stale-coords', 'x slice coordinates ' + what)
        U.check_close(uy, sgy * (np.arange(ny) - oy) * dx, 1e-12, 'slices:stale-coords', 'y slice coordinates ' + what)
        # one-sided slices start on the origin sample: coordinates from exactly 0, values from data[oy, ox], equal lengths
        s1 = ctx.call(rd.slices, False)
        for name, (u1, v1), wantu, wantv in (('x', s1.x, sgx * (np.arange(nx) - ox)[ox:] * dx, data[oy, ox:]), ('y', s1.y, sgy * (np.arange(ny) - oy)[oy:] * dx, data[oy:, ox])):
            U.check_shape(v1, wantv.shape, 'slices:one-sided:%s:length' % name, 'one-sided %s slice values %s' % (name, what))
            U.check_shape(u1, wantu.shape, 'slices:one-sided:%s:length' % name, 'one-sided %s slice coordinates %s' % (name, what))
            U.check_equal(v1, wantv, 'slices:one-sided:%s' % name, 'one-sided %s slice does not start on the origin sample %s' % (name, what))
            U.check_close(u1, wantu, 1e-12, 'slices:one-sided:%s:coords' % name, 'one-sided %s slice coordinates %s' % (name, what))
        asked = True
    ctx.label('moves:%d' % len(case['moves']))



# ---- read-outs leave a data set as it was; copies are independent --------------------------------------------------------------
READOUTS = ['slices2', 'slices1', 'plot-x', 'plot-y', 'plot-xy-inverted', 'plot-x-inverted', 'plot-az-inverted', 'plot2d', 'az', 'exact', 'copy-edit', 'copy-crop-recenter',
            'support', 'centroid']


def strat_readouts(tier):
    ax = U.axis_len({'quick': 12, 'thorough': 24}[tier], 3)
    return st.fixed_dictionaries({'shape': st.tuples(ax, ax).map(list), 'dx': st.sampled_from([1.0, 0.5, 0.2, 2.5]), 'dtype': st.sampled_from(['f8', 'f8', 'f4']),
                                  'cls': st.sampled_from(['RichData', 'Interferogram']), 'touch': st.sampled_from(['none', 'xy', 'xy', 'xyrt']),
                                  'ops': st.lists(st.sampled_from(READOUTS), min_size=1, max_size=5), 'seed': U.seeds})


def check_readouts(case, ctx):
    """read-outs (slices and their plots, plot2d, azimuthal statistics, exact_*, support, centroid) and work done on a copy() leave the data set as it was: data, grids
    with their exact zero on sample n//2, and the slices through the origin sample."""
    import matplotlib
    matplotlib.use('Agg')
    from matplotlib import pyplot as plt
    from prysm._richdata import RichData
    from prysm.interferogram import Interferogram
    from prysm import psf as psfmod
    ny, nx = case['shape']
    dx = case['dx']
    r = U.rng_of(case['seed'], 3)
    data = (r.uniform(0.5, 2.0, (ny, nx)) + _marker((ny, nx)) * 1e-3).astype({'f8': np.float64, 'f4': np.float32}[case['dtype']])
    obj = RichData(data.copy(), dx, 0.5) if case['cls'] == 'RichData' else Interferogram(data.copy(), dx, 0.5)
    ctx.nt(True)
    ctx.label('cls:' + case['cls'], 'touch:' + case['touch'], 'dtype:' + case['dtype'])
    if case['touch'] != 'none':
        obj.x, obj.y
    if case['touch'] == 'xyrt':
        obj.r, obj.t
    wantx = np.broadcast_to(U.cvec(nx) * dx, (ny, nx))
    wanty = np.broadcast_to((U.cvec(ny) * dx)[:, None], (ny, nx))

    def coherent(after):
        U.check_equal(np.asarray(obj.data), data, 'readout-modified-data:' + after, 'the data array changed (first difference reported) after ' + after)
        U.check_close(obj.x, wantx, 1e-12, 'readout-modified-grid:' + after, 'x grid after ' + after)
        U.check_close(obj.y, wanty, 1e-12, 'readout-modified-grid:' + after, 'y grid after ' + after)
        ctx.require(obj.x[0, nx // 2] == 0 and obj.y[ny // 2, 0] == 0, 'readout-modified-grid:' + after, 'grid origin is no longer an exact zero after ' + after)
        sl = ctx.call(obj.slices, True)
        U.check_equal(sl.x[1], data[ny // 2, :], 'readout-modified-slices:' + after, 'x slice after ' + after)
        U.check_equal(sl.y[1], data[:, nx // 2], 'readout-modified-slices:' + after, 'y slice after ' + after)
        U.check_close(sl.x[0], U.cvec(nx) * dx, 1e-12, 'readout-modified-slices:' + after, 'x slice coordinates after ' + after)
    try:
        for op in case['ops']:
            ctx.label('op:' + op)
            if op in ('slices2', 'slices1'):
                ctx.call(obj.slices, op == 'slices2')
            elif op.startswith('plot-'):
                which = {'plot-x': 'x', 'plot-y': 'y', 'plot-xy-inverted': ('x', 'y'), 'plot-x-inverted': 'x', 'plot-az-inverted': ('azavg', 'x')}[op]
                if min(ny, nx) < 4 and 'az' in op:
                    which = 'x'
                ctx.call(ctx.call(obj.slices, True).plot, which, invert_x=op.endswith('inverted'))
            elif op == 'plot2d':
                ctx.call(obj.plot2d)
            elif op == 'az':
                if min(ny, nx) >= 4:
                    sl = ctx.call(obj.slices, True)
                    for name in ('azavg', 'azmedian', 'azmin', 'azmax', 'azpv', 'azvar', 'azstd'):
                        getattr(sl, name)
            elif op == 'exact':
                if min(ny, nx) >= 4:
                    ctx.call(obj.exact_x, 0.25 * dx)
                    ctx.call(obj.exact_xy, 0.25 * dx, -0.5 * dx)
            elif op == 'support':
                obj.support, obj.support_x, obj.support_y, obj.shape, obj.size
            elif op == 'centroid':
                ctx.call(psfmod.centroid, obj.data, dx)
            elif op == 'copy-edit':
                c = ctx.call(obj.copy)
                c.x -= 3.5 * dx
                c.y *= -1
                c.data *= 2
                c.dx = 7 * dx
            elif op == 'copy-crop-recenter':
                c = ctx.call(obj.copy)
                if case['cls'] == 'Interferogram' and ny >= 4 and nx >= 4:
                    c.data[: ny // 2, :] = np.nan            # an off-centre valid region
                    c.data[:, : 1] = np.nan
                    ctx.call(c.crop)
                    ctx.call(c.recenter)
                else:
                    c.x += dx
            coherent(op)
    finally:
        plt.close('all')


# ---- Interferogram coordinates after pad / crop with populated caches ------------------------------------------------------
def strat_ifg_pad(tier):
    ax = U.axis_len({'quick': 16, 'thorough': 40}[tier], 3)
    return st.fixed_dictionaries({'shape': st.tuples(ax, ax).map(list), 'dx': st.sampled_from([1.0, 0.5, 0.2, 2.5]),
                                  'touch': st.sampled_from(['none', 'x', 'r', 'mask', 'x-and-r']), 'pad': st.tuples(st.integers(0, 4), st.integers(0, 4)).map(list),
                                  'latcal_first': st.booleans()})


def check_ifg_pad(case, ctx):
    """an interferogram whose coordinates were already in use is padded: afterwards x, y have the data's shape and their exact zero at index n//2 of the padded array."""
    import warnings
    from prysm.interferogram import Interferogram
    ny, nx = case['shape']
    dx = case['dx']
    z = _marker((ny, nx))
    with warnings.catch_warnings():
        warnings.simplefilter('ignore')
        i = Interferogram(z.copy(), dx=dx) if not case['latcal_first'] else Interferogram(z.copy())
        if case['latcal_first']:
            ctx.call(i.latcal, dx)
        t = case['touch']
        if 'x' in t:
            ctx.call(getattr, i, 'x')
        if 'r' in t:
            ctx.call(getattr, i, 'r')
        if t == 'mask':
            ctx.call(i.mask, np.ones((ny, nx), dtype=bool))
        py, px = case['pad']
        if py == px and (ny + nx) % 2:
            ctx.call(i.pad, samples=int(py))         # documented: int or (int, int)
            ctx.label('samples-as-int')
        else:
            ctx.call(i.pad, samples=(py, px))
        ctx.nt(t != 'none' and (py or px))
        ctx.label('touch:' + t, 'pad' if (py or px) else 'pad0')
        d = np.asarray(i.data)
        oy, ox = ny + py, nx + px          # 'samples' is the number of samples each axis grows by; pad2d places the data origin-to-origin
        U.check_shape(d, (oy, ox), 'Interferogram.pad:data')
        x, y = np.asarray(ctx.call(getattr, i, 'x')), np.asarray(ctx.call(getattr, i, 'y'))
        U.check_shape(x, d.shape, 'Interferogram.pad:x-shape', 'x after pad (coordinates touched before: %s)' % t)
        U.check_shape(y, d.shape, 'Interferogram.pad:y-shape', 'y after pad (coordinates touched before: %s)' % t)
        U.check_close(x, np.broadcast_to(U.cvec(ox) * dx, d.shape), 1e-12, 'Interferogram.pad:x', 'x grid after pad')
        U.check_close(y, np.broadcast_to((U.cvec(oy) * dx)[:, None], d.shape), 1e-12, 'Interferogram.pad:y', 'y grid after pad')
        ctx.require(x[0, ox // 2] == 0 and y[oy // 2, 0] == 0, 'Interferogram.pad:zero', 'no exact zero at n//2 after pad')
        # the polar grids follow (they may have been evaluated, and cached, before the pad)
        if (ny + px) % 2:       # either polar grid may be the first one asked for
            tt = np.asarray(ctx.call(getattr, i, 't'))
            r = np.asarray(ctx.call(getattr, i, 'r'))
            ctx.label('t-read-first')
        else:
            r, tt = np.asarray(ctx.call(getattr, i, 'r')), np.asarray(ctx.call(getattr, i, 't'))
        U.check_shape(r, d.shape, 'Interferogram.pad:r-shape', 'r after pad (coordinates touched before: %s)' % t)
        U.check_shape(tt, d.shape, 'Interferogram.pad:t-shape', 't after pad (coordinates touched before: %s)' % t)
        U.check_close(r, np.hypot(x, y), 1e-12, 'Interferogram.pad:r', 'r != hypot(x, y) after pad (coordinates touched before: %s)' % t)
        U.check_close(tt, np.arctan2(y, x), 1e-12, 'Interferogram.pad:t', 't != arctan2(y, x) after pad (coordinates touched before: %s)' % t, atol=1e-12)
        # the data's origin sample moved to the origin sample of the padded array
        offy, offx = oy // 2 - ny // 2, ox // 2 - nx // 2
        U.check_equal(d[offy:offy + ny, offx:offx + nx], z, 'Interferogram.pad:placement', 'the origin sample of the data did not move to the origin sample of the padded array')

# ---- Interferogram coordinates after an off-centre crop + recenter ---------------------------------------------------------
def strat_ifg_crop(tier):
    ax = U.axis_len({'quick': 16, 'thorough': 40}[tier], 2)
    cut = st.integers(0, 6)
    return st.fixed_dictionaries({'shape': st.tuples(ax, ax).map(list), 'dx': st.sampled_from([1.0, 0.5, 0.2, 2.5]),
                                  'touch': st.sampled_from(['none', 'x', 'r', 'x-and-r']),
                                  'cuts': st.tuples(cut, cut, cut, cut).map(list),      # rows removed top / bottom, columns removed left / right
                                  'latcal_first': st.booleans(), 'twice': st.booleans(),
                                  # dead detector lines: whole invalid rows / columns strictly inside the valid rectangle (offsets from its first line)
                                  'dead': st.one_of(st.just([[], []]), st.just([[], []]), st.tuples(st.lists(st.integers(1, 12), max_size=2), st.lists(st.integers(1, 12), max_size=2)).map(list))})


def check_ifg_crop(case, ctx):
    """an interferogram is masked off-centre, cropped to the valid rectangle and recentred: x, y have the data's shape and their exact zero on sample n//2."""
    import warnings
    from prysm.interferogram import Interferogram
    ny, nx = case['shape']
    dx = case['dx']
    t0, b0, l0, r0 = case['cuts']
    # keep at least one row / column
    t0 = min(t0, ny - 1)
    b0 = min(b0, ny - 1 - t0)
    l0 = min(l0, nx - 1)
    r0 = min(r0, nx - 1 - l0)
    z = _marker((ny, nx)).astype(float)
    keep = np.zeros((ny, nx), dtype=bool)
    keep[t0:ny - b0, l0:nx - r0] = True
    dead_r, dead_c = case.get('dead', [[], []])
    hgt, wid = ny - b0 - t0, nx - r0 - l0
    ndead = 0
    for k in dead_r:
        if 0 < k < hgt - 1:
            keep[t0 + k, :] = False
            ndead += 1
    for k in dead_c:
        if 0 < k < wid - 1:
            keep[:, l0 + k] = False
            ndead += 1
    if ndead:
        ctx.label('interior-dead-lines')
    with warnings.catch_warnings():
        warnings.simplefilter('ignore')
        i = Interferogram(z.copy(), dx=dx) if not case['latcal_first'] else Interferogram(z.copy())
        if case['latcal_first']:
            ctx.call(i.latcal, dx)
        t = case['touch']
        if 'x' in t:
            ctx.call(getattr, i, 'x')
        if 'r' in t:
            ctx.call(getattr, i, 'r')
        ctx.call(i.mask, keep)
        ctx.call(i.crop)
        ctx.call(i.recenter)
        if case.get('twice'):
            ctx.call(i.recenter)
        asym = (t0 != b0) or (l0 != r0)
        ctx.nt(asym and t != 'none')
        ctx.label('touch:' + t, 'asymmetric' if asym else 'symmetric', 'origin-cropped-away' if (t0 > ny // 2 or ny - b0 <= ny // 2 or l0 > nx // 2 or nx - r0 <= nx // 2) else 'origin-kept')
        d = np.asarray(i.data)
        oy, ox = ny - t0 - b0, nx - l0 - r0
        U.check_shape(d, (oy, ox), 'Interferogram.crop:data')
        U.check_equal(np.where(np.isfinite(d), d, -1.0), np.where(keep, z, -1.0)[t0:ny - b0, l0:nx - r0], 'Interferogram.crop:data', 'crop() did not keep exactly the bounding rectangle of the valid samples')
        x, y = np.asarray(ctx.call(getattr, i, 'x')), np.asarray(ctx.call(getattr, i, 'y'))
        U.check_shape(x, d.shape, 'Interferogram.recenter:x-shape', 'x after crop+recenter (coordinates touched before: %s)' % t)
        U.check_shape(y, d.shape, 'Interferogram.recenter:y-shape', 'y after crop+recenter (coordinates touched before: %s)' % t)
        U.check_close(x, np.broadcast_to(U.cvec(ox) * dx, d.shape), 1e-12, 'Interferogram.recenter:x', 'x grid after crop+recenter', atol=1e-12 * dx * nx)
        U.check_close(y, np.broadcast_to((U.cvec(oy) * dx)[:, None], d.shape), 1e-12, 'Interferogram.recenter:y', 'y grid after crop+recenter', atol=1e-12 * dx * ny)
        ctx.require(x[0, ox // 2] == 0 and y[oy // 2, 0] == 0, 'Interferogram.recenter:zero', 'no exact zero at n//2 after crop+recenter')
        r = np.asarray(ctx.call(getattr, i, 'r'))
        U.check_shape(r, d.shape, 'Interferogram.recenter:r-shape')
        ctx.require(r[oy // 2, ox // 2] == 0 and int(np.argmin(r)) == (oy // 2) * ox + ox // 2, 'Interferogram.recenter:r', 'radial grid after recenter does not have its zero on the origin sample')
        U.check_close(r, np.hypot(x, y), 1e-12, 'Interferogram.recenter:r', 'r != hypot(x, y) after crop+recenter (coordinates touched before: %s)' % t, atol=1e-12 * dx * (nx + ny))
        tt = np.asarray(ctx.call(getattr, i, 't'))
        U.check_close(tt, np.arctan2(y, x), 1e-12, 'Interferogram.recenter:t', 't != arctan2(y, x) after crop+recenter', atol=1e-9)


CLAUSES = [
    EnumClause('pad_axis', enum_pad, check_pad_axis),
    EnumClause('crop_axis', enum_crop, check_crop_axis),
    HypClause('padcrop2d', strat_padcrop2d, check_padcrop2d, examples={'quick': 600, 'thorough': 4000}, shards={'quick': 2, 'thorough': 8}),
    EnumClause('grids', enum_grids, check_grids),
    EnumClause('centroid', enum_centroid, check_centroid),
    HypClause('centroid2', strat_centroid2, check_centroid2, examples={'quick': 300, 'thorough': 3000}),
    HypClause('grids_not_aliased', strat_fresh, check_fresh, examples={'quick': 300, 'thorough': 2000}),
    HypClause('interferogram_pad_coordinates', strat_ifg_pad, check_ifg_pad, examples={'quick': 250, 'thorough': 1500}),
    HypClause('interferogram_crop_recenter', strat_ifg_crop, check_ifg_crop, examples={'quick': 300, 'thorough': 2000}),
    HypClause('slices_follow_coordinates', strat_slices_hist, check_slices_hist, examples={'quick': 300, 'thorough': 2000}),
    HypClause('readouts_and_copies', strat_readouts, check_readouts, examples={'quick': 150, 'thorough': 1000}, shards={'quick': 3, 'thorough': 6}),
]
