"""C19 - ray tracing obeys Snell's law and keeps rays on surfaces (prysm.x.raytracing)."""
import math

import numpy as np
from hypothesis import strategies as st

from vlib.core import HypClause
from vlib import util as U

RULE = ("[Round-9 hardening.  Clause direct_calls - what a direct call returns belongs to the caller: two surfaces A, B (plane / sphere / conic / off-axis conic), two bundles of the same number of rays (1 .. 64) and dtype (float64, float32 on gentle surfaces; C / Fortran / strided) inside the quantifier; intersect or newton_raphson_solve_s (any of the four pairings) is called on A, then - optionally after a raytrace() of as many rays or a solve of another size - on B (or on A again with other rays / the same rays); the arrays returned first are compared with copies, may not share memory with the later ones, and are checked again against A (on the ray, on the sag, vector along the analytic normal); after the caller overwrites them a repeated first call returns the same values; reflect / refract / transform_to_local_coords / transform_to_global_coords / Surface.sag_normal are called twice in the same way (other directions, origin, rotation, points, surface) and the first result is compared with its copy and with the law / R (X - P) / closed-form sag and gradient.  Clauses trace_*: the caller keeps using the objects it handed to the constructors - every P (float64 array of shape (3,), or the drawn list / ints / [y, z]) and every list of rotation angles is modified in place once its surface exists; the lens-table loop (one position array object handed to every constructor and advanced in place in between); a sibling Surface built from the same position array and despaced / re-prescribed in place through its own P and params - surf.P / surf.R must stay what the constructor was given, and the trace is checked against the surfaces as specified at construction time.]  "
        "[Round-8 hardening, clause trace_batch - rays of one batch are independent of each other: one strongly curved sphere / conic / off-axis conic (radius of curvature 10 .. 0.1; "
        "paraboloids and their neighbours k = -1, -0.99, -1.01 most often, also k = -3 .. 1), reflecting, refracting or 'eval', placed and tilted; 99 .. 2500 easy rays (collimated grid, "
        "random rays tilted <= 8 deg, or one ray repeated; rarely 32771 / 65539 rays) and 1..5 steep / skew rays (40 .. 80 deg off the axis, travelling either way, hit points out to 6 / |c|) "
        "chosen from a seed-expanded pool of 2000 as the ones that need the most iterations of a harness model of the documented Newton search (8 .. 15; 12 or more in about a third of "
        "the cases), put at drawn positions of the batch (first, last, anywhere); optionally rays that miss the surface altogether and rays that are NaN on input share the batch "
        "(nothing is asserted about those), a warm-up trace (float32 / small batch) or a failing request comes first.  Every ray inside the quantifier is checked step by step as in the "
        "other clauses (on its line, on the sag, |S'| = 1, law of reflection / vector Snell law); each steep ray traced alone - as a batch of one and as the documented 1-D ray - and the "
        "whole batch traced in reverse order must give the same intersections and directions (1e-9); intersect() called directly on the local-frame batch must return the same "
        "points and a vector along the analytic normal.]  "
        "Hypothesis draws a prescription of 1..3 surfaces (plane / sphere / conic / off-axis conic; single surfaces "
        "also rotationally symmetric and freeform Q-type built through the public Surface(...) constructor from "
        "Q2d_and_der + surface_normal_from_cylindrical_derivatives), each reflecting or refracting with its own index, "
        "position P and tilt R (none / about z only / general zyx), and a bundle of rays given in the first surface's "
        "local frame (explicit rays by class: exactly on-axis, through the vertex but tilted, meridional, skew, steep "
        "<= 30 deg; plus seed-expanded random rays; travelling +z or -z; batch (N,3) or the documented single 1-D ray). "
        "A harness reference step (closed-form ray/conicoid quadratic, analytic gradient, vector Snell law) decides, from "
        "harness arithmetic only, which rays are inside the quantifier at the first surface (unique forward hit on the vertex "
        "sheet inside 0.9 of the real-sag radius, tangent-plane crossing inside it too, not grazing, below 0.98 of the critical "
        "angle); the others are removed before prysm is called.  prysm's raytrace() history is then checked step by step in "
        "each surface's local frame (local = R (X - P), harness arithmetic): point on the incoming ray, on the sag, |S'| = 1, "
        "reflection about / vector Snell law with the "
        "analytic unit normal, transmitted ray on the far side.  At later surfaces the incoming ray is prysm's own, already "
        "verified, previous output; the same reference step decides whether it is inside the quantifier there (rays that are "
        "not are followed no further, counted).  Separate clauses call reflect / refract directly with "
        "normals of arbitrary length and sense and check the frame transforms as rigid motions.  Non-trivial = at "
        "least one ray meets a curved or tilted surface off its vertex, or the exactly on-axis ray is present.  "
        "Input classes drawn on top of that: every constructor with every optional argument - P as list / tuple / ndarray / whole-number "
        "ints / bare z / [y, z]; R as None / tuple / list of zyx angles / the matrix; typ as 'refl' / 'reflect' / other case / STYPE "
        "constant; n given, None, left out, or a callable on a mirror; keyword instead of positional arguments; the Surface built "
        "elsewhere and re-pointed through its public attributes typ / P / R / n; off-axis conics through dy (positional) and dx; Q-type "
        "surfaces on a base conic shifted through the dx / dy arguments of Q2d_and_der; curvatures from 1e-6 to 10 (the bundle scales "
        "with the surface) and c = 0, k = -1, 0; 'eval' (non-bending) surfaces inside prescriptions.  P and S handed to raytrace as "
        "float64 arrays (C / Fortran-ordered / strided views), float32 arrays (tolerances 2e-5), nested lists, and - clause "
        "trace_argtypes: rays with whole-number origins and direction (0, 0, +-1), as the raytrace docstring writes them - lists of "
        "Python ints, int64 / int32 arrays and float / int mixtures (histories must be of a floating dtype).  P and S are compared with "
        "copies after every call; the histories of a warm-up trace and of the first trace are compared with copies after the same "
        "Surface objects have been traced again (reversed bundle, itself verified step by step); surf.P / R / typ unchanged by tracing.  "
        "Sphere / conic / off-axis conic surfaces are also built with another prescription (c/2, k - 0.5, other dx / dy), optionally evaluated "
        "once (sag_normal), and then set to the prescription of the case through the public params dict their constructor stores "
        "(surf.params['c'] = ..., 'k', 'dx', 'dy'; one, two or all entries): the surface traced is the conicoid params describes.  "
        "Prescriptions of 2-3 surfaces are also built from shared parameter objects: one rotation-matrix object (make_rotation_matrix called once) "
        "handed to all / the first two / the last two surfaces (common tilt <= 5 deg about x, y, any angle about z), or to every surface of a "
        "prescription turned rigidly about its first vertex (P_j = P_0 + R^T (P_j - P_0), tilts to 80 deg about x / y: fold-mirror like geometry); "
        "one index callable for the first and last surface; the first Surface object standing a second time behind a mirror (double pass).  "
        "Those traces are checked step by step like any other (the recorded point on surface j+1 must lie on the ray that left surface j) and "
        "must equal, bit for bit, the trace of the same prescription built from equal, separate objects.")
ASSUMPTIONS = [
    "a surface placed with (P, R) is the set {P + R^T (x, y, sag(x,y))}, i.e. local = R (X - P) as documented in "
    "transform_to_local_coords; R is whatever Surface(...) stores (checked orthonormal, det +1)",
    "conicoid sag z = c rho^2 / (1 + sqrt(1 - (1+k) c^2 rho^2)) and its gradient c/phi (x, y) (harness closed forms) "
    "define the plane / sphere / conic / off-axis conic surfaces",
    "for Q-type surfaces the surface is defined by the sag returned by Q2d_and_der (its value and slopes are C09's "
    "subject); the 'true normal' is a central difference of that sag (law tolerance 1e-6 instead of 1e-9, buckets suffixed "
    "':qtype-normal'); dense coefficient vectors of length >= 2 only, so that C19 does not depend on the C09/C10 defects "
    "of short / one-family coefficient sets; conic bases k != 0 rely on off_axis_conic_sigma_der being consistent with "
    "off_axis_conic_sigma (repository commit 0686ab1)",
    "index pairs above 0.98 of the critical angle, rays that miss the real-sag region, and rays that land at more than "
    "0.9 of the real-sag radius are outside the quantifier and removed by construction (counted)",
    "only the sheet of the conicoid that contains the vertex is 'the surface' (the sag formula describes nothing else)",
    "grazing rays with |S.(-Fx,-Fy,1)| < 0.1 at the intersection (incidence beyond ~84 deg) are removed by construction: "
    "the intersection is ill-conditioned there",
    "implicit precondition of the Spencer & Murty procedure: the point where the ray crosses the surface's local z = 0 "
    "plane (start of Newton's iteration) lies inside the real-sag region as well (rays violating it are removed, counted)",
    "clause trace_batch: a steep ray is inside the quantifier when a harness model of step II of the documented procedure (start where the ray crosses the local z = 0 plane, Newton's "
    "iteration on z - sag along the ray, closed-form sag and gradient) converges within 40 of the 100 iterations prysm allows, to half the step size prysm asks for, with |F'| >= 0.05 at "
    "every iterate (no wild jumps) and every iterate inside 0.95 of the real-sag radius, to a point ahead of the ray origin, inside 0.9 of the real-sag radius, not grazing (|F'| >= 0.1) and "
    "below 0.98 of the critical angle; which of two intersections ahead of the origin is found is not asserted (either is on the ray and on the surface).  The model only selects rays; "
    "what is asserted is geometry (measured on the unchanged tree: all 250000 selected rays of a scan converge to the modelled point)",
    "a ray's trace does not depend on what else is in the batch or where it stands in it (the raytrace docstring: 'there is no reason all rows of P and S must belong to the same ray "
    "bundle'); alone vs in the batch is compared to 1e-9, not bit for bit",
    "raytrace documents a surface by the attributes typ / P / R / n (and uses sag_normal): assigning them on a built Surface "
    "(typ an STYPE constant, P a float64 vector, R a matrix or None, n a callable) is a valid way to place it",
    "P and S 'of any float dtype' are also accepted as what np.asarray makes of lists; whole-number rays written as Python ints "
    "(the docstring's own example) are inside the domain, and their histories must hold real numbers",
    "Surface.conic / sphere / off_axis_conic keep their prescription in the public dict surf.params, which their sag / normal closures read "
    "at every evaluation: assigning entries of that dict re-prescribes the surface (the surface is the conicoid its params describe)",
    "an 'eval' surface does not bend the ray and does not change the medium: point on the ray and on the sag, S' = S",
    "which Python objects the surfaces of a prescription share (one R matrix for several surfaces, one n callable, one Surface listed twice) is no "
    "part of the prescription: raytrace documents a sequence of surfaces described by typ / P / R / n, so the trace with shared objects is the same "
    "computation as with equal copies (compared exactly) - a double pass through a refracting Surface uses that surface's n as n' again, as raytrace documents",
    "objects handed to a Surface constructor: the unchanged tree copies P (any form) and converts a list / tuple of angles into a new matrix, so the caller may go on modifying those objects; a rotation MATRIX "
    "and the values of params are stored as they are (the surface follows later edits of the caller's matrix) - nothing is asserted about editing those.  transform_to_*_coords with R=None return the S they were given: "
    "results are only required not to change through later calls with other arrays, not to be fresh arrays",
    "float32 rays: the trace runs in float64 against float64 surfaces and the histories are stored in float32; every tolerance is "
    "2e-5 (positions relative to the scale of the system), origins 'at infinity' are not given in float32",
]

POS_TOL = 1e-9      # * scale (observed <= 1e-14)
UNIT_TOL = 1e-12    # observed <= 5e-16
LAW_TOL = 1e-9      # observed <= 1e-15
LAW_TOL_Q = 1e-6    # finite-difference normal
RHO_CAP = 24.0
MIN_FPRIME = 0.1   # rays closer to grazing than |S.(-Fx,-Fy,1)| = 0.1 are not generated


# ---- harness geometry --------------------------------------------------------------------------------------------
def unit(v):
    return v / np.linalg.norm(v, axis=-1, keepdims=True)


def dot(a, b):
    return np.sum(a * b, axis=-1)


def rho_limit(c, k):
    if c == 0:
        return RHO_CAP
    return min(RHO_CAP, 0.6 / (abs(c) * math.sqrt(max(1 + k, 0.04))))


class Model:
    """harness-side description of one surface in its local frame"""

    def __init__(self, spec):
        self.kind = spec['kind']
        self.c = float(spec.get('c', 0.0))
        self.k = float(spec.get('k', 0.0))
        if self.kind == 'plane':
            self.c, self.k = 0.0, 0.0
        if self.kind == 'sphere':
            self.k = 0.0
        self.lim = rho_limit(self.c, self.k)
        self.rho_real = math.inf if (self.c == 0 or 1 + self.k <= 0) else 1 / (abs(self.c) * math.sqrt(1 + self.k))
        self.sx = self.sy = 0.0
        if self.kind == 'offaxis':
            axis, f = spec['off']
            s = f * 0.5 * self.lim
            if axis == 'x':
                self.sx = s
            else:
                self.sy = s
        self.q = spec.get('q') if self.kind in ('qsym', 'q2d') else None
        if self.q is not None and spec.get('qoff') is not None:
            # Q-type departure on a base conic shifted through Q2d_and_der's dx / dy arguments (an off-axis section)
            axis, f = spec['qoff']
            s = f * 0.5 * self.lim
            if axis == 'x':
                self.sx = s
            else:
                self.sy = s
        self.ffp = None          # prysm-side FFp for the Q kinds (sag is defined by it)
        self.rho_max = 0.5 * self.lim
        self.curved = self.c != 0 or self.q is not None
        self.shifted = self.sx != 0 or self.sy != 0
        self.symmetric_about_origin = self.kind in ('plane', 'sphere', 'conic') or (self.kind == 'qsym' and not self.shifted)

    # -- conicoid part (closed forms)
    def _phi(self, x, y):
        a = (x + self.sx) ** 2 + (y + self.sy) ** 2
        return a, np.sqrt(1 - (1 + self.k) * self.c ** 2 * a)

    def sag(self, x, y):
        if self.q is not None:
            return self.ffp(np.atleast_1d(x), np.atleast_1d(y))[0]
        a, phi = self._phi(x, y)
        return self.c * a / (1 + phi)

    def grad(self, x, y):
        if self.q is not None:
            # central difference; the step follows the size of the surface (its truncation error goes with h^2 c^2 / size)
            h = 1e-4 * min(1.0, self.lim / 12.0)
            zx = (self.sag(x + h, y) - self.sag(x - h, y)) / (2 * h)
            zy = (self.sag(x, y + h) - self.sag(x, y - h)) / (2 * h)
            return zx, zy
        a, phi = self._phi(x, y)
        return self.c * (x + self.sx) / phi, self.c * (y + self.sy) / phi

    def normal(self, x, y):
        zx, zy = self.grad(x, y)
        return unit(np.stack([-zx, -zy, np.ones_like(zx)], axis=-1))

    def inside(self, x, y, frac):
        """(x,y) within frac of the real-sag radius (measured from the conicoid's own axis)"""
        a = (x + self.sx) ** 2 + (y + self.sy) ** 2
        return a <= min(frac * self.rho_real, 3 * RHO_CAP) ** 2

    def hit(self, P0, S):
        """ray parameter s of the intersection with the vertex sheet of the base conicoid (NaN = no hit)."""
        c, k = self.c, self.k
        x0 = P0[:, 0] + self.sx
        y0 = P0[:, 1] + self.sy
        z0 = P0[:, 2]
        A = c * (S[:, 0] ** 2 + S[:, 1] ** 2 + (1 + k) * S[:, 2] ** 2)
        B = c * (x0 * S[:, 0] + y0 * S[:, 1] + (1 + k) * z0 * S[:, 2]) - S[:, 2]
        C = c * (x0 ** 2 + y0 ** 2 + (1 + k) * z0 ** 2) - 2 * z0
        disc = B * B - A * C
        ok = disc >= 0
        sq = np.sqrt(np.where(ok, disc, 0.0))
        q = -(B + np.where(B >= 0, 1.0, -1.0) * sq)
        with np.errstate(all='ignore'):
            s1 = np.where(A != 0, q / np.where(A != 0, A, 1.0), np.nan)
            s2 = np.where(q != 0, C / np.where(q != 0, q, 1.0), np.nan)
        # candidates: forward (s > 0) roots on the vertex sheet.  A second forward root on the sheet closer to the axis than
        # 3*RHO_CAP makes the ray ambiguous (Newton may legitimately find either): such rays are not used.
        on = []
        for s in (s1, s2):
            p = P0 + np.where(np.isfinite(s), s, 0.0)[:, None] * S
            with np.errstate(all='ignore'):
                a, phi = self._phi(p[:, 0], p[:, 1])
                e = np.abs(p[:, 2] - c * a / (1 + phi))
            e = np.where(np.isfinite(e), e, np.inf)
            scale = 1 + np.abs(P0).max(axis=1) + np.abs(np.where(np.isfinite(s), s, 0.0))
            on.append(ok & np.isfinite(s) & (s > 1e-9) & (e <= 1e-9 * scale) & (a <= (3 * RHO_CAP) ** 2))
        unique = on[0] ^ on[1]
        s = np.where(unique, np.where(on[0], s1, s2), np.nan)
        if self.q is not None:
            s = self._refine_q(P0, S, s)
        return s

    def _refine_q(self, P0, S, s):
        """freeform departure is small: a few secant steps on z - sag along the ray, harness arithmetic"""
        out = s.copy()
        m = np.isfinite(s)
        if not m.any():
            return out
        P, D = P0[m], S[m]

        def F(t):
            p = P + t[:, None] * D
            return p[:, 2] - self.sag(p[:, 0], p[:, 1])
        t0 = s[m]
        t1 = t0 + 1e-3
        f0, f1 = F(t0), F(t1)
        for _ in range(40):
            d = f1 - f0
            step = np.where(d != 0, f1 * (t1 - t0) / np.where(d != 0, d, 1.0), 0.0)
            t0, f0 = t1, f1
            t1 = t1 - step
            f1 = F(t1)
            if np.all(np.abs(step) < 1e-13):
                break
        t1 = np.where(np.abs(f1) < 1e-10, t1, np.nan)
        out[m] = t1
        return out


def frame_to_local(X, S, P, R):
    Xl = X - P
    if R is not None:
        Xl = Xl @ R.T
        S = S @ R.T
    return Xl, S


def frame_to_global(X, S, P, R):
    if R is not None:
        X = X @ R
        S = S @ R
    return X + P, S


def ref_step(mdl, typ, n_in, n_out, P0, S0):
    """reference: one surface, local frame.  returns P1, S1, valid mask."""
    s = mdl.hit(P0, S0)
    valid = np.isfinite(s)
    s_ = np.where(valid, s, 0.0)
    P1 = P0 + s_[:, None] * S0
    with np.errstate(all='ignore'):
        valid &= mdl.inside(P1[:, 0], P1[:, 1], 0.9)
        # Spencer & Murty start Newton's iteration where the ray crosses the local z = 0 plane: the sag must be real there too
        Pz = P0 + (-P0[:, 2] / S0[:, 2])[:, None] * S0
        valid &= mdl.inside(Pz[:, 0], Pz[:, 1], 0.9)
        nrm = mdl.normal(P1[:, 0], P1[:, 1])
    valid &= np.isfinite(nrm).all(axis=1)
    nrm = np.where(valid[:, None], nrm, np.array([0, 0, 1.0]))
    ci = dot(S0, nrm)
    # F' = S . (-Fx, -Fy, 1) is the slope Newton's iteration divides by: grazing rays are ill-conditioned
    valid &= np.abs(ci / nrm[:, 2]) >= MIN_FPRIME
    if typ == 'refl':
        S1 = S0 - 2 * ci[:, None] * nrm
    elif typ == 'eval':
        S1 = S0
    else:
        mu = n_in / n_out
        si = np.sqrt(np.clip(1 - ci * ci, 0, None))
        valid &= mu * si <= 0.98
        rad = np.clip(1 - mu * mu * (1 - ci * ci), 0, None)
        S1 = mu * S0 + (np.sign(ci) * np.sqrt(rad) - mu * ci)[:, None] * nrm
    return P1, S1, valid


# ---- building the prysm side -------------------------------------------------------------------------------------
def q_ffp(mdl):
    from prysm.x.raytracing.surfaces import Q2d_and_der, surface_normal_from_cylindrical_derivatives
    q = mdl.q
    cm0, ams, bms, nr = q['cm0'], q['ams'], q['bms'], float(q['nr'])
    c, k = mdl.c, mdl.k

    symmetric = mdl.kind == 'qsym' and not mdl.shifted
    shift = {}
    if mdl.sx != 0:
        shift['dx'] = mdl.sx
    if mdl.sy != 0:
        shift['dy'] = mdl.sy

    def FFp(x, y):
        x = np.asarray(x, dtype=float)
        y = np.asarray(y, dtype=float)
        z, zr, zt = Q2d_and_der(cm0, ams, bms, x[:, None], y[:, None], nr, c, k, **shift)
        r = np.hypot(x, y)
        t = np.arctan2(y, x)
        if symmetric:
            # no azimuthal term; the polar->Cartesian helper is documented to be singular at r = 0
            fx, fy = zr[:, 0] * np.cos(t), zr[:, 0] * np.sin(t)
        else:
            fx, fy = surface_normal_from_cylindrical_derivatives(zr[:, 0], zt[:, 0], r, t)
        return z[:, 0], fx, fy
    return FFp


TYP_FORMS = {'refl': {'short': 'refl', 'long': 'reflect', 'upper': 'REFL'}, 'refr': {'short': 'refr', 'long': 'refract', 'upper': 'Refract'},
             'eval': {'short': 'eval', 'long': 'eval', 'upper': 'EVAL'}}


def _stype(typ):
    from prysm.x.raytracing import surfaces as sf
    return {'refl': sf.STYPE_REFLECT, 'refr': sf.STYPE_REFRACT, 'eval': sf.STYPE_EVAL}[typ]


def ctor_args(ctx, spec, away=False, shared=None):
    """(typ, P, n, R) as handed to a Surface constructor, in the forms the case asks for (spec['ctor']):
    P  list | tuple | ndarray | whole-number list of ints | the bare z (x = y = 0) | [y, z] (x = 0), as in the tutorials
    R  None | tuple | list of zyx angles | the rotation matrix itself (from prysm.coordinates.make_rotation_matrix)
    typ 'refl' / 'reflect' / any case | the integer STYPE constant
    n  callable for refracting surfaces; for mirrors None, left out, or a callable that must not matter
    away=True: another valid position / tilt / type / index (the object is then re-pointed through its public attributes)
    shared: None, or the dict {'R': {}, 'n': {}} of the parameter objects already made for this prescription: a surface whose spec
    says share_R is given the one rotation-matrix object made for its tilt (the two faces of a tilted element, parallel fold
    mirrors: R = make_rotation_matrix(...) written once), surfaces of equal index the one index callable"""
    from prysm.coordinates import make_rotation_matrix
    ct = spec.get('ctor') or {}
    typ = spec['typ']
    n1 = float(spec['n'])
    # dispersive index: exactly n1 at the wavelength the checked trace uses (0.6328), all indices scaled by the same factor
    # elsewhere (so that no ray is pushed past the critical angle by a warm-up trace at another wavelength)
    nfun = (lambda wvl, _n=n1: _n * (1.0 + 0.02 * (0.6328 - wvl) / 0.6328))
    P = [float(v) for v in spec['P']]
    R = None if spec.get('R') is None else [float(v) for v in spec['R']]
    if away:
        typ = 'refr' if typ == 'refl' else 'refl'
        nfun = (lambda wvl, _n=n1: 1.0 + 0.5 * _n)
        P = [P[0] - 1.5, P[1] + 0.7, P[2] + 3.0]
        R = [12.0, -3.0, 4.0] if R is None else None
    elif shared is not None and shared.get('n') is not None:
        nfun = shared['n'].setdefault(n1, nfun)
    pf = ct.get('P', 'list')
    if pf == 'int' and all(v == round(v) for v in P):
        Parg = [int(v) for v in P]
    elif pf == 'scalar-z' and P[0] == 0 and P[1] == 0:
        Parg = P[2]
    elif pf == 'yz' and P[0] == 0:
        Parg = P[1:]
    elif pf == 'tuple':
        Parg = tuple(P)
    elif pf == 'ndarray':
        Parg = np.array(P)
    else:
        Parg = list(P)
    rf = ct.get('R', 'tuple')
    if R is None:
        Rarg = None
    elif shared is not None and spec.get('share_R') and not away:
        Rarg = shared_matrix(ctx, shared, R)
    elif rf == 'list':
        Rarg = list(R)
    elif rf == 'matrix':
        Rarg = np.asarray(ctx.call(make_rotation_matrix, tuple(R)))
    else:
        Rarg = tuple(R)
    tf = ct.get('typ', 'short')
    targ = _stype(typ) if tf == 'int' else TYP_FORMS[typ][tf]
    nf = ct.get('n', 'none')
    if typ == 'refr':
        narg = nfun
    else:
        narg = nfun if nf == 'callable' else None
    return targ, Parg, narg, Rarg, (nf == 'omit' and typ != 'refr')


def shared_matrix(ctx, shared, R):
    from prysm.coordinates import make_rotation_matrix
    key = tuple(float(v) for v in R)
    if key not in shared['R']:
        shared['R'][key] = np.asarray(ctx.call(make_rotation_matrix, key))
    return shared['R'][key]


def build(ctx, spec, mdl, shared=None, pos=None, edit_after=False):
    """pos: None, or the caller's own float64 position array (shape (3,), holding the position of this surface at the moment of the
    call) that is handed to the constructor as P - the caller goes on using that array object afterwards.
    edit_after: the P (list / array) and R (list of angles) objects handed to the constructor are modified in place once the
    surface exists; the surface is the one specified at construction time"""
    from prysm.x.raytracing.surfaces import Surface
    ct = spec.get('ctor') or {}
    reassign = bool(ct.get('reassign', False))
    typ, P, n, R, omit_n = ctor_args(ctx, spec, away=reassign, shared=shared)
    if pos is not None:
        P = pos
    given = (_copy_arg(P), _copy_arg(R))
    kw = {} if omit_n else {'n': n}
    kind = mdl.kind
    # the prescription the constructor is given.  With ctor['edit_params'] it is another, gentler, conicoid (smaller curvature, smaller
    # conic constant, other off-axis distances) and the prescription of the case is then written into the public params dict the
    # constructor stored on the surface - the way an optimiser or a tolerancing loop perturbs a design without rebuilding it
    c0, k0, sx0, sy0 = mdl.c, mdl.k, mdl.sx, mdl.sy
    edit = ct.get('edit_params') if kind in ('sphere', 'conic', 'offaxis') else None
    edited = {}
    if edit is not None:
        if kind == 'sphere' or 'c' in edit or edit == 'all':
            c0 = 0.5 * mdl.c if mdl.c != 0 else 0.003
            edited['c'] = mdl.c
        if kind != 'sphere' and ('k' in edit or edit == 'all'):
            k0 = mdl.k - 0.5
            edited['k'] = mdl.k
        if kind == 'offaxis' and edit == 'all':
            # (only one of dx / dy may be non-zero: the other one stays zero)
            sx0 = 0.6 * mdl.sx + 0.011 * mdl.lim if mdl.sx != 0 else 0.0
            sy0 = 0.6 * mdl.sy - 0.007 * mdl.lim if mdl.sy != 0 else 0.0
            edited['dx'], edited['dy'] = mdl.sx, mdl.sy
    if kind == 'plane':
        s = ctx.call(Surface.plane, typ, P, R=R, **kw)
    elif kind == 'sphere':
        s = ctx.call(Surface.sphere, c0, typ, P, n, R=R) if not ct.get('kw', False) else ctx.call(Surface.sphere, c=c0, typ=typ, P=P, n=n, R=R)
    elif kind == 'conic':
        s = ctx.call(Surface.conic, c0, k0, typ, P, R=R, **kw) if not ct.get('kw', False) else ctx.call(Surface.conic, c=c0, k=k0, typ=typ, P=P, R=R, **kw)
    elif kind == 'offaxis':
        # dy is the positional argument, dx the optional one; one of them is zero
        if sx0 == 0 and not ct.get('kw', False):
            s = ctx.call(Surface.off_axis_conic, c0, k0, typ, P, sy0, R=R, **kw)
        else:
            s = ctx.call(Surface.off_axis_conic, c0, k0, typ, P, dy=sy0, dx=sx0, R=R, **kw)
    else:
        mdl.ffp = q_ffp(mdl)
        s = ctx.call(Surface, typ, P, n, mdl.ffp, R=R)
    ctx.require(_same_arg(given[0], P) and _same_arg(given[1], R), 'surface:argument-modified', 'Surface constructor changed its P / R argument: %r -> %r' % (given, (P, R)))
    if edited:
        want = {'sphere': {'c': c0, 'k': 0}, 'conic': {'c': c0, 'k': k0}, 'offaxis': {'c': c0, 'k': k0, 'dx': sx0, 'dy': sy0}}[kind]
        ctx.require(isinstance(s.params, dict) and all(key in s.params and s.params[key] == v for key, v in want.items()), 'surface:params',
                    'Surface.%s stored params=%r for the prescription %r' % (kind, s.params, want))
        if ct.get('eval_first', False):
            # the surface is used with the prescription it was built with before that is edited (nothing may be remembered)
            q = 0.05 * mdl.lim * np.array([0.0, 1.0, -0.5, 0.3])
            ctx.call(s.sag_normal, q, q[::-1].copy())
        for name, v in edited.items():
            s.params[name] = v
    if reassign:
        # a Surface is, for raytrace(), the attributes typ / P / R / n it documents: point the object built elsewhere at the
        # position, tilt, type and index of the case through them
        typ2, P2, n2, R2, _ = ctor_args(ctx, dict(spec, ctor={}), shared=shared)
        from prysm.coordinates import make_rotation_matrix
        s.typ = _stype(spec['typ'])
        s.P = np.array(P2, dtype=np.float64)
        s.R = None if R2 is None else R2 if isinstance(R2, np.ndarray) else np.asarray(ctx.call(make_rotation_matrix, R2))
        s.n = n2
    if edit_after:
        # the caller goes on using its own objects: the position array / list is moved on, the list of angles is overwritten
        # (the surface is not looked at before the caller's objects are changed: what it must be is known from the spec)
        from prysm.coordinates import make_rotation_matrix
        P_was = np.asarray(spec['P'], dtype=np.float64)
        R_ref = np.asarray(ctx.call(make_rotation_matrix, tuple(R)), dtype=np.float64) if isinstance(R, list) else None
        if isinstance(P, np.ndarray) and P.dtype.kind == 'f':
            P += np.array([1.5, -0.75, 3.0], dtype=P.dtype)
        elif isinstance(P, np.ndarray):
            P += 2
        elif isinstance(P, list):
            P[-1] = P[-1] + 3.0
            P[0] = P[0] - 1.5
        if isinstance(R, list):
            R[:] = [a + 7.0 for a in R]
        ctx.require(np.array_equal(np.asarray(s.P, dtype=np.float64), P_was), 'surface:P:follows-the-callers-array',
                    'Surface built with P=%s (%s): after the caller changed its own %s in place, surf.P is %s' % (
                        _fmt(P_was), _describe_P(P), type(P).__name__, _fmt(s.P)))
        if R_ref is not None:
            Rs = np.asarray(s.R, dtype=np.float64)
            ctx.require(Rs.shape == (3, 3) and np.array_equal(Rs, R_ref), 'surface:R:follows-the-callers-list',
                        'Surface built with R = the list of angles %r: after the caller overwrote the entries of that list (now %r), surf.R is not make_rotation_matrix of the angles it was given' % (spec.get('R'), R))
    return s


def _describe_P(P):
    return '%s array of shape %r' % (P.dtype, P.shape) if isinstance(P, np.ndarray) else type(P).__name__


POS_MODES = [None, None, None, None, 'edit-after', 'edit-after-array', 'one-array', 'one-array', 'sibling']


def pos_spec(spec, mode):
    """the surface spec for the position modes: the object is placed by its constructor (not re-pointed afterwards); the position is
    handed over as a float64 array of shape (3,) in every mode but 'edit-after' (which keeps the drawn form: list, ints, [y, z], array)"""
    spec = dict(spec)
    ct = dict(spec.get('ctor') or {})
    ct['reassign'] = False
    if mode != 'edit-after':
        ct['P'] = 'ndarray'
    spec['ctor'] = ct
    return spec


def build_all(ctx, specs, mdls, shared, mode):
    """the surfaces of a prescription, built the way a caller who keeps using its own argument objects builds them:
    'edit-after' / 'edit-after-array': every P (and list of angles) is modified in place as soon as its surface exists;
    'one-array': the lens-table loop - one position array object for all surfaces, advanced in place after each constructor call;
    'sibling': a second Surface is built from the same position array object (and equal other arguments) next to every surface
    and is afterwards despaced / re-prescribed in place through its own public P and params."""
    if not mode:
        return [build(ctx, s, m, shared) for s, m in zip(specs, mdls)]
    ctx.label('callers-position-object:' + mode)
    if mode in ('edit-after', 'edit-after-array'):
        surfs = [build(ctx, s, m, shared, edit_after=True) for s, m in zip(specs, mdls)]
    elif mode == 'one-array':
        pos = np.array(specs[0]['P'], dtype=np.float64)
        surfs = []
        for j, (s, m) in enumerate(zip(specs, mdls)):
            surfs.append(build(ctx, s, m, shared, pos=pos))
            if j + 1 < len(specs):
                pos[:] = np.asarray(specs[j + 1]['P'], dtype=np.float64)       # in place: the same array object goes to the next constructor
            else:
                pos += np.array([0.25, -0.5, 10.0])
    else:
        surfs, sibs = [], []
        for j, (s, m) in enumerate(zip(specs, mdls)):
            pos = np.array(s['P'], dtype=np.float64)
            first = j % 2 == 0
            if first:
                sibs.append(build(ctx, s, Model(s), shared, pos=pos))
            surfs.append(build(ctx, s, m, shared, pos=pos))
            if not first:
                sibs.append(build(ctx, s, Model(s), shared, pos=pos))
        for sb in sibs:
            if isinstance(sb.P, np.ndarray):
                sb.P += np.array([2.0, 1.0, -4.0], dtype=sb.P.dtype)
            if isinstance(sb.params, dict):
                for key in list(sb.params):
                    sb.params[key] = sb.params[key] * 2 + 0.001
    for j, (sf, sp) in enumerate(zip(surfs, specs)):
        Pj = np.asarray(sf.P, dtype=np.float64)
        ctx.require(Pj.shape == (3,) and np.array_equal(Pj, np.asarray(sp['P'], dtype=np.float64)), 'surface:P:follows-the-callers-array',
                    'surface %d was built with P=%s handed over as a float64 array of shape (3,) (%s); after %s surf.P is %s' % (
                        j, _fmt(sp['P']), mode, 'the caller moved that array on in place' if mode != 'sibling' else 'another Surface built from the same array was despaced in place through its own P',
                        _fmt(Pj)))
    return surfs


def _copy_arg(a):
    if isinstance(a, np.ndarray):
        return a.copy()
    if isinstance(a, (list, tuple)):
        return type(a)(_copy_arg(v) for v in a)
    return a


def _same_arg(before, after):
    if isinstance(before, np.ndarray):
        return (isinstance(after, np.ndarray) and before.dtype == after.dtype and before.shape == after.shape
                and np.array_equal(before, after, equal_nan=before.dtype.kind == 'f'))
    if isinstance(before, (list, tuple)):
        return type(before) is type(after) and len(before) == len(after) and all(_same_arg(p, q) for p, q in zip(before, after))
    return type(before) is type(after) and (before == after or (isinstance(before, float) and before != before and after != after))


def check_frame(ctx, surf, spec):
    """what Surface stored: P as given, R orthonormal with det +1"""
    P = np.asarray(surf.P, dtype=float)
    ctx.require(P.shape == (3,) and np.array_equal(P, np.asarray(spec['P'], dtype=float)), 'surface:P',
                'Surface stored P=%r for P=%r' % (P.tolist(), spec['P']))
    if spec.get('R') is None:
        ctx.require(surf.R is None, 'surface:R', 'R=None stored as %r' % (surf.R,))
        return P, None
    R = np.asarray(surf.R, dtype=float)
    U.check_shape(R, (3, 3), 'surface:R')
    U.check_close(R @ R.T, np.eye(3), 1e-13, 'rotation:not-orthonormal', 'R R^T for zyx=%r' % (spec['R'],), atol=1e-13)
    d = float(np.linalg.det(R))
    ctx.require(abs(d - 1) <= 1e-12, 'rotation:det', 'det R = %r for zyx=%r' % (d, spec['R']))
    return P, R


# ---- rays --------------------------------------------------------------------------------------------------------
def make_rays(case, mdl0, collimated=None):
    """rays in the local frame of the first surface: aim point (x, y, 0) and direction; origin d behind it."""
    dirz = case['dirz']
    d = float(case['d'])
    rows = []
    classes = []
    for cls, f, az, tilt, taz in case['rays']:
        if cls == 'onaxis':
            f, tilt = 0, 0
        elif cls == 'vertex':
            f = 0
        elif cls == 'meridional':
            taz = az
        if mdl0.kind == 'q2d' or (mdl0.q is not None and mdl0.shifted):
            # the freeform's local origin is not on an axis of symmetry and surface_normal_from_cylindrical_derivatives
            # is documented to be singular at r = 0 (see fix_zero_singularity): never aim at the exact origin
            f = max(f, 1)
        rows.append((f / 100.0, az, tilt / 10.0, taz))
        classes.append(cls)
    n = int(case['nrand'])
    if n:
        r = U.rng_of(case['seed'], 19)
        ff = np.sqrt(r.uniform(0, 1, n))
        for i in range(n):
            rows.append((float(ff[i]), float(r.uniform(0, 360)), float(r.uniform(0, 30)), float(r.uniform(0, 360))))
            classes.append('random')
    a = np.asarray(rows, dtype=float).reshape(-1, 4)
    if d >= 1e50 if collimated is None else collimated:
        a[:, 2] = 0.0     # a bundle 'from infinity' is collimated along the axis, as the raytrace docstring describes it
    rho = a[:, 0] * mdl0.rho_max
    az = np.radians(a[:, 1])
    tilt = np.radians(a[:, 2])
    taz = np.radians(a[:, 3])
    aim = np.stack([rho * np.cos(az), rho * np.sin(az), np.zeros_like(rho)], axis=1)
    # exact zeros for the on-axis classes (cos(90 deg) is not exactly zero)
    aim[a[:, 0] == 0] = 0.0
    S = np.stack([np.sin(tilt) * np.cos(taz), np.sin(tilt) * np.sin(taz), np.cos(tilt)], axis=1)
    S[a[:, 2] == 0] = np.array([0.0, 0.0, 1.0])
    S = S * dirz
    P0 = aim - d * S
    return P0, S, classes


def near_origins(case, mdl0):
    """the same rays as make_rays() with their origins a moderate distance behind the aim points: the harness' closed-form
    reference step (domain decision) uses these, because its own arithmetic would cancel catastrophically for origins 'at
    infinity' (d = 1e7 ... 1e99, which the raytrace docstring documents as valid)."""
    c2 = dict(case)
    c2['d'] = min(float(case['d']), 50.0)
    # the same lines: a bundle from 1e99 is collimated (see make_rays), its nearer stand-in must be too
    return make_rays(c2, mdl0, collimated=float(case['d']) >= 1e50)[0]


# ---- the step-by-step check ----------------------------------------------------------------------------------------
class Tol:
    """tolerances of one trace: float64 inputs, or float32 inputs (the histories are then float32 too)"""

    def __init__(self, f32=False):
        self.f32 = f32
        self.gscale = 0.0       # float32: size of the global coordinates the float32 histories were rounded at
        self.pos = 5e-5 if f32 else POS_TOL
        self.unit = 1e-5 if f32 else UNIT_TOL
        self.law = 2e-5 if f32 else LAW_TOL
        self.lawq = 5e-5 if f32 else LAW_TOL_Q


RAY_FORMS = ['f64', 'f64', 'f64', 'F', 'strided', 'list', 'f32']
INT_RAY_FORMS = ['int-list', 'int-list', 'int64', 'int32', 'P-float-S-int', 'P-int-S-float', 'f64', 'f32', 'list']


def ray_args(Pg, Sg, form, single):
    """(P, S) as handed to raytrace(), and the float64 values they represent.  Forms: float64 arrays (C / Fortran ordered /
    strided views), float32 arrays, nested lists of floats, and - for rays with whole-number origins and an axis-parallel
    direction, written the way the raytrace docstring writes them, P = [Px, Py, -10], S = [0, 0, 1] - lists of Python ints,
    integer arrays, or a mixture of a float P with an integer S and vice versa."""
    def one(A, f):
        if single:
            A = A[0]
        if f == 'f32':
            return A.astype(np.float32)
        if f in ('F', 'strided'):
            return U.relayout(A, f)
        if f == 'list':
            return A.tolist()
        if f == 'int-list':
            return np.rint(A).astype(np.int64).tolist()
        if f in ('int64', 'int32'):
            return np.rint(A).astype(np.int64 if f == 'int64' else np.int32)
        return A.copy()
    fP, fS = {'P-float-S-int': ('list', 'int-list'), 'P-int-S-float': ('int64', 'f64')}.get(form, (form, form))
    P, S = one(Pg, fP), one(Sg, fS)
    return P, S, np.asarray(P, dtype=np.float64).reshape(-1, 3), np.asarray(S, dtype=np.float64).reshape(-1, 3)


def traced(ctx, sm, surfs, P, S, wvl, n_amb, nsurf, single, nrays, what):
    """one raytrace() call: arguments unchanged, histories of the documented shape and of a floating dtype"""
    keepP, keepS = _copy_arg(P), _copy_arg(S)
    ph, sh = ctx.call(sm.raytrace, surfs, P, S, wvl, n_amb)
    ctx.require(_same_arg(keepP, P) and _same_arg(keepS, S), 'raytrace:argument-modified', '%s: raytrace changed the P / S it was given' % what)
    ph, sh = np.asarray(ph), np.asarray(sh)
    shape = (nsurf + 1, 3) if single else (nsurf + 1, nrays, 3)
    U.check_shape(ph, shape, 'raytrace:history')
    U.check_shape(sh, shape, 'raytrace:history')
    for nm, h, src in (('P_hist', ph, P), ('S_hist', sh, S)):
        ctx.require(h.dtype.kind == 'f', 'raytrace:history-dtype:integer-input',
                    '%s: %s has dtype %s for P of %s and S of %s: positions / direction cosines after the first surface are truncated to whole numbers '
                    '(last row %s)' % (what, nm, h.dtype, _describe(P), _describe(S), _fmt(h.reshape(nsurf + 1, -1, 3)[-1][0])))
    if single:
        ph, sh = ph[:, None, :], sh[:, None, :]
    return ph, sh


def _describe(a):
    if isinstance(a, np.ndarray):
        return '%s array' % a.dtype
    flat = a
    while isinstance(flat, list) and flat:
        flat = flat[0]
    return 'list of Python %ss' % type(flat).__name__


def _resolve_near_matched(case):
    """surfaces drawn with 'dn' get the index n_in * (1 + dn), n_in being the index of the medium the ray arrives in"""
    specs = []
    nj = float(case['n_ambient'])
    changed = False
    for sp in case['surfaces']:
        sp = dict(sp)
        if sp['typ'] == 'refr':
            if sp.get('dn') is not None:
                sp['n'] = nj * (1.0 + sp['dn'])
                changed = True
            nj = float(sp['n'])
        specs.append(sp)
    return specs, changed


def check_trace(case, ctx):
    """raytrace() through 1..3 surfaces: every step keeps the ray on its line and on the sag, |S'|=1, law of reflection / vector Snell law."""
    from prysm.x.raytracing import spencer_and_murty as sm
    case, share = apply_share(case)
    specs, near = _resolve_near_matched(case)
    if near:
        ctx.label('nearly-index-matched-interface')
    shared = None
    if share and share.get('same_object'):
        specs[2]['n'] = specs[0]['n']       # one object, one index (whatever 'dn' made of it on the way out)
    if share:
        shared = {'R': {}, 'n': {} if share.get('n') else None}
        ctx.label(*('shared:' + w for w in share['labels']))
        if share.get('rigid'):
            # the whole prescription turned rigidly about the first vertex: P_j = P_0 + R^T (P_j - P_0), R whatever
            # make_rotation_matrix returns (the Surface constructor is checked to store it, check_frame)
            Rm = np.asarray(shared_matrix(ctx, shared, share['tilt']), dtype=np.float64)
            U.check_shape(Rm, (3, 3), 'surface:R')
            P0_ = np.asarray(specs[0]['P'], dtype=np.float64)
            for sp in specs[1:]:
                sp['P'] = (P0_ + Rm.T @ (np.asarray(sp['P'], dtype=np.float64) - P0_)).tolist()
    posmode = case.get('pos')
    if posmode:
        specs = [pos_spec(sp, posmode) for sp in specs]
    mdls = [Model(s) for s in specs]
    surfs = build_all(ctx, specs, mdls, shared, posmode)
    if share and share.get('same_object'):
        # the same Surface object stands twice in the prescription (double pass: out through it, back from a mirror)
        surfs[2] = surfs[0]
    frames = [check_frame(ctx, sf, s) for sf, s in zip(surfs, specs)]
    state = [(np.array(sf.P, copy=True), None if sf.R is None else np.array(sf.R, copy=True), sf.typ) for sf in surfs]
    n_amb = float(case['n_ambient'])
    form = case.get('pform', 'f64')
    whole = case.get('irays') is not None

    if float(case['d']) >= 1e50 and specs[0].get('R') is not None:
        # with a tilted first surface the rotation of a 1e99-long lever arm is meaningless in floating point; the 'from
        # infinity' launch of the docstring is exercised on untilted first surfaces, tilted ones get a merely very distant origin
        case = dict(case)
        case['d'] = 1e10
    far = float(case['d']) > 1e4 and not whole
    if form == 'f32' and (far or any(abs(m.c) > 0.05 for m in mdls)):
        # an origin at 1e7 .. 1e99 has no useful float32 representation; on a strongly curved surface the float32 rounding
        # of the stored hit point turns the normal by |c| x rounding, which would need a curvature-dependent law tolerance
        form = 'f64'
    mdl, spec, (P, R) = mdls[0], specs[0], frames[0]
    if whole:
        # rays given in global coordinates: whole-number origins around the first surface, direction along +-z
        ir = np.asarray(case['irays'], dtype=np.float64).reshape(-1, 2)
        z0 = float(round(spec['P'][2] - case['dirz'] * float(case['d'])))
        Pg = np.column_stack([ir[:, 0] + round(spec['P'][0]), ir[:, 1] + round(spec['P'][1]), np.full(len(ir), z0)])
        Sg = np.tile(np.array([0.0, 0.0, float(case['dirz'])]), (len(ir), 1))
        classes = ['whole-number-origin'] * len(ir)
        Pl, Sl = frame_to_local(Pg, Sg, P, R)
    else:
        P0l, S0l, classes = make_rays(case, mdls[0])
        # to global coordinates (harness arithmetic)
        Pg, Sg = frame_to_global(P0l, S0l, *frames[0])
        if form == 'f32':
            Pg, Sg = Pg.astype(np.float32).astype(np.float64), Sg.astype(np.float32).astype(np.float64)
        # reference step at the first surface: drop rays outside the quantifier before prysm sees them
        Pl, Sl = frame_to_local(Pg, Sg, P, R)
        if far:
            ctx.label('origin-far:%g' % float(case['d']))
            Pl = near_origins(case, mdls[0])        # same lines, nearer origins, in the local frame of the first surface
            Sl = S0l
    n_out0 = float(spec['n']) if spec['typ'] == 'refr' else n_amb
    _, _, keep = ref_step(mdl, spec['typ'], n_amb, n_out0, Pl, Sl)
    ctx.tally('rays_generated', len(keep))
    ctx.tally('rays_dropped_by_construction', int((~keep).sum()))
    if not keep.any():
        ctx.exclude('no ray of the bundle hits the first surface inside the stated domain')
    Pg, Sg = Pg[keep], Sg[keep]
    classes = [c for c, kp in zip(classes, keep) if kp]
    single = case['form'] == 'single1d'
    if single:
        Pg, Sg, classes = Pg[:1], Sg[:1], classes[:1]
    ctx.tally('rays_traced', len(Pg))
    ctx.label('nsurf:%d' % len(specs), 'form:' + case['form'], 'dirz:%+d' % case['dirz'], 'rays-as:' + form,
              *('kind:' + m.kind + (':shifted-base' if m.q is not None and m.shifted else '') for m in mdls), *('typ:' + s['typ'] for s in specs),
              *('R:' + ('none' if s.get('R') is None else 'z-only' if s['R'][1] == 0 and s['R'][2] == 0 else 'general') for s in specs),
              *set('ray:' + c for c in classes),
              *set('ctor:%s=%s' % (k, v) for s in specs for k, v in (s.get('ctor') or {}).items()),
              *set('c:' + ('0' if m.c == 0 else '<1e-3' if abs(m.c) < 1e-3 else '<=0.05' if abs(m.c) <= 0.05 else '>0.05') for m in mdls if m.kind != 'plane'),
              *set('k:' + ('-1' if m.k == -1 else '0' if m.k == 0 else '<-1' if m.k < -1 else 'other') for m in mdls if m.kind not in ('plane', 'sphere')))
    tol = Tol(form == 'f32')
    Parg, Sarg, Pv, Sv = ray_args(Pg, Sg, form, single)
    nsurf = len(specs)

    warm = None
    if case.get('warmup', False):
        # the same Surface objects traced first at another wavelength: the indices are dispersive (see build), and the
        # trace that is checked below must use n(0.6328), not anything remembered from the earlier wavelength
        ctx.label('retrace-after-other-wavelength')
        warm = ctx.call(sm.raytrace, surfs, Pg.copy(), Sg.copy(), 0.5, n_amb)
        warm = [np.asarray(w) for w in warm]
        warm_kept = [w.copy() for w in warm]
    ph, sh = traced(ctx, sm, surfs, Parg, Sarg, 0.6328, n_amb, nsurf, single, len(Pg), 'trace')
    U.check_equal(ph[0].astype(np.float64), Pv, 'raytrace:history0', 'P_hist[0] is not the input position')
    U.check_equal(sh[0].astype(np.float64), Sv, 'raytrace:history0', 'S_hist[0] is not the input direction')
    if warm is not None:
        ctx.require(all(np.array_equal(w, k, equal_nan=True) for w, k in zip(warm, warm_kept)), 'raytrace:result-overwritten',
                    'the histories returned by an earlier raytrace() of the same surfaces changed during this one')
    kept = (ph.copy(), sh.copy())
    nontrivial = verify_history(ctx, ph.astype(np.float64), sh.astype(np.float64), mdls, specs, frames, n_amb, tol, 'first-trace')
    if share:
        # the same prescription built from equal but separate parameter objects (one rotation matrix, one index callable, one
        # Surface per entry): which objects are shared is no part of the prescription, the two traces are the same computation
        sep = [build(ctx, s_, Model(s_), None) for s_ in specs]
        Parg_, Sarg_, _, _ = ray_args(Pg, Sg, form, single)
        ph_, sh_ = traced(ctx, sm, sep, Parg_, Sarg_, 0.6328, n_amb, nsurf, single, len(Pg), 'trace of the prescription built from separate objects')
        for nm, a_, b_ in (('P_hist', ph, ph_), ('S_hist', sh, sh_)):
            if not np.array_equal(a_, b_, equal_nan=True):
                df = np.abs(a_.astype(np.float64) - b_.astype(np.float64))
                df = np.where(np.isfinite(df), df, np.inf)
                jj = int(np.argmax(df.reshape(df.shape[0], -1).max(axis=1)))
                ctx.fail('raytrace:shared-parameter-object', '%s differs between the prescription whose surfaces share %s and the same prescription built from equal, separate '
                         'objects: first at history row %d (surface %d), max |difference| %.3g; tilt %r, vertices %r' % (
                             nm, ' + '.join(share['labels']), int(np.argmax(df.reshape(df.shape[0], -1).max(axis=1) > 0)), jj - 1, float(df.max()), share['tilt'], [sp['P'] for sp in specs]))

    if case.get('retrace', False):
        # the same Surface objects used again with other arguments: the bundle in reverse order (single ray: the same ray
        # again); what the first call returned must stay what it was, and the second history must obey the laws as well
        ctx.label('same-surfaces-traced-twice')
        P2, S2 = Pg[::-1], Sg[::-1]
        Parg2, Sarg2, Pv2, Sv2 = ray_args(P2, S2, form, single)
        ph2, sh2 = traced(ctx, sm, surfs, Parg2, Sarg2, 0.6328, n_amb, nsurf, single, len(P2), 'second trace')
        ctx.require(np.array_equal(ph, kept[0], equal_nan=True) and np.array_equal(sh, kept[1], equal_nan=True), 'raytrace:result-overwritten',
                    'the histories returned by the first raytrace() changed when the same surfaces were traced again')
        U.check_equal(ph2[0].astype(np.float64), Pv2, 'raytrace:history0', 'second trace: P_hist[0] is not the input position')
        verify_history(ctx, ph2.astype(np.float64), sh2.astype(np.float64), mdls, specs, frames, n_amb, tol, 'second-trace')
    for j, (sf, (P_, R_, t_)) in enumerate(zip(surfs, state)):
        same = np.array_equal(np.asarray(sf.P), P_) and ((sf.R is None) == (R_ is None)) and (R_ is None or np.array_equal(np.asarray(sf.R), R_)) and sf.typ == t_
        ctx.require(same, 'surface:modified-by-trace', 'surface %d: P / R / typ changed while tracing (P %r -> %r)' % (j, P_.tolist(), np.asarray(sf.P).tolist()))
    for j, (sf, m, sp) in enumerate(zip(surfs, mdls, specs)):
        if (sp.get('ctor') or {}).get('edit_params') is not None and m.kind in ('sphere', 'conic', 'offaxis'):
            want = {'c': m.c, 'k': m.k}
            if m.kind == 'offaxis':
                want.update(dx=m.sx, dy=m.sy)
            ctx.require(all(sf.params.get(key) == v for key, v in want.items()), 'surface:modified-by-trace', 'surface %d: params %r changed to %r while tracing' % (j, want, sf.params))
    ctx.nt(nontrivial)


def apply_share(case):
    """case['share'] (None for the replays written before it existed) -> (case with the sharing written into its surface
    specs, the share dict with 'labels' / resolved indices, or None).
    share = {'R': 'all' | 'first' | 'last' | None   which consecutive surfaces get the common tilt `tilt` and one matrix object for it,
             'rigid': bool   every surface gets the tilt and the vertices are turned with it about the first vertex (any angle),
             'tilt': [z, y, x] degrees, 'n': bool   the last surface gets the index of the first and they share the callable,
             'same_object': bool   three surfaces, the middle one a mirror: the third entry is the first Surface object again}"""
    share = case.get('share')
    if not share:
        return case, None
    share = dict(share)
    case = dict(case)
    surfs = [dict(sp) for sp in case['surfaces']]
    nsurf = len(surfs)
    labels = []
    if share.get('same_object') and nsurf == 3 and surfs[1]['typ'] == 'refl' and surfs[0]['typ'] != 'refl':
        surfs[2] = dict(surfs[0])
        labels.append('surface-object-twice')
    else:
        share['same_object'] = False
    which = 'all' if share.get('rigid') else share.get('R')
    idx = {'all': list(range(nsurf)), 'first': [0, 1], 'last': [nsurf - 2, nsurf - 1]}.get(which, []) if nsurf >= 2 else []
    if share.get('same_object') and idx:
        idx = list(range(nsurf))        # entries 0 and 2 are one object: one tilt for all
    if idx and any(float(a) != 0 for a in share['tilt']):
        for j in idx:
            surfs[j]['R'] = [float(a) for a in share['tilt']]
            surfs[j]['share_R'] = True
        labels.append('R-matrix:%s%s' % ('rigidly-turned-system' if share.get('rigid') else 'consecutive-surfaces', ''))
    else:
        share['rigid'] = False
    if share.get('n') and nsurf >= 2 and not share.get('same_object'):
        surfs[-1]['n'] = surfs[0]['n']
        surfs[-1]['dn'] = None
        labels.append('index-callable')
    elif share.get('same_object'):
        share['n'] = False
    else:
        share['n'] = False
    if not labels:
        return case, None
    share['labels'] = labels
    case['surfaces'] = surfs
    return case, share


def share_s(maxtilt, rigid=True, same_object=True):
    """which parameter objects the surfaces of a prescription share (see apply_share)"""
    def body(rg):
        a = 80 if rg else maxtilt
        ang = st.tuples(_i(-1800, 1800, 10), _i(-a * 10, a * 10, 10), _i(-a * 10, a * 10, 10)).map(list)
        tilt = st.one_of(ang, ang, st.tuples(_i(-1800, 1800, 10), st.just(0.0), st.just(0.0)).map(list),
                         st.sampled_from([[0.0, 0.0, -45.0], [90.0, 0.0, 0.0], [0.0, 30.0, 0.0], [4.0, 7.0, -11.0]] if rg else [[0.0, 0.0, float(maxtilt)], [90.0, 0.0, 0.0], [4.0, 3.0, -5.0]]))
        return st.fixed_dictionaries({'R': st.sampled_from(['all', 'all', 'first', 'last', None]), 'rigid': st.just(rg), 'tilt': tilt,
                                      'n': st.sampled_from([False, False, True]), 'same_object': st.sampled_from([False, False, True] if same_object else [False])})
    return st.sampled_from([False, True] if rigid else [False]).flatmap(body)


def verify_history(ctx, ph, sh, mdls, specs, frames, n_amb, tol, which):
    """step through a (verified so far) history; returns the non-triviality flag"""
    nj = n_amb
    nontrivial = False
    active = np.ones(ph.shape[1], dtype=bool)
    if tol.f32:
        fin = np.isfinite(ph)
        tol.gscale = float(np.abs(np.where(fin, ph, 0.0)).max())
    for j, (mdl, spec, (P, R)) in enumerate(zip(mdls, specs, frames)):
        typ = spec['typ']
        n_out = float(spec['n']) if typ == 'refr' else nj
        # incoming ray = prysm's previous history entry (for j=0 the input); it was verified at the previous step
        Pin, Sin = frame_to_local(ph[j], sh[j], P, R)
        Pout, Sout = frame_to_local(ph[j + 1], sh[j + 1], P, R)
        if j > 0:
            # is this (verified) incoming ray inside the quantifier at this surface?  rays that are not are followed no further
            ok_in = np.isfinite(Pin).all(axis=1) & np.isfinite(Sin).all(axis=1)
            _, _, valid = ref_step(mdl, typ, nj, n_out, np.where(ok_in[:, None], Pin, 0.0), np.where(ok_in[:, None], Sin, np.array([0, 0, 1.0])))
            active &= ok_in & valid
            ctx.tally('rays_leaving_domain_at_later_surface', int((~active).sum()))
            if not active.any():
                ctx.label('bundle-ends-at-surface:%d' % j)
                break
        ctx.tally('ray_surface_steps_checked', int(active.sum()))
        Pin, Sin, Pout, Sout = Pin[active], Sin[active], Pout[active], Sout[active]
        onaxis = (Pin[:, 0] == 0) & (Pin[:, 1] == 0) & (Sin[:, 0] == 0) & (Sin[:, 1] == 0)
        if onaxis.any() and mdl.symmetric_about_origin:
            ctx.label('exact-on-axis:' + mdl.kind)
            nontrivial = True
        elif onaxis.any():
            ctx.label('exact-through-local-origin:' + mdl.kind)
        check_step(ctx, mdl, typ, nj, n_out, Pin, Sin, Pout, Sout, j, spec, onaxis, tol)
        offv = np.hypot(Pout[:, 0], Pout[:, 1]) > 1e-3
        if (mdl.curved and offv.any()) or R is not None:
            nontrivial = True
        nj = n_out
    return nontrivial


def _fmt(v):
    return '[' + ', '.join('%.12g' % x for x in np.asarray(v).ravel()) + ']'


def check_step(ctx, mdl, typ, n_in, n_out, P0, S0, P1, S1, j, spec, onaxis, tol=None):
    tol = tol or Tol()
    where = 'surface %d (%s %s c=%g k=%g off=(%g,%g) n=%g->%g)' % (j, mdl.kind, typ, mdl.c, mdl.k, mdl.sx, mdl.sy, n_in, n_out)
    esuf = ''
    if (spec.get('ctor') or {}).get('edit_params') is not None and mdl.kind in ('sphere', 'conic', 'offaxis'):
        esuf = ':params-edited'
        where += ' [prescription set through surf.params (%s) after construction with another one%s]' % (
            spec['ctor']['edit_params'], ', evaluated once before' if spec['ctor'].get('eval_first') else '')
    L = max(1.0, float(np.max(np.abs(P0))), tol.gscale)
    fin = np.isfinite(P1).all(axis=1) & np.isfinite(S1).all(axis=1)
    if not fin.all():
        i = int(np.argmin(fin))
        pole = bool(onaxis[i]) or (P0[i, 0] == 0 and P0[i, 1] == 0 and S0[i, 0] == 0 and S0[i, 1] == 0)
        # a ray whose every Newton iterate sits at local r == 0 exactly
        b = 'nan:ray-through-local-origin:' + ('symmetric' if mdl.symmetric_about_origin else mdl.kind) if pole else 'nan:ray'
        ctx.fail(b, '%s: ray P=%s S=%s (local) gives P\'=%s S\'=%s' % (where, _fmt(P0[i]), _fmt(S0[i]), _fmt(P1[i]), _fmt(S1[i])))
    # on the incoming ray
    dvec = P1 - P0
    off = np.linalg.norm(np.cross(dvec, S0), axis=1)
    i = int(np.argmax(off))
    ctx.require(off[i] <= tol.pos * L * 10, 'intersect:off-ray',
                '%s: intersection %s is %.3g away from the ray P=%s S=%s' % (where, _fmt(P1[i]), off[i], _fmt(P0[i]), _fmt(S0[i])))
    # on the surface
    with np.errstate(all='ignore'):
        z = mdl.sag(P1[:, 0], P1[:, 1])
    e = np.abs(P1[:, 2] - z)
    e = np.where(np.isfinite(e), e, np.inf)
    i = int(np.argmax(e))
    Ls = max(1.0, float(np.max(np.abs(P1))), tol.gscale)      # scale of the surface, whatever the distance of the ray origin
    ctx.require(e[i] <= tol.pos * Ls, 'intersect:off-surface' + esuf,
                '%s: intersection %s has z - sag = %.3g (tol %.3g) for ray P=%s S=%s' % (where, _fmt(P1[i]), e[i], tol.pos * Ls, _fmt(P0[i]), _fmt(S0[i])))
    if typ == 'eval':
        # a surface that does not bend rays: the direction is the incident one
        err = np.abs(S1 - S0).max(axis=1)
        i = int(np.argmax(err))
        ctx.require(err[i] <= tol.unit * 10, 'eval:direction-changed', '%s: S=%s leaves as S\'=%s' % (where, _fmt(S0[i]), _fmt(S1[i])))
        return
    nrm = mdl.normal(P1[:, 0], P1[:, 1])
    ci = dot(S0, nrm)
    lawtol = tol.lawq if mdl.q is not None else tol.law
    qsuf = ':qtype-normal' if mdl.q is not None else ''
    norm = np.linalg.norm(S1, axis=1)
    if typ == 'refl':
        i = int(np.argmax(np.abs(norm - 1)))
        ctx.require(abs(norm[i] - 1) <= tol.unit, 'reflect:not-unit', '%s: |S\'| = %.15g for ray P=%s S=%s' % (where, norm[i], _fmt(P0[i]), _fmt(S0[i])))
        want = S0 - 2 * ci[:, None] * nrm
        err = np.abs(S1 - want).max(axis=1)
        i = int(np.argmax(err))
        ctx.require(err[i] <= lawtol, 'reflect:law' + qsuf + esuf,
                    '%s: S\'=%s, mirror image of S=%s about n=%s is %s (err %.3g)' % (where, _fmt(S1[i]), _fmt(S0[i]), _fmt(nrm[i]), _fmt(want[i]), err[i]))
        return
    # refraction: far side first (orientation of the normal), then unit length, then vector Snell law
    co = dot(S1, nrm)
    bad = (np.sign(co) != np.sign(ci))
    if bad.any():
        i = int(np.argmax(bad))
        ctx.fail('refract:reversed:ray-against-normal' if ci[i] < 0 else 'refract:reversed',
                 '%s: incident S=%s (S.n=%.6g) leaves as S\'=%s (S\'.n=%.6g): not transmitted to the far side' % (
                     where, _fmt(S0[i]), ci[i], _fmt(S1[i]), co[i]))
    i = int(np.argmax(np.abs(norm - 1)))
    ctx.require(abs(norm[i] - 1) <= tol.unit, 'refract:not-unit',
                '%s: |S\'| = %.15g for ray P=%s S=%s hitting at %s, |gradient normal| = %.6g' % (
                    where, norm[i], _fmt(P0[i]), _fmt(S0[i]), _fmt(P1[i]),
                    float(np.sqrt(1 + sum(g[i] ** 2 for g in mdl.grad(P1[:, 0], P1[:, 1]))))))
    S1u = S1 / norm[:, None]
    tin = S0 - ci[:, None] * nrm
    tout = S1u - dot(S1u, nrm)[:, None] * nrm
    err = np.abs(n_in * tin - n_out * tout).max(axis=1)
    i = int(np.argmax(err))
    ctx.require(err[i] <= lawtol * max(n_in, n_out), 'refract:snell' + qsuf + esuf,
                '%s: n sin i = %.12g, n\' sin i\' = %.12g (tangential mismatch %.3g) for S=%s S\'=%s n=%s' % (
                    where, n_in * np.linalg.norm(tin[i]), n_out * np.linalg.norm(tout[i]), err[i], _fmt(S0[i]), _fmt(S1[i]), _fmt(nrm[i])))


# ---- strategies ----------------------------------------------------------------------------------------------------
def _i(lo, hi, scale):
    return st.integers(lo, hi).map(lambda v: v / scale)


RAY_CLASSES = ['onaxis', 'vertex', 'meridional', 'skew', 'steep']


def ray_s():
    def mk(cls):
        tilt = st.integers(250, 300) if cls == 'steep' else st.integers(0, 300)
        return st.tuples(st.just(cls), st.integers(0, 100), st.integers(0, 359), tilt, st.integers(0, 359)).map(list)
    return st.sampled_from(RAY_CLASSES).flatmap(mk)


def tilt_s(maxdeg):
    a = _i(-maxdeg * 10, maxdeg * 10, 10)
    return st.one_of(st.none(), st.none(), st.tuples(_i(-1800, 1800, 10), st.just(0.0), st.just(0.0)).map(list),
                     st.tuples(_i(-1800, 1800, 10), a, a).map(list))


def q_s(sym):
    co = _i(-20, 20, 1000)      # <= 0.02 departure per term
    vec = st.lists(co, min_size=2, max_size=4)
    if sym:
        return st.fixed_dictionaries({'nr': _i(240, 400, 10), 'cm0': vec, 'ams': st.just([]), 'bms': st.just([])})
    return st.integers(1, 3).flatmap(lambda m: st.fixed_dictionaries({
        'nr': _i(240, 400, 10), 'cm0': vec,
        'ams': st.lists(vec, min_size=m, max_size=m), 'bms': st.lists(vec, min_size=m, max_size=m)}))


def ctor_s():
    """how the Surface is built: the form of P / R / typ / n, keyword instead of positional arguments, and the object
    built elsewhere then re-pointed through its public attributes"""
    return st.fixed_dictionaries({
        'P': st.sampled_from(['list', 'list', 'tuple', 'ndarray', 'int', 'scalar-z', 'yz']),
        'R': st.sampled_from(['tuple', 'tuple', 'list', 'matrix']),
        'typ': st.sampled_from(['short', 'short', 'long', 'upper', 'int']),
        'n': st.sampled_from(['none', 'none', 'omit', 'callable']),
        'kw': st.booleans(), 'reassign': st.sampled_from([False, False, False, True]),
        # sphere / conic / off-axis conic: built with another prescription, then set to the one of the case through surf.params
        'edit_params': st.sampled_from([None, None, None, None, 'c', 'k', 'ck', 'all']), 'eval_first': st.booleans()})


def _fit_P(s):
    """make the position agree with the form it is to be given in (bare z: on the axis; [y, z]: x = 0; ints: whole numbers)"""
    f = (s.get('ctor') or {}).get('P')
    if f in ('scalar-z', 'yz', 'int'):
        s = dict(s)
        P = list(s['P'])
        if f == 'scalar-z':
            P[0] = P[1] = 0.0
        elif f == 'yz':
            P[0] = 0.0
        else:
            P = [float(round(v)) for v in P]
        s['P'] = P
    return s


def surface_s(kinds, maxtilt, zpos, types=('refl', 'refr')):
    def mk(kind):
        d = {'kind': st.just(kind), 'typ': st.sampled_from(list(types)), 'n': _i(1000, 1900, 1000),
             # nearly index-matched interface: the index after the surface is (1 + dn) times the index before it (two melts of one
             # glass, layers of a stratified medium); the law of refraction applies all the same
             'dn': st.one_of(st.none(), st.none(), st.none(), st.sampled_from([3e-6, -5e-6, 1e-7, -2e-8])),
             'P': st.tuples(_i(-50, 50, 10), _i(-50, 50, 10), zpos).map(list), 'R': tilt_s(maxtilt), 'ctor': ctor_s()}
        if kind != 'plane':
            # gentle curvatures, and the far ends: nearly flat, and radii of curvature of 2, 0.5, 0.1 (the ray bundle scales with it)
            d['c'] = st.one_of(_i(-50, 50, 1000), _i(-50, 50, 1000), st.sampled_from([0.05, -0.05, 0.02, -0.0125]),
                               st.sampled_from([1e-6, -1e-4, 0.5, -2.0, 10.0, 0.0]))
        if kind in ('conic', 'offaxis', 'qsym', 'q2d'):
            d['k'] = st.one_of(_i(-300, 100, 100), st.sampled_from([-1.0, 0.0, 1.0, -0.5, -1.0, 0.0]))
        off_s = st.tuples(st.sampled_from(['x', 'y']), st.integers(-100, 100).filter(lambda v: v != 0).map(lambda v: v / 100)).map(list)
        if kind == 'offaxis':
            d['off'] = off_s
        if kind in ('qsym', 'q2d'):
            d['q'] = q_s(kind == 'qsym')
            # the base conic on its axis, or shifted through the dx / dy arguments of Q2d_and_der
            d['qoff'] = st.one_of(st.none(), off_s, off_s)
        return st.fixed_dictionaries(d).map(_fit_P)
    return st.sampled_from(kinds).flatmap(mk)


def strat_single(tier):
    kinds = ['plane', 'sphere', 'conic', 'conic', 'offaxis', 'offaxis', 'qsym', 'q2d']
    nmax = 59 if tier == 'quick' else 63
    return st.fixed_dictionaries({
        'surfaces': st.lists(surface_s(kinds, 20, _i(-500, 500, 10)), min_size=1, max_size=1),
        'n_ambient': st.one_of(st.just(1.0), _i(1000, 1900, 1000)),
        'rays': st.lists(ray_s(), min_size=0, max_size=5),
        'nrand': st.one_of(st.just(0), st.integers(0, nmax)), 'seed': U.seeds,
        'dirz': st.sampled_from([1, 1, -1]), 'd': st.one_of(_i(10, 500, 10), _i(10, 500, 10), _i(10, 500, 10), st.sampled_from([1e7, 1e10, 1e99])),
        'warmup': st.booleans(), 'retrace': st.sampled_from([False, False, True]), 'pform': st.sampled_from(RAY_FORMS),
        'form': st.sampled_from(['batch', 'batch', 'batch', 'single1d']), 'pos': st.sampled_from(POS_MODES),
    }).filter(lambda c: len(c['rays']) + c['nrand'] >= 1)


def strat_argtypes(tier):
    """rays written the way the raytrace docstring writes them - P = [Px, Py, -10], S = [0, 0, 1]: whole-number origins around
    the first surface, direction along the z axis - handed over as lists of Python ints, integer arrays, float lists, float32
    arrays and mixtures; one or two surfaces, decentred and tilted so that the hit points and directions are not whole numbers"""
    kinds = ['plane', 'sphere', 'conic', 'conic', 'offaxis']

    def assemble(t):
        surfs, gap, case = t
        case = dict(case)
        if len(surfs) < 2:
            case['share'] = None
        if len(surfs) == 2:
            s0, s1 = dict(surfs[0]), dict(surfs[1])
            direction = case['dirz']
            s1['P'] = [s1['P'][0] / 10.0, s1['P'][1] / 10.0, s0['P'][2] + (direction if s0['typ'] != 'refl' else -direction) * gap]
            s1 = _fit_P(s1)
            for s_ in (s0, s1):
                if 'c' in s_ and abs(s_['c']) <= 0.05:
                    s_['c'] = s_['c'] / 2.0
            surfs = [s0, s1]
        case['surfaces'] = list(surfs)
        return case
    xy = st.integers(-8, 8)
    base = st.fixed_dictionaries({
        'n_ambient': st.one_of(st.just(1.0), _i(1000, 1900, 1000)),
        'irays': st.lists(st.tuples(xy, xy).map(list), min_size=1, max_size=12),
        'rays': st.just([]), 'nrand': st.just(0), 'seed': st.just(0),
        'dirz': st.sampled_from([1, 1, -1]), 'd': st.integers(1, 40),
        'warmup': st.booleans(), 'retrace': st.sampled_from([False, False, True]), 'pform': st.sampled_from(INT_RAY_FORMS),
        'form': st.sampled_from(['batch', 'batch', 'single1d']), 'pos': st.sampled_from(POS_MODES),
        'share': st.one_of(st.none(), st.none(), share_s(12, rigid=False, same_object=False))})
    return st.integers(1, 2).flatmap(lambda n: st.tuples(
        st.lists(surface_s(kinds, 12, _i(-200, 200, 10), types=('refl', 'refr', 'refr')), min_size=n, max_size=n), _i(50, 300, 10), base)).map(assemble)


def strat_prescription(tier):
    """2..3 surfaces spaced along the direction of travel (a mirror reverses it)."""
    kinds = ['plane', 'sphere', 'conic', 'conic', 'offaxis']

    def assemble(t):
        surfs, gaps, case = t
        share = case.get('share')
        if share and share.get('same_object') and len(surfs) == 3:
            # out through the first surface, back from a mirror, through the first surface again
            surfs = [dict(sp) for sp in surfs]
            surfs[1]['typ'] = 'refl'
            if surfs[0]['typ'] == 'refl':
                surfs[0]['typ'] = 'refr'
        z = surfs[0]['P'][2]
        direction = case['dirz']
        out = []
        for s, g in zip(surfs, [0.0] + gaps):
            s = dict(s)
            z = z + direction * g
            s['P'] = [s['P'][0] / 10.0, s['P'][1] / 10.0, z]     # decentres <= 0.5
            # gentle powers so that the bundle stays inside the later apertures
            if 'c' in s:
                s['c'] = s['c'] / 2.0 if abs(s['c']) <= 0.05 else 0.01 * (1 if s['c'] > 0 else -1)
            out.append(_fit_P(s))
            if s['typ'] == 'refl':
                direction = -direction
        case = dict(case)
        case['surfaces'] = out
        return case
    base = st.fixed_dictionaries({
        'n_ambient': st.one_of(st.just(1.0), _i(1000, 1900, 1000)),
        'rays': st.lists(ray_s().map(lambda r: [r[0], r[1] // 2, r[2], r[3] // 3, r[4]]), min_size=0, max_size=4),
        'nrand': st.integers(0, 24), 'seed': U.seeds, 'dirz': st.sampled_from([1, 1, -1]),
        'd': st.one_of(_i(10, 300, 10), _i(10, 300, 10), _i(10, 300, 10), st.sampled_from([1e7, 1e10])), 'warmup': st.booleans(),
        'retrace': st.sampled_from([False, False, False, True]), 'pform': st.sampled_from(RAY_FORMS),
        'form': st.sampled_from(['batch', 'batch', 'batch', 'single1d']), 'pos': st.sampled_from(POS_MODES),
        'share': st.one_of(st.none(), share_s(5), share_s(5))})
    return st.integers(2, 3).flatmap(lambda n: st.tuples(
        st.lists(surface_s(kinds, 5, _i(-200, 200, 10), types=('refl', 'refr', 'refl', 'refr', 'eval')), min_size=n, max_size=n),
        st.lists(_i(50, 300, 10), min_size=n - 1, max_size=n - 1), base)).map(assemble).filter(
            lambda c: len(c['rays']) + c['nrand'] >= 1)


# ---- batch independence: a few slowly converging rays among many easy ones -------------------------------------------------------
BATCH_SIM_MAXIT = 40        # the documented iteration limit is 100
BATCH_POOL = 2000


def newton_model(mdl, P0, S, maxit=BATCH_SIM_MAXIT, eps=1e-14):
    """harness model of step II of the Spencer & Murty procedure, used to decide the domain only: start where the ray crosses the
    local z = 0 plane, Newton's iteration on F(s) = z(s) - sag(x(s), y(s)) along the ray, closed-form sag and gradient.
    Returns (s measured from P0, number of iterations, ok, smallest |F'| met): ok = converged (step below eps, half of what prysm
    asks for) within maxit iterations (40 of the 100 prysm allows) with every iterate inside 0.95 of the real-sag radius."""
    n = len(P0)
    s0 = -P0[:, 2] / S[:, 2]
    P1 = P0 + s0[:, None] * S
    s = np.zeros(n)
    it = np.full(n, maxit + 1)
    done = np.zeros(n, dtype=bool)
    ok = np.ones(n, dtype=bool)
    minfp = np.full(n, np.inf)
    for j in range(maxit):
        p = P1 + s[:, None] * S
        with np.errstate(all='ignore'):
            inside = mdl.inside(p[:, 0], p[:, 1], 0.95)
            z = mdl.sag(p[:, 0], p[:, 1])
            zx, zy = mdl.grad(p[:, 0], p[:, 1])
            F = p[:, 2] - z
            Fp = S[:, 2] - zx * S[:, 0] - zy * S[:, 1]
            sn = s - F / Fp
        act = ~done
        ok &= ~act | (inside & np.isfinite(sn))
        minfp = np.where(act & ok, np.minimum(minfp, np.abs(Fp)), minfp)
        conv = act & ok & (np.abs(sn - s) < eps * np.maximum(1.0, np.abs(sn)))
        it[conv] = j + 1
        done |= conv
        s = np.where(act & ok, sn, s)
        if (done | ~ok).all():
            break
    return s0 + s, it, done & ok, minfp


def batch_domain(mdl, typ, n_in, n_out, P0, S):
    """which rays of (P0, S) (local frame) are inside the quantifier for the batch clause, by harness arithmetic only: the modelled
    iteration converges tamely (|F'| >= 0.05 at every iterate) to a point ahead of the ray origin, on the sag, inside 0.9 of the
    real-sag radius, not grazing, and (refraction) below 0.98 of the critical angle.  Returns (valid, iterations)."""
    with np.errstate(all='ignore'):
        s, it, ok, minfp = newton_model(mdl, P0, S)
        s_ = np.where(ok, s, 0.0)
        P1 = P0 + s_[:, None] * S
        valid = ok & (minfp >= 0.05) & (s > 1e-9) & mdl.inside(P1[:, 0], P1[:, 1], 0.9)
        e = np.abs(P1[:, 2] - mdl.sag(P1[:, 0], P1[:, 1]))
        valid &= np.where(np.isfinite(e), e, np.inf) <= 1e-10 * (1 + np.abs(P1).max(axis=1))
        nrm = mdl.normal(P1[:, 0], P1[:, 1])
    valid &= np.isfinite(nrm).all(axis=1)
    nrm = np.where(valid[:, None], nrm, np.array([0, 0, 1.0]))
    ci = dot(S, nrm)
    valid &= np.abs(ci / nrm[:, 2]) >= MIN_FPRIME
    if typ == 'refr':
        valid &= (n_in / n_out) * np.sqrt(np.clip(1 - ci * ci, 0, None)) <= 0.98
    return valid, it


def steep_pool(case, mdl):
    """seed-expanded pool of steep / skew rays in the local frame: hit points out to 6 / |c| from the conicoid's axis (0.85 of the
    real-sag radius), directions 40 .. 80 degrees off the axis travelling either way, origins 0.2 / |c| .. 3 / |c| before the hit"""
    r = U.rng_of(case['seed'], 23)
    n = BATCH_POOL
    c = abs(mdl.c)
    rmax = min(0.85 * mdl.rho_real, 6.0 / c, 2.5 * RHO_CAP)
    rho = np.sqrt(r.uniform(0, 1, n)) * rmax
    az = r.uniform(0, 2 * math.pi, n)
    hx, hy = rho * np.cos(az) - mdl.sx, rho * np.sin(az) - mdl.sy
    with np.errstate(all='ignore'):
        hz = mdl.sag(hx, hy)
    th = np.radians(r.uniform(40, 80, n))
    ph = r.uniform(0, 2 * math.pi, n)
    S = np.stack([np.sin(th) * np.cos(ph), np.sin(th) * np.sin(ph), np.cos(th)], axis=1) * np.where(r.uniform(size=n) < 0.5, 1.0, -1.0)[:, None]
    d = r.uniform(0.2, 3.0, n) / c
    P0 = np.stack([hx, hy, hz], axis=1) - d[:, None] * S
    fin = np.isfinite(P0).all(axis=1)
    return P0[fin], S[fin]


def easy_bundle(case, mdl):
    """the many ordinary rays of the batch, local frame: a collimated square grid, gently tilted random rays, or one ray repeated"""
    kind, n = case['easy']['kind'], int(case['easy']['n'])
    dirz = float(case['dirz'])
    r = U.rng_of(case['seed'], 29)
    R = mdl.rho_max
    if kind == 'grid':
        m = int(math.ceil(math.sqrt(n)))
        g = np.linspace(-R / math.sqrt(2), R / math.sqrt(2), m)
        gx, gy = np.meshgrid(g, g)
        aim = np.stack([gx.ravel()[:n], gy.ravel()[:n], np.zeros(n)], axis=1)
        S = np.tile(np.array([0.0, 0.0, dirz]), (n, 1))
    else:
        m = 1 if kind == 'same-ray' else n
        rho = np.sqrt(r.uniform(0, 1, m)) * R
        az = r.uniform(0, 2 * math.pi, m)
        aim = np.stack([rho * np.cos(az), rho * np.sin(az), np.zeros(m)], axis=1)
        tilt = np.radians(r.uniform(0, 8, m))
        taz = r.uniform(0, 2 * math.pi, m)
        S = np.stack([np.sin(tilt) * np.cos(taz), np.sin(tilt) * np.sin(taz), np.cos(tilt)], axis=1) * dirz
        if kind == 'same-ray':
            aim, S = np.tile(aim, (n, 1)), np.tile(S, (n, 1))
    return aim - float(case['d']) * S, S


def check_batch(case, ctx):
    """rays of one batch are independent of each other: a few steep, slowly converging rays traced among hundreds to thousands of easy ones,
    at any position of the batch, land on the surface and obey the laws like every other ray, and come out as when traced alone."""
    from prysm.x.raytracing import spencer_and_murty as sm
    spec = dict(case['surfaces'][0])
    mdl = Model(spec)
    surf = build(ctx, spec, mdl, None)
    P, R = check_frame(ctx, surf, spec)
    n_amb = float(case['n_ambient'])
    typ = spec['typ']
    n_out = float(spec['n']) if typ == 'refr' else n_amb
    # the easy majority
    Pe, Se = easy_bundle(case, mdl)
    _, _, ve = ref_step(mdl, typ, n_amb, n_out, Pe, Se)
    # the steep minority: the slowest-converging rays of the pool that are inside the quantifier
    Pp, Sp = steep_pool(case, mdl)
    vp, itp = batch_domain(mdl, typ, n_amb, n_out, Pp, Sp)
    ctx.tally('steep_rays_in_pool', len(Pp))
    ctx.tally('steep_rays_inside_domain', int(vp.sum()))
    idx = np.nonzero(vp)[0]
    if idx.size == 0:
        ctx.exclude('no steep ray of the pool is inside the stated domain')
    idx = idx[np.argsort(-itp[idx], kind='stable')][:int(case['nhard'])]
    Ph, Sh, ith = Pp[idx], Sp[idx], itp[idx]
    # rays that do not meet the surface at all share the batch as well; nothing is asserted about them
    miss = np.zeros(len(Pp), dtype=bool)
    if case.get('misses', 0):
        with np.errstate(all='ignore'):
            nohit = ~np.isfinite(mdl.hit(Pp, Sp)) & ~vp & ~newton_model(mdl, Pp, Sp, maxit=25)[2]
        miss[np.nonzero(nohit)[0][:int(case['misses'])]] = True
    Pm, Sm = Pp[miss], Sp[miss]
    if case.get('nan_rows', 0):
        # rays that were vignetted upstream arrive as NaN (that is how raytrace itself marks them); the other rays must not notice
        q = int(case['nan_rows'])
        Pm = np.concatenate([Pm, np.full((q, 3), np.nan)])
        Sm = np.concatenate([Sm, np.tile(np.array([0.0, 0.0, float(case['dirz'])]), (q, 1))])
    # assemble: every special ray at its drawn position (in thousandths of the batch length)
    nspecial = len(Ph) + len(Pm)
    ntot = len(Pe) + nspecial
    slots = list(dict.fromkeys(min(ntot - 1, int(w) * ntot // 1000) for w in case['where']))[:nspecial]
    k = ntot // 3
    while len(slots) < nspecial:          # collisions: next free slots
        if k not in slots:
            slots.append(k)
        k += 1
    slots = np.array(sorted(slots))
    order = U.rng_of(case['seed'], 31).permutation(nspecial)
    Pl = np.empty((ntot, 3))
    Sl = np.empty((ntot, 3))
    examined = np.zeros(ntot, dtype=bool)
    is_hard = np.zeros(ntot, dtype=bool)
    rest = np.ones(ntot, dtype=bool)
    rest[slots] = False
    Pl[rest], Sl[rest], examined[rest] = Pe, Se, ve
    Psp, Ssp = np.concatenate([Ph, Pm]), np.concatenate([Sh, Sm])
    Pl[slots], Sl[slots] = Psp[order], Ssp[order]
    examined[slots] = (order < len(Ph))
    is_hard[slots] = (order < len(Ph))
    Pg, Sg = frame_to_global(Pl, Sl, P, R)
    slow = int((ith >= 12).sum())
    ctx.label('kind:' + mdl.kind, 'typ:' + typ, 'easy:' + case['easy']['kind'], 'R:' + ('none' if R is None else 'tilted'),
              'batch-size:%s' % ('<100' if ntot < 100 else '100-999' if ntot < 1000 else '1000-9999' if ntot < 10000 else '>2**15' if ntot < 65536 else '>2**16'),
              'slowest-ray-iterations:%s' % ('<8' if ith.max() < 8 else '8-11' if ith.max() < 12 else '12-15' if ith.max() < 16 else '>=16'),
              'slow-rays(>=12 iterations):%s' % ('none' if slow == 0 else '<=1%-of-batch' if slow * 100 <= ntot else '>1%-of-batch'),
              'k:' + ('-1' if mdl.k == -1 else '0' if mdl.k == 0 else '<-1' if mdl.k < -1 else 'other'),
              'hard-ray-at:' + ('first' if is_hard[0] else 'last' if is_hard[-1] else 'inside'),
              'rays-not-examined-in-batch:%s' % ('none' if len(Pm) == 0 else 'misses' if not case.get('nan_rows', 0) else 'nan-input' if len(Pm) == int(case['nan_rows']) else 'misses+nan-input'),
              'rays-as:' + case.get('pform', 'f64'))
    ctx.tally('rays_traced', ntot)
    ctx.tally('rays_examined', int(examined.sum()))
    ctx.nt(bool(is_hard.any()) and ntot >= 100)
    if case.get('after_error', False):
        # a request that fails (positions of the wrong dimensionality) and is caught by the caller comes first
        ctx.label('after-a-failed-request')
        try:
            sm.raytrace([surf], Pg[:, :2].copy(), Sg.copy(), 0.6328, n_amb)
        except Exception:      # noqa - the failing request itself is not examined
            pass
    form = case.get('pform', 'f64')
    tol = Tol(False)
    warm = case.get('warm')
    if warm:
        # the same Surface object used before the checked trace: with the easy rays only at float32, or with a small batch
        ctx.label('warm-up:' + warm)
        w = np.nonzero(examined & ~is_hard)[0][:64 if warm == 'small-batch' else None]
        if w.size:
            dt = np.float32 if warm == 'f32' else np.float64
            ctx.call(sm.raytrace, [surf], Pg[w].astype(dt), Sg[w].astype(dt), 0.6328, n_amb)
    Parg, Sarg, Pv, Sv = ray_args(Pg, Sg, form, False)
    ph, sh = traced(ctx, sm, [surf], Parg, Sarg, 0.6328, n_amb, 1, False, ntot, 'batch of %d rays' % ntot)
    ph, sh = ph.astype(np.float64), sh.astype(np.float64)
    real_in = np.isfinite(Pv).all(axis=1)
    U.check_equal(ph[0][real_in], Pv[real_in], 'raytrace:history0', 'P_hist[0] is not the input position')
    U.check_equal(sh[0], Sv, 'raytrace:history0', 'S_hist[0] is not the input direction')
    # every examined ray: on its line, on the sag, unit direction, law of reflection / refraction - the slow ones first (precise bucket)
    hard_idx = np.nonzero(is_hard)[0]
    fin = np.isfinite(ph[1][hard_idx]).all(axis=1) & np.isfinite(sh[1][hard_idx]).all(axis=1)
    if not fin.all():
        i = int(hard_idx[int(np.argmin(fin))])
        ctx.fail('nan:ray:steep-ray-in-a-large-batch', 'surface (%s %s c=%g k=%g off=(%g,%g)): the ray P=%s S=%s (global), which meets the surface after %d iterations of the modelled '
                 'Newton search, comes back as P\'=%s S\'=%s when traced at position %d of a batch of %d rays (%d of them need 12 iterations or more)' % (
                     mdl.kind, typ, mdl.c, mdl.k, mdl.sx, mdl.sy, _fmt(Pg[i]), _fmt(Sg[i]), int(ith.max()), _fmt(ph[1][i]), _fmt(sh[1][i]), i, ntot, slow))
    verify_history(ctx, ph[:, examined], sh[:, examined], [mdl], [spec], [(P, R)], n_amb, tol, 'batch')
    L = max(1.0, float(np.abs(Pg[examined]).max()))
    # the same rays traced alone - as a batch of one and as the documented single 1-D ray
    for i in hard_idx:
        for single in (False, True):
            Pa, Sa, _, _ = ray_args(Pg[i:i + 1], Sg[i:i + 1], 'f64', single)
            p1, s1 = traced(ctx, sm, [surf], Pa, Sa, 0.6328, n_amb, 1, single, 1, 'ray traced alone')
            dp = float(np.abs(p1[1][0] - ph[1][i]).max()) if np.isfinite(p1[1][0]).all() else math.inf
            ds = float(np.abs(s1[1][0] - sh[1][i]).max()) if np.isfinite(s1[1][0]).all() else math.inf
            ctx.require(dp <= POS_TOL * L and ds <= LAW_TOL, 'raytrace:batch-dependence',
                        'the ray P=%s S=%s traced alone (%s) gives P\'=%s S\'=%s, at position %d of a batch of %d rays P\'=%s S\'=%s' % (
                            _fmt(Pg[i]), _fmt(Sg[i]), '1-D' if single else 'shape (1, 3)', _fmt(p1[1][0]), _fmt(s1[1][0]), i, ntot, _fmt(ph[1][i]), _fmt(sh[1][i])))
    # the other public entry point to step II: intersect(P0, S, FFp) in the local frame of the surface returns the same intersections
    # and a vector along the surface normal there
    Pj, rj = ctx.call(sm.intersect, Pl.copy(), Sl.copy(), surf.sag_normal)
    Pj, rj = np.asarray(Pj, dtype=np.float64), np.asarray(rj, dtype=np.float64)
    U.check_shape(Pj, (ntot, 3), 'intersect')
    U.check_shape(rj, (ntot, 3), 'intersect')
    Pj_l = frame_to_local(ph[1], sh[0], P, R)[0]
    with np.errstate(all='ignore'):
        dj = np.abs(Pj - Pj_l).max(axis=1)[examined]
        nrm = mdl.normal(Pj[:, 0], Pj[:, 1])
        rn = rj / np.linalg.norm(rj, axis=1, keepdims=True)
        dn = np.minimum(np.abs(rn - nrm).max(axis=1), np.abs(rn + nrm).max(axis=1))[examined]
    dj, dn = np.where(np.isfinite(dj), dj, np.inf), np.where(np.isfinite(dn), dn, np.inf)
    i = int(np.argmax(dj))
    ctx.require(float(dj.max()) <= POS_TOL * L * 10, 'intersect:differs-from-raytrace', 'intersect() called directly on the batch of %d rays in the local frame: examined ray %d meets the surface at %s, '
                'raytrace() put it at %s (local)' % (ntot, i, _fmt(Pj[examined][i]), _fmt(Pj_l[examined][i])))
    i = int(np.argmax(dn))
    ctx.require(float(dn.max()) <= LAW_TOL, 'intersect:normal', 'intersect() called directly: the vector returned as surface normal at %s is %s, the analytic normal is +-%s' % (
        _fmt(Pj[examined][i]), _fmt(rj[examined][i]), _fmt(nrm[examined][i])))
    kept = (ph.copy(), sh.copy())
    # the batch in reverse order: the same rays, the same answers
    Parg2, Sarg2, _, _ = ray_args(Pg[::-1], Sg[::-1], form, False)
    ph2, sh2 = traced(ctx, sm, [surf], Parg2, Sarg2, 0.6328, n_amb, 1, False, ntot, 'batch in reverse order')
    ctx.require(np.array_equal(ph, kept[0], equal_nan=True) and np.array_equal(sh, kept[1], equal_nan=True), 'raytrace:result-overwritten',
                'the histories returned by the first raytrace() changed when the same surface was traced again')
    ph2, sh2 = ph2.astype(np.float64)[:, ::-1], sh2.astype(np.float64)[:, ::-1]
    with np.errstate(all='ignore'):
        dp = np.abs(ph2[1] - ph[1]).max(axis=1)[examined]
        ds = np.abs(sh2[1] - sh[1]).max(axis=1)[examined]
    dp, ds = np.where(np.isfinite(dp), dp, np.inf), np.where(np.isfinite(ds), ds, np.inf)
    i = int(np.argmax(dp))
    ctx.require(float(dp.max()) <= POS_TOL * L and float(ds.max()) <= LAW_TOL, 'raytrace:batch-dependence',
                'the batch of %d rays traced in reverse order: examined ray %d lands at %s instead of %s (largest differences %.3g in position, %.3g in direction)' % (
                    ntot, i, _fmt(ph2[1][examined][i]), _fmt(ph[1][examined][i]), float(dp.max()), float(ds.max())))


def strat_batch(tier):
    off_s = st.tuples(st.sampled_from(['x', 'y']), st.integers(-100, 100).filter(lambda v: v != 0).map(lambda v: v / 100)).map(list)
    surf = st.fixed_dictionaries({
        'kind': st.sampled_from(['conic', 'conic', 'conic', 'conic', 'offaxis', 'offaxis', 'sphere']),
        # strongly curved surfaces: radii of curvature 10 .. 0.1
        'c': st.sampled_from([0.25, -0.25, 1.0, 0.1, 2.0, -0.5, 10.0, 0.15, -4.0]),
        # paraboloids (and their neighbours) are where Newton's iteration from the z = 0 plane is slowest for well-conditioned rays
        'k': st.sampled_from([-1.0, -1.0, -1.0, -1.0, -1.0, -1.0, -0.99, -1.01, -3.0, 0.0, -0.5, -1.5, 1.0, -0.9]),
        'off': off_s, 'typ': st.sampled_from(['refl', 'refl', 'refr', 'refr', 'eval']), 'n': _i(1000, 1900, 1000), 'dn': st.none(),
        'P': st.tuples(_i(-50, 50, 10), _i(-50, 50, 10), _i(-500, 500, 10)).map(list), 'R': tilt_s(20), 'ctor': ctor_s()}).map(_fit_P)
    sizes = [99, 100, 128, 300, 400, 1000, 1000, 2500] + ([32771] if tier == 'quick' else [32771, 65539, 65539])
    return st.fixed_dictionaries({
        'surfaces': st.lists(surf, min_size=1, max_size=1), 'n_ambient': st.one_of(st.just(1.0), _i(1000, 1900, 1000)),
        'easy': st.fixed_dictionaries({'kind': st.sampled_from(['grid', 'random', 'same-ray', 'grid', 'random']), 'n': st.sampled_from(sizes)}),
        'nhard': st.integers(1, 5), 'where': st.lists(st.one_of(st.sampled_from([1000, 0, 500]), st.integers(0, 1000).map(lambda v: (v * 7919) % 1001)), min_size=8, max_size=8),
        'misses': st.sampled_from([0, 0, 0, 1, 3]), 'nan_rows': st.sampled_from([0, 0, 0, 0, 2]), 'warm': st.sampled_from([None, None, None, 'f32', 'small-batch']), 'seed': U.seeds, 'dirz': st.sampled_from([1, 1, -1]), 'd': _i(10, 300, 10),
        'pform': st.sampled_from(['f64', 'f64', 'f64', 'F', 'strided', 'list']), 'after_error': st.sampled_from([False, False, False, True])})


# ---- the entry points called directly: results belong to the caller --------------------------------------------------------------
def strat_direct(tier):
    kinds = ['plane', 'sphere', 'conic', 'conic', 'offaxis']
    surf = surface_s(kinds, 20, _i(-500, 500, 10))
    ang = _i(-1800, 1800, 10)
    return st.fixed_dictionaries({
        'A': surf, 'B': surf, 'n': st.one_of(st.integers(1, 40), st.sampled_from([1, 1, 2, 7, 64])), 'seed': U.seeds,
        'dirz': st.sampled_from([1, 1, -1]), 'd': _i(10, 300, 10), 'n_ambient': st.one_of(st.just(1.0), _i(1000, 1900, 1000)),
        # what the second call is given: another surface and other rays, the same surface with other rays, the same surface and the same rays
        'second': st.sampled_from(['other-surface', 'other-surface', 'other-rays', 'same-arguments']),
        # which of the two public functions of step II makes the first / the second call
        'entry': st.tuples(st.sampled_from(['intersect', 'intersect', 'newton']), st.sampled_from(['intersect', 'intersect', 'newton'])).map(list),
        'dtype': st.sampled_from(['f64', 'f64', 'f64', 'f32']), 'layout': st.sampled_from(['C', 'C', 'F', 'strided']),
        'between': st.sampled_from([None, None, 'raytrace', 'other-size']),
        'P2': st.tuples(_i(-100, 100, 10), _i(-100, 100, 10), _i(-100, 100, 10)).map(list), 'R2': st.one_of(st.none(), st.tuples(ang, ang, ang).map(list)),
    })


def _direct_rays(case, mdl, typ, n_in, n_out, salt, want):
    """up to `want` rays in the local frame of the surface that are inside the quantifier there (harness reference step)"""
    sub = {'dirz': case['dirz'], 'd': case['d'], 'rays': [], 'nrand': 3 * want + 12, 'seed': int(case['seed']) * 4 + salt}
    P0, S, _ = make_rays(sub, mdl)
    _, _, ok = ref_step(mdl, typ, n_in, n_out, P0, S)
    return P0[ok][:want], S[ok][:want]


def _check_hit(ctx, mdl, P0, S, Pj, rj, tol, what):
    """Pj on the ray (P0, S) and on the sag of mdl, rj along the analytic normal there"""
    Pj, rj = np.asarray(Pj, dtype=np.float64), np.asarray(rj, dtype=np.float64)
    n = len(P0)
    U.check_shape(Pj, (n, 3), 'intersect')
    U.check_shape(rj, (n, 3), 'intersect')
    if not (np.isfinite(Pj).all() and np.isfinite(rj).all()):
        i = int(np.argmin(np.isfinite(Pj).all(axis=1) & np.isfinite(rj).all(axis=1)))
        ctx.fail('nan:ray:direct-call', '%s: ray P=%s S=%s (local) gives P\'=%s r=%s' % (what, _fmt(P0[i]), _fmt(S[i]), _fmt(Pj[i]), _fmt(rj[i])))
    L = max(1.0, float(np.abs(P0).max()))
    off = np.linalg.norm(np.cross(Pj - P0, S), axis=1)
    i = int(np.argmax(off))
    ctx.require(off[i] <= tol.pos * L * 10, 'intersect:off-ray:direct-call', '%s: the point %s is %.3g away from the ray P=%s S=%s' % (what, _fmt(Pj[i]), off[i], _fmt(P0[i]), _fmt(S[i])))
    with np.errstate(all='ignore'):
        e = np.abs(Pj[:, 2] - mdl.sag(Pj[:, 0], Pj[:, 1]))
    e = np.where(np.isfinite(e), e, np.inf)
    i = int(np.argmax(e))
    Ls = max(1.0, float(np.abs(Pj).max())) if not tol.f32 else L
    ctx.require(e[i] <= tol.pos * Ls, 'intersect:off-surface:direct-call', '%s: the point %s has z - sag = %.3g (tol %.3g) on the surface %s c=%g k=%g off=(%g,%g)' % (
        what, _fmt(Pj[i]), e[i], tol.pos * Ls, mdl.kind, mdl.c, mdl.k, mdl.sx, mdl.sy))
    with np.errstate(all='ignore'):
        nrm = mdl.normal(Pj[:, 0], Pj[:, 1])
        rn = rj / np.linalg.norm(rj, axis=1, keepdims=True)
        dn = np.minimum(np.abs(rn - nrm).max(axis=1), np.abs(rn + nrm).max(axis=1))
    dn = np.where(np.isfinite(dn), dn, np.inf)
    i = int(np.argmax(dn))
    ctx.require(dn[i] <= tol.law, 'intersect:normal:direct-call', '%s: the vector returned as surface normal at %s is %s, the analytic normal is +-%s' % (what, _fmt(Pj[i]), _fmt(rj[i]), _fmt(nrm[i])))
    return nrm


def _unchanged(ctx, kept, bucket, what):
    """kept: list of (name, array, copy taken when it was returned)"""
    for name, a, c in kept:
        same = a.shape == c.shape and a.dtype == c.dtype and np.array_equal(a, c, equal_nan=True)
        if not same:
            nbad = int(np.sum(~((a == c) | ((a != a) & (c != c))))) if a.shape == c.shape else -1
            ctx.fail(bucket, '%s: %s, still held by the caller, changed in %d of %d elements (first row was %s, is now %s)' % (
                what, name, nbad, a.size, _fmt(np.atleast_2d(c)[0]), _fmt(np.atleast_2d(a)[0])))


def check_direct(case, ctx):
    """intersect / newton_raphson_solve_s / reflect / refract / transform_to_local_coords / transform_to_global_coords / Surface.sag_normal
    called directly, twice, with batches of one size and dtype: what the first call returned is the caller's - it is unchanged after the
    second call (other surface, other rays) and still lies on its own surface; overwriting it does not change what a later call returns."""
    from prysm.x.raytracing import spencer_and_murty as sm
    n_amb = float(case['n_ambient'])
    specA, specB = dict(case['A']), dict(case['B'])
    for sp in (specA, specB):
        sp['ctor'] = dict(sp.get('ctor') or {}, reassign=False, edit_params=None)
    if case['second'] != 'other-surface':
        specB = dict(specA)
    mA, mB = Model(specA), Model(specB)
    f32 = case.get('dtype', 'f64') == 'f32' and max(abs(mA.c), abs(mB.c)) <= 0.05
    sA = build(ctx, specA, mA, None)
    sB = sA if case['second'] != 'other-surface' else build(ctx, specB, mB, None)
    noutA = float(specA['n']) if specA['typ'] == 'refr' else n_amb
    noutB = float(specB['n']) if specB['typ'] == 'refr' else n_amb
    want = int(case['n'])
    P0A, SA = _direct_rays(case, mA, specA['typ'], n_amb, noutA, 1, want)
    P0B, SB = (P0A.copy(), SA.copy()) if case['second'] == 'same-arguments' else _direct_rays(case, mB, specB['typ'], n_amb, noutB, 2, want)
    n = min(len(P0A), len(P0B))
    if n == 0:
        ctx.exclude('no ray of the bundle hits both surfaces inside the stated domain')
    P0A, SA, P0B, SB = P0A[:n], SA[:n], P0B[:n], SB[:n]
    dt = np.float32 if f32 else np.float64
    lay = case.get('layout', 'C')

    def arr(A):
        return U.relayout(A.astype(dt), lay)
    if f32:
        P0A, SA, P0B, SB = (A.astype(np.float32).astype(np.float64) for A in (P0A, SA, P0B, SB))
    tol = Tol(f32)
    e1, e2 = case['entry']
    ctx.label('second-call:' + case['second'], 'first-entry:' + e1, 'second-entry:' + e2, 'dtype:' + ('f32' if f32 else 'f64'), 'layout:' + lay,
              'batch:%s' % ('1' if n == 1 else '2-9' if n < 10 else '>=10'), 'kinds:%s/%s' % (mA.kind, mB.kind), 'between:%s' % case.get('between'))
    ctx.nt(mA.curved or mB.curved)

    def solve(entry, surf, P0, S):
        """one direct call of step II; arguments must come back unchanged"""
        if entry == 'newton':
            # the documented input of newton_raphson_solve_s: the point where the ray crosses the local z = 0 plane
            P1 = P0 + (-P0[:, 2] / S[:, 2])[:, None] * S
            a = (arr(P1), arr(S))
            k = _copy_arg(a)
            out = ctx.call(sm.newton_raphson_solve_s, a[0], a[1], surf.sag_normal)
        else:
            a = (arr(P0), arr(S))
            k = _copy_arg(a)
            out = ctx.call(sm.intersect, a[0], a[1], surf.sag_normal)
        ctx.require(_same_arg(k, a), 'intersect:argument-modified', '%s changed the P / S it was given' % entry)
        ctx.require(isinstance(out, tuple) and len(out) == 2 and all(isinstance(o, np.ndarray) for o in out), 'intersect:return', '%s returned %r' % (entry, type(out)))
        return out
    # ---- step II
    PA, rA = solve(e1, sA, P0A, SA)
    kept = [('the intersection points of the first call', PA, PA.copy()), ('the surface normals of the first call', rA, rA.copy())]
    _check_hit(ctx, mA, P0A, SA, PA, rA, tol, 'first call (%s)' % e1)
    btw = case.get('between')
    if btw == 'raytrace':
        # raytrace() of the same number of rays through the other surface in between
        Pg, Sg = frame_to_global(P0B, SB, np.asarray(sB.P, dtype=np.float64), None if sB.R is None else np.asarray(sB.R, dtype=np.float64))
        ctx.call(sm.raytrace, [sB], Pg.astype(dt), Sg.astype(dt), 0.6328, n_amb)
    elif btw == 'other-size' and n > 1:
        solve(e2, sB, P0B[:n - 1], SB[:n - 1])
    PB, rB = solve(e2, sB, P0B, SB)
    what2 = 'a second call (%s, %s, %d rays, %s)' % (e2, case['second'], n, 'float32' if f32 else 'float64')
    _unchanged(ctx, kept, 'intersect:result-overwritten', 'after ' + what2)
    ctx.require(not (np.shares_memory(PA, PB) or np.shares_memory(rA, rB)), 'intersect:result-overwritten',
                'the arrays returned by the first call (%s) and by %s share memory' % (e1, what2))
    _check_hit(ctx, mB, P0B, SB, PB, rB, tol, 'second call (%s)' % e2)
    _check_hit(ctx, mA, P0A, SA, PA, rA, tol, 'first call (%s), looked at after the second' % e1)
    # the caller overwrites what it was given; a later call with the first arguments returns what the first call returned
    first = (PA.copy(), rA.copy())
    PA[...] = 7.0
    rA[...] = -3.0
    PB[...] = np.nan
    P3, r3 = solve(e1, sA, P0A, SA)
    ctx.require(np.array_equal(P3, first[0]) and np.array_equal(r3, first[1]), 'intersect:aliased-state',
                '%s with the arguments of the first call returns other values after the caller overwrote the arrays returned before (max |difference| %.3g)' % (
                    e1, float(np.nanmax(np.abs(P3.astype(np.float64) - first[0].astype(np.float64))))))
    PA, rA, PB, rB = first[0], first[1], None, None
    # ---- step III: reflect / refract on the (verified) normals
    PB2, rB2 = solve(e2, sB, P0B, SB)
    _check_hit(ctx, mB, P0B, SB, PB2, rB2, tol, 'second call (%s) repeated' % e2)
    outs = []
    for name, fn in (('reflect', lambda S_, r_: ctx.call(sm.reflect, S_, r_)), ('refract', lambda S_, r_: ctx.call(sm.refract, n_amb, n_amb * 1.25, S_, r_))):
        o1 = np.asarray(fn(arr(SA), rA))
        k1 = o1.copy()
        o2 = np.asarray(fn(arr(SB), rB2))
        _unchanged(ctx, [('the directions returned by the first call', o1, k1)], name + ':result-overwritten', 'after a second %s of %d rays' % (name, n))
        outs.append((o1, o2))
    for which, (mdl_, S_, Pj_) in enumerate(((mA, SA, first[0]), (mB, SB, PB2))):
        nrm = mdl_.normal(Pj_[:, 0].astype(np.float64), Pj_[:, 1].astype(np.float64))
        ci = dot(S_, nrm)
        refl = np.asarray(outs[0][which], dtype=np.float64)
        U.check_shape(refl, (n, 3), 'reflect')
        err = np.abs(refl - (S_ - 2 * ci[:, None] * nrm)).max(axis=1)
        i = int(np.argmax(np.where(np.isfinite(err), err, np.inf)))
        ctx.require(err[i] <= tol.law, 'reflect:law:direct-call', 'reflect(S, r) with the normal returned by %s: S\'=%s is not the mirror image of S=%s about n=%s (err %.3g)' % (
            e1, _fmt(refl[i]), _fmt(S_[i]), _fmt(nrm[i]), err[i]))
        mu = 1 / 1.25
        refr = np.asarray(outs[1][which], dtype=np.float64)
        U.check_shape(refr, (n, 3), 'refract')
        wantv = mu * S_ + (np.sign(ci) * np.sqrt(1 - mu * mu * (1 - ci * ci)) - mu * ci)[:, None] * nrm
        err = np.abs(refr - wantv).max(axis=1)
        i = int(np.argmax(np.where(np.isfinite(err), err, np.inf)))
        ctx.require(err[i] <= tol.law, 'refract:snell:direct-call', 'refract(n, 1.25 n, S, r) with the normal returned by %s, looked at after a second call: S\'=%s, vector Snell law gives %s (err %.3g)' % (
            e1, _fmt(refr[i]), _fmt(wantv[i]), err[i]))
    # ---- steps I / IV: the frame transforms
    from prysm.coordinates import make_rotation_matrix
    Pa, Ra = np.asarray(sA.P, dtype=np.float64), (None if sA.R is None else np.asarray(sA.R, dtype=np.float64))
    Pb = np.asarray(case['P2'], dtype=np.float64)
    Rb = None if case['R2'] is None else np.asarray(ctx.call(make_rotation_matrix, tuple(case['R2'])), dtype=np.float64)
    Lf = max(1.0, float(np.abs(P0A).max()), float(np.abs(P0B).max()), float(np.abs(Pa).max()), float(np.abs(Pb).max()))
    for name, fn, ref in (('transform_to_local_coords', sm.transform_to_local_coords, frame_to_local),
                          ('transform_to_global_coords', sm.transform_to_global_coords, lambda X_, S_, P_, R_: frame_to_global(X_, S_, P_, None if R_ is None else R_.T))):
        X1, S1 = ctx.call(fn, arr(P0A), Pa.copy(), arr(SA), None if Ra is None else Ra.copy())
        X1, S1 = np.asarray(X1), np.asarray(S1)
        k = [('the coordinates returned by the first call', X1, X1.copy()), ('the directions returned by the first call', S1, S1.copy())]
        X2, S2 = ctx.call(fn, arr(P0B), Pb.copy(), arr(SB), None if Rb is None else Rb.copy())
        _unchanged(ctx, k, name.replace('transform_', '').replace('_coords', '') + ':result-overwritten', 'after a second %s of %d points with another origin / rotation' % (name, n))
        for (Xo, So), (Xi, Si, P_, R_) in (((X1, S1), (P0A, SA, Pa, Ra)), ((np.asarray(X2), np.asarray(S2)), (P0B, SB, Pb, Rb))):
            Xw, Sw = ref(Xi, Si, P_, R_)
            U.check_shape(np.atleast_2d(Xo), (n, 3), name)
            U.check_close(np.atleast_2d(Xo).astype(np.float64), Xw, 0, name.replace('transform_', '').replace('_coords', '') + ':formula', name + ' called directly, positions', atol=(1e-5 if f32 else 1e-12) * Lf)
            U.check_close(np.atleast_2d(So).astype(np.float64), Sw, 0, name.replace('transform_', '').replace('_coords', '') + ':formula', name + ' called directly, directions', atol=1e-5 if f32 else 1e-13)
    # ---- Surface.sag_normal
    xa, ya = arr(first[0][:, 0].astype(np.float64)), arr(first[0][:, 1].astype(np.float64))
    hB = P0B + (-P0B[:, 2] / SB[:, 2])[:, None] * SB
    xb, yb = arr(hB[:, 0]), arr(hB[:, 1])
    kx = (xa.copy(), ya.copy())
    z1, d1 = ctx.call(sA.sag_normal, xa, ya)
    z1, d1 = np.asarray(z1), np.asarray(d1)
    k = [('the sag returned by the first call', z1, z1.copy()), ('the normal vectors returned by the first call', d1, d1.copy())]
    ctx.call(sB.sag_normal, xb, yb)
    ctx.call(sA.sag_normal, xb, yb)
    _unchanged(ctx, k, 'sag_normal:result-overwritten', 'after sag_normal was evaluated at %d other points (the other surface, then this one)' % n)
    ctx.require(np.array_equal(xa, kx[0]) and np.array_equal(ya, kx[1]), 'sag_normal:argument-modified', 'sag_normal changed the x / y it was given')
    U.check_shape(z1, (n,), 'sag_normal')
    U.check_shape(d1, (n, 3), 'sag_normal')
    xe, ye = xa.astype(np.float64), ya.astype(np.float64)
    Ls = max(1.0, float(np.abs(xe).max()), float(np.abs(ye).max()))
    with np.errstate(all='ignore'):
        zw = mA.sag(xe, ye)
        gx, gy = mA.grad(xe, ye)
    U.check_close(z1.astype(np.float64), zw, 0, 'sag_normal:sag', 'Surface.sag_normal: sag of the %s c=%g k=%g off=(%g,%g)' % (mA.kind, mA.c, mA.k, mA.sx, mA.sy), atol=tol.pos * Ls)
    U.check_close(d1.astype(np.float64), np.stack([-gx, -gy, np.ones_like(gx)], axis=1), 0, 'sag_normal:normal', 'Surface.sag_normal: (-Fx, -Fy, 1) of the %s c=%g k=%g off=(%g,%g)' % (
        mA.kind, mA.c, mA.k, mA.sx, mA.sy), atol=tol.law)



# ---- reflect / refract called directly -----------------------------------------------------------------------------
def strat_laws(tier):
    return st.fixed_dictionaries({
        'n': st.integers(1, 40), 'seed': U.seeds, 'mu': st.sampled_from(['n<n\'', 'n>n\'', 'equal']),
        'n0': _i(1000, 2500, 1000), 'ratio': _i(1000, 2000, 1000),
        'scale': st.sampled_from([1.0, 1.0, 0.25, 3.0, 17.5, 1e-3]),        # length of the normal handed in
        'sense': st.sampled_from(['along', 'against', 'mixed']),
        'incidence': st.sampled_from(['normal', 'small', 'any']),
        'form': st.sampled_from(['batch', 'batch', 'single1d']),
        # how S and r are handed over: float64 arrays (C / Fortran / strided), lists, float32 arrays, and a normal along a
        # coordinate axis written with whole numbers ([0, 0, 1], [0, -2, 0] ...) as an integer list / array
        'aform': st.sampled_from(['f64', 'f64', 'F', 'strided', 'list', 'f32', 'int-axis-list', 'int-axis-array'])})


def law_args(S, rin, form, single):
    def one(A, f):
        if single:
            A = A[0]
        if f == 'f32':
            return A.astype(np.float32)
        if f in ('F', 'strided'):
            return U.relayout(A, f)
        if f == 'list':
            return A.tolist()
        if f == 'ilist':
            return np.rint(A).astype(np.int64).tolist()
        if f == 'iarray':
            return np.rint(A).astype(np.int64)
        return A.copy()
    fS, fr = {'int-axis-list': ('f64', 'ilist'), 'int-axis-array': ('list', 'iarray')}.get(form, (form, form))
    return one(S, fS), one(rin, fr)


def check_laws(case, ctx):
    """reflect(S, r) / refract(n, n', S, r) for surface normals r of any length and either sense (the docstring's r is the raw gradient (Fx,Fy,1))."""
    from prysm.x.raytracing import spencer_and_murty as sm
    n = case['n']
    r = U.rng_of(case['seed'], 191)
    nrm = unit(r.normal(size=(n, 3)))
    aform = case.get('aform', 'f64')
    intaxis = aform.startswith('int-axis')
    if intaxis:
        # unit vectors along +-x, +-y, +-z
        ax = r.integers(0, 3, n)
        nrm = np.zeros((n, 3))
        nrm[np.arange(n), ax] = np.where(r.uniform(size=n) < 0.5, -1.0, 1.0)
    n0 = float(case['n0'])
    n1 = {'n<n\'': n0 * case['ratio'], 'n>n\'': n0 / case['ratio'], 'equal': n0}[case['mu']]
    mu = n0 / n1
    # incidence angle below 0.98 of the critical angle, constructed
    imax = math.asin(min(1.0, 0.98 / mu)) if mu > 1 else math.radians(89.0)
    imax = min(imax, math.radians(89.0))
    if case['incidence'] == 'normal':
        inc = np.zeros(n)
    elif case['incidence'] == 'small':
        inc = r.uniform(0, min(imax, 0.05), n)
    else:
        inc = r.uniform(0, imax, n)
    # tangent direction
    t = np.cross(nrm, unit(r.normal(size=(n, 3))))
    t = unit(t)
    S = np.cos(inc)[:, None] * nrm + np.sin(inc)[:, None] * t
    S = unit(S)
    sense = {'along': np.ones(n), 'against': -np.ones(n), 'mixed': np.where(r.uniform(size=n) < 0.5, -1.0, 1.0)}[case['sense']]
    lens = case['scale'] * (1 + r.uniform(0, 1, n) * (case['scale'] != 1.0))
    if intaxis:
        lens = np.maximum(1.0, np.rint(lens))       # whole-number lengths 1, 2, 3 ...
    rin = nrm * (sense * lens)[:, None]
    single = case['form'] == 'single1d'
    if single:
        S, rin, nrm, inc = S[:1], rin[:1], nrm[:1], inc[:1]
    f32 = aform == 'f32'
    if f32:
        S, rin = S.astype(np.float32).astype(np.float64), rin.astype(np.float32).astype(np.float64)
        nrm = unit(rin) * np.sign(dot(rin, nrm))[:, None]
    ltol, utol = (2e-5, 1e-5) if f32 else (LAW_TOL, UNIT_TOL * 10)
    ctx.label('args-as:' + aform)
    ctx.label('mu:' + case['mu'], 'sense:' + case['sense'], 'unit-normal' if case['scale'] == 1.0 else 'scaled-normal',
              'inc:' + case['incidence'], 'form:' + case['form'])
    ctx.nt(case['incidence'] != 'normal')
    ci = dot(S, nrm)
    # reflection
    a = law_args(S, rin, aform, single)
    kept = _copy_arg(a)
    out = np.atleast_2d(np.asarray(ctx.call(sm.reflect, *a))).astype(np.float64)
    ctx.require(_same_arg(kept, a), 'reflect:argument-modified', 'reflect changed the S / r it was given')
    U.check_shape(out, S.shape, 'reflect')
    want = S - 2 * ci[:, None] * nrm
    err = np.abs(out - want).max(axis=1)
    i = int(np.argmax(np.where(np.isfinite(err), err, np.inf)))
    ctx.require(err[i] <= ltol, 'reflect:law', 'reflect(S=%s, r=%s) = %s, expected %s' % (_fmt(S[i]), _fmt(rin[i]), _fmt(out[i]), _fmt(want[i])))
    # refraction
    a = law_args(S, rin, aform, single)
    kept = _copy_arg(a)
    out = np.atleast_2d(np.asarray(ctx.call(sm.refract, n0, n1, *a))).astype(np.float64)
    ctx.require(_same_arg(kept, a), 'refract:argument-modified', 'refract changed the S / r it was given')
    U.check_shape(out, S.shape, 'refract')
    ctx.require(np.isfinite(out).all(), 'refract:nan', 'refract(n=%g, n\'=%g) not finite below the critical angle: S=%s r=%s -> %s' % (
        n0, n1, _fmt(S[0]), _fmt(rin[0]), _fmt(out[0])))
    want = mu * S + (np.sign(ci) * np.sqrt(1 - mu * mu * (1 - ci * ci)) - mu * ci)[:, None] * nrm
    co = dot(out, nrm)
    bad = np.sign(co) != np.sign(ci)
    if bad.any():
        i = int(np.argmax(bad))
        ctx.fail('refract:reversed:ray-against-normal' if dot(S, rin)[i] < 0 else 'refract:reversed',
                 'refract(n=%g, n\'=%g, S=%s, r=%s) = %s does not continue to the far side (expected %s)' % (
                     n0, n1, _fmt(S[i]), _fmt(rin[i]), _fmt(out[i]), _fmt(want[i])))
    norm = np.linalg.norm(out, axis=1)
    i = int(np.argmax(np.abs(norm - 1)))
    ctx.require(abs(norm[i] - 1) <= utol, 'refract:not-unit',
                'refract(n=%g, n\'=%g, S=%s, r=%s) has length %.15g; |r| = %.6g' % (n0, n1, _fmt(S[i]), _fmt(rin[i]), norm[i], np.linalg.norm(rin[i])))
    err = np.abs(out - want).max(axis=1)
    i = int(np.argmax(err))
    ctx.require(err[i] <= ltol, 'refract:snell', 'refract(n=%g, n\'=%g, S=%s, r=%s) = %s, vector Snell law gives %s (err %.3g)' % (
        n0, n1, _fmt(S[i]), _fmt(rin[i]), _fmt(out[i]), _fmt(want[i]), err[i]))
    si, so = np.linalg.norm(np.cross(S, nrm), axis=1), np.linalg.norm(np.cross(out / norm[:, None], nrm), axis=1)
    U.check_close(n1 * so, n0 * si, 0, 'refract:snell', 'n sin i = n\' sin i\'', atol=ltol * max(n0, n1))


# ---- frame transforms ----------------------------------------------------------------------------------------------
def strat_frames(tier):
    ang = _i(-1800, 1800, 10)
    return st.fixed_dictionaries({
        'n': st.integers(1, 32), 'seed': U.seeds,
        'P': st.tuples(_i(-1000, 1000, 10), _i(-1000, 1000, 10), _i(-1000, 1000, 10)).map(list),
        'R': st.one_of(st.none(), st.tuples(ang, ang, ang).map(list), st.tuples(ang).map(list), st.tuples(ang, ang).map(list)),
        'form': st.sampled_from(['batch', 'single1d']), 'scale': st.sampled_from([1.0, 30.0, 1e3]),
        # the frame origin as float array / list / whole numbers written as ints; coordinates C / Fortran ordered / strided
        'pform': st.sampled_from(['array', 'array', 'list', 'int-list', 'int-array']), 'layout': U.layouts})


def check_frames(case, ctx):
    """transform_to_local_coords / transform_to_global_coords: inverse of each other, isometries, proper rotation; make_rotation_matrix is orthonormal with det +1."""
    from prysm.x.raytracing import spencer_and_murty as sm
    from prysm.coordinates import make_rotation_matrix
    n = case['n']
    r = U.rng_of(case['seed'], 192)
    X = r.normal(size=(n, 3)) * case['scale']
    S = unit(r.normal(size=(n, 3)))
    P = np.asarray(case['P'], dtype=float)
    pform = case.get('pform', 'array')
    if pform.startswith('int'):
        P = np.rint(P)

    def Parg():
        return P.copy() if pform == 'array' else P.tolist() if pform == 'list' else [int(v) for v in P] if pform == 'int-list' else P.astype(np.int64)
    lay = case.get('layout', 'C')
    single = case['form'] == 'single1d'
    ctx.label('R:' + ('none' if case['R'] is None else '%d-angle' % len(case['R'])), 'form:' + case['form'], 'P-as:' + pform, 'layout:' + lay)
    ctx.nt(case['R'] is not None)
    R = None
    if case['R'] is not None:
        R = np.asarray(ctx.call(make_rotation_matrix, tuple(case['R'])), dtype=float)
        U.check_shape(R, (3, 3), 'rotation')
        U.check_close(R @ R.T, np.eye(3), 1e-13, 'rotation:not-orthonormal', 'R R^T, zyx=%r' % (case['R'],), atol=1e-13)
        d = float(np.linalg.det(R))
        ctx.require(abs(d - 1) <= 1e-12, 'rotation:det', 'det R = %r for zyx=%r' % (d, case['R']))
        # pure z rotation leaves the z axis alone (exactly: this is what keeps an on-axis ray on axis)
        if len(case['R']) == 1 or all(a == 0 for a in case['R'][1:]):
            U.check_equal(R[2], np.array([0, 0, 1.0]), 'rotation:z-only', 'third row of a z-only rotation')
            U.check_equal(R[:, 2], np.array([0, 0, 1.0]), 'rotation:z-only', 'third column of a z-only rotation')
    L = max(1.0, float(np.abs(X).max()), float(np.abs(P).max()))
    a = (X[0].copy(), Parg(), S[0].copy()) if single else (U.relayout(X, lay), Parg(), U.relayout(S, lay))
    kept = _copy_arg(a)
    Rk = None if R is None else R.copy()
    Xl, Sl = ctx.call(sm.transform_to_local_coords, *a, R)
    ctx.require(_same_arg(kept, a) and (R is None or np.array_equal(R, Rk)), 'to_local:argument-modified', 'transform_to_local_coords changed one of XYZ / P / S / R')
    Xl = np.atleast_2d(np.asarray(Xl))
    Sl = np.atleast_2d(np.asarray(Sl))
    m = 1 if single else n
    U.check_shape(Xl, (m, 3), 'to_local')
    U.check_shape(Sl, (m, 3), 'to_local')
    # isometry: distances from the frame origin, mutual distances, angles between directions and offsets
    Xr, Sr = X[:m], S[:m]
    U.check_close(np.linalg.norm(Xl, axis=1), np.linalg.norm(Xr - P, axis=1), 0, 'to_local:distance', '|X_local| vs |X - P|', atol=1e-12 * L)
    U.check_close(np.linalg.norm(Sl, axis=1), np.ones(m), 0, 'to_local:direction-length', '|S_local|', atol=1e-13)
    U.check_close(dot(Xl, Sl), dot(Xr - P, Sr), 0, 'to_local:angle', '(X-P).S preserved', atol=1e-12 * L)
    if m > 1:
        U.check_close(np.linalg.norm(Xl[1:] - Xl[:-1], axis=1), np.linalg.norm(Xr[1:] - Xr[:-1], axis=1), 0, 'to_local:distance',
                      'mutual distances', atol=1e-12 * L)
        U.check_close(dot(Sl[1:], Sl[:-1]), dot(Sr[1:], Sr[:-1]), 0, 'to_local:angle', 'angles between directions', atol=1e-13)
        if m > 2:
            # handedness: triple products keep their sign and value (proper rotation, no reflection)
            tp = lambda A: np.einsum('ij,ij->i', A[:-2], np.cross(A[1:-1], A[2:]))  # noqa
            U.check_close(tp(Sl), tp(Sr), 0, 'to_local:handedness', 'triple products of directions', atol=1e-12)
    if R is not None:
        U.check_close(Xl, (Xr - P) @ R.T, 0, 'to_local:formula', 'R (X - P)', atol=1e-12 * L)
    else:
        U.check_equal(Xl, Xr - P, 'to_local:formula', 'X - P without rotation')
        U.check_equal(Sl, Sr, 'to_local:formula', 'S unchanged without rotation')
    # and back, the way raytrace() does it (R^T)
    Rt = None if R is None else R.T
    b = (Xl[0].copy(), Parg(), Sl[0].copy()) if single else (U.relayout(Xl, lay), Parg(), U.relayout(Sl, lay))
    kept = _copy_arg(b)
    Xl_kept = Xl.copy()
    Xg, Sg = ctx.call(sm.transform_to_global_coords, *b, Rt)
    ctx.require(_same_arg(kept, b), 'to_global:argument-modified', 'transform_to_global_coords changed one of XYZ / P / S')
    ctx.require(np.array_equal(Xl, Xl_kept), 'to_local:result-overwritten', 'the local coordinates returned before changed during transform_to_global_coords')
    Xg = np.atleast_2d(np.asarray(Xg))
    Sg = np.atleast_2d(np.asarray(Sg))
    U.check_shape(Xg, (m, 3), 'to_global')
    U.check_close(Xg, Xr, 0, 'round-trip:position', 'to_global(to_local(X))', atol=1e-12 * L)
    U.check_close(Sg, Sr, 0, 'round-trip:direction', 'to_global(to_local(S))', atol=1e-13)


CLAUSES = [
    HypClause('trace_single', strat_single, check_trace, examples={'quick': 700, 'thorough': 2800}, shards={'quick': 4, 'thorough': 12}),
    HypClause('trace_prescription', strat_prescription, check_trace, examples={'quick': 400, 'thorough': 1800}, shards={'quick': 3, 'thorough': 10}),
    HypClause('trace_argtypes', strat_argtypes, check_trace, examples={'quick': 350, 'thorough': 1800}, shards={'quick': 2, 'thorough': 8}),
    HypClause('trace_batch', strat_batch, check_batch, examples={'quick': 120, 'thorough': 600}, shards={'quick': 3, 'thorough': 8}),
    HypClause('direct_calls', strat_direct, check_direct, examples={'quick': 300, 'thorough': 1500}, shards={'quick': 2, 'thorough': 6}),
    HypClause('laws_direct', strat_laws, check_laws, examples={'quick': 600, 'thorough': 4000}, shards={'quick': 1, 'thorough': 4}),
    HypClause('frames', strat_frames, check_frames, examples={'quick': 500, 'thorough': 4000}, shards={'quick': 1, 'thorough': 4}),
]
